//! C02: no output line is wider than the requested width.

use super::common::*;
use crate::gen::{self, Knobs};
use crate::obs::{line_text, Obs};
use crate::refimpl::{additive, sw};
use crate::util::R;
use crate::{Case, Prop, Tier, Viol};

pub struct C02;

fn is_footnote_line(t: &str) -> bool {
    // "[k]: target" or a continuation of a hard-wrapped target
    t.starts_with('[') && t.contains("]: ")
}

impl Prop for C02 {
    fn id(&self) -> &'static str {
        "C02"
    }
    fn rule(&self) -> &'static str {
        "G-doc (all knobs) + byte mutation, widths 1..120, + tables (alone, in a list item, in a quote) at their natural width minus 0..7, configs without allow_width_overflow/no_link_wrapping; non-trivial = renders Ok with >= 2 lines; distinct by (bytes, config, width)"
    }
    fn cases(&self, r: &mut R, tier: Tier) -> Vec<Case> {
        let n = scale(tier, 2500, 40000);
        let mut v = Vec::new();
        for i in 0..n {
            let mut k = Knobs::all().no_css();
            k.exotic_hrefs = true;
            let mut html = gen_doc(r, k.clone()).0;
            // a dedicated footnote stream: paragraphs full of links with wide/combining targets, footnotes on below
            let foot = i % 5 == 4;
            if foot {
                let mut g = crate::gen::Gen::new(r, { let mut kk = k.clone(); kk.depth = 1; kk.tables = false; kk });
                let mut s = String::from("<p>");
                for _ in 0..1 + g.r.b(4) {
                    // force the link arm by retrying
                    let mut piece = String::new();
                    while !piece.contains("<a ") {
                        piece.clear();
                        g.inline(1, &mut piece);
                    }
                    s.push_str(&piece);
                    s.push(' ');
                }
                s.push_str("</p>");
                html = s;
            }
            let bytes = if i % 6 == 5 { gen::mutate(r, html.as_bytes()) } else { html.into_bytes() };
            let widths = if tier == Tier::Quick { 3 } else { 8 };
            for _ in 0..widths {
                let mut cfg = mk_cfg(r, false);
                cfg.overflow = false;
                cfg.nolinkwrap = false;
                if foot {
                    cfg.footnotes = true;
                }
                let w = if r.p(60) { 1 + r.u(16) } else { 1 + r.u(120) };
                v.push(case(bytes.clone(), cfg, w, if foot { "footnotes" } else if i % 6 == 5 { "g-mut" } else { "g-doc" }));
            }
        }
        // tables at and just below their natural width: the window in which the columns fit as they are but their
        // separators do not (added after the seeded change C02-shrink-loop-skipped-when-content-fits was missed)
        let nt = scale(tier, 400, 6000);
        for _ in 0..nt {
            let t = super::tables::gen_table(r, 3, 5, 7, true);
            let mut html = t.html();
            match r.b(4) {
                0 => html = format!("<ul><li>{html}</li></ul>"),
                1 => html = format!("<blockquote>{html}</blockquote>"),
                _ => {}
            }
            let mut cfg = mk_cfg(r, false);
            cfg.overflow = false;
            cfg.nolinkwrap = false;
            cfg.pad = false;
            cfg.raw = false;
            let nat = match crate::run(html.as_bytes(), &cfg, 250) {
                Obs::Ok(ls) => ls.iter().map(|l| crate::obs::line_width(l)).max().unwrap_or(0),
                _ => 0,
            };
            if nat == 0 || nat >= 250 {
                continue;
            }
            for j in 0..8usize {
                if nat > j {
                    v.push(case(html.clone().into_bytes(), cfg.clone(), nat - j, "tight-table"));
                }
            }
        }
        v
    }
    fn oracle(&self, c: &Case, o: &Obs) -> Vec<Viol> {
        let mut out = vec![];
        if c.cfg.overflow || c.cfg.nolinkwrap {
            return out;
        }
        if let Obs::Ok(ls) = o {
            for (i, l) in ls.iter().enumerate() {
                let t = line_text(l);
                if !additive(&t) {
                    continue; // outside assumption A-width
                }
                let w = sw(&t);
                if w > c.width {
                    // known finding #7: the footnote list hard-wraps per character and emits a wide character at width 1
                    if c.width == 1 && w == 2 && t.chars().count() == 1 && c.cfg.footnotes {
                        out.push(known(format!("line {i} {:?} has width {w} > {}", t, c.width), "C02-footnote-wide-char"));
                        continue;
                    }
                    out.push(viol(format!("line {i} {:?} has display width {w} > requested {}", t, c.width)));
                    break;
                }
            }
        }
        out
    }
    fn project(&self, _c: &Case, o: &Obs) -> String {
        match o {
            Obs::Ok(ls) => format!("{:?}", ls.iter().map(|l| crate::obs::line_width(l)).collect::<Vec<_>>()),
            o => o.class().into(),
        }
    }
}
