import H2T.Lemmas.Select
import H2T.Lemmas.ChildChain

/-! # C20 — selectors match exactly the elements CSS says they match

`Css.Matches` is the declarative semantics of a (right-to-left) component list on a node given with its
ancestor chain: a compound is the conjunction of its simple selectors on one element, `A > B` looks at the
parent, `A B` at *some* proper ancestor, `:nth-child(an+b)` holds iff the 1-based element index is `a·n + b`
for some `n ≥ 0`, and `*` requires an element.  The theorem says `Selector::do_matches` (as transcribed)
decides exactly this relation and never panics. -/

namespace H2T.C20
open H2T.Css

/-- **C20 (full, model level).**  With enough fuel (the driver supplies `matchFuel`, which is enough — see
    `matchFuel_enough`) the matcher answers `yes` iff the declarative semantics holds, and never panics. -/
theorem doMatches_decides (fuel : Nat) (comps : List SelComp) (chain : List Frame)
    (hf : comps.length + chain.length < fuel) :
    (doMatches comps chain fuel = .yes ↔ Matches comps chain) ∧ doMatches comps chain fuel ≠ .panic :=
  doMatches_iff fuel comps chain hf

/-- the fuel the model uses is always enough -/
theorem matchFuel_enough (comps : List SelComp) (chain : List Frame) :
    comps.length + chain.length < matchFuel comps chain := by
  unfold matchFuel
  have h1 : comps.length + 1 ≤ (comps.length + 1) * (chain.length + 1) := Nat.le_mul_of_pos_right _ (Nat.succ_pos _)
  have h2 : chain.length ≤ (comps.length + 1) * (chain.length + 1) * chain.length :=
    Nat.le_mul_of_pos_left _ (Nat.lt_of_lt_of_le (Nat.succ_pos _) h1)
  have h3 : (comps.length + 1) * (chain.length + 1) * (chain.length + 1)
      = (comps.length + 1) * (chain.length + 1) * chain.length + (comps.length + 1) * (chain.length + 1) := by
    rw [Nat.mul_succ]
  omega

/-- `Selector::matches` as used by `computed_style` -/
theorem selMatches_decides (s : Selector) (chain : List Frame) :
    (selMatches s chain = .yes ↔ Matches s.comps chain) ∧ selMatches s chain ≠ .panic :=
  doMatches_iff _ s.comps chain (matchFuel_enough s.comps chain)

/-- the integer fact behind `:nth-child(an+b)` for Rust's truncating `/` and `%`, all signs of `a ≠ 0` -/
theorem nth_child_arith (a b : Int) (idx : Nat) (ha : a ≠ 0) :
    (Int.tmod ((idx : Int) - b) a = 0 ∧ Int.tdiv ((idx : Int) - b) a ≥ 0) ↔ ∃ n : Nat, (idx : Int) = a * n + b :=
  nth_arith a b idx ha

/-! non-vacuity -/

/-- `div > p.a:nth-child(2n+1)` on `<div><p class=a>` (first element child): matches -/
example :
    let p : Frame := { isElem := true, name := "p", attrs := [("class", strCh "a")], elemIdx := 1 }
    let dv : Frame := { isElem := true, name := "div", elemIdx := 1 }
    let doc : Frame := { isElem := false }
    selMatches { comps := [.nth 2 1, .cls "a", .elem "p", .child, .elem "div"] } [p, dv, doc] = .yes := by decide

/-- `* > html` does not match the root element: the document node is not an element -/
example :
    let html : Frame := { isElem := true, name := "html", elemIdx := 1 }
    let doc : Frame := { isElem := false }
    selMatches { comps := [.elem "html", .child, .star] } [html, doc] = .no := by decide

/-! ## repeated child combinators

The grammar accepts `> > html` and `a > > b`.  `leading_child_chain` says what the first form means (an element named `B`
with at least `k` ancestors, the parentless document node included) — the reference semantics of the harness's
`child-chains` stream, which exists because a mutation of exactly this case was first judged unreachable. -/

theorem leading_child_chain_semantics (b : String) (k : Nat) (node : Frame) (up : List Frame) (fuel : Nat) (hf : k + 2 ≤ fuel) :
    doMatches (.elem b :: List.replicate k .child) (node :: up) fuel =
      (if node.isElem && node.name = b then (if k ≤ up.length then .yes else .no) else .no) :=
  leading_child_chain b k node up fuel hf

/-- `A (>)^k B`, k ≥ 1: the node is an element named `B` whose k-th ancestor is an element named `A` (`a > > b`: `a` is the
    grandparent) -/
theorem child_chain_between_semantics (a b : String) (k : Nat) (node : Frame) (up : List Frame) (fuel : Nat) (hk : 1 ≤ k)
    (hf : k + 3 ≤ fuel) :
    doMatches (.elem b :: (List.replicate k .child ++ [.elem a])) (node :: up) fuel =
      (if node.isElem && node.name = b then
        (match up[k - 1]? with
         | some anc => if anc.isElem && anc.name = a then .yes else .no
         | none => .no)
       else .no) :=
  child_chain_between a b k node up fuel hk hf

/-- `> html` matches the root element, `> > html` does not: below the document node there is nothing to climb to -/
example :
    let html : Frame := { isElem := true, name := "html" }
    let doc : Frame := { isElem := false }
    doMatches [.elem "html", .child] [html, doc] 10 = .yes ∧ doMatches [.elem "html", .child, .child] [html, doc] 10 = .no := by
  decide

end H2T.C20
