import H2T.Api

/-! # C10 — all API routes agree; rendering is deterministic and trees are reusable

**What is proof here and what is not.**  In the model every route is a composition of the single pure function
`renderTree`, and a render tree is an immutable value; the statements below are therefore short.  They are
still the statements the property makes: the theorems say what the *model* claims about the routes, and the
correspondence check of this property runs each real route (`string_from_read`, `lines_from_read`,
`coloured` with an identity map, `parse_html` → `dom_to_render_tree` → `render_to_string`/`render_to_lines`
on clones, over width histories with `TooNarrow` in between) against that model.  What the implementation could
get wrong — state hidden in the tree (the size-estimate caches are `Cell`s), a route that forgets an option —
is exactly what the correspondence exercises; the proof part is deliberately thin (DESIGN §7 C10). -/

namespace H2T.C10

/-- the string route is the lines route with the tags erased and a newline after each line -/
theorem string_is_join_of_lines (cfg : Cfg) (d : Deco) (w : Nat) (tree : RNode) (ls : List RLine)
    (h : routeLines cfg d w tree = .ok ls) :
    routeString cfg d w tree = .ok (ls.flatMap fun l => lineChars l ++ [⟨10, 0, true, true⟩]) := by
  simp only [routeLines] at h
  simp [routeString, h, andThen]

/-- the routes fail together, with the same error -/
theorem routes_fail_together (cfg : Cfg) (d : Deco) (w : Nat) (tree : RNode) (e : Err)
    (h : routeLines cfg d w tree = .error e) :
    routeString cfg d w tree = .error e ∧ ∀ cmap, routeColoured cfg d w tree cmap = .error e := by
  simp only [routeLines] at h
  simp [routeString, routeColoured, h, andThen]

/-- `coloured` with a colour map that returns its text unchanged equals the string route -/
theorem coloured_identity (cfg : Cfg) (d : Deco) (w : Nat) (tree : RNode) :
    routeColoured cfg d w tree (fun _ s => s) = routeString cfg d w tree := by
  unfold routeColoured routeString
  cases renderTree cfg d w tree with
  | error e => rfl
  | ok ls =>
    simp only [andThen]
    congr 1
    induction ls with
    | nil => rfl
    | cons l ls ih =>
      simp only [List.flatMap_cons, ih]
      congr 1
      cases l with
      | rule b t => simp [lineChars, List.flatMap_singleton']
      | text tl =>
        simp only [lineChars]
        congr 1
        induction tl with
        | nil => rfl
        | cons e es ih2 => cases e <;> simp [List.flatMap_cons, List.filterMap_cons, ih2]

/-- a render tree can be rendered any number of times at any widths in any order: the i-th result of a history
    is the one-shot rendering at the i-th width, whatever was rendered before (including failures) -/
theorem staged_eq_oneshot (cfg : Cfg) (d : Deco) (tree : RNode) (ws : List Nat) (i : Nat) (h : i < ws.length) :
    (routeStaged cfg d tree ws)[i]? = some (routeString cfg d ws[i] tree) := by
  simp [routeStaged, h]

/-- the history does not matter: permuting or repeating earlier widths leaves a later result unchanged -/
theorem history_irrelevant (cfg : Cfg) (d : Deco) (tree : RNode) (pre1 pre2 : List Nat) (w : Nat) :
    (routeStaged cfg d tree (pre1 ++ [w])).getLast? = (routeStaged cfg d tree (pre2 ++ [w])).getLast? := by
  simp [routeStaged]

/-! non-vacuity: "ab cd" at widths 2, 0, 5: two lines, TooNarrow, one line -/
example :
    let tree : RNode := .box {} .block [.text {} (strCh "ab cd")]
    (routeStaged {} Deco.plain tree [2, 0, 5]).map (fun r => r.toOption.map fun s => s.map (·.cp))
      = [some [97, 98, 10, 99, 100, 10], none, some [97, 98, 32, 99, 100, 10]] := by decide +kernel

end H2T.C10
