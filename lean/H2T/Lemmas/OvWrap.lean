import H2T.Lemmas.WrapInv

/-! C11, wrap layer: a block that succeeds without `allow_width_overflow` does exactly the same with it.  `ov b` is `b`
    with the flag switched on; every operation that succeeds on `b` succeeds on `ov b` with the corresponding result
    (the flag is only consulted where the run without it fails). -/

namespace H2T

def WB.ov (b : WB) : WB := { b with overflow := true }

theorem ov_pushWs (b : WB) (n : Nat) (t : Tag) : b.ov.pushWs n t = (b.pushWs n t).ov := rfl
theorem ov_forceFlush (b : WB) : b.ov.forceFlush = b.forceFlush.ov := rfl
theorem ov_flushLine (b : WB) : b.ov.flushLine = b.flushLine.ov := by
  unfold WB.flushLine
  show (if b.line.noContent = true then b.ov else b.ov.forceFlush) = _
  split <;> rfl
theorem ov_pushCells (b : WB) (cs : List Cell) : b.ov.pushCells cs = (b.pushCells cs).ov := rfl

theorem pieceLoop_ov (w : Nat) : ∀ (fuel : Nat) (b : WB) (ll wpos : Nat) (rest : List Cell) (moved : Bool)
    (r : WB × Nat × Nat × List Cell × Bool), b.pieceLoop w fuel ll wpos rest moved = .ok r →
    b.ov.pieceLoop w fuel ll wpos rest moved = .ok (r.1.ov, r.2) := by
  intro fuel
  induction fuel with
  | zero => intro b ll wpos rest moved r h; simp [WB.pieceLoop] at h
  | succ fuel ih =>
    intro b ll wpos rest moved r h
    simp only [WB.pieceLoop] at h ⊢
    by_cases hgt : w - wpos > ll
    · rw [if_pos hgt] at h ⊢
      generalize scanFit ll wpos rest = sf at h ⊢
      obtain ⟨taken, rest1, ll1, wpos1⟩ := sf
      simp only at h ⊢
      cases rest1 with
      | nil => exact ih _ _ _ _ _ _ h
      | cons c more =>
        simp only at h ⊢
        by_cases hnp : (taken.isEmpty && lw b.line = 0) = true
        · have hnp' : (taken.isEmpty && lw b.ov.line = 0) = true := hnp
          rw [if_pos hnp] at h
          rw [if_pos hnp']
          by_cases ho : b.overflow = true
          · rw [if_pos ho] at h
            rw [if_pos (show b.ov.overflow = true from rfl)]
            exact ih _ _ _ _ _ _ h
          · rw [if_neg ho] at h; simp at h
        · have hnp' : ¬ (taken.isEmpty && lw b.ov.line = 0) = true := hnp
          rw [if_neg hnp] at h
          rw [if_neg hnp']
          exact ih _ _ _ _ _ _ h
    · rw [if_neg hgt] at h ⊢
      injection h with h; subst h; rfl

theorem hardWrapPiece_ov (b : WB) (ll : Nat) (piece : List Cell) (r : WB × Nat) (h : b.hardWrapPiece ll piece = .ok r) :
    b.ov.hardWrapPiece ll piece = .ok (r.1.ov, r.2) := by
  unfold WB.hardWrapPiece at h ⊢
  simp only at h ⊢
  cases hp : b.pieceLoop (cellsW piece) (piece.length + 2) ll 0 piece false with
  | error e => simp [hp, andThen] at h
  | ok q =>
    rw [pieceLoop_ov _ _ _ _ _ _ _ q hp]
    simp only [hp, andThen] at h ⊢
    obtain ⟨b1, ll1, wpos1, rest1, moved1⟩ := q
    simp only at h ⊢
    split at h
    · rename_i hm; rw [if_pos hm]; injection h with h; subst h; rfl
    · rename_i hm; rw [if_neg hm]
      split at h
      · rename_i hr; rw [if_pos hr]; injection h with h; subst h; rfl
      · rename_i hr; rw [if_neg hr]; injection h with h; subst h; rfl

theorem hardWrapGo_ov (ps : List WItem) : ∀ (b b' : WB) (ll : Nat), b.hardWrapGo ll ps = .ok b' → b.ov.hardWrapGo ll ps = .ok b'.ov := by
  induction ps with
  | nil => intro b b' ll h; simp only [WB.hardWrapGo] at h ⊢; injection h with h; subst h; rfl
  | cons p ps ih =>
    intro b b' ll h
    cases p with
    | frag n => simp only [WB.hardWrapGo] at h ⊢; exact ih _ _ _ h
    | piece p =>
      simp only [WB.hardWrapGo] at h ⊢
      cases hq : b.hardWrapPiece ll p with
      | error e => simp [hq] at h
      | ok r =>
        rw [hardWrapPiece_ov b ll p r hq]
        simp only [hq] at h ⊢
        exact ih _ _ _ h

theorem hardWrap_ov (b b' : WB) (word : TLine) (h : b.hardWrap word = .ok b') : b.ov.hardWrap word = .ok b'.ov := by
  unfold WB.hardWrap at h ⊢
  split at h
  · simp at h
  · rename_i hc
    rw [if_neg (show ¬ b.ov.linelen > b.ov.width from hc)]
    exact hardWrapGo_ov _ _ _ _ h

/-- one round of the whitespace loop -/
def WB.wsStep (b : WB) (t : Tag) : WB :=
  let toCopy := min b.wslen b.width
  let b1 := b.pushWs toCopy t
  let b2 := if toCopy = b.width then b1.flushLine else b1
  { b2 with wslen := b2.wslen - toCopy }

theorem wsLoop_succ (b : WB) (fuel : Nat) : b.wsLoop (fuel + 1) =
    if b.wslen = 0 then .ok b else match b.spacetag with
      | none => .error (.panic "spacetag unwrap 427")
      | some t => (b.wsStep t).wsLoop fuel := rfl

theorem wsStep_ov (b : WB) (t : Tag) : b.ov.wsStep t = (b.wsStep t).ov := by
  unfold WB.wsStep
  show (let b2 := if min b.wslen b.width = b.width then (b.ov.pushWs (min b.wslen b.width) t).flushLine else b.ov.pushWs (min b.wslen b.width) t
    ({ b2 with wslen := b2.wslen - min b.wslen b.width } : WB)) = _
  simp only [ov_pushWs, ov_flushLine]
  split <;> rfl

theorem wsLoop_ov : ∀ (fuel : Nat) (b b' : WB), b.wsLoop fuel = .ok b' → b.ov.wsLoop fuel = .ok b'.ov := by
  intro fuel
  induction fuel with
  | zero => intro b b' h; simp [WB.wsLoop] at h
  | succ fuel ih =>
    intro b b' h
    rw [wsLoop_succ] at h ⊢
    split at h
    · rename_i hz; rw [if_pos (show b.ov.wslen = 0 from hz)]; injection h with h; subst h; rfl
    · rename_i hz
      rw [if_neg (show ¬ b.ov.wslen = 0 from hz)]
      cases hst : b.spacetag with
      | none => simp [hst] at h
      | some t =>
        have hst' : b.ov.spacetag = some t := hst
        simp only [hst] at h
        simp only [hst']
        rw [wsStep_ov]
        exact ih _ b' h

theorem placeFits_ov (b b' : WB) (h : b.placeFits = .ok b') : b.ov.placeFits = .ok b'.ov := by
  unfold WB.placeFits at h ⊢
  split at h
  · rename_i hc
    rw [if_pos (show b.ov.wslen > 0 from hc)]
    cases hs : b.spacetag with
    | none => simp [hs] at h
    | some t =>
      have hs' : b.ov.spacetag = some t := hs
      simp only [hs] at h; simp only [hs']
      injection h with h; subst h; rfl
  · rename_i hc
    rw [if_neg (show ¬ b.ov.wslen > 0 from hc)]
    injection h with h; subst h; rfl

theorem disposeWs_ov (b b' : WB) (m : WS) (h : b.disposeWs m = .ok b') : b.ov.disposeWs m = .ok b'.ov := by
  unfold WB.disposeWs at h ⊢
  split at h
  · rename_i hm; rw [if_pos hm]
    split at h
    · rename_i hc; rw [if_pos (show b.ov.wslen ≥ b.ov.width - b.ov.linelen from hc)]; injection h with h; subst h; rfl
    · rename_i hc; rw [if_neg (show ¬ b.ov.wslen ≥ b.ov.width - b.ov.linelen from hc)]
      split at h
      · rename_i hp; rw [if_pos (show b.ov.wslen > 0 from hp)]
        cases hs : b.spacetag with
        | none => simp [hs] at h
        | some t =>
          have hs' : b.ov.spacetag = some t := hs
          simp only [hs] at h; simp only [hs']
          injection h with h; subst h; rfl
      · rename_i hp; rw [if_neg (show ¬ b.ov.wslen > 0 from hp)]; injection h with h; subst h; rfl
  · rename_i hm; rw [if_neg hm]; injection h with h; subst h; rfl

theorem startWordLine_ov (b b' : WB) (m : WS) (h : b.startWordLine m = .ok b') : b.ov.startWordLine m = .ok b'.ov := by
  unfold WB.startWordLine at h ⊢
  simp only at h ⊢
  rw [ov_flushLine]
  have e : (if m = .pre then ({ b.flushLine.ov with preWrapped := true } : WB) else b.flushLine.ov) =
      (if m = .pre then ({ b.flushLine with preWrapped := true } : WB) else b.flushLine).ov := by split <;> rfl
  rw [e]
  generalize (if m = .pre then ({ b.flushLine with preWrapped := true } : WB) else b.flushLine) = b3 at h ⊢
  cases h4 : b3.wsLoop (b3.wslen + 1) with
  | error e => simp [h4, andThen] at h
  | ok b4 =>
    have := wsLoop_ov _ b3 b4 h4
    have e2 : b3.ov.wslen = b3.wslen := rfl
    rw [e2, this]
    simp only [h4, andThen] at h ⊢
    injection h with h; subst h; rfl

theorem flushWord_ov (b b' : WB) (m : WS) (h : b.flushWord m = .ok b') : b.ov.flushWord m = .ok b'.ov := by
  unfold WB.flushWord at h ⊢
  split at h
  · rename_i hn; rw [if_pos (show b.ov.word.noContent = true from hn)]; injection h with h; subst h; rfl
  · rename_i hn; rw [if_neg (show ¬ b.ov.word.noContent = true from hn)]
    simp only at h ⊢
    split at h
    · simp at h
    · rename_i hc
      rw [if_neg (show ¬ b.ov.linelen > b.ov.width from hc)]
      split at h
      · rename_i hf
        rw [if_pos (show b.ov.wslen + b.ov.wordlen ≤ b.ov.width - b.ov.linelen from hf)]
        exact placeFits_ov ({ b with preWrapped := false } : WB) b' h
      · rename_i hf
        rw [if_neg (show ¬ b.ov.wslen + b.ov.wordlen ≤ b.ov.width - b.ov.linelen from hf)]
        cases h1 : ({ b with preWrapped := false } : WB).disposeWs m with
        | error e => simp [h1, andThen] at h
        | ok b1 =>
          have := disposeWs_ov _ b1 m h1
          show andThen (({ b with preWrapped := false } : WB).ov.disposeWs m) _ = _
          rw [this]
          simp only [h1, andThen] at h ⊢
          cases h2 : b1.startWordLine m with
          | error e => simp [h2] at h
          | ok b4 =>
            rw [startWordLine_ov b1 b4 m h2]
            simp only [h2] at h ⊢
            cases h3 : ({ b4 with word := [], wordlen := 0 } : WB).hardWrap b.word with
            | error e => simp [h3] at h
            | ok b5 =>
              have := hardWrap_ov _ b5 b.word h3
              simp only [h3] at h
              injection h with h; subst h
              simp only [WB.ov] at this ⊢
              rw [this]

theorem tabLoop_ov (tag : Tag) : ∀ (fuel : Nat) (b b' : WB) (pos : Nat) (one : Bool), b.tabLoop tag pos one fuel = .ok b' →
    b.ov.tabLoop tag pos one fuel = .ok b'.ov := by
  intro fuel
  induction fuel with
  | zero => intro b b' pos one h; simp [WB.tabLoop] at h
  | succ fuel ih =>
    intro b b' pos one h
    simp only [WB.tabLoop] at h ⊢
    split at h
    · rename_i hc; rw [if_pos hc]
      split at h
      · rename_i hp; rw [if_pos (show pos ≥ b.ov.width from hp), ov_flushLine]; exact ih _ _ _ _ h
      · rename_i hp; rw [if_neg (show ¬ pos ≥ b.ov.width from hp)]; exact ih _ _ _ _ h
    · rename_i hc; rw [if_neg hc]; injection h with h; subst h; rfl

theorem addChar_ov (b : WB) (m : WS) (mt wt : Tag) (cur : Bool) (c : Ch) (r : WB × Bool) (h : b.addChar m mt wt cur c = .ok r) :
    b.ov.addChar m mt wt cur c = .ok (r.1.ov, r.2) := by
  unfold WB.addChar at h ⊢
  simp only at h ⊢
  have e0 : (if (c.ws && !b.ov.word.noContent) = true then b.ov.flushWord m else Except.ok b.ov) =
      (match (if (c.ws && !b.word.noContent) = true then b.flushWord m else Except.ok b) with
        | .ok b1 => Except.ok b1.ov
        | .error e => (if (c.ws && !b.ov.word.noContent) = true then b.ov.flushWord m else Except.ok b.ov)) := by
    by_cases hc : (c.ws && !b.word.noContent) = true
    · rw [if_pos hc, if_pos (show (c.ws && !b.ov.word.noContent) = true from hc)]
      cases hf : b.flushWord m with
      | error e => rfl
      | ok b1 => simp only; exact flushWord_ov b b1 m hf
    · rw [if_neg hc, if_neg (show ¬ (c.ws && !b.ov.word.noContent) = true from hc)]
  generalize hr : (if (c.ws && !b.word.noContent) = true then b.flushWord m else Except.ok b) = r0 at h e0
  cases r0 with
  | error e => simp at h
  | ok b1 =>
    simp only at e0
    rw [e0]
    simp only at h ⊢
    by_cases hws : c.ws = true
    · simp only [hws, if_true] at h ⊢
      split at h
      · rename_i hp; rw [if_pos hp]
        split at h
        · rename_i h10; rw [if_pos h10]; injection h with h; subst h; rfl
        · rename_i h10; rw [if_neg h10]
          split at h
          · rename_i h9; rw [if_pos h9]
            cases ht : b1.tabLoop (if cur = true then wt else mt) (b1.linelen + b1.wslen) false (2 * b1.width + 20) with
            | error e => simp [ht] at h
            | ok bt =>
              have := tabLoop_ov _ _ b1 bt _ _ ht
              show (match b1.ov.tabLoop (if cur = true then wt else mt) (b1.linelen + b1.wslen) false (2 * b1.width + 20) with
                | .error e => Except.error e
                | .ok b' => Except.ok (b', cur)) = _
              rw [this]
              simp only [ht] at h ⊢
              injection h with h; subst h; rfl
          · rename_i h9; rw [if_neg h9]
            split at h
            · rename_i hct; rw [if_pos hct]; injection h with h; subst h; rfl
            · rename_i hct; rw [if_neg hct]
              split at h
              · rename_i hov
                rw [if_pos (show b1.ov.linelen + b1.ov.wslen + c.w > b1.ov.width from hov)]
                have ef : ({ b1.ov with wslen := 0 } : WB).flushLine = (({ b1 with wslen := 0 } : WB).flushLine).ov :=
                  ov_flushLine ({ b1 with wslen := 0 } : WB)
                split at h
                · rename_i hd; rw [if_pos hd]; injection h with h; subst h; simp only [ef]; rfl
                · rename_i hd; rw [if_neg hd]; injection h with h; subst h; simp only [ef]; rfl
              · rename_i hov
                rw [if_neg (show ¬ b1.ov.linelen + b1.ov.wslen + c.w > b1.ov.width from hov)]
                injection h with h; subst h; rfl
      · rename_i hp; rw [if_neg hp]
        split at h
        · rename_i hq; rw [if_pos (show (decide (b1.ov.linelen > 0) && decide (b1.ov.wslen = 0)) = true from hq)]
          injection h with h; subst h; rfl
        · rename_i hq; rw [if_neg (show ¬ (decide (b1.ov.linelen > 0) && decide (b1.ov.wslen = 0)) = true from hq)]
          injection h with h; subst h; rfl
    · have hws' : c.ws = false := by simpa using hws
      simp only [hws', Bool.false_eq_true, if_false] at h ⊢
      split at h
      · rename_i hct; rw [if_pos hct]; injection h with h; subst h; rfl
      · rename_i hct; rw [if_neg hct]; injection h with h; subst h; rfl

theorem addTextGo_ov (m : WS) (mt wt : Tag) (cs : List Ch) : ∀ (b b' : WB) (cur : Bool), b.addTextGo m mt wt cur cs = .ok b' →
    b.ov.addTextGo m mt wt cur cs = .ok b'.ov := by
  induction cs with
  | nil => intro b b' cur h; simp only [WB.addTextGo] at h ⊢; injection h with h; subst h; rfl
  | cons c cs ih =>
    intro b b' cur h
    simp only [WB.addTextGo] at h ⊢
    cases hc : b.addChar m mt wt cur c with
    | error e => simp [hc] at h
    | ok r =>
      rw [addChar_ov b m mt wt cur c r hc]
      simp only [hc] at h ⊢
      exact ih _ _ _ h

theorem finish_ov (b : WB) (ls : List TLine) (h : b.finish = .ok ls) : b.ov.finish = .ok ls := by
  unfold WB.finish at h ⊢
  cases hf : b.flushWord .normal with
  | error e => simp [hf, andThen] at h
  | ok b1 =>
    rw [flushWord_ov b b1 _ hf]
    simp only [hf, andThen] at h ⊢
    rw [ov_flushLine]
    exact h

end H2T
