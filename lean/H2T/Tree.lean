import H2T.Wrap
import H2T.Css.Cascade

/-! DOM, render tree, DOM→render tree (process_dom_node subset without tables/CSS), size estimates. -/

namespace H2T

inductive Node where
  | text (s : List Ch)
  | comment
  | other
  | elem (name : String) (html : Bool) (attrs : List (String × List Ch)) (kids : List Node)
  | doc (kids : List Node)
deriving Repr, Inhabited

structure Style where
  ws : Option WS := none
  pre : Bool := false
  fg : Option Css.Rgb := none
  bg : Option Css.Rgb := none
deriving Repr, DecidableEq, Inhabited

def wsOfCss : Css.WSVal → WS | .normal => .normal | .pre => .pre | .preWrap => .preWrap

def styleOf (c : Css.Computed) : Style :=
  { ws := c.main.ws.val.map wsOfCss, pre := c.internalPre, fg := c.main.colour.val, bg := c.main.bg.val }



inductive Kind
  | container | link (href : List Ch) | em | strong | strike | code | block | header (lvl : Nat) | div
  | quote | ul | ol (start : Int) | dl | dt | dd | li | sup
deriving Repr, DecidableEq, Inhabited

inductive RNode where
  | text (st : Style) (s : List Ch)
  | img (st : Style) (src title : List Ch)
  | br (st : Style)
  | frag (name : List Ch)
  | box (st : Style) (k : Kind) (kids : List RNode)
  | cell (st : Style) (colspan : Nat) (kids : List RNode)
  | row (st : Style) (cells : List RNode)
  | tbody (st : Style) (rows : List RNode)
  | table (st : Style) (rows : List RNode) (ncols : Nat)
deriving Repr, Inhabited

def attr (attrs : List (String × List Ch)) (n : String) : Option (List Ch) :=
  (attrs.find? (·.1 = n)).map (·.2)

def chIsWs (c : Ch) : Bool := c.ws

/-- is_shallow_empty -/
def RNode.shallowEmpty : RNode → Bool
  | .text _ s => s.all chIsWs
  | .img _ _ t => t.all chIsWs
  | .br _ => true
  | .frag _ => true
  | .box _ _ kids => kids.isEmpty
  | .cell .. => false
  | .row .. => false
  | .tbody .. => false
  | .table .. => false

def intoFirstCell (new : RNode) (atStart : Bool) : List RNode → List RNode
  | .cell st cs kids :: rest => .cell st cs (if atStart then new :: kids else kids ++ [new]) :: rest
  | l => l
def intoFirstRow (new : RNode) (atStart : Bool) : List RNode → List RNode
  | .row st cells :: rest => .row st (intoFirstCell new atStart cells) :: rest
  | l => l

/-- insert_child -/
def insertChild (new : RNode) (orig : RNode) (atStart : Bool) : RNode :=
  match orig with
  | .box st k kids =>
    let inList := match k with
      | .block | .li | .dd | .dt | .dl | .div | .quote | .container => true
      | _ => false
    if inList then .box st k (if atStart then new :: kids else kids ++ [new])
    else .box {} .container (if atStart then [new, orig] else [orig, new])
  | .cell st cs kids => .cell st cs (if atStart then new :: kids else kids ++ [new])
  | .row st cells => .row st (intoFirstCell new atStart cells)
  | .tbody st rows => .tbody st (intoFirstRow new atStart rows)
  | .table st rows n => .table st (intoFirstRow new atStart rows) n
  | _ => .box {} .container (if atStart then [new, orig] else [orig, new])

/-- Rust `str::parse::<i64>()`: optional sign, at least one ASCII digit, in range -/
def parseI64 (s : List Ch) : Option Int :=
  let (neg, ds) := match s with
    | c :: rest => if c.cp = 45 then (true, rest) else if c.cp = 43 then (false, rest) else (false, s)
    | [] => (false, [])
  if ds.isEmpty then none else
  if ds.all (fun c => 48 ≤ c.cp && c.cp ≤ 57) then
    let n : Nat := ds.foldl (fun acc c => acc * 10 + (c.cp - 48)) 0
    let v : Int := if neg then - (n : Int) else n
    if v < -9223372036854775808 ∨ v > 9223372036854775807 then none else some v
  else none

/-- Rust `str::parse::<usize>()` -/
def parseUsize (s : List Ch) : Option Nat :=
  let ds := match s with
    | c :: rest => if c.cp = 43 then rest else s
    | [] => []
  if ds.isEmpty then none else
  if ds.all (fun c => 48 ≤ c.cp && c.cp ≤ 57) then
    let n : Nat := ds.foldl (fun acc c => acc * 10 + (c.cp - 48)) 0
    if n > 18446744073709551615 then none else some n
  else none

def isCell : RNode → Bool | .cell .. => true | _ => false
def isRow : RNode → Bool | .row .. => true | _ => false
def cellSpan : RNode → Nat | .cell _ n _ => n | _ => 0
def rowCells : RNode → List RNode | .row _ cs => cs | _ => []
def setSpan (n : Nat) : RNode → RNode | .cell st _ k => .cell st n k | r => r

/-- tbody_to_render_tree: replace colspan=0 -/
def fixZeroSpans (rows : List RNode) : List RNode :=
  let counts := rows.map fun r => ((rowCells r).any (fun c => cellSpan c = 0), ((rowCells r).map (fun c => max (cellSpan c) 1)).sum)
  let maxCols := (counts.map (·.2)).foldl max 0
  let maxCols := if counts.isEmpty then 1 else maxCols
  (rows.zip counts).map fun (r, (hasZero, n)) =>
    match r with
    | .row st cells => if hasZero then .row st (cells.map fun c => if cellSpan c = 0 then setSpan (maxCols - n + 1) c else c) else r
    | r => r

/-- every column boundary any cell of the table ends at -/
def colPositions (rows : List RNode) : List Nat :=
  rows.flatMap fun r =>
    ((rowCells r).foldl (fun (acc : Nat × List Nat) c => (acc.1 + cellSpan c, acc.2 ++ [acc.1 + cellSpan c])) (0, [])).2

/-- rank of a column boundary among all boundaries of the table -/
def remapRank (rows : List RNode) (p : Nat) : Nat :=
  (((0 :: colPositions rows).eraseDups.mergeSort (· ≤ ·)).findIdx? (· = p)).getD 0     -- unwrap() in Rust

/-- the cells of one row with their spans re-expressed in ranks -/
def remapCells (rank : Nat → Nat) (cells : List RNode) : List RNode :=
  (cells.foldl (fun (acc : Nat × Nat × List RNode) c =>
    (acc.1 + max (cellSpan c) 1, rank (acc.1 + max (cellSpan c) 1),
     acc.2.2 ++ [setSpan (rank (acc.1 + max (cellSpan c) 1) - acc.2.1) c])) (0, 0, [])).2.2

def remapRow (rank : Nat → Nat) : RNode → RNode
  | .row st cells => .row st (remapCells rank cells)
  | r => r

/-- RenderTable::new: remap column positions to ranks; the table gets as many columns as its widest row -/
def remapTable (rows : List RNode) : List RNode × Nat :=
  let rows' := rows.map (remapRow (remapRank rows))
  let ncols := (rows'.map fun r => ((rowCells r).map (fun c => max (cellSpan c) 1)).sum).foldl max 0
  (rows', ncols)

def tbodyRows : RNode → List RNode | .tbody _ rows => rows | _ => []

def decorOf (name : String) : Option (List Ch × List Ch) :=
  if name = "em" ∨ name = "dt" then some (strCh "*", strCh "*")
  else if name = "strong" then some (strCh "**", strCh "**")
  else if name = "code" then some (strCh "`", strCh "`")
  else none

def isLi : RNode → Bool | .box _ .li _ => true | _ => false
def isDtDd : RNode → Bool | .box _ .dt _ => true | .box _ .dd _ => true | _ => false

/-- characters of CSS `content` strings: widths come from a table supplied with the case (driver fills it) -/
structure CharInfo where
  lookup : Nat → Ch

def contentChars (ci : CharInfo) (s : String) : List Ch := s.toList.map fun c => ci.lookup c.toNat

structure BuildCfg where
  sd : Css.StyleData
  useDoc : Bool
  ci : CharInfo

def isElemNode : Node → Bool | .elem .. => true | _ => false

/-- the render node an element becomes, given its already built children (`None`: the element is dropped) -/
def elemBase (computed : Css.Computed) (html : Bool) (name : String) (attrs : List (String × List Ch)) (cs : List RNode) : Option RNode :=
  let st := styleOf computed
  let noempty (r : RNode) : Option RNode := if cs.isEmpty then none else some r
  if !html then noempty (.box st .container cs) else
  match name with
  | "html" | "body" => some (.box st .container cs)
  | "link" | "meta" | "hr" | "script" | "style" | "head" => none
  | "span" => noempty (.box st .container cs)
  | "a" =>
    match attr attrs "href" with
    | some href => if cs.any (fun c => !c.shallowEmpty) then some (.box st (.link href) cs) else none
    | none => some (.box st .container cs)
  | "em" | "i" | "ins" => some (.box st .em cs)
  | "strong" => some (.box st .strong cs)
  | "s" | "del" => some (.box st .strike cs)
  | "code" => some (.box st .code cs)
  | "img" =>
    match (attrs.filter (fun a => a.1 = "alt" && !a.2.isEmpty)).getLast?, (attrs.filter (fun a => a.1 = "src" && !a.2.isEmpty)).getLast? with
    | some t, some s => some (.img st s.2 t.2)
    | _, _ => none
  | "h1" => some (.box st (.header 1) cs) | "h2" => some (.box st (.header 2) cs)
  | "h3" => some (.box st (.header 3) cs) | "h4" => some (.box st (.header 4) cs)
  | "h5" => some (.box st (.header 5) cs) | "h6" => some (.box st (.header 6) cs)
  | "p" => noempty (.box st .block cs)
  | "li" => some (.box st .li cs)
  | "sup" => some (.box st .sup cs)
  | "div" => noempty (.box st .div cs)
  | "pre" =>
    let ws' := computed.main.ws.maybeUpdate false .agent {} .pre
    some (.box { st with ws := ws'.val.map wsOfCss, pre := true } .block cs)
  | "br" => some (.br st)
  | "blockquote" => noempty (.box st .quote cs)
  | "ul" => noempty (.box st .ul cs)
  | "ol" =>
    let start : Int := match attr attrs "start" with
      | some v => (parseI64 v).getD 1
      | none => 1
    noempty (.box st (.ol start) (cs.filter isLi))
  | "dl" => noempty (.box st .dl (cs.filter isDtDd))
  | "td" | "th" =>
    let colspan := match (attrs.filter (fun a => a.1 = "colspan")).getLast? with
      | some a => min ((parseUsize a.2).getD 1) 1000
      | none => 1
    some (.cell st colspan cs)
  | "tr" => some (.row st (cs.filter isCell))
  | "thead" | "tbody" => noempty (.tbody st (fixZeroSpans (cs.filter isRow)))
  | "table" =>
    let rows := cs.flatMap tbodyRows
    if rows.isEmpty then none else
    let (rows', n) := remapTable rows
    some (.table st rows' n)
  | "dt" => some (.box st .dt cs)
  | "dd" => some (.box st .dd cs)
  | _ => noempty (.box st .container cs)

/-- `::before` / `::after` content is inserted as text children -/
def elemWrap (ci : CharInfo) (computed : Css.Computed) (base : Option RNode) : Option RNode :=
  if computed.before.isSome || computed.after.isSome then
    base.map fun n =>
      let n1 := match computed.before.bind (·.content.val) with
        | some t => insertChild (.text {} (contentChars ci t)) n true
        | none => n
      match computed.after.bind (·.content.val) with
      | some t => insertChild (.text {} (contentChars ci t)) n1 false
      | none => n1
  else base

/-- an `id` (or `<a name>`) becomes a fragment marker in front of the element's content -/
def elemFrag (html : Bool) (name : String) (attrs : List (String × List Ch)) (wrapped : Option RNode) : Option RNode :=
  let fragName : Option (List Ch) :=
    match attrs.find? (fun a => a.1 = "id" || (html && name = "a" && a.1 = "name")) with
    | some a => some a.2
    | none => none
  match fragName, wrapped with
  | none, r => r
  | some f, none => some (.frag f)
  | some f, some n => some (insertChild (.frag f) n true)

mutual
/-- process_dom_node; outer `none` = a panic inside computed_style -/
def build (bc : BuildCfg) (up : List Css.Frame) (idx : Nat) : Node → Option (Option RNode)
  | .text s => some (some (.text {} s))
  | .comment => some none
  | .other => some none
  | .doc kids =>
    match buildList bc [{ isElem := false }] 0 kids with
    | none => none
    | some cs => some (some (.box {} .container cs))
  | .elem name html attrs kids =>
    let frame : Css.Frame := { isElem := true, name := name, attrs := attrs, elemIdx := idx }
    let chain := frame :: up
    match Css.computedStyle bc.sd bc.useDoc chain with
    | .panic => none
    | .ok computed =>
    if computed.main.displayNone.val.isSome then some none else
    match buildList bc chain 0 kids with
    | none => none
    | some cs => some (elemFrag html name attrs (elemWrap bc.ci computed (elemBase computed html name attrs cs)))
def buildList (bc : BuildCfg) (chain : List Css.Frame) (seen : Nat) : List Node → Option (List RNode)
  | [] => some []
  | n :: ns =>
    let idx := if isElemNode n then seen + 1 else seen
    match build bc chain idx n with
    | none => none
    | some r =>
      match buildList bc chain idx ns with
      | none => none
      | some rs => some (match r with | some x => x :: rs | none => rs)
end

/-! size estimates -/
structure SizeEst where
  size : Nat := 0
  minW : Nat := 0
  prefixSize : Nat := 0
deriving Repr, Inhabited

def SizeEst.add (a b : SizeEst) : SizeEst := { size := a.size + b.size, minW := max a.minW b.minW }
def SizeEst.addHor (a b : SizeEst) : SizeEst := { size := a.size + b.size, minW := a.minW + b.minW }

def trimWs (s : List Ch) : List Ch := ((s.dropWhile chIsWs).reverse.dropWhile chIsWs).reverse

def textLen (t : List Ch) : Nat :=
  let go := (trimWs t).foldl (fun (acc : Nat × Bool) c =>
    if c.ws then (acc.1, true)
    else (acc.1 + (if c.ctrl then 0 else c.w) + (if acc.2 then 1 else 0), false)) (0, false)
  go.1 + (match t with | c :: _ => if c.ws then 1 else 0 | [] => 0)

/-- a decorator as data: every string a `TextDecorator` returns -/
structure Deco where
  headerPrefix : Nat → List Ch
  quotePrefix : List Ch
  ulPrefix : List Ch
  olPrefix : Int → List Ch
  linkStart : List Ch
  linkEnd : List Ch
  imgText : List Ch → List Ch
  emStart : List Ch := []
  emEnd : List Ch := []
  strongStart : List Ch := []
  strongEnd : List Ch := []
  strikeStart : List Ch := []
  strikeEnd : List Ch := []
  codeStart : List Ch := []
  codeEnd : List Ch := []
  supStart : List Ch := strCh "^{"
  supEnd : List Ch := strCh "}"
  annOf : Ann → Ann := fun _ => Ann.unit        -- plain/trivial/custom: every annotation is ()
  colours : Bool := false                       -- push_colour returns Some only for the rich decorator

def fmtInt (i : Int) : List Ch := strCh (toString i)

def Deco.plain : Deco where
  headerPrefix n := List.replicate n (mkCh 35) ++ [spaceCh]
  quotePrefix := strCh "> "
  ulPrefix := strCh "* "
  olPrefix i := fmtInt i ++ strCh ". "
  linkStart := strCh "["
  linkEnd := strCh "]"
  imgText t := strCh "[" ++ t ++ strCh "]"

def Deco.rich : Deco where
  headerPrefix n := List.replicate n (mkCh 35) ++ [spaceCh]
  quotePrefix := strCh "> "
  ulPrefix := strCh "* "
  olPrefix i := fmtInt i ++ strCh ". "
  linkStart := []
  linkEnd := []
  imgText t := t
  annOf := id
  colours := true

def Deco.trivial : Deco where
  headerPrefix _ := []
  quotePrefix := []
  ulPrefix := []
  olPrefix _ := []
  linkStart := []
  linkEnd := []
  imgText t := t

/-- the custom-decorator family of the harness (`FamDeco` in harness/src/deco.rs): every string is a parameter -/
structure DecoFam where
  hUnit : List Ch        -- repeated `level` times
  hTail : List Ch
  quote : List Ch
  ul : List Ch
  olTail : List Ch       -- after the decimal number
  linkS : List Ch
  linkE : List Ch
  emS : List Ch
  emE : List Ch
  strongS : List Ch
  strongE : List Ch
  strikeS : List Ch
  strikeE : List Ch
  codeS : List Ch
  codeE : List Ch
  imgS : List Ch
  imgE : List Ch

def Deco.ofFam (f : DecoFam) : Deco where
  headerPrefix n := (List.replicate n f.hUnit).flatten ++ f.hTail
  quotePrefix := f.quote
  ulPrefix := f.ul
  olPrefix i := fmtInt i ++ f.olTail
  linkStart := f.linkS
  linkEnd := f.linkE
  imgText t := f.imgS ++ t ++ f.imgE
  emStart := f.emS
  emEnd := f.emE
  strongStart := f.strongS
  strongEnd := f.strongE
  strikeStart := f.strikeS
  strikeEnd := f.strikeE
  codeStart := f.codeS
  codeEnd := f.codeE

def dispW (s : List Ch) : Nat := (s.map (·.w)).sum

def i64Max : Int := 9223372036854775807
def i64Min : Int := -9223372036854775808
/-- clamp into i64: the result of a saturating i64 operation whose exact result is `x` -/
def satI64 (x : Int) : Int := if x > i64Max then i64Max else if x < i64Min then i64Min else x

/-- `start.saturating_add(n as i64).saturating_sub(1)` -/
def olMaxNumber (start : Int) (n : Nat) : Int := satI64 (satI64 (start + n) - 1)
/-- the number of the `k`-th item (0-based): `k` saturating increments of `start` -/
def olItemNumber (start : Int) (k : Nat) : Int := satI64 (start + k)

/-- calc_ol_prefix_size: display widths of the first and last markers -/
def olPrefixSize (d : Deco) (start : Int) (n : Nat) : Nat :=
  max (dispW (d.olPrefix start)) (dispW (d.olPrefix (olMaxNumber start n)))

mutual
def sizeOf (d : Deco) (mww : Nat) : RNode → SizeEst
  | .text _ t => let len := textLen t; { size := len, minW := min len mww }
  | .img _ _ t => let len := textLen t + 2; { size := len, minW := min len mww }
  | .br _ => { size := 1, minW := 1 }
  | .frag _ => {}
  | .box _ k kids =>
    let s := sizeSum d mww kids
    match k with
    | .link _ => s.add { size := 5, minW := 5 }
    | .dd => let p := 2; { (s.addHor { size := p, minW := p }) with prefixSize := p }
    | .quote => let p := dispW d.quotePrefix; { (s.addHor { size := p, minW := p }) with prefixSize := p }
    | .ul => let p := dispW d.ulPrefix; { (s.addHor { size := p, minW := p }) with prefixSize := p }
    | .ol start => let p := olPrefixSize d start kids.length; { (s.addHor { size := p, minW := p }) with prefixSize := p }
    | .header lvl => let p := dispW (d.headerPrefix lvl); { (s.addHor { size := p, minW := p }) with prefixSize := p }
    | _ => s
  | .cell _ _ kids => sizeSum d mww kids
  | .row .. => {}
  | .tbody .. => {}
  | .table _ rows n =>
    if n = 0 then {} else
    let cols := tableColsAdd d mww rows (List.replicate n {})
    { size := (cols.map (·.size)).sum, minW := (cols.map (·.minW)).sum + n - 1 }
/-- RenderTable::calc_size_estimate: per-column accumulation (size added, min_width maxed) -/
def tableColsAdd (d : Deco) (mww : Nat) : List RNode → List SizeEst → List SizeEst
  | [], acc => acc
  | .row _ cells :: rs, acc => tableColsAdd d mww rs (rowColsAdd d mww cells 0 acc)
  | _ :: rs, acc => tableColsAdd d mww rs acc
def rowColsAdd (d : Deco) (mww : Nat) : List RNode → Nat → List SizeEst → List SizeEst
  | [], _, acc => acc
  | .cell _ span kids :: cs, colno, acc =>
    let e := sizeSum d mww kids
    let acc' := (List.range span).foldl (fun a i =>
      a.modify (colno + i) fun x => { size := x.size + e.size / span, minW := max x.minW (e.minW / span) }) acc
    rowColsAdd d mww cs (colno + span) acc'
  | _ :: cs, colno, acc => rowColsAdd d mww cs colno acc
def sizeSum (d : Deco) (mww : Nat) : List RNode → SizeEst
  | [] => {}
  | n :: ns => (sizeOf d mww n).add (sizeSum d mww ns)   -- NB: fold order differs from Rust's left fold; add is assoc/comm on (size,minW)
end

end H2T
