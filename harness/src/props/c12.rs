//! C12: preformatted text keeps its lines and spacing.

use super::common::*;
use crate::cfg::{Cfg, Deco, Route};
use crate::obs::{El, Obs};
use crate::refimpl::cw;
use crate::util::R;
use crate::{Case, Prop, Tier, Viol};

pub struct C12;

const WORDS: &[&str] = &["a", "bb", "ccc", "word", "hello", "x", "字", "字字", "longerword", "é", "\u{301}", "\u{200b}"];

/// one source line of a pre block as a list of atoms
fn gen_line(r: &mut R) -> String {
    let mut s = String::new();
    if r.p(12) {
        return s; // empty line
    }
    if r.p(25) {
        s.push_str(&" ".repeat(1 + r.u(4)));
    }
    let n = 1 + r.u(5);
    for i in 0..n {
        if i > 0 {
            if r.p(15) {
                s.push('\t');
            } else {
                s.push_str(&" ".repeat(1 + r.u(5)));
            }
        }
        if r.p(25) {
            // an unbroken run mixing narrow, double-width and zero-width characters: wide characters straddle the cut
            // points of the hard wrap at every offset
            for _ in 0..2 + r.u(14) {
                s.push_str(r.pick(&["a", "b", "x", "字", "中", "字", "é", "e\u{301}", "か\u{3099}"]));
            }
        } else {
            s.push_str(r.pick(WORDS));
        }
    }
    if r.p(20) {
        s.push_str(&" ".repeat(1 + r.u(3)));
    }
    if r.p(8) {
        s.push('\t');
    }
    s
}

fn expand_tabs(line: &str) -> String {
    let mut out = String::new();
    let mut col = 0;
    for c in line.chars() {
        if c == '\t' {
            let n = 8 - col % 8;
            out.push_str(&" ".repeat(n));
            col += n;
        } else {
            out.push(c);
            col += cw(c);
        }
    }
    out
}
fn width(s: &str) -> usize {
    s.chars().map(cw).sum()
}

impl Prop for C12 {
    fn id(&self) -> &'static str {
        "C12"
    }
    fn rule(&self) -> &'static str {
        "pre blocks of 1..8 lines over ASCII words, runs of 1..5 spaces, tabs, leading/trailing spaces, empty lines, wide characters; alone, inside li, inside blockquote; widths 1..60; rich decorator (tags) and plain; fits-case: output == rstrip(expanded lines); otherwise pieces <= width, non-space characters preserved in order per source line, first piece Preformat(false) then Preformat(true); exhaustive for <= 2 lines over {word, 1-3 spaces, tab} at widths 1..20 (thorough)"
    }
    fn cases(&self, r: &mut R, tier: Tier) -> Vec<Case> {
        let mut v = Vec::new();
        let n = scale(tier, 3000, 60000);
        for _ in 0..n {
            let nl = 1 + r.u(8);
            let mut logical: Vec<String> = (0..nl).map(|_| gen_line(r)).collect();
            // the HTML: lines separated by "\n" or <br> (each is exactly one line break), words sometimes wrapped in
            // inline elements
            let mut body = String::new();
            for (i, l) in logical.iter().enumerate() {
                if i > 0 {
                    body.push_str(if r.p(25) { "<br>" } else { "\n" });
                }
                if r.p(25) && !l.is_empty() {
                    // wrap a middle portion of the line in an inline element (split at a character boundary)
                    let cs: Vec<char> = l.chars().collect();
                    let a = r.u(cs.len());
                    let b = a + r.u(cs.len() - a + 1);
                    let tag = *r.pick(&[&"span", &"em", &"strong", &"code"]);
                    let esc = |v: &[char]| -> String { v.iter().collect() };
                    body.push_str(&format!("{}<{tag}>{}</{tag}>{}", esc(&cs[..a]), esc(&cs[a..b]), esc(&cs[b..])));
                } else {
                    body.push_str(l);
                }
            }
            // the HTML parser drops one newline directly after <pre>
            if body.starts_with('\n') {
                logical.remove(0);
            }
            let wrap = r.b(4);
            let (pre, post, prefix) = match wrap {
                0 | 1 => ("<pre>", "</pre>", 0),
                2 => ("<ul><li><pre>", "</pre></li></ul>", 2),
                _ => ("<blockquote><pre>", "</pre></blockquote>", 2),
            };
            let html = format!("{pre}{body}{post}");
            let cfg = if r.p(70) { Cfg::rich() } else { Cfg::base(Deco::Plain) };
            let w = if r.p(35) { 2 + r.u(10) } else { 1 + r.u(60) };
            let mut c = case(html, cfg, w, if prefix == 0 { "pre" } else { "nested-pre" });
            c.aux = format!("{prefix}|{}", logical.join("\u{1}"));
            v.push(c);
        }
        if tier == Tier::Thorough {
            // exhaustive: <= 2 lines, each of up to 3 atoms over {word, 1..3 spaces, tab}
            let atoms = ["ab", " ", "  ", "   ", "\t"];
            let mut lines: Vec<String> = vec![String::new()];
            for a in &atoms {
                lines.push(a.to_string());
                for b in &atoms {
                    lines.push(format!("{a}{b}"));
                    for c in &atoms {
                        lines.push(format!("{a}{b}{c}"));
                    }
                }
            }
            for l1 in &lines {
                for l2 in lines.iter().step_by(7) {
                    for w in (1..=20).step_by(3) {
                        let body = format!("{l1}\n{l2}");
                        let mut c = case(format!("<pre>{body}</pre>"), Cfg::rich(), w, "g-enum");
                        let logical_body = body.strip_prefix('\n').unwrap_or(&body);
                        c.aux = format!("0|{}", logical_body.replace('\n', "\u{1}"));
                        v.push(c);
                    }
                }
            }
        }
        v
    }
    fn oracle(&self, c: &Case, o: &Obs) -> Vec<Viol> {
        let mut out = vec![];
        let (prefix, body) = match c.aux.split_once('|') {
            Some((p, b)) => (p.parse::<usize>().unwrap_or(0), b.replace('\u{1}', "\n")),
            None => return out,
        };
        let ls = match o.lines() {
            Some(l) => l,
            None => return out,
        };
        if c.width <= prefix {
            return out;
        }
        let avail = c.width - prefix;
        // `aux` holds the logical source lines (after the parser's removal of a newline directly after <pre>)
        let src: Vec<String> = body.split('\n').map(expand_tabs).collect();
        // strip the prefix column
        let text: Vec<Vec<El>> = ls.iter().map(|l| {
            let mut skipped = 0;
            l.iter().filter(|e| match e { El::Ch(ch, _) if skipped < prefix => { skipped += cw(*ch); false } _ => true }).cloned().collect()
        }).collect();
        let line_str = |l: &Vec<El>| -> String { l.iter().filter_map(|e| if let El::Ch(ch, _) = e { Some(*ch) } else { None }).collect() };
        let got: Vec<String> = text.iter().map(line_str).collect();
        let fits = src.iter().all(|l| width(l) <= avail);
        if fits {
            // output lines == rstrip(expanded source lines), trailing empty lines excepted
            let mut want: Vec<String> = src.iter().map(|l| l.trim_end_matches(' ').to_string()).collect();
            while want.last().map(|l| l.is_empty()).unwrap_or(false) {
                want.pop();
            }
            let mut g: Vec<String> = got.iter().map(|l| l.trim_end_matches(' ').to_string()).collect();
            while g.last().map(|l| l.is_empty()).unwrap_or(false) {
                g.pop();
            }
            // a line that holds only characters without width, ended by <br>: the block "has no width yet", so the <br> adds
            // an empty line on top of ending the line (known finding C12-zero-width-line-before-br)
            let zw_only = |l: &String| !l.trim().is_empty() && l.chars().all(|ch| ch == ' ' || cw(ch) == 0);
            // positions of empty lines that directly follow a zero-width-only line; some subset of them is extra
            let cand: Vec<usize> = (1..g.len()).filter(|i| g[*i].is_empty() && zw_only(&g[*i - 1])).collect();
            let mut g2: Vec<String> = g.clone();
            if cand.len() <= 10 {
                for mask in 1u32..(1u32 << cand.len()) {
                    let t: Vec<String> = g.iter().enumerate().filter(|(i, _)| !cand.iter().enumerate().any(|(k, c)| c == i && mask & (1 << k) != 0)).map(|(_, l)| l.clone()).collect();
                    let mut t2 = t.clone();
                    while t2.last().map(|l| l.is_empty()).unwrap_or(false) {
                        t2.pop();
                    }
                    if t2 == want {
                        g2 = t2;
                        break;
                    }
                }
            }
            if g != want && g2 == want && String::from_utf8_lossy(&c.html).contains("<br>") {
                out.push(known(format!("a <br> after a line holding only zero-width characters adds an empty line: got {:?}, expected {:?}", g, want), "C12-zero-width-line-before-br"));
            } else if g != want {
                out.push(viol(format!("every source line fits {avail} columns, but the block is not reproduced: got {:?}, expected {:?}", g, want)));
            }
            if c.cfg.deco == Deco::Rich {
                for l in &text {
                    for e in l {
                        if let El::Ch(ch, t) = e {
                            if !t.split(';').any(|x| x == "P") {
                                out.push(viol(format!("character {:?} of a fitting preformatted line is tagged {:?} instead of Preformat(false)", ch, t)));
                                return out;
                            }
                        }
                    }
                }
            }
            return out;
        }
        // overflow case: every piece <= avail, non-space characters of the whole block preserved in order
        for l in &got {
            if width(l) > avail {
                out.push(viol(format!("piece {:?} is wider than the available {avail} columns", l)));
                return out;
            }
        }
        let ns = |s: &str| -> String { s.chars().filter(|ch| *ch != ' ').collect() };
        let want_ns: String = src.iter().map(|l| ns(l)).collect();
        let got_ns: String = got.iter().map(|l| ns(l)).collect();
        if want_ns != got_ns {
            out.push(viol(format!("non-space characters changed: got {:?}, source {:?}", got_ns, want_ns)));
            return out;
        }
        if c.cfg.deco == Deco::Rich {
            // tags, aligned by the preserved non-space characters: character j of the output's non-space stream is
            // character j of the source's.  (a) every character carries Preformat(false|true); (b) a first word that
            // fits behind its leading spaces is on the first piece and must be Preformat(false); (c) a character whose
            // start column is >= avail cannot be on the first piece and must be Preformat(true).
            let tags: Vec<(char, String)> = text.iter().flat_map(|l| l.iter()).filter_map(|e| match e { El::Ch(ch, t) if *ch != ' ' => Some((*ch, t.clone())), _ => None }).collect();
            let mut j = 0;
            for (si, line) in src.iter().enumerate() {
                let mut col = 0;
                let mut in_first_word = true;
                let mut seen_word = false;
                let first_word_end: usize = {
                    let lead = line.chars().take_while(|ch| *ch == ' ').count();
                    lead + line.chars().skip(lead).take_while(|ch| *ch != ' ').map(cw).sum::<usize>()
                };
                for ch in line.chars() {
                    if ch == ' ' {
                        if seen_word {
                            in_first_word = false;
                        }
                        col += 1;
                        continue;
                    }
                    seen_word = true;
                    if j >= tags.len() {
                        return out;
                    }
                    let t = &tags[j].1;
                    let is_p = t.split(';').any(|x| x == "P");
                    let is_q = t.split(';').any(|x| x == "Q");
                    if !is_p && !is_q {
                        out.push(viol(format!("character {:?} of source line {si} carries no Preformat annotation: {:?}", ch, t)));
                        return out;
                    }
                    if in_first_word && first_word_end <= avail && !is_p {
                        out.push(viol(format!("the first word of source line {si} fits on the first piece but {:?} is tagged {:?}", ch, t)));
                        return out;
                    }
                    if col >= avail && is_p && !out.iter().any(|v: &Viol| v.known.is_some()) {
                        out.push(known(format!("character {:?} at column {col} of source line {si} lies on a continuation piece but is tagged Preformat(false)", ch), "C12-continuation-tag-partial"));
                    }
                    col += cw(ch);
                    j += 1;
                }
            }
        }
        out
    }
    fn shrinkable(&self) -> bool {
        false
    }
    fn project(&self, _c: &Case, o: &Obs) -> String {
        whole(o)
    }
}
