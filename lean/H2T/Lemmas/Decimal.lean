import H2T.Lemmas.CompileWf

/-! Decimal markers of ordered lists: no item's number prints longer than the longer of the first and the last
    (C02, C07, C16), for every `start` including the saturating ends of `i64`. -/

namespace H2T

theorem dispW_strCh (s : String) : dispW (strCh s) = s.toList.length := by
  unfold strCh dispW
  induction s.toList with
  | nil => rfl
  | cons c l ih =>
    simp only [List.map_cons, List.sum_cons, List.length_cons]
    rw [ih]
    split <;> simp [spaceCh, mkCh] <;> omega

def digits (n : Nat) : Nat := (Nat.toDigits 10 n).length

theorem digits_mono {a b : Nat} (h : a ≤ b) : digits a ≤ digits b := by
  unfold digits
  have hk : 0 < (Nat.toDigits 10 b).length := Nat.length_toDigits_pos
  have h1 := (Nat.length_toDigits_le_iff (b := 10) (n := b) (by omega) hk).mp (Nat.le_refl _)
  exact (Nat.length_toDigits_le_iff (b := 10) (n := a) (by omega) hk).mpr (by omega)

def decLen (i : Int) : Nat := dispW (fmtInt i)

theorem decLen_eq (i : Int) : decLen i = if 0 ≤ i then digits i.toNat else 1 + digits (-i).toNat := by
  unfold decLen fmtInt
  rw [dispW_strCh, Int.toString_eq_repr, Int.repr_eq_if]
  split
  · simp [digits]
  · simp [digits, String.toList_append]; omega

theorem decLen_between {a k b : Int} (h1 : a ≤ k) (h2 : k ≤ b) : decLen k ≤ max (decLen a) (decLen b) := by
  rw [decLen_eq k, decLen_eq a, decLen_eq b]
  by_cases hk : 0 ≤ k
  · have hb : 0 ≤ b := by omega
    simp only [hk, hb, if_true]
    have := digits_mono (a := k.toNat) (b := b.toNat) (by omega)
    omega
  · have ha : ¬ 0 ≤ a := by omega
    simp only [hk, ha, if_false]
    have := digits_mono (a := (-k).toNat) (b := (-a).toNat) (by omega)
    omega

theorem decLen_i64Max : decLen 9223372036854775807 ≤ decLen 9223372036854775806 := by
  rw [decLen_eq, decLen_eq]
  simp only [show (0:Int) ≤ 9223372036854775807 by omega, show (0:Int) ≤ 9223372036854775806 by omega, if_true]
  have h1 : digits (9223372036854775807 : Int).toNat ≤ 19 :=
    (Nat.length_toDigits_le_iff (b := 10) (by omega) (by omega)).mpr (by decide)
  have h2 : ¬ digits (9223372036854775806 : Int).toNat ≤ 18 := by
    intro h
    have := (Nat.length_toDigits_le_iff (b := 10) (by omega) (by omega)).mp h
    revert this; decide
  omega

theorem satI64_cases (x : Int) : (satI64 x = 9223372036854775807 ∧ x > 9223372036854775807) ∨
    (satI64 x = -9223372036854775808 ∧ x < -9223372036854775808) ∨
    (satI64 x = x ∧ -9223372036854775808 ≤ x ∧ x ≤ 9223372036854775807) := by
  unfold satI64 i64Max i64Min
  split
  · left; exact ⟨rfl, by assumption⟩
  · split
    · right; left; exact ⟨rfl, by assumption⟩
    · right; right; exact ⟨rfl, by omega, by omega⟩

/-- within one ordered list no item number prints longer than the longer of `start` and the last number -/
theorem ol_item_len (start : Int) (n i : Nat) (h : i < n) :
    decLen (olItemNumber start i) ≤ max (decLen start) (decLen (olMaxNumber start n)) := by
  unfold olItemNumber olMaxNumber
  generalize hx : satI64 (start + i) = x
  generalize hy : satI64 (start + n) = y
  generalize hM : satI64 (y - 1) = M
  have cx := satI64_cases (start + i); rw [hx] at cx
  have cy := satI64_cases (start + n); rw [hy] at cy
  have cM := satI64_cases (y - 1); rw [hM] at cM
  have key : (start ≤ x ∧ x ≤ M) ∨ (M ≤ x ∧ x ≤ start) ∨ (x = 9223372036854775807 ∧ M = 9223372036854775806) := by omega
  rcases key with ⟨a, b⟩ | ⟨a, b⟩ | ⟨a, b⟩
  · exact decLen_between a b
  · have := decLen_between a b; omega
  · subst a b; have := decLen_i64Max; omega

/-- every decorator that prints the item number in decimal followed by a fixed string satisfies `DecoOk` -/
theorem olDecimal_ok (d : Deco) (tail : List Ch) (h : ∀ i, d.olPrefix i = fmtInt i ++ tail) : DecoOk d := by
  intro start n i hi
  unfold olPrefixSize
  simp only [h, dispW_append]
  have := ol_item_len start n i hi
  unfold decLen at this
  omega

theorem plain_ok : DecoOk Deco.plain := olDecimal_ok _ (strCh ". ") (fun _ => rfl)
theorem rich_ok : DecoOk Deco.rich := olDecimal_ok _ (strCh ". ") (fun _ => rfl)
theorem trivial_ok : DecoOk Deco.trivial := by intro _ _ _ _; simp [Deco.trivial, dispW]
theorem fam_ok (f : DecoFam) : DecoOk (Deco.ofFam f) := olDecimal_ok _ f.olTail (fun _ => rfl)

end H2T
