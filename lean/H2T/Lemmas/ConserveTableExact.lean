import H2T.Lemmas.ConserveTableTree
import H2T.Lemmas.TableExact

/-! C03, exactness for regular tables: when no cell is skipped (every column has width, the rows tile the columns) and the
    cells hold no tables themselves, a side-by-side table adds *exactly* the visible characters of its cells — counted per
    character, for characters that have width and are neither box-drawing characters nor the strikeout mark. -/

namespace H2T

/-! ## the exact ink of table-free programs, counted -/

mutual
theorem cnt_opInk_raw (c : Ch) (hm : c ≠ strikeMark) (cfg : Cfg) (d : Deco) : (op : Op) → (dep : Nat) → silentOp op = true →
    ((opInk cfg d dep op).1).count c = (rawInk d op).count c
  | .sub _ _ _ _ _ body, dep, hs => by
    simp only [silentOp, Bool.and_eq_true] at hs
    simp only [opInk, rawInk]
    exact cnt_opsInk_raw c hm cfg d body 0 hs.2
  | .table _ _, _, hs => by simp [silentOp] at hs
  | .row _ _ _, _, hs => by simp [silentOp] at hs
  | .cell _ _ _, _, hs => by simp [silentOp] at hs
  | .pushWs _, _, _ => rfl
  | .popWs, _, _ => rfl
  | .pushPre, _, _ => rfl
  | .popPre, _, _ => rfl
  | .pushAnn _, _, _ => rfl
  | .popAnn, _, _ => rfl
  | .text x, dep, _ => by simp only [opInk, rawInk, cnt_iterFilter c hm]
  | .frag _, _, _ => rfl
  | .startLink _, dep, _ => by simp only [opInk, rawInk, cnt_iterFilter c hm]
  | .endLink, dep, _ => by simp only [opInk, rawInk, cnt_iterFilter c hm]
  | .startAnn _ x s, dep, _ => by simp only [opInk, rawInk, cnt_iterFilter c hm]
  | .endAnn x s, dep, _ => by simp only [opInk, rawInk, cnt_iterFilter c hm]
  | .image _ t, dep, _ => by simp only [opInk, rawInk, cnt_iterFilter c hm]
  | .startBlock, _, _ => rfl
  | .endBlock, _, _ => rfl
  | .newLine, _, _ => rfl
  | .newLineHard, _, _ => rfl
theorem cnt_opsInk_raw (c : Ch) (hm : c ≠ strikeMark) (cfg : Cfg) (d : Deco) : (ops : List Op) → (dep : Nat) → silentOps ops = true →
    ((opsInk cfg d dep ops).1).count c = (rawInks d ops).count c
  | [], _, _ => rfl
  | op :: r, dep, hs => by
    simp only [silentOps, Bool.and_eq_true] at hs
    simp only [opsInk, rawInks, List.count_append, cnt_opInk_raw c hm cfg d op dep hs.1, cnt_opsInk_raw c hm cfg d r _ hs.2]
end

theorem runOps_cnt_eq (c : Ch) (hm : c ≠ strikeMark) (cfg : Cfg) (d : Deco) (hfn : cfg.footnotes = false) (ops : List Op) (t t' : RS)
    (hs : silentOps ops = true) (hfr : t.cur.FragsOk) (h : runOps SubR.widthMinus cfg d t ops = .ok t') :
    t'.cur.ink.count c = t.cur.ink.count c + (rawInks d ops).count c ∧ t'.cur.FragsOk := by
  obtain ⟨a1, _, a3⟩ := runOps_ink SubR.widthMinus cfg d hfn ops t t' hs hfr h
  exact ⟨by rw [a1, List.count_append, cnt_opsInk_raw c hm cfg d ops _ hs], a3⟩

/-- an "empty" cell renderer holds no character that has width -/
theorem empty_no_wide (c : Ch) (hw : 0 < c.w) (s : SubR) (hf : s.Fits) (he : s.empty = true) : s.ink.count c = 0 := by
  unfold SubR.empty at he
  simp only [Bool.and_eq_true, List.isEmpty_iff] at he
  obtain ⟨hl, hwr⟩ := he
  apply List.count_eq_zero.mpr
  intro hm
  simp only [SubR.ink, hl, List.flatMap_nil, List.nil_append] at hm
  cases hwp : s.wrapping with
  | none => simp [hwp] at hm
  | some w =>
    simp only [hwp] at hm hwr
    obtain ⟨hi, _, _⟩ := hf.wrap w hwp
    have htl : w.text.length + w.linelen + w.wordlen = 0 := by simpa [WB.textLen] using hwr
    have ht : w.text = [] := List.eq_nil_of_length_eq_zero (by omega)
    have mem_le : ∀ (l : TLine) (e : Elt), e ∈ l → e.w ≤ lw l := by
      intro l
      induction l with
      | nil => intro e he; simp at he
      | cons a r ih =>
        intro e he
        simp only [List.mem_cons] at he
        simp only [lw, List.map_cons, List.sum_cons]
        rcases he with rfl | he
        · omega
        · have := ih e he; unfold lw at this; omega
    have key : ∀ l : TLine, lw l = 0 → c ∉ ink l := by
      intro l h0 hc
      simp only [ink, List.mem_filterMap] at hc
      obtain ⟨e, he, hec⟩ := hc
      have hle := mem_le l e he
      cases e with
      | frag n => simp at hec
      | cell cl =>
        simp only [Elt.w] at hle
        by_cases hws : cl.ch.ws = true
        · simp [hws] at hec
        · simp [hws] at hec; rw [hec] at hle; omega
    simp only [WB.ink, ht, List.flatMap_nil, List.nil_append, List.mem_append] at hm
    rcases hm with hm | hm
    · exact key w.line (by rw [← hi.linelen_eq]; omega) hm
    · exact key w.word (by rw [← hi.wordlen_eq]; omega) hm


/-! ## rows and tables without skipped cells -/

/-- the bodies of the cells hold no tables and only whitespace prefixes -/
def bodiesSilent : List Op → Bool
  | [] => true
  | .cell _ _ body :: cs => silentOps body && bodiesSilent cs
  | _ :: cs => bodiesSilent cs

theorem styleOps_silent (ops : List Op) (h : ∀ op ∈ ops, isStyleOp op = true) : silentOps ops = true := by
  induction ops with
  | nil => rfl
  | cons op ops ih =>
    have := h op (by simp)
    simp only [silentOps, Bool.and_eq_true]
    refine ⟨?_, ih (fun o ho => h o (by simp [ho]))⟩
    cases op <;> simp [isStyleOp] at this <;> simp [silentOp]

theorem runCells_cnt_eq (c : Ch) (hm : c ≠ strikeMark) (cfg : Cfg) (d : Deco) (hfn : cfg.footnotes = false)
    (ws : List Nat) (hpos : ∀ x ∈ ws, 0 < x) (ann : Tag) :
    ∀ (cells : List Op) (links : List (List Ch)) (next : Nat) (l2 : List (List Ch)) (subs : List SubR),
    wfCells next cells = true → tiles ws.length next cells = true → bodiesSilent cells = true →
    runCells SubR.widthMinus cfg d ws false ann links cells = .ok (l2, subs) →
    (subs.map fun col => col.ink.count c).sum = (rawInks d cells).count c ∧ ∀ col ∈ subs, col.FragsOk := by
  intro cells
  induction cells with
  | nil =>
    intro links next l2 subs _ _ _ he
    simp [runCells] at he
    obtain ⟨_, rfl⟩ := he
    exact ⟨rfl, by simp⟩
  | cons op cs ih =>
    intro links next l2 subs hok ht hbs he
    cases op with
    | cell colno span body =>
      simp only [tiles, Bool.and_eq_true, beq_iff_eq, decide_eq_true_eq] at ht
      obtain ⟨⟨rfl, hsp⟩, ht2⟩ := ht
      simp only [wfCells, Bool.and_eq_true, decide_eq_true_eq] at hok
      obtain ⟨⟨_, _⟩, hcs⟩ := hok
      simp only [bodiesSilent, Bool.and_eq_true] at hbs
      simp only [runCells] at he
      split at he
      · simp at he
      · rename_i hidx
        simp only [cellOob, Bool.false_eq_true, if_false, decide_eq_true_eq, Nat.not_lt] at hidx
        have hin : 0 < cellInner ws false colno span := by
          simp only [cellInner, Bool.false_eq_true, if_false]
          apply sum_pos_of_pos
          · intro x hx; exact hpos x (List.mem_of_mem_drop (List.mem_of_mem_take hx))
          · intro hh
            have := congrArg List.length hh
            simp at this; omega
        rw [if_neg (by omega)] at he
        cases h1 : runOps SubR.widthMinus cfg d { links := links, cur := ({ width := cellOuter false (cellInner ws false colno span) span, annStack := ann } : SubR) } body with
        | error e => simp [h1, andThen] at he
        | ok r =>
          simp only [h1, andThen_ok_eq] at he
          obtain ⟨f1, f2, _⟩ := fresh_ink (cellOuter false (cellInner ws false colno span) span) ann
          obtain ⟨b1, b2⟩ := runOps_cnt_eq c hm cfg d hfn body _ r hbs.1 f2 h1
          rw [f1] at b1
          cases h2 : runCells SubR.widthMinus cfg d ws false ann r.links cs with
          | error e => simp [h2, andThen_error_eq] at he
          | ok v =>
            obtain ⟨l3, subs2⟩ := v
            simp only [h2, andThen_ok_eq] at he
            injection he with he
            simp only [Prod.mk.injEq] at he
            obtain ⟨_, rfl⟩ := he
            obtain ⟨q1, q2⟩ := ih r.links (colno + span) l3 subs2 hcs ht2 hbs.2 h2
            refine ⟨?_, ?_⟩
            · simp only [List.map_cons, List.sum_cons, rawInks, rawInk, List.count_append, List.count_nil, Nat.zero_add] at b1 ⊢
              omega
            · intro col hcol
              simp only [List.mem_cons] at hcol
              rcases hcol with rfl | hcol
              · exact b2
              · exact q2 col hcol
    | _ => simp [tiles] at ht

theorem appendRow_cnt_eq (c : Ch) (hc : isBox c = false) (hw : 0 < c.w) (s s' : SubR) (cfg : Cfg) (subs : List SubR) (hf : s.FragsOk)
    (hcf : ∀ col ∈ subs, col.FragsOk) (hfit : ∀ col ∈ subs, col.Fits) (h : s.appendRow cfg false subs = .ok s') :
    s'.ink.count c = s.ink.count c + (subs.map fun col => col.ink.count c).sum ∧ s'.FragsOk := by
  unfold SubR.appendRow at h
  simp only [Bool.false_eq_true, if_false] at h
  split at h
  · exact appendColumns_cnt c hc s s' cfg subs hf hcf h
  · rename_i hany
    injection h with h; subst h
    refine ⟨?_, hf⟩
    have : (subs.map fun col => col.ink.count c).sum = 0 := by
      have hz : ∀ col ∈ subs, col.ink.count c = 0 := by
        intro col hcol
        have he : col.empty = true := by
          simp only [List.any_eq_true, Bool.not_eq_true', not_exists, not_and, Bool.not_eq_false] at hany
          exact hany col hcol
        exact empty_no_wide c hw col (hfit col hcol) he
      clear hany hcf hfit
      induction subs with
      | nil => rfl
      | cons a r ih => simp only [List.map_cons, List.sum_cons, hz a (by simp), Nat.zero_add]; exact ih (fun x hx => hz x (by simp [hx]))
    omega

/-- rows whose cells hold table-free, whitespace-prefixed content -/
def rowsSilent : List Op → Bool
  | [] => true
  | .row _ _ cells :: rs => bodiesSilent cells && rowsSilent rs
  | _ :: rs => rowsSilent rs

theorem runRows_cnt_eq (c : Ch) (hc : isBox c = false) (hm : c ≠ strikeMark) (hw : 0 < c.w) (cfg : Cfg) (d : Deco)
    (hfn : cfg.footnotes = false) (hov : cfg.overflow = false) (ws : List Nat) (hpos : ∀ x ∈ ws, 0 < x) :
    ∀ (rows : List Op) (t t' : RS), wfRows rows = true → regRows ws.length rows = true → rowsSilent rows = true → t.cur.FragsOk →
    runRows SubR.widthMinus cfg d ws false t rows = .ok t' →
    t'.cur.ink.count c = t.cur.ink.count c + (rawInks d rows).count c ∧ t'.cur.FragsOk := by
  have hwm := widthMinus_contract cfg hov
  intro rows
  induction rows with
  | nil => intro t t' _ _ _ hfr he; simp [runRows] at he; subst he; exact ⟨by simp [rawInks], hfr⟩
  | cons op rs ih =>
    intro t t' hok hreg hsil hfr he
    cases op with
    | row rpre rpost cells =>
      simp only [regRows, Bool.and_eq_true, List.all_eq_true] at hreg
      obtain ⟨⟨⟨hpre, hpost⟩, htile⟩, hrs⟩ := hreg
      simp only [wfRows, Bool.and_eq_true] at hok
      obtain ⟨⟨⟨_, _⟩, wcells⟩, wrs⟩ := hok
      simp only [rowsSilent, Bool.and_eq_true] at hsil
      simp only [runRows] at he
      cases h1 : runOps SubR.widthMinus cfg d t rpre with
      | error e => simp [h1, andThen] at he
      | ok t1 =>
        simp only [h1, andThen_ok_eq] at he
        obtain ⟨p1, p2⟩ := runOps_cnt_eq c hm cfg d hfn rpre t t1 (styleOps_silent rpre hpre) hfr h1
        rw [styleOps_raw d rpre hpre] at p1
        cases h2 : runCells SubR.widthMinus cfg d ws false t1.cur.annStack t1.links cells with
        | error e => simp [h2, andThen_error_eq] at he
        | ok v =>
          obtain ⟨links, subs⟩ := v
          simp only [h2, andThen_ok_eq] at he
          obtain ⟨c1, _, _⟩ := runCells_fitsT SubR.widthMinus cfg d hwm hov cells ws false t1.cur.annStack t1.links 0 links subs wcells h2
          obtain ⟨q1, q2⟩ := runCells_cnt_eq c hm cfg d hfn ws hpos t1.cur.annStack cells t1.links 0 links subs wcells htile hsil.1 h2
          cases h3 : t1.cur.appendRow cfg false subs with
          | error e => simp [h3, andThen_error_eq] at he
          | ok s2 =>
            simp only [h3, andThen_ok_eq] at he
            obtain ⟨r1, r2⟩ := appendRow_cnt_eq c hc hw t1.cur s2 cfg subs p2 q2 c1 h3
            cases h4 : runOps SubR.widthMinus cfg d { links := links, cur := s2 } rpost with
            | error e => simp [h4, andThen_error_eq] at he
            | ok t3 =>
              simp only [h4, andThen_ok_eq] at he
              obtain ⟨u1, u2⟩ := runOps_cnt_eq c hm cfg d hfn rpost _ t3 (styleOps_silent rpost hpost) r2 h4
              rw [styleOps_raw d rpost hpost] at u1
              obtain ⟨v1, v2⟩ := ih t3 t' wrs hrs hsil.2 u2 he
              refine ⟨?_, v2⟩
              simp only [rawInks, rawInk, List.count_append, styleOps_raw d rpre hpre, styleOps_raw d rpost hpost, List.count_nil]
              have : ({ links := links, cur := s2 } : RS).cur.ink.count c = s2.ink.count c := rfl
              simp only [List.count_nil] at p1 u1
              omega
    | _ => simp [regRows] at hreg

/-- **a regular side-by-side table whose cells hold table-free content conserves its text exactly** (per character, for
    characters that have width and are neither box-drawing characters nor the strikeout mark) -/
theorem table_cnt_eq (c : Ch) (hc : isBox c = false) (hm : c ≠ strikeMark) (hw : 0 < c.w) (cfg : Cfg) (d : Deco)
    (hfn : cfg.footnotes = false) (hov : cfg.overflow = false) (cols : List SizeEst) (rows : List Op) (t t' : RS) (ws : List Nat) (tw : Nat)
    (ha : allocCols cfg t.cur.width cols = .ok (ws, false, tw)) (hpos : ∀ x ∈ ws, 0 < x)
    (hwf : wfRows rows = true) (hreg : regRows ws.length rows = true) (hsil : rowsSilent rows = true) (hfr : t.cur.FragsOk)
    (he : runOp SubR.widthMinus cfg d t (.table cols rows) = .ok t') :
    t'.cur.ink.count c = t.cur.ink.count c + (rawInks d rows).count c := by
  simp only [runOp] at he
  simp only [ha, andThen_ok_eq] at he
  cases h2 : t.cur.startBlock with
  | error e => simp [h2, andThen_error_eq] at he
  | ok s1 =>
    simp only [h2, andThen_ok_eq] at he
    obtain ⟨b1, b2⟩ := startBlock_ink _ s1 hfr h2
    cases h3 : s1.tableTop cfg tw with
    | error e => simp [h3, andThen_error_eq] at he
    | ok s3 =>
      simp only [h3, andThen_ok_eq] at he
      obtain ⟨c1, c2⟩ := tableTop_cnt c hc s1 s3 cfg tw b2 h3
      obtain ⟨r1, _⟩ := runRows_cnt_eq c hc hm hw cfg d hfn hov ws hpos rows { t with cur := s3 } t' hwf hreg hsil c2 he
      have : ({ t with cur := s3 } : RS).cur.ink.count c = t.cur.ink.count c := by show s3.ink.count c = _; rw [c1, b1]
      omega

end H2T
