import H2T.Lemmas.Cascade
import H2T.Lemmas.TagColour
import H2T.Lemmas.CascadeComputed
import H2T.Lemmas.TagRich

/-! # C19 — competing declarations are resolved by the CSS cascade

`Css.cascadeRef` is the reference: order declarations by layer
(agent < user < author < author! < user! < agent!), then by specificity (inline, ids, classes, types), and
let the later of two equally ranked declarations win.  The theorem says that folding
`WithSpec::maybe_update` (as transcribed in `H2T/Css/Cascade.lean`) over *any* list of declarations, in the
order `computed_style` visits them, yields the reference's answer. -/

namespace H2T.C19
open H2T.Css

/-- **C19 (full, model level).** For every non-empty list of declarations with real origins the code's fold and
    the reference cascade choose the same value. -/
theorem cascade_is_reference (d : Dcl) (ds : List Dcl) (hreal : ∀ x ∈ d :: ds, x.origin.real) :
    (foldImpl WithSpec.maybeUpdate {} (d :: ds)).val = (cascadeRef (d :: ds)).map (·.val) :=
  cascade_correct_from_empty d ds hreal

/-- the holder after the fold is exactly the reference winner (origin, specificity and importance included) -/
theorem cascade_holder (c : Dcl) (ds : List Dcl) (hc : c.origin.real) (hreal : ∀ d ∈ ds, d.origin.real) :
    foldImpl WithSpec.maybeUpdate (hold c) ds = hold (cascadeFrom c ds) :=
  cascade_correct ds c hc hreal

/-- the reference picks a member of the list -/
theorem reference_is_member (c : Dcl) (ds : List Dcl) : cascadeFrom c ds = c ∨ cascadeFrom c ds ∈ ds :=
  cascadeFrom_mem ds c

/-- layers are ordered as CSS orders them -/
theorem layer_order :
    layer false .agent < layer false .user ∧ layer false .user < layer false .author ∧
    layer false .author < layer true .author ∧ layer true .author < layer true .user ∧
    layer true .user < layer true .agent := by decide

/-! non-vacuity and the two regression witnesses of the repaired defect -/

/-- author `!important` after user normal: the author declaration wins (it lost before the fix) -/
example :
    let user : Dcl := ⟨false, .user, { typ := 1 }, 1⟩
    let author : Dcl := ⟨true, .author, { typ := 1 }, 2⟩
    (foldImpl WithSpec.maybeUpdate {} [user, author]).val = some 2 ∧ cascadeRef [user, author] = some author := by
  decide

/-- different origins are not compared by specificity: author `p` beats user `#id`, both normal -/
example :
    let user : Dcl := ⟨false, .user, { id := 1 }, 1⟩
    let author : Dcl := ⟨false, .author, { typ := 1 }, 2⟩
    (foldImpl WithSpec.maybeUpdate {} [user, author]).val = some 2 ∧ cascadeRef [user, author] = some author := by
  decide

/-- inline beats an id selector within the same layer; a later equal declaration wins -/
example :
    let a : Dcl := ⟨false, .author, { id := 1 }, 1⟩
    let b : Dcl := ⟨false, .author, { inline := true }, 2⟩
    let c : Dcl := ⟨false, .author, { inline := true }, 3⟩
    (foldImpl WithSpec.maybeUpdate {} [b, a, c]).val = some 3 := by decide

/-! ## the computed style of an element holds the cascade's winner

`cascade_is_reference` is about the fold; this section says what `computed_style` folds over.  `colourDcls` lists the
colour declarations that apply to an element in the order the code visits them: rules of the agent, user and author
sheets whose selector matches (rules for `::before`/`::after` excluded), then the `style` attribute's declarations and the
legacy `color` attribute, in attribute order, as author declarations with inline specificity. -/

/-- **the colour in an element's computed style is the reference cascade's winner** among the colour declarations that
    apply to it — for every three style sheets, every element (given by its ancestor chain), with or without document
    CSS; `none` exactly when no colour declaration applies -/
theorem element_colour_is_cascade_winner (sd : StyleData) (useDoc : Bool) (chain : List Frame) (c : Computed)
    (h : computedStyle sd useDoc chain = .ok c) :
    c.main.colour.val = (cascadeRefG (colourDcls sd useDoc chain)).map (·.val) :=
  computed_colour_is_cascade sd useDoc chain c h

/-- …and that is the colour the render node carries (`styleOf` copies the holder's value) -/
theorem node_style_is_computed_colour (c : Computed) : (H2T.styleOf c).fg = c.main.colour.val := rfl

/-- the reference over declarations with values picks by layer, then specificity, later wins — the same order as `cascadeRef` -/
theorem reference_order (a b : DclG Rgb) : cascadeRefG [a, b] = some (if a.key.le b.key then b else a) := rfl

/-- non-vacuity: an author rule and an important user rule for the same element: the user's colour wins -/
example :
    (cascadeRefG [(⟨false, .author, { typ := 1 }, ⟨255, 0, 0⟩⟩ : DclG Rgb), ⟨true, .user, { typ := 1 }, ⟨0, 0, 255⟩⟩]).map (·.val) =
      some ⟨0, 0, 255⟩ := by decide

/-! ## text takes its colour from the nearest enclosing element that has one

The render tree carries, for each element, the colour its cascade chose (`styleOf` of the computed style, whose
`colour` holder is the fold the theorems above are about).  The theorem below is about everything after that: pushing and
popping colours around children, text added at any depth, wrapping, block nesting, sub-renderers for list items, quotes
and headings.  `colT` is the specification: walk the tree, remember the colour of the nearest enclosing node that has
one (`own sty inherited`), and give it to every visible character. -/

open H2T in
/-- **innermost `Colour` annotation = colour of the nearest enclosing node with a colour**: for every render tree without
    tables and `<pre>`, every width and configuration (footnotes off), in rich output: the characters of the rendered
    lines (other than `#`, `>`, `*`, `-`, `.` and digits, which block prefixes are made of), each paired with the innermost
    colour annotation of its tag vector, are exactly the characters of `colT` -/
theorem text_colour_is_nearest_ancestor (cfg : Cfg) (w : Nat) (tree : RNode) (ls : List RLine) (hfn : cfg.footnotes = false)
    (ht : plainTree tree = true) (h : renderTree cfg Deco.rich w tree = .ok ls) :
    ((ls.flatMap trink).map fun c => (c.ch, lastFg c.tag)).filter (fun x => richAlpha x.1) =
      (colT cfg Deco.rich none 0 tree).filter (fun x => richAlpha x.1) :=
  renderTree_colours richAlpha cfg Deco.rich w tree ls hfn rich_avoids rich_colourDeco ht h

open H2T in
/-- what the specification says: a text node shows its own colour if it has one, else the inherited one; an element passes
    its own colour, else the inherited one, to its children -/
theorem spec_colour_text (cfg : Cfg) (d : Deco) (inh : Option Col) (dep : Nat) (sty : Style) (s : List Ch) :
    colT cfg d inh dep (.text sty s) = (keep (iterN strikeFilter dep s)).map fun ch => (ch, own sty inh) := rfl

open H2T in
theorem spec_colour_container (cfg : Cfg) (d : Deco) (inh : Option Col) (dep : Nat) (sty : Style) (kids : List RNode) :
    colT cfg d inh dep (.box sty .container kids) = colL cfg d (own sty inh) dep kids := by simp [colT]

open H2T in
/-- non-vacuity: red div > (text, blue span > text, uncoloured em > text), text after: colours red, blue, red, none -/
example :
    let red : Style := { fg := some ⟨255, 0, 0⟩ }
    let blue : Style := { fg := some ⟨0, 0, 255⟩ }
    let tree : RNode := .box {} .block [.box red .div [.text {} (strCh "a"), .box blue .container [.text {} (strCh "b")],
      .box {} .em [.text {} (strCh "c")]], .text {} (strCh "d")]
    plainTree tree = true ∧
    ((renderTree {} Deco.rich 20 tree).toOption.map fun ls => ((ls.flatMap trink).map fun c => (c.ch.cp, lastFg c.tag))) =
      some [(97, some (255, 0, 0)), (98, some (0, 0, 255)), (99, some (255, 0, 0)), (100, none)] ∧
    (colT {} Deco.rich none 0 tree).map (fun x => (x.1.cp, x.2)) =
      [(97, some (255, 0, 0)), (98, some (0, 0, 255)), (99, some (255, 0, 0)), (100, none)] := by decide +kernel

end H2T.C19
