import H2T.Wrap

/-! Wrap-layer invariant on the final model (all white-space modes, tabs, padding, piece-based hard wrap).
    Foundation of C02 (lines fit), C01-T2 (no unsigned underflow / unwrap panic in this layer), C12. -/

namespace H2T

@[simp] theorem lw_nil : lw [] = 0 := rfl
@[simp] theorem lw_append (a b : TLine) : lw (a ++ b) = lw a + lw b := by simp [lw]
@[simp] theorem lw_cons (e : Elt) (l : TLine) : lw (e :: l) = e.w + lw l := by simp [lw]
theorem lw_replicate_spc (n : Nat) (t : Tag) : lw (List.replicate n (spc t)) = n := by
  induction n with
  | zero => rfl
  | succ n ih => rw [List.replicate_succ, lw_cons, ih]; simp [spc, Elt.w, spaceCh]; omega
theorem lw_cells (cs : List Cell) : lw (cs.map Elt.cell) = cellsW cs := by
  induction cs with
  | nil => rfl
  | cons c cs ih => simp [cellsW, Elt.w] at ih ⊢; omega
@[simp] theorem cellsW_nil : cellsW [] = 0 := rfl
@[simp] theorem cellsW_cons (c : Cell) (cs : List Cell) : cellsW (c :: cs) = c.ch.w + cellsW cs := by simp [cellsW]
@[simp] theorem cellsW_append (a b : List Cell) : cellsW (a ++ b) = cellsW a + cellsW b := by simp [cellsW]

theorem noContent_lw (l : TLine) (h : l.noContent = true) : lw l = 0 := by
  induction l with
  | nil => rfl
  | cons e l ih =>
    cases e with
    | cell c => simp [TLine.noContent, Elt.isCell] at h
    | frag n =>
      simp only [TLine.noContent, List.any_cons, Elt.isCell, Bool.false_or] at h ih
      simp [Elt.w, ih h]

structure WB.Inv (b : WB) : Prop where
  linelen_eq : b.linelen = lw b.line
  wordlen_eq : b.wordlen = lw b.word
  line_fit : b.linelen ≤ b.width
  text_fit : b.overflow = false → ∀ l ∈ b.text, lw l ≤ b.width
  tag_ok : 0 < b.wslen → b.spacetag.isSome

/-- the fields that `Same` keeps fixed -/
structure Same (b b' : WB) : Prop where
  width : b'.width = b.width
  overflow : b'.overflow = b.overflow
  pad : b'.padBlocks = b.padBlocks

theorem Same.refl (b : WB) : Same b b := ⟨rfl, rfl, rfl⟩
theorem Same.trans {a b c : WB} (h1 : Same a b) (h2 : Same b c) : Same a c :=
  ⟨h2.width.trans h1.width, h2.overflow.trans h1.overflow, h2.pad.trans h1.pad⟩

theorem forceFlush_inv (b : WB) (h : b.Inv) :
    b.forceFlush.Inv ∧ Same b b.forceFlush ∧ b.forceFlush.linelen = 0 ∧ b.forceFlush.wslen = b.wslen
      ∧ b.forceFlush.spacetag = b.spacetag ∧ b.forceFlush.word = b.word ∧ b.forceFlush.wordlen = b.wordlen := by
  refine ⟨⟨rfl, h.wordlen_eq, Nat.zero_le _, ?_, h.tag_ok⟩, ⟨rfl, rfl, rfl⟩, rfl, rfl, rfl, rfl, rfl⟩
  intro ho l hl
  simp only [WB.forceFlush, List.mem_append, List.mem_singleton] at hl
  rcases hl with hl | hl
  · exact h.text_fit ho l hl
  · subst hl
    have hfit : lw b.line ≤ b.width := by rw [← h.linelen_eq]; exact h.line_fit
    split
    · rename_i hc
      simp only [Bool.and_eq_true, decide_eq_true_eq] at hc
      show lw (b.line ++ List.replicate (b.width - lw b.line) (spc (b.spacetag.getD []))) ≤ b.width
      simp [lw_replicate_spc]; omega
    · exact hfit

/-- a flush of a line that may be over-wide (only used when overflow is allowed) -/
theorem forceFlush_inv_overflow (b : WB) (h1 : b.wordlen = lw b.word) (ho : b.overflow = true)
    (ht : 0 < b.wslen → b.spacetag.isSome) :
    b.forceFlush.Inv ∧ Same b b.forceFlush ∧ b.forceFlush.linelen = 0 :=
  ⟨⟨rfl, h1, Nat.zero_le _, fun hf => by simp [WB.forceFlush, ho] at hf, ht⟩, ⟨rfl, rfl, rfl⟩, rfl⟩

theorem flushLine_inv (b : WB) (h : b.Inv) :
    b.flushLine.Inv ∧ Same b b.flushLine ∧ b.flushLine.linelen = 0 ∧ b.flushLine.wslen = b.wslen
      ∧ b.flushLine.spacetag = b.spacetag ∧ b.flushLine.word = b.word ∧ b.flushLine.wordlen = b.wordlen := by
  unfold WB.flushLine
  split
  · rename_i hn
    refine ⟨h, Same.refl b, ?_, rfl, rfl, rfl, rfl⟩
    rw [h.linelen_eq, noContent_lw _ hn]
  · exact forceFlush_inv b h

theorem pushWs_inv (b : WB) (n : Nat) (t : Tag) (h : b.Inv) (hn : b.linelen + n ≤ b.width) :
    (b.pushWs n t).Inv :=
  ⟨by simp [WB.pushWs, lw_replicate_spc, h.linelen_eq], h.wordlen_eq, hn, h.text_fit, h.tag_ok⟩

theorem pushCells_inv (b : WB) (cs : List Cell) (h : b.Inv) (hn : b.linelen + cellsW cs ≤ b.width) :
    (b.pushCells cs).Inv :=
  ⟨by simp [WB.pushCells, lw_cells, h.linelen_eq], h.wordlen_eq, hn, h.text_fit, h.tag_ok⟩

/-! hard wrap -/
theorem scanFit_spec (cs : List Cell) : ∀ (ll wpos : Nat),
    let r := scanFit ll wpos cs
    r.1 ++ r.2.1 = cs ∧ cellsW r.1 ≤ ll ∧ r.2.2.1 = ll - cellsW r.1 ∧ r.2.2.2 = wpos + cellsW r.1
      ∧ (∀ c more, r.2.1 = c :: more → ¬ c.ch.w ≤ ll - cellsW r.1) := by
  induction cs with
  | nil => intro ll wpos; simp [scanFit]
  | cons c cs ih =>
    intro ll wpos
    simp only [scanFit]
    by_cases hc : c.ch.w ≤ ll
    · simp only [hc, if_true]
      have := ih (ll - c.ch.w) (wpos + c.ch.w)
      simp only at this
      obtain ⟨h1, h2, h3, h4, h5⟩ := this
      refine ⟨by simp [h1], by simp; omega, by simp [h3]; omega, by simp [h4]; omega, ?_⟩
      intro c' more hm
      have := h5 c' more hm
      simp; omega
    · simp only [hc, if_false]
      refine ⟨by simp, by simp, by simp, by simp, ?_⟩
      intro c' more hm
      simp at hm
      simp; rw [← hm.1]; omega

theorem pieceLoop_inv (w : Nat) : ∀ (fuel : Nat) (b : WB) (ll wpos : Nat) (rest : List Cell) (moved : Bool)
    (b' : WB) (ll' wpos' : Nat) (rest' : List Cell) (moved' : Bool),
    b.Inv → ll ≤ b.width - b.linelen → wpos + cellsW rest = w →
    b.pieceLoop w fuel ll wpos rest moved = .ok (b', ll', wpos', rest', moved') →
    b'.Inv ∧ Same b b' ∧ ll' ≤ b'.width - b'.linelen ∧ wpos' + cellsW rest' = w ∧ w - wpos' ≤ ll'
      ∧ b'.word = b.word ∧ b'.wslen = b.wslen ∧ b'.spacetag = b.spacetag
      ∧ (moved' = false → moved = false ∧ rest' = rest ∧ wpos' = wpos) := by
  intro fuel
  induction fuel with
  | zero => intro b ll wpos rest moved b' ll' wpos' rest' moved' _ _ _ h; simp [WB.pieceLoop] at h
  | succ fuel ih =>
    intro b ll wpos rest moved b' ll' wpos' rest' moved' hinv hll hw h
    simp only [WB.pieceLoop] at h
    by_cases hgt : w - wpos > ll
    · simp only [hgt, if_true] at h
      have hs := scanFit_spec rest ll wpos
      simp only at hs
      obtain ⟨hs1, hs2, hs3, hs4, hs5⟩ := hs
      generalize hr : scanFit ll wpos rest = r at h hs1 hs2 hs3 hs4 hs5
      obtain ⟨taken, rest1, ll1, wpos1⟩ := r
      simp only at h hs1 hs2 hs3 hs4 hs5
      cases rest1 with
      | nil =>
        -- impossible: everything fitted although w - wpos > ll
        exfalso
        have : cellsW rest = cellsW taken := by rw [← hs1]; simp
        omega
      | cons c more =>
        simp only at h
        have hrest : cellsW rest = cellsW taken + c.ch.w + cellsW more := by rw [← hs1]; simp; omega
        by_cases hnp : (taken.isEmpty && lw b.line = 0) = true
        · simp only [hnp, if_true] at h
          by_cases ho : b.overflow = true
          · simp only [ho, if_true] at h
            have hpush : (b.pushCells [c]).wordlen = lw (b.pushCells [c]).word := hinv.wordlen_eq
            obtain ⟨hi2, hsame2, hl2⟩ := forceFlush_inv_overflow (b.pushCells [c]) hpush ho hinv.tag_ok
            have htk : taken = [] := by
              simp only [Bool.and_eq_true, List.isEmpty_iff] at hnp; exact hnp.1
            have := ih _ _ _ _ _ _ _ _ _ _ hi2 (by rw [hl2]; simp [WB.forceFlush, WB.pushCells]) (by subst htk; simp at hs4 hrest; omega) h
            obtain ⟨r1, r2, r3, r4, r5, r6, r7, r8, r9⟩ := this
            refine ⟨r1, (Same.trans (⟨rfl, rfl, rfl⟩ : Same b (b.pushCells [c]).forceFlush) r2), r3, r4, r5, r6, r7, r8, ?_⟩
            intro hm; have := r9 hm; simp at this
          · simp [ho] at h
        · simp only [hnp, Bool.false_eq_true, if_false] at h
          have hfitT : b.linelen + cellsW taken ≤ b.width := by have := hinv.line_fit; omega
          have hi1 := pushCells_inv b taken hinv hfitT
          obtain ⟨hi2, hsame2, hl2, hws2, hst2, hwd2, _⟩ := forceFlush_inv _ hi1
          have := ih _ _ _ _ _ _ _ _ _ _ hi2 (by rw [hl2]; simp [WB.forceFlush, WB.pushCells]) (by simp at hs4 hrest ⊢; omega) h
          obtain ⟨r1, r2, r3, r4, r5, r6, r7, r8, r9⟩ := this
          refine ⟨r1, (Same.trans (⟨rfl, rfl, rfl⟩ : Same b (b.pushCells taken).forceFlush) r2), r3, r4, r5, by rw [r6]; rfl, by rw [r7]; rfl, by rw [r8]; rfl, ?_⟩
          intro hm
          have h9 := r9 hm
          -- moved' = false forces `moved || !taken.isEmpty = false`, i.e. taken = [] — but then the line was non-empty
          -- and the rest is unchanged
          simp only [Bool.or_eq_false_iff, Bool.not_eq_false'] at h9
          have htk : taken = [] := by simpa using h9.1.2
          subst htk
          simp at hs1 hs4
          refine ⟨h9.1.1, ?_, ?_⟩
          · rw [h9.2.1, hs1]
          · rw [h9.2.2]; simp [hs4]
    · simp only [hgt, if_false] at h
      injection h with h
      simp only [Prod.mk.injEq] at h
      obtain ⟨rfl, rfl, rfl, rfl, rfl⟩ := h
      exact ⟨hinv, Same.refl _, hll, hw, by omega, rfl, rfl, rfl, fun _ => ⟨by assumption, rfl, rfl⟩⟩

/-- what the hard-wrap helpers leave untouched -/
structure Keep (b b' : WB) : Prop where
  same : Same b b'
  word : b'.word = b.word
  wslen : b'.wslen = b.wslen
  spacetag : b'.spacetag = b.spacetag

theorem Keep.refl (b : WB) : Keep b b := ⟨Same.refl b, rfl, rfl, rfl⟩
theorem Keep.trans {a b c : WB} (h1 : Keep a b) (h2 : Keep b c) : Keep a c :=
  ⟨h1.same.trans h2.same, h2.word.trans h1.word, h2.wslen.trans h1.wslen, h2.spacetag.trans h1.spacetag⟩

theorem hardWrapPiece_inv (b b' : WB) (ll ll' : Nat) (piece : List Cell) (hinv : b.Inv)
    (hll : ll ≤ b.width - b.linelen) (h : b.hardWrapPiece ll piece = .ok (b', ll')) :
    b'.Inv ∧ Keep b b' ∧ ll' ≤ b'.width - b'.linelen := by
  unfold WB.hardWrapPiece at h
  simp only at h
  cases hp : b.pieceLoop (cellsW piece) (piece.length + 2) ll 0 piece false with
  | error e => simp [hp, andThen] at h
  | ok r =>
    obtain ⟨b1, ll1, wpos1, rest1, moved1⟩ := r
    simp only [hp, andThen] at h
    obtain ⟨i1, s1, l1, w1, e1, k1, k2, k3, m1⟩ :=
      pieceLoop_inv (cellsW piece) _ b ll 0 piece false b1 ll1 wpos1 rest1 moved1 hinv hll (by simp) hp
    have hk : Keep b b1 := ⟨s1, k1, k2, k3⟩
    have hfit1 := i1.line_fit
    by_cases hm : moved1 = false
    · obtain ⟨_, hr, hw⟩ := m1 hm
      simp only [hm, Bool.not_false, if_true] at h
      injection h with h; simp only [Prod.mk.injEq] at h; obtain ⟨rfl, rfl⟩ := h
      have hfit : b1.linelen + cellsW piece ≤ b1.width := by omega
      refine ⟨pushCells_inv b1 piece i1 hfit, hk.trans ⟨⟨rfl, rfl, rfl⟩, rfl, rfl, rfl⟩, ?_⟩
      show ll1 - cellsW piece ≤ b1.width - (b1.linelen + cellsW piece)
      omega
    · have hm' : moved1 = true := by simpa using hm
      simp only [hm', Bool.not_true, Bool.false_eq_true, if_false] at h
      by_cases hre : rest1.isEmpty = true
      · simp only [hre, Bool.not_true, Bool.false_eq_true, if_false] at h
        injection h with h; simp only [Prod.mk.injEq] at h; obtain ⟨rfl, rfl⟩ := h
        exact ⟨i1, hk, l1⟩
      · simp only [hre, Bool.not_false, if_true] at h
        injection h with h; simp only [Prod.mk.injEq] at h; obtain ⟨rfl, rfl⟩ := h
        have hfit : b1.linelen + cellsW rest1 ≤ b1.width := by omega
        refine ⟨pushCells_inv b1 rest1 i1 hfit, hk.trans ⟨⟨rfl, rfl, rfl⟩, rfl, rfl, rfl⟩, ?_⟩
        show ll1 - (cellsW piece - wpos1) ≤ b1.width - (b1.linelen + cellsW rest1)
        omega

theorem hardWrapGo_inv (ps : List WItem) : ∀ (b b' : WB) (ll : Nat), b.Inv → ll ≤ b.width - b.linelen →
    b.hardWrapGo ll ps = .ok b' → b'.Inv ∧ Keep b b' := by
  induction ps with
  | nil => intro b b' ll hi _ h; simp [WB.hardWrapGo] at h; subst h; exact ⟨hi, Keep.refl b⟩
  | cons p ps ih =>
    intro b b' ll hi hll h
    cases p with
    | frag n =>
      simp only [WB.hardWrapGo] at h
      have i1 : ({ b with line := b.line ++ [Elt.frag n] } : WB).Inv :=
        ⟨by simp [hi.linelen_eq, Elt.w], hi.wordlen_eq, hi.line_fit, hi.text_fit, hi.tag_ok⟩
      obtain ⟨i2, k2⟩ := ih _ b' ll i1 hll h
      exact ⟨i2, Keep.trans (⟨⟨rfl, rfl, rfl⟩, rfl, rfl, rfl⟩ : Keep b { b with line := b.line ++ [Elt.frag n] }) k2⟩
    | piece p =>
      simp only [WB.hardWrapGo] at h
      cases hq : b.hardWrapPiece ll p with
      | error e => simp [hq] at h
      | ok r =>
        obtain ⟨b1, ll1⟩ := r
        simp only [hq] at h
        obtain ⟨i1, k1, l1⟩ := hardWrapPiece_inv b b1 ll ll1 p hi hll hq
        obtain ⟨i2, k2⟩ := ih b1 b' ll1 i1 l1 h
        exact ⟨i2, k1.trans k2⟩

theorem hardWrap_inv (b b' : WB) (word : TLine) (hi : b.Inv) (h : b.hardWrap word = .ok b') :
    b'.Inv ∧ Keep b b' := by
  unfold WB.hardWrap at h
  have : ¬ (b.linelen > b.width) := by have := hi.line_fit; omega
  simp only [this, if_false] at h
  exact hardWrapGo_inv _ b b' _ hi (Nat.le_refl _) h

/-! the whitespace loop -/
theorem wsLoop_inv : ∀ (fuel : Nat) (b b' : WB), b.Inv → b.linelen = 0 → b.wsLoop fuel = .ok b' →
    b'.Inv ∧ Same b b' ∧ b'.word = b.word ∧ b'.wordlen = b.wordlen ∧ b'.wslen = 0 := by
  intro fuel
  induction fuel with
  | zero => intro b b' _ _ h; simp [WB.wsLoop] at h
  | succ fuel ih =>
    intro b b' hi hl h
    simp only [WB.wsLoop] at h
    by_cases hz : b.wslen = 0
    · simp only [hz, if_true] at h; injection h with h; subst h
      exact ⟨hi, Same.refl b, rfl, rfl, hz⟩
    · simp only [hz, if_false] at h
      cases hst : b.spacetag with
      | none => simp [hst] at h
      | some t =>
        simp only [hst] at h
        have hfit : b.linelen + min b.wslen b.width ≤ b.width := by rw [hl]; simp; exact Nat.min_le_right _ _
        have i1 := pushWs_inv b (min b.wslen b.width) t hi hfit
        by_cases hfull : min b.wslen b.width = b.width
        · simp only [hfull, if_true] at h
          have hfit' : b.linelen + b.width ≤ b.width := by omega
          obtain ⟨i2, s2, l2, w2, st2, wd2, wl2⟩ := flushLine_inv _ (pushWs_inv b b.width t hi hfit')
          generalize hb2 : ({ (b.pushWs b.width t).flushLine with wslen := (b.pushWs b.width t).flushLine.wslen - b.width } : WB) = b2 at h
          have i3 : b2.Inv := by
            rw [← hb2]
            exact ⟨i2.linelen_eq, i2.wordlen_eq, i2.line_fit, i2.text_fit, fun _ => by
              show (b.pushWs b.width t).flushLine.spacetag.isSome
              rw [st2]; simp [WB.pushWs, hst]⟩
          have hs3 : Same (b.pushWs b.width t).flushLine b2 := by rw [← hb2]; exact ⟨rfl, rfl, rfl⟩
          have hl3 : b2.linelen = 0 := by rw [← hb2]; exact l2
          have hwd3 : b2.word = b.word := by rw [← hb2]; show (b.pushWs b.width t).flushLine.word = b.word; rw [wd2]; rfl
          have hwl3 : b2.wordlen = b.wordlen := by rw [← hb2]; show (b.pushWs b.width t).flushLine.wordlen = b.wordlen; rw [wl2]; rfl
          obtain ⟨r1, r2, r3, r4, r5⟩ := ih b2 b' i3 hl3 h
          exact ⟨r1, Same.trans (Same.trans (⟨rfl, rfl, rfl⟩ : Same b (b.pushWs b.width t)) s2) (Same.trans hs3 r2),
            by rw [r3, hwd3], by rw [r4, hwl3], r5⟩
        · simp only [hfull, if_false] at h
          have hlt : b.wslen < b.width := by
            rcases Nat.le_total b.wslen b.width with hle | hle
            · have : min b.wslen b.width = b.wslen := Nat.min_eq_left hle
              omega
            · have : min b.wslen b.width = b.width := Nat.min_eq_right hle
              exact absurd this hfull
          have hmin : min b.wslen b.width = b.wslen := Nat.min_eq_left (Nat.le_of_lt hlt)
          rw [hmin] at h i1
          generalize hb2 : ({ (b.pushWs b.wslen t) with wslen := (b.pushWs b.wslen t).wslen - b.wslen } : WB) = b2 at h
          have hz2 : b2.wslen = 0 := by rw [← hb2]; simp [WB.pushWs]
          have i3 : b2.Inv := by
            rw [← hb2]
            exact ⟨i1.linelen_eq, i1.wordlen_eq, i1.line_fit, i1.text_fit, fun hp => by simp [WB.pushWs] at hp⟩
          -- next iteration sees wslen = 0 and stops
          cases fuel with
          | zero => simp [WB.wsLoop] at h
          | succ fuel =>
            simp only [WB.wsLoop, hz2, if_true] at h
            injection h with h; subst h
            refine ⟨i3, ?_, ?_, ?_, hz2⟩
            · rw [← hb2]; exact ⟨rfl, rfl, rfl⟩
            · rw [← hb2]; rfl
            · rw [← hb2]; rfl

theorem placeFits_inv (b b' : WB) (hi : b.Inv) (hfit : b.wslen + b.wordlen ≤ b.width - b.linelen)
    (h : b.placeFits = .ok b') : b'.Inv ∧ Same b b' := by
  unfold WB.placeFits at h
  have hw := hi.wordlen_eq
  have hl := hi.line_fit
  by_cases hz : b.wslen > 0
  · simp only [hz, if_true] at h
    cases hst : b.spacetag with
    | none => simp [hst] at h
    | some t =>
      simp only [hst] at h
      injection h with h; subst h
      refine ⟨⟨?_, rfl, ?_, hi.text_fit, fun hp => by simp at hp⟩, ⟨rfl, rfl, rfl⟩⟩
      · simp [WB.pushWs, lw_replicate_spc, hi.linelen_eq, Nat.add_assoc]
      · show (b.pushWs b.wslen t).linelen + lw b.word ≤ b.width
        simp [WB.pushWs]; omega
  · simp only [hz, if_false] at h
    injection h with h; subst h
    refine ⟨⟨by simp [hi.linelen_eq], rfl, ?_, hi.text_fit, hi.tag_ok⟩, ⟨rfl, rfl, rfl⟩⟩
    show b.linelen + lw b.word ≤ b.width
    omega

theorem disposeWs_inv (b b' : WB) (m : WS) (hi : b.Inv) (h : b.disposeWs m = .ok b') :
    b'.Inv ∧ Same b b' ∧ b'.word = b.word ∧ b'.wordlen = b.wordlen := by
  unfold WB.disposeWs at h
  by_cases hm : (!m.doWrap) = true
  · simp only [hm, if_true] at h
    by_cases h1 : b.wslen ≥ b.width - b.linelen
    · simp only [h1, if_true] at h; injection h with h; subst h
      exact ⟨⟨hi.linelen_eq, hi.wordlen_eq, hi.line_fit, hi.text_fit, fun hp => hi.tag_ok (by simp at hp; omega)⟩,
        ⟨rfl, rfl, rfl⟩, rfl, rfl⟩
    · simp only [h1, if_false] at h
      by_cases h2 : b.wslen > 0
      · simp only [h2, if_true] at h
        cases hst : b.spacetag with
        | none => simp [hst] at h
        | some t =>
          simp only [hst] at h; injection h with h; subst h
          have i1 := pushWs_inv b b.wslen t hi (by have := hi.line_fit; omega)
          exact ⟨⟨i1.linelen_eq, i1.wordlen_eq, i1.line_fit, i1.text_fit, fun hp => by simp at hp⟩, ⟨rfl, rfl, rfl⟩, rfl, rfl⟩
      · simp only [h2, if_false] at h; injection h with h; subst h
        exact ⟨hi, Same.refl b, rfl, rfl⟩
  · simp only [hm] at h; injection h with h; subst h
    exact ⟨⟨hi.linelen_eq, hi.wordlen_eq, hi.line_fit, hi.text_fit, fun hp => by simp at hp⟩, ⟨rfl, rfl, rfl⟩, rfl, rfl⟩

theorem startWordLine_inv (b b' : WB) (m : WS) (hi : b.Inv) (h : b.startWordLine m = .ok b') :
    b'.Inv ∧ Same b b' ∧ b'.word = b.word ∧ b'.wordlen = b.wordlen := by
  unfold WB.startWordLine at h
  simp only at h
  obtain ⟨i1, s1, l1, _, _, wd1, wl1⟩ := flushLine_inv b hi
  generalize hb3 : (if m = WS.pre then { b.flushLine with preWrapped := true } else b.flushLine) = b3 at h
  have i3 : b3.Inv ∧ Same b.flushLine b3 ∧ b3.linelen = 0 ∧ b3.word = b.flushLine.word ∧ b3.wordlen = b.flushLine.wordlen := by
    rw [← hb3]; split
    · exact ⟨⟨i1.linelen_eq, i1.wordlen_eq, i1.line_fit, i1.text_fit, i1.tag_ok⟩, ⟨rfl, rfl, rfl⟩, l1, rfl, rfl⟩
    · exact ⟨i1, Same.refl _, l1, rfl, rfl⟩
  cases hw : b3.wsLoop (b3.wslen + 1) with
  | error e => simp [hw, andThen] at h
  | ok b4 =>
    simp only [hw, andThen] at h
    injection h with h; subst h
    obtain ⟨r1, r2, r3, r4, r5⟩ := wsLoop_inv _ b3 b4 i3.1 i3.2.2.1 hw
    refine ⟨⟨r1.linelen_eq, r1.wordlen_eq, r1.line_fit, r1.text_fit, fun hp => by simp [r5] at hp⟩, ?_, ?_, ?_⟩
    · exact Same.trans s1 (Same.trans i3.2.1 (Same.trans r2 ⟨rfl, rfl, rfl⟩))
    · show b4.word = b.word; rw [r3, i3.2.2.2.1, wd1]
    · show b4.wordlen = b.wordlen; rw [r4, i3.2.2.2.2, wl1]

theorem flushWord_inv (b b' : WB) (m : WS) (hi : b.Inv) (h : b.flushWord m = .ok b') :
    b'.Inv ∧ Same b b' := by
  unfold WB.flushWord at h
  by_cases hn : b.word.noContent = true
  · simp only [hn, if_true] at h; injection h with h; subst h
    exact ⟨⟨hi.linelen_eq, by show 0 = lw b.word; rw [noContent_lw _ hn], hi.line_fit, hi.text_fit, hi.tag_ok⟩, ⟨rfl, rfl, rfl⟩⟩
  · simp only [hn] at h
    have hi0 : ({ b with preWrapped := false } : WB).Inv := ⟨hi.linelen_eq, hi.wordlen_eq, hi.line_fit, hi.text_fit, hi.tag_ok⟩
    have hnl : ¬ (b.linelen > b.width) := by have := hi.line_fit; omega
    simp only [hnl, if_false] at h
    by_cases hfit : b.wslen + b.wordlen ≤ b.width - b.linelen
    · simp only [hfit, if_true] at h
      obtain ⟨r1, r2⟩ := placeFits_inv _ b' hi0 hfit h
      exact ⟨r1, Same.trans (⟨rfl, rfl, rfl⟩ : Same b { b with preWrapped := false }) r2⟩
    · simp only [hfit, if_false] at h
      cases h1 : ({ b with preWrapped := false } : WB).disposeWs m with
      | error e => simp [h1, andThen] at h
      | ok b1 =>
        simp only [h1, andThen] at h
        obtain ⟨i1, s1, _, _⟩ := disposeWs_inv _ b1 m hi0 h1
        cases h2 : b1.startWordLine m with
        | error e => simp [h2] at h
        | ok b4 =>
          simp only [h2] at h
          obtain ⟨i4, s4, _, _⟩ := startWordLine_inv b1 b4 m i1 h2
          have i4' : ({ b4 with word := [], wordlen := 0 } : WB).Inv :=
            ⟨i4.linelen_eq, rfl, i4.line_fit, i4.text_fit, i4.tag_ok⟩
          cases h3 : ({ b4 with word := [], wordlen := 0 } : WB).hardWrap b.word with
          | error e => simp [h3] at h
          | ok b5 =>
            simp only [h3] at h
            injection h with h; subst h
            obtain ⟨i5, k5⟩ := hardWrap_inv _ b5 _ i4' h3
            have hw5 : b5.word = [] := k5.word
            refine ⟨⟨i5.linelen_eq, by show 0 = lw b5.word; rw [hw5]; rfl, i5.line_fit, i5.text_fit, i5.tag_ok⟩, ?_⟩
            exact Same.trans (⟨rfl, rfl, rfl⟩ : Same b { b with preWrapped := false })
              (Same.trans s1 (Same.trans s4 (Same.trans (⟨rfl, rfl, rfl⟩ : Same b4 { b4 with word := [], wordlen := 0 })
                (Same.trans k5.same ⟨rfl, rfl, rfl⟩))))

/-! tabs -/
theorem tabLoop_inv (tag : Tag) : ∀ (fuel : Nat) (b b' : WB) (pos : Nat) (one : Bool), b.Inv → b.linelen ≤ pos →
    b.tabLoop tag pos one fuel = .ok b' →
    b'.Inv ∧ Same b b' ∧ b'.word = b.word ∧ b'.wordlen = b.wordlen ∧ b'.wslen = b.wslen ∧ b'.spacetag = b.spacetag := by
  intro fuel
  induction fuel with
  | zero => intro b b' pos one _ _ h; simp [WB.tabLoop] at h
  | succ fuel ih =>
    intro b b' pos one hi hp h
    simp only [WB.tabLoop] at h
    by_cases hc : (pos % 8 != 0 || !one) = true
    · simp only [hc, if_true] at h
      by_cases hw : pos ≥ b.width
      · simp only [hw, if_true] at h
        obtain ⟨i1, s1, l1, w1, st1, wd1, wl1⟩ := flushLine_inv b hi
        obtain ⟨r1, r2, r3, r4, r5, r6⟩ := ih _ b' 0 one i1 (by omega) h
        exact ⟨r1, s1.trans r2, r3.trans wd1, r4.trans wl1, r5.trans w1, r6.trans st1⟩
      · simp only [hw, if_false] at h
        have i1 : ({ b with line := b.line ++ [spc tag], linelen := b.linelen + 1 } : WB).Inv :=
          ⟨by simp [hi.linelen_eq, spc, Elt.w, spaceCh], hi.wordlen_eq, by show b.linelen + 1 ≤ b.width; omega, hi.text_fit, hi.tag_ok⟩
        obtain ⟨r1, r2, r3, r4, r5, r6⟩ := ih _ b' (pos + 1) true i1 (by show b.linelen + 1 ≤ pos + 1; omega) h
        exact ⟨r1, Same.trans (⟨rfl, rfl, rfl⟩ : Same b { b with line := b.line ++ [spc tag], linelen := b.linelen + 1 }) r2, r3, r4, r5, r6⟩
    · simp only [hc] at h
      injection h with h; subst h
      exact ⟨hi, Same.refl b, rfl, rfl, rfl, rfl⟩

theorem addChar_inv (b b' : WB) (m : WS) (mt wt : Tag) (cur cur' : Bool) (c : Ch) (hi : b.Inv)
    (h : b.addChar m mt wt cur c = .ok (b', cur')) : b'.Inv ∧ Same b b' := by
  unfold WB.addChar at h
  simp only at h
  -- the optional flush
  generalize hr : (if (c.ws && !b.word.noContent) = true then b.flushWord m else Except.ok b) = r at h
  cases r with
  | error e => simp at h
  | ok b1 =>
    have hb1 : b1.Inv ∧ Same b b1 := by
      by_cases hf : (c.ws && !b.word.noContent) = true
      · simp only [hf, if_true] at hr; exact flushWord_inv b b1 m hi hr
      · simp only [hf] at hr; injection hr with hr; subst hr; exact ⟨hi, Same.refl b⟩
    obtain ⟨i1, s1⟩ := hb1
    simp only at h
    by_cases hws : c.ws = true
    · simp only [hws, if_true] at h
      by_cases hpre : m.preserve = true
      · simp only [hpre, if_true] at h
        by_cases hnl : c.cp = 10
        · simp only [hnl, if_true] at h
          injection h with h; simp only [Prod.mk.injEq] at h; obtain ⟨rfl, _⟩ := h
          obtain ⟨i2, s2, l2, _, _, wd2, wl2⟩ := forceFlush_inv b1 i1
          exact ⟨⟨i2.linelen_eq, i2.wordlen_eq, i2.line_fit, i2.text_fit, fun hp => by simp at hp⟩, s1.trans (s2.trans ⟨rfl, rfl, rfl⟩)⟩
        · simp only [hnl, if_false] at h
          by_cases htab : c.cp = 9
          · simp only [htab, if_true] at h
            cases ht : b1.tabLoop (if cur = true then wt else mt) (b1.linelen + b1.wslen) false (2 * b1.width + 20) with
            | error e => simp [ht] at h
            | ok b2 =>
              simp only [ht] at h
              injection h with h; simp only [Prod.mk.injEq] at h; obtain ⟨rfl, _⟩ := h
              obtain ⟨r1, r2, _⟩ := tabLoop_inv _ _ b1 b2 _ _ i1 (Nat.le_add_right _ _) ht
              exact ⟨r1, s1.trans r2⟩
          · simp only [htab, if_false] at h
            by_cases hct : c.ctrl = true
            · simp only [hct, if_true] at h
              injection h with h; simp only [Prod.mk.injEq] at h; obtain ⟨rfl, _⟩ := h
              exact ⟨i1, s1⟩
            · simp only [hct] at h
              by_cases hov : b1.linelen + b1.wslen + c.w > b1.width
              · simp only [hov, if_true] at h
                have i2 : ({ b1 with wslen := 0 } : WB).Inv := ⟨i1.linelen_eq, i1.wordlen_eq, i1.line_fit, i1.text_fit, fun hp => by simp at hp⟩
                obtain ⟨i3, s3, l3, w3, st3, wd3, wl3⟩ := flushLine_inv _ i2
                by_cases hdw : m.doWrap = true
                · simp only [hdw, if_true] at h
                  injection h with h; simp only [Prod.mk.injEq] at h; obtain ⟨rfl, _⟩ := h
                  exact ⟨⟨i3.linelen_eq, i3.wordlen_eq, i3.line_fit, i3.text_fit, i3.tag_ok⟩,
                    s1.trans ((⟨rfl, rfl, rfl⟩ : Same b1 { b1 with wslen := 0 }).trans (s3.trans ⟨rfl, rfl, rfl⟩))⟩
                · simp only [hdw] at h
                  injection h with h; simp only [Prod.mk.injEq] at h; obtain ⟨rfl, _⟩ := h
                  exact ⟨⟨i3.linelen_eq, i3.wordlen_eq, i3.line_fit, i3.text_fit, fun _ => by simp⟩,
                    s1.trans ((⟨rfl, rfl, rfl⟩ : Same b1 { b1 with wslen := 0 }).trans (s3.trans ⟨rfl, rfl, rfl⟩))⟩
              · simp only [hov, if_false] at h
                injection h with h; simp only [Prod.mk.injEq] at h; obtain ⟨rfl, _⟩ := h
                exact ⟨⟨i1.linelen_eq, i1.wordlen_eq, i1.line_fit, i1.text_fit, fun _ => by simp⟩, s1.trans ⟨rfl, rfl, rfl⟩⟩
      · simp only [hpre] at h
        by_cases hset : (decide (b1.linelen > 0) && decide (b1.wslen = 0)) = true
        · simp only [hset, if_true] at h
          injection h with h; simp only [Prod.mk.injEq] at h; obtain ⟨rfl, _⟩ := h
          exact ⟨⟨i1.linelen_eq, i1.wordlen_eq, i1.line_fit, i1.text_fit, fun _ => by simp⟩, s1.trans ⟨rfl, rfl, rfl⟩⟩
        · simp only [hset] at h
          injection h with h; simp only [Prod.mk.injEq] at h; obtain ⟨rfl, _⟩ := h
          exact ⟨i1, s1⟩
    · simp only [hws] at h
      by_cases hct : c.ctrl = true
      · simp only [hct, if_true] at h
        injection h with h; simp only [Prod.mk.injEq] at h; obtain ⟨rfl, _⟩ := h
        exact ⟨i1, s1⟩
      · simp only [hct] at h
        injection h with h; simp only [Prod.mk.injEq] at h; obtain ⟨rfl, _⟩ := h
        refine ⟨⟨i1.linelen_eq, ?_, i1.line_fit, i1.text_fit, i1.tag_ok⟩, s1.trans ⟨rfl, rfl, rfl⟩⟩
        show b1.wordlen + c.w = lw (b1.word ++ [Elt.cell _])
        simp [i1.wordlen_eq, Elt.w]

theorem addTextGo_inv (m : WS) (mt wt : Tag) (cs : List Ch) : ∀ (b b' : WB) (cur : Bool), b.Inv →
    b.addTextGo m mt wt cur cs = .ok b' → b'.Inv ∧ Same b b' := by
  induction cs with
  | nil => intro b b' cur hi h; simp [WB.addTextGo] at h; subst h; exact ⟨hi, Same.refl b⟩
  | cons c cs ih =>
    intro b b' cur hi h
    simp only [WB.addTextGo] at h
    cases hc : b.addChar m mt wt cur c with
    | error e => simp [hc] at h
    | ok r =>
      obtain ⟨b1, cur1⟩ := r
      simp only [hc] at h
      obtain ⟨i1, s1⟩ := addChar_inv b b1 m mt wt cur cur1 c hi hc
      obtain ⟨i2, s2⟩ := ih b1 b' cur1 i1 h
      exact ⟨i2, s1.trans s2⟩

theorem zeroGuard_noOverflow (b b' : WB) (cs : List Ch) (ho : b.overflow = false) (h : b.zeroGuard cs = .ok b') : b' = b := by
  unfold WB.zeroGuard at h
  by_cases hw : b.width = 0
  · simp only [hw, if_true, ho, Bool.false_eq_true, if_false] at h
    split at h
    · simp at h
    · injection h with h; exact h.symm
  · simp only [hw, if_false] at h
    injection h with h; exact h.symm

/-- `add_text` without overflow: the invariant is kept and width/flags are unchanged -/
theorem addText_inv (m : WS) (mt wt : Tag) (cs : List Ch) (b b' : WB) (hi : b.Inv) (ho : b.overflow = false)
    (h : b.addText m mt wt cs = .ok b') : b'.Inv ∧ Same b b' := by
  unfold WB.addText at h
  cases hz : b.zeroGuard cs with
  | error e => simp [hz, andThen] at h
  | ok b0 =>
    simp only [hz, andThen] at h
    have := zeroGuard_noOverflow b b0 cs ho hz
    subst this
    exact addTextGo_inv m mt wt cs b0 b' _ hi h

/-- a fresh block satisfies the invariant -/
theorem new_inv (w : Nat) (pad ov : Bool) : ({ width := w, padBlocks := pad, overflow := ov } : WB).Inv :=
  ⟨rfl, rfl, Nat.zero_le _, fun _ l hl => by simp at hl, fun hp => by simp at hp⟩

/-! the final rescue of markers left alone on the current line -/

theorem flushLine_line_noContent (b : WB) : b.flushLine.line.noContent = true := by
  unfold WB.flushLine
  split
  · assumption
  · rfl

theorem dropLast_append_of_getLast? {α : Type} : ∀ (l : List α) (a : α), l.getLast? = some a → l.dropLast ++ [a] = l := by
  intro l
  induction l with
  | nil => intro a h; simp at h
  | cons x xs ih =>
    intro a h
    cases xs with
    | nil => simp at h; subst h; rfl
    | cons y ys =>
      have h' : (y :: ys).getLast? = some a := by simpa [List.getLast?_cons_cons] using h
      have := ih a h'
      simp only [List.dropLast_cons₂, List.cons_append]
      rw [this]

theorem rescueMarks_mem (text : List TLine) (line : TLine) (l : TLine) (h : l ∈ rescueMarks text line) :
    l ∈ text ∨ ∃ last, last ∈ text ∧ l = last ++ line := by
  unfold rescueMarks at h
  split at h
  · rename_i last hl
    simp only [List.mem_append, List.mem_singleton] at h
    rcases h with h | h
    · exact Or.inl (List.dropLast_subset _ h)
    · exact Or.inr ⟨last, List.mem_of_getLast? hl, h⟩
  · exact Or.inl h

/-- C02 on the wrap layer (every white-space mode, tabs, padding, any sequence of `add_text` calls is covered by
    `addTextGo_inv`): when overflow is not allowed, every line a block emits fits its width. -/
theorem finish_lines_fit (b : WB) (ls : List TLine) (hi : b.Inv) (ho : b.overflow = false)
    (h : b.finish = .ok ls) : ∀ l ∈ ls, lw l ≤ b.width := by
  unfold WB.finish at h
  cases hf : b.flushWord .normal with
  | error e => simp [hf, andThen] at h
  | ok b1 =>
    simp only [hf, andThen] at h
    injection h with h; subst h
    obtain ⟨i1, s1⟩ := flushWord_inv b b1 .normal hi hf
    obtain ⟨i2, s2, _⟩ := flushLine_inv b1 i1
    have hfit : ∀ l ∈ b1.flushLine.text, lw l ≤ b.width := by
      intro l hl
      have := i2.text_fit (by rw [s2.overflow, s1.overflow]; exact ho) l hl
      rw [s2.width, s1.width] at this
      exact this
    intro l hl
    rcases rescueMarks_mem _ _ l hl with h1 | ⟨last, h1, rfl⟩
    · exact hfit l h1
    · rw [lw_append, noContent_lw _ (flushLine_line_noContent b1)]
      exact hfit last h1

end H2T
