//! C03: document text is preserved — nothing lost, duplicated, reordered or invented.

use super::common::*;
use crate::cfg::Deco;
use crate::domwalk::{self, Drop};
use crate::gen::{self, Knobs};
use crate::obs::{line_text, Obs};
use crate::util::R;
use crate::{Case, Prop, Tier, Viol};
use std::collections::BTreeMap;

pub struct C03;

/// the token alphabet of the generator in `unique` mode: lower-case ASCII letters, 字, U+0301
pub fn is_tok(c: char) -> bool {
    c.is_ascii_lowercase() || c == '字' || c == '\u{301}'
}
/// everything a built-in decorator, the layout or the footnote list may add
fn is_markup(c: char) -> bool {
    c.is_whitespace()
        || c.is_ascii_digit()
        || matches!(c, '*' | '[' | ']' | '`' | '^' | '{' | '}' | '#' | '>' | '.' | '-' | ':' | '/' | '─' | '┬' | '┴' | '┼' | '│' | '\u{336}')
}

fn knobs() -> Knobs {
    let mut k = Knobs::all().no_css().unique();
    k.href_digits = true;
    k.hidden_elems = true;
    k.digits = false;
    k
}

fn multiset(v: &[char]) -> BTreeMap<char, i64> {
    let mut m = BTreeMap::new();
    for c in v {
        *m.entry(*c).or_insert(0) += 1;
    }
    m
}

impl Prop for C03 {
    fn id(&self) -> &'static str {
        "C03"
    }
    fn rule(&self) -> &'static str {
        "G-doc with unique letter-only tokens (incl. wide and combining characters), hrefs without letters, hidden script/style/link elements; widths 1..200; plain/rich/trivial with random option mixes that render Ok; plus byte-mutated documents (footnotes off); non-trivial = Ok with >= 2 lines and >= 2 element kinds"
    }
    fn cases(&self, r: &mut R, tier: Tier) -> Vec<Case> {
        let n = scale(tier, 2500, 40000);
        let mut v = Vec::new();
        for i in 0..n {
            let html = gen_doc(r, knobs()).0;
            let mutated = i % 8 == 7;
            let misnested = i % 8 == 3;
            let bytes = if mutated { gen::mutate(r, html.as_bytes()) } else if misnested { gen::misnest(r, &html).into_bytes() } else { html.into_bytes() };
            for _ in 0..(if tier == Tier::Quick { 3 } else { 6 }) {
                let mut cfg = mk_cfg(r, false);
                cfg.overflow = r.p(10);
                if mutated {
                    cfg.footnotes = false;
                }
                let w = if r.p(50) { 1 + r.u(20) } else { 1 + r.u(200) };
                v.push(case(bytes.clone(), cfg, w, if mutated { "g-mut" } else if misnested { "g-misnest" } else { "g-doc" }));
            }
        }
        // sparse tables (columns empty in every row, short cells) at narrow widths, between other blocks
        let ns = scale(tier, 300, 5000);
        for _ in 0..ns {
            let t = super::tables::gen_sparse_table(r);
            let html = if r.p(50) { t.html() } else { format!("<p>before</p>{}<p>after</p>", t.html()) };
            for w in 1..=14usize {
                if tier == Tier::Quick && r.p(50) {
                    continue;
                }
                let mut cfg = mk_cfg(r, false);
                cfg.overflow = false;
                v.push(case(html.clone().into_bytes(), cfg, w, "g-doc"));
            }
        }
        v
    }
    fn oracle(&self, c: &Case, o: &Obs) -> Vec<Viol> {
        let mut out = vec![];
        let ls = match o {
            Obs::Ok(ls) => ls,
            _ => return out,
        };
        let dom = domwalk::tree(&c.html);
        let flow = domwalk::flow_text(&dom);
        let v_full: Vec<char> = flow.iter().filter(|(ch, _)| is_tok(*ch)).map(|x| x.0).collect();
        let v_excl: Vec<char> = flow.iter().filter(|(ch, d)| is_tok(*ch) && *d == Drop::No).map(|x| x.0).collect();
        let text: String = ls.iter().map(|l| line_text(l)).collect::<Vec<_>>().join("\n");
        let got: Vec<char> = text.chars().filter(|ch| is_tok(*ch)).collect();
        let has_table = dom.has_elem("table");
        let sequence = !has_table || c.cfg.raw;
        // nothing invented: in grammar-generated documents every other character is markup
        if c.stream == "g-doc" {
            if let Some(bad) = text.chars().find(|ch| !is_tok(*ch) && !is_markup(*ch)) {
                out.push(viol(format!("output contains {:?} (U+{:04X}), which is neither document text nor markup", bad, bad as u32)));
                return out;
            }
        }
        let ok = if sequence { got == v_full } else { multiset(&got) == multiset(&v_full) };
        if ok {
            return out;
        }
        // classify against the known drop regions: V_excl ⊆ got ⊆ V_full
        let (mg, mf, me) = (multiset(&got), multiset(&v_full), multiset(&v_excl));
        let sub = |a: &BTreeMap<char, i64>, b: &BTreeMap<char, i64>| a.iter().all(|(k, n)| b.get(k).copied().unwrap_or(0) >= *n);
        let is_subseq = |a: &[char], b: &[char]| {
            let mut it = b.iter();
            a.iter().all(|x| it.any(|y| y == x))
        };
        let between = if sequence { is_subseq(&v_excl, &got) && is_subseq(&got, &v_full) } else { sub(&me, &mg) && sub(&mg, &mf) };
        if between && v_excl.len() < v_full.len() {
            let kinds: Vec<String> = {
                let mut s: Vec<String> = flow.iter().filter(|(ch, d)| is_tok(*ch) && *d != Drop::No).map(|x| format!("{:?}", x.1)).collect();
                s.sort();
                s.dedup();
                s
            };
            out.push(known(format!("text inside {:?} regions is dropped", kinds), "C03-known-drop-regions"));
            return out;
        }
        // known finding: with min_wrap_width(0) every column's minimum width is 0, the table never falls back to the
        // stacked layout and the shrink loop may take a column with text down to width 0; its cells are dropped
        if c.cfg.min_wrap == 0 && has_table && !c.cfg.raw && sub(&mg, &mf) {
            out.push(known("a table column with text is shrunk to width 0 under min_wrap_width(0) and its cells are dropped".to_string(), "C03-min-wrap-0-zero-width-column"));
            return out;
        }
        // describe the difference: first position where the sequences part, plus the multiset balance
        let first = got.iter().zip(v_full.iter()).position(|(a, b)| a != b).unwrap_or(got.len().min(v_full.len()));
        let ctx = |v: &Vec<char>| -> String { v[first.saturating_sub(12)..(first + 12).min(v.len())].iter().collect() };
        let mut bal: Vec<String> = Vec::new();
        for (k, n) in &mf {
            let g = mg.get(k).copied().unwrap_or(0);
            if g != *n {
                bal.push(format!("{k:?}: document {n}, output {g}"));
            }
        }
        for (k, g) in &mg {
            if !mf.contains_key(k) {
                bal.push(format!("{k:?}: document 0, output {g}"));
            }
        }
        out.push(viol(format!("{} of the document's visible characters differs at token character {first}: output …{:?}…, document …{:?}…; counts: {}", if sequence { "sequence" } else { "multiset" }, ctx(&got), ctx(&v_full), bal.join("; "))));
        out
    }
    fn project(&self, c: &Case, o: &Obs) -> String {
        // what the property speaks about: the non-whitespace stream as a sequence, or — for side-by-side tables,
        // where lines of different cells interleave — as a multiset
        match o.text_lines() {
            Some(ls) => {
                let mut v: Vec<char> = ls.join("\n").chars().filter(|c| !c.is_whitespace()).collect();
                let side_by_side = !c.cfg.raw && c.html.windows(6).any(|w| w.eq_ignore_ascii_case(b"<table"));
                if side_by_side {
                    v.sort();
                }
                v.into_iter().collect()
            }
            None => o.class().into(),
        }
    }
}
