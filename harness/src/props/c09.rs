//! C09: rich annotations mirror element nesting exactly.

use super::common::*;
use super::css_common::*;
use crate::cfg::{Cfg, Deco, Route};
use crate::domwalk::{self, N};
use crate::gen::Knobs;
use crate::obs::{El, Obs};
use crate::util::R;
use crate::{run, Case, Prop, Tier, Viol};

pub struct C09;

const CSS_BLOCKS: &str = "em{color:#010203} li{color:#040506} td{background-color:#070809} table{color:#0a0b0c} h2{color:#0d0e0f} tr{background-color:#101112}";
const CSS_INLINE: &str = "span{background-color:#212223} strong{color:#242526} a{color:#272829} code{background-color:#2a2b2c} b{color:#2d2e2f} i{background-color:#303132}";

/// the colour annotation a rule of the fixed sheets gives an element (F = Colour, B = BgColour)
fn css_tag(name: &str, inline_css: bool) -> Option<String> {
    match name {
        "em" => Some("F1.2.3".into()),
        "li" => Some("F4.5.6".into()),
        "td" => Some("B7.8.9".into()),
        "table" => Some("F10.11.12".into()),
        "tr" => Some("B16.17.18".into()),
        "h2" => Some("F13.14.15".into()),
        "span" if inline_css => Some("B33.34.35".into()),
        "strong" if inline_css => Some("F36.37.38".into()),
        "a" if inline_css => Some("F39.40.41".into()),
        "code" if inline_css => Some("B42.43.44".into()),
        "b" if inline_css => Some("F45.46.47".into()),
        "i" if inline_css => Some("B48.49.50".into()),
        _ => None,
    }
}

fn knobs() -> Knobs {
    let mut k = Knobs::all().no_css().unique();
    k.href_digits = true;
    k.digits = false;
    k.sup = false;
    k.weird_colspan = false;
    k.pre_inline = true;
    k
}

fn cps(s: &str) -> String {
    s.chars().map(|c| (c as u32).to_string()).collect::<Vec<_>>().join(",")
}

/// the annotation an element contributes to its descendants' text, if any (`pre_cont` is decided per piece)
fn ann_of(n: &N) -> Option<String> {
    match n.name() {
        "em" | "i" | "ins" | "dt" => Some("E".into()),
        "strong" => Some("S".into()),
        "s" | "del" => Some("K".into()),
        "code" => Some("C".into()),
        "a" => n.attr("href").map(|h| format!("L{}", cps(h))),
        "img" => n.attr("src").map(|h| format!("I{}", cps(h))),
        "sup" => Some("D".into()),
        _ => None,
    }
}

impl Prop for C09 {
    fn id(&self) -> &'static str {
        "C09"
    }
    fn rule(&self) -> &'static str {
        "G-doc with unique tokens under random nestings of em/i/ins/strong/s/del/code/a/img/pre/span inside paragraphs, lists, quotes, headings, definition lists and table cells (raw mode when a table is present so that order is preserved), CSS colours on some; widths 1..100, rich decorator: per token character, tag vector == annotations of the enclosing elements outermost first (+ Preformat inside pre); concatenated pieces == string output; non-trivial = some character carries >= 2 annotations"
    }
    fn cases(&self, r: &mut R, tier: Tier) -> Vec<Case> {
        let n = scale(tier, 3000, 40000);
        let mut v = Vec::new();
        for _ in 0..n {
            let tables = r.p(30);
            let mut k = knobs();
            if !tables {
                k = k.no_tables();
            }
            let mut html = gen_doc(r, k).0;
            // a table with a spacer row (every cell empty) between text rows, followed by annotated text: whatever the row
            // pushed must be popped although the row renders nothing (added after the seeded change
            // C09-empty-row-early-return-skips-unwind)
            if tables && r.p(35) {
                let spacer = *r.pick(&[&"<tr><td></td><td></td></tr>", &"<tr><td> </td><td>\n</td></tr>", &"<tr></tr>", &"<tr><td></td></tr>"]);
                html.push_str(&format!("<table><tr><td>qra</td><td>qrb</td></tr>{spacer}<tr><td>qrc</td><td><em>qrd</em></td></tr></table><p>qre <em>qrf</em></p>"));
            }
            // a <pre> element in pre-wrap mode (CSS on the element) holding words, runs of blanks and inline annotating
            // elements: whether the text after a blank that overflowed the line starts with Preformat(true) or (false)
            // depends on `pre_wrapped` (added after a mutation of that flag in the pre-wrap branch of add_text survived)
            let prewrap = !tables && r.p(8);
            if prewrap {
                let mut s = String::from(*r.pick(&[&"<pre style=\"white-space:pre-wrap\">", &"<pre style=\"white-space: pre-wrap\">", &"<pre><span style=\"white-space:pre-wrap\">"]));
                for i in 0..2 + r.b(7) {
                    let w = format!("qp{}{}", (b'a' + i as u8) as char, "x".repeat(r.u(4)));
                    match r.b(5) {
                        0 => s.push_str(&format!("<em>{w}</em>")),
                        1 => s.push_str(&format!("<b>{w}</b>")),
                        2 => s.push_str(&format!("<a href=\"/{i}\">{w}</a>")),
                        _ => s.push_str(&w),
                    }
                    s.push_str(*r.pick(&[&" ", &" ", &"  ", &"   ", &"\n", &" \n", &""]));
                }
                s.push_str("</pre><p>qzz <em>qzy</em></p>");
                html = s;
            }
            for _ in 0..(if tier == Tier::Quick { 2 } else { 5 }) {
                let mut cfg = Cfg::rich();
                if prewrap {
                    cfg.use_doc_css = true;
                }
                cfg.raw = tables && r.p(70);
                cfg.footnotes = r.p(20);
                cfg.pad = r.p(10);
                cfg.nostrike = r.p(30);
                if r.p(30) {
                    // the second sheet also colours the neutral and the annotating inline elements, so that colours nest inside
                    // one inline flow (span > strong, a > span, ...) and foreground/background alternate (added after the
                    // seeded change C09-span-collapsed-into-only-child was seen by the correspondence only)
                    cfg.user_css = Some(if r.p(50) { CSS_BLOCKS.into() } else { format!("{CSS_BLOCKS} {CSS_INLINE}") });
                }
                let w = if r.p(40) || prewrap { 1 + r.u(16) } else { 1 + r.u(100) };
                v.push(case(html.clone(), cfg, w, if prewrap { "pre-wrap" } else if tables { "tables" } else { "blocks" }));
            }
        }
        v
    }
    fn oracle(&self, c: &Case, o: &Obs) -> Vec<Viol> {
        let mut out = vec![];
        let ls = match o.lines() {
            Some(l) => l,
            None => return out,
        };
        // concatenating the pieces of each line gives the string output with the same configuration
        let mut cs = c.cfg.clone();
        cs.route = Route::Str;
        let so = run(&c.html, &cs, c.width);
        if so.text_lines() != o.text_lines() {
            out.push(viol(format!("tagged lines {:?} do not concatenate to the string output {:?}", o.text_lines(), so.text_lines())));
            return out;
        }
        if c.cfg.deco != Deco::Rich {
            return out;
        }
        let dom = domwalk::tree(&c.html);
        if !sequence_ok(&dom, c.cfg.raw) {
            // side-by-side tables reorder text, so positions cannot be aligned; the generator's tokens are unique words, so
            // every word that occurs exactly once in the document and exactly once (unbroken) in the output is checked
            // against the annotations of its enclosing elements
            let f = flat_of(&dom);
            let css = c.cfg.user_css.is_some();
            let inline_css = c.cfg.user_css.as_deref().map(|x| x.contains("span{")).unwrap_or(false);
            let mut doc_words: Vec<(String, Vec<usize>)> = Vec::new();
            let mut cur: (String, Vec<usize>) = (String::new(), Vec::new());
            // `all` = every token character of the document in flow order, words separated by '\u{1}': an output word that is
            // a piece of a longer run (hard-wrapped, or two elements' texts running together) occurs in it more than once
            // or inside a longer run, and is skipped
            let mut all = String::from("\u{1}");
            for (ch, e) in f.flow.iter() {
                if super::c03::is_tok(*ch) {
                    if cur.1.last().map(|l| l != e).unwrap_or(false) {
                        doc_words.push(std::mem::take(&mut cur));
                    }
                    cur.0.push(*ch);
                    cur.1.push(*e);
                    all.push(*ch);
                } else {
                    if !cur.0.is_empty() {
                        doc_words.push(std::mem::take(&mut cur));
                    }
                    if !all.ends_with('\u{1}') {
                        all.push('\u{1}');
                    }
                }
            }
            all.push('\u{1}');
            if !cur.0.is_empty() {
                doc_words.push(cur);
            }
            let mut out_words: Vec<(String, Vec<String>)> = Vec::new();
            for l in ls {
                let mut w: (String, Vec<String>) = (String::new(), Vec::new());
                for e in l.iter() {
                    match e {
                        El::Ch(ch, t) if super::c03::is_tok(*ch) => {
                            w.0.push(*ch);
                            w.1.push(t.clone());
                        }
                        El::Frag(_) => {}
                        _ => {
                            if !w.0.is_empty() {
                                out_words.push(std::mem::take(&mut w));
                            }
                        }
                    }
                }
                if !w.0.is_empty() {
                    out_words.push(w);
                }
            }
            if std::env::var("H2T_DEBUG").is_ok() {
                eprintln!("doc_words={:?}\nout_words={:?}", doc_words, out_words.iter().map(|x| &x.0).collect::<Vec<_>>());
            }
            for (word, tags) in &out_words {
                if word.chars().count() < 3 {
                    continue;
                }
                let d: Vec<&(String, Vec<usize>)> = doc_words.iter().filter(|x| &x.0 == word).collect();
                if d.len() != 1 || out_words.iter().filter(|x| &x.0 == word).count() != 1 {
                    continue;
                }
                // the word stands alone in the document (delimited on both sides) and occurs nowhere else, not even inside
                // a longer run
                if all.matches(word.as_str()).count() != 1 || !all.contains(&format!("\u{1}{word}\u{1}")) {
                    continue;
                }
                for (i, e) in d[0].1.iter().enumerate() {
                    if *e == usize::MAX {
                        continue;
                    }
                    let mut want: Vec<String> = Vec::new();
                    let mut in_pre = false;
                    for x in f.chain(*e) {
                        let n = f.elems[x].node;
                        if css {
                            if let Some(t) = css_tag(n.name(), inline_css) {
                                want.push(t);
                            }
                        }
                        if let Some(a) = ann_of(n) {
                            want.push(a);
                        }
                        if n.is("pre") {
                            in_pre = true;
                        }
                    }
                    let mut got_tags: Vec<String> = tags[i].split(';').filter(|x| !x.is_empty()).map(|x| x.to_string()).collect();
                    if in_pre && matches!(got_tags.last().map(|s| s.as_str()), Some("P") | Some("Q")) {
                        got_tags.pop();
                    }
                    if got_tags != want {
                        out.push(viol(format!("word {:?} (side-by-side table document), character #{i}: annotations {:?}, enclosing elements give {:?}", word, tags[i], want)));
                        return out;
                    }
                }
            }
            return out;
        }
        let f = flat_of(&dom);
        let toks = doc_tokens(&f);
        let got: Vec<(char, Vec<String>)> = ls
            .iter()
            .flat_map(|l| l.iter())
            .filter_map(|e| match e {
                El::Ch(ch, t) if super::c03::is_tok(*ch) => Some((*ch, t.split(';').filter(|x| !x.is_empty()).map(|x| x.to_string()).collect())),
                _ => None,
            })
            .collect();
        if toks.len() != got.len() || toks.iter().zip(&got).any(|(a, b)| a.0 != b.0) {
            return out; // text alignment is C03's business
        }
        let css = c.cfg.user_css.is_some();
        let inline_css = c.cfg.user_css.as_deref().map(|x| x.contains("span{")).unwrap_or(false);
        for (i, ((ch, e), (_, tags))) in toks.iter().zip(&got).enumerate() {
            let mut want: Vec<String> = Vec::new();
            let mut in_pre = false;
            if *e != usize::MAX {
                for x in f.chain(*e) {
                    let n = f.elems[x].node;
                    if css {
                        if let Some(t) = css_tag(n.name(), inline_css) {
                            want.push(t);
                        }
                    }
                    if let Some(a) = ann_of(n) {
                        want.push(a);
                    }
                    if n.is("pre") {
                        in_pre = true;
                    }
                }
            }
            // Preformat(first|cont) is appended innermost; which of the two depends on wrapping
            let mut got_tags = tags.clone();
            if in_pre {
                match got_tags.last().map(|s| s.as_str()) {
                    Some("P") | Some("Q") => {
                        got_tags.pop();
                    }
                    _ => {
                        out.push(viol(format!("token character #{i} {:?} inside <pre> lacks a Preformat annotation: {:?}", ch, tags)));
                        return out;
                    }
                }
            }
            if got_tags != want {
                out.push(viol(format!("token character #{i} {:?}: annotations {:?}, enclosing elements give {:?}", ch, tags, want)));
                return out;
            }
        }
        // non-token characters (prefixes, borders, padding) never carry inline annotations of a finished element:
        // a line that consists only of a prefix/border has no E/S/K/C/L/I tag
        // (only when the document's own text consists of token characters and whitespace: otherwise a '<' or '*' may be text)
        let pure = f.flow.iter().all(|(ch, _)| super::c03::is_tok(*ch) || ch.is_whitespace());
        for l in ls.iter().filter(|_| pure) {
            let has_tok = l.iter().any(|e| matches!(e, El::Ch(ch, _) if super::c03::is_tok(*ch)));
            if !has_tok {
                if let Some(El::Ch(ch, t)) = l.iter().find(|e| matches!(e, El::Ch(ch, t) if !ch.is_whitespace() && *ch != '\u{336}' && t.split(';').any(|x| matches!(x.chars().next(), Some('E' | 'S' | 'K' | 'C' | 'L' | 'I'))) && !"[]*`^{}0123456789:/".contains(*ch))) {
                    out.push(viol(format!("layout character {:?} on a line without document text carries inline annotations {:?}", ch, t)));
                    return out;
                }
            }
        }
        out
    }
    fn project(&self, _c: &Case, o: &Obs) -> String {
        whole(o)
    }
    fn nontrivial(&self, _c: &Case, o: &Obs) -> bool {
        o.lines().map(|ls| ls.iter().any(|l| l.iter().any(|e| matches!(e, El::Ch(_, t) if t.contains(';'))))).unwrap_or(false)
    }
}
