//! C17: CSS never breaks rendering; insignificant CSS syntax does not matter.

use super::common::*;
use crate::cfg::{Cfg, Route};
use crate::gen::{self, Knobs};
use crate::obs::{self, Obs};
use crate::refcss::{self, Sel};
use crate::util::R;
use crate::{run, Case, Prop, Tier, Viol};

pub struct C17;

const ELEMS: &[&str] = &["p", "div", "li", "strong", "em", "span", "ul", "blockquote", "body", "i", "code", "h2", "td", "a"];

#[derive(Clone)]
struct SRule {
    sels: Vec<Sel>,
    decls: Vec<(String, String, bool)>,
}

fn gen_sheet(r: &mut R) -> Vec<SRule> {
    let n = 1 + r.u(5);
    (0..n)
        .map(|_| {
            let sels = (0..1 + r.u(2)).map(|_| refcss::gen_sel(r, ELEMS, 3)).collect();
            let nd = 1 + r.u(3);
            let decls = (0..nd)
                .map(|_| {
                    let (p, v) = match r.b(8) {
                        0..=2 => ("color", format!("#{:02x}{:02x}{:02x}", r.b(256), r.b(256), 0xa0 + r.b(16))),
                        3 => ("color", r.pick(&gen::COLOUR_NAMES[..17]).to_string()),
                        4 => ("background-color", format!("#{:x}{:x}{:x}", r.b(16), 10 + r.b(6), r.b(16))),
                        5 => ("display", r.pick(&["none", "block"]).to_string()),
                        6 => ("white-space", r.pick(&["pre", "normal", "pre-wrap"]).to_string()),
                        _ => ("color", format!("rgb({},{},{})", r.b(256), r.b(256), r.b(256))),
                    };
                    (p.to_string(), v, r.p(20))
                })
                .collect();
            SRule { sels, decls }
        })
        .collect()
}

const JUNK_AT: &[&str] = &["@media print { p{color:red;} }", "@import 'x';", "@charset \"u\";", "@x [a(b)] {c}", "@font-face{font-family:x;}", "@media (a:b) and (c) { }", "@x # ;", "@import url(https://f.example/css2?family=R:wght@400;700&display=swap);", "@import url(data:text/css;base64,cHt9);", "@x-junk [a;b] foo;", "@y (a;b) [c;(d;e)] ;", "@z f(a;b){q{r:s;}}"];
const JUNK_DECL: &[&str] = &[
    "margin:1px solid", "font-size:12pt", "-x-foo:a(b(c))", "border:50%", "x:url(a)", "line-height:1.5em",
    // values of ignored properties with delimiters inside strings, comments and brackets
    "quotes:\"a;b\" '}'", "font-family:\"x;y\",serif", "list-style-type:'{'", "margin:0 /* ; */ 1px", "border:a /* } */ b", "-x-foo:f(a;b)", "quotes:\"\\\";\" 'z'",
];
const JUNK_RULESET: &[&str] = &["%%% {x:y;}", "p{{}}", ".é{color:red;}"];

/// print a sheet; `variant` = None gives the canonical form
fn print_sheet(r: &mut R, sheet: &[SRule], variant: Option<u64>) -> String {
    let mut s = String::new();
    // selectors are printed once with a fixed sub-generator so that base and variant use the same selector text
    let v = variant.unwrap_or(0);
    let ws = |r: &mut R, s: &mut String| match v {
        2 => s.push_str(r.pick(&[" ", "\n  ", "\t", "  "])),
        3 => s.push_str(r.pick(&["/* c */", " /**/ ", "/* } { ; */", "/***/", "/* x **/", "/****/", "/** doc */", "/* a * b */", "/*/ */", "/* *** */"])),
        _ => {}
    };
    for rule in sheet {
        if v == 5 && r.p(50) {
            s.push_str(r.pick(JUNK_AT));
            s.push('\n');
        }
        if v == 8 && r.p(50) {
            s.push_str(r.pick(JUNK_RULESET));
            s.push('\n');
        }
        let mut selr = R(77);
        let sel_txt: Vec<String> = rule.sels.iter().map(|x| x.print(&mut selr)).collect();
        s.push_str(&sel_txt.join(","));
        ws(r, &mut s);
        s.push('{');
        ws(r, &mut s);
        let n = rule.decls.len();
        for (i, (p, val, imp)) in rule.decls.iter().enumerate() {
            if v == 6 && r.p(50) {
                s.push_str(r.pick(JUNK_DECL));
                s.push(';');
            }
            let pn = if v == 7 && r.p(60) { p.to_uppercase() } else { p.clone() };
            let vv = if v == 7 && val.starts_with('#') { val.to_uppercase() } else { val.clone() };
            s.push_str(&pn);
            ws(r, &mut s);
            s.push(':');
            ws(r, &mut s);
            s.push_str(&vv);
            if *imp {
                s.push_str(if v == 2 { " ! important" } else if v == 1 { "!important" } else { " !important" });
            }
            ws(r, &mut s);
            let last = i + 1 == n;
            match v {
                4 if last => {
                    if r.p(50) {
                        s.push_str(";;");
                    } // else: final ';' dropped
                }
                4 if r.p(30) => s.push_str(";;"),
                _ => s.push(';'),
            }
            ws(r, &mut s);
        }
        s.push('}');
        if v == 2 {
            s.push('\n');
        }
    }
    if v == 5 && r.p(50) {
        s.push_str(r.pick(JUNK_AT));
    }
    s
}

const VARIANTS: &[&str] = &["", "minified", "pretty-printed", "commented", "final-semicolon", "junk-at-rules", "junk-declarations", "letter-case", "junk-rulesets"];

fn knobs() -> Knobs {
    let mut k = Knobs::all().unique();
    k.classes_only = true;
    k.href_digits = true;
    k.digits = false;
    k
}

impl Prop for C17 {
    fn id(&self) -> &'static str {
        "C17"
    }
    fn rule(&self) -> &'static str {
        "(a) strings s from {token soup, random bytes as UTF-8, truncated valid sheets, generated sheets} into add_css/add_agent_css/<style>/style=: outcome Ok or CssParseError, never panic/hang, and <style>s</style> leaves the text stream unchanged (display/content/height/overflow rules excepted); (b) valid sheets x syntactic variants {minified, pretty, commented, final ';' dropped/doubled, junk at-rules, junk declarations, letter case, junk rule sets}: identical rich output; non-trivial = the sheet colours or hides something"
    }
    fn cases(&self, r: &mut R, tier: Tier) -> Vec<Case> {
        let mut v = Vec::new();
        // (a) robustness
        let n = scale(tier, 3000, 80000);
        for _ in 0..n {
            let s: String = match r.b(5) {
                0 => gen::css_soup(r),
                1 => {
                    let bytes: Vec<u8> = (0..r.b(30)).map(|_| if r.p(70) { 32 + r.b(95) as u8 } else { r.b(256) as u8 }).collect();
                    String::from_utf8_lossy(&bytes).to_string()
                }
                2 => {
                    let s = gen::sheet(r);
                    let cut = r.u(s.len() + 1);
                    let mut k = cut;
                    while !s.is_char_boundary(k) {
                        k -= 1;
                    }
                    s[..k].to_string()
                }
                3 => gen::sheet(r),
                _ => {
                    let t = gen::sheet(r);
                    String::from_utf8_lossy(&gen::mutate(r, t.as_bytes())).to_string()
                }
            };
            // inputs that end inside a token: an escape, a string, a comment, a function (added after a mutation of the
            // string scanner's "backslash at the end" case survived)
            let s = if r.p(12) { format!("{s}{}", r.pick(&["\"a\\", "'\\", "\"a\\\n", "p{content:\"x\\", "\\", "/*", "/* *", "url(", "p{color:rgb(", "\"", "'a", "@x \"\\", "p{color:red;content:'\\", ";color:#00ff00;content:'\\", ";color:#00ff00;x:\"\\", "color:#0000ff;quotes:'a\\", "p{color:\\", "@x \\", "@media \\\n", "p{x:a \\\n b}", "p{color:red} @y (\\"])) } else { s };
            let mut cfg = Cfg::rich();
            let html;
            let stream;
            match r.b(5) {
                4 => {
                    // several <style> elements: each is parsed on its own, a malformed one must not swallow the others
                    cfg.use_doc_css = true;
                    let safe = s.replace("</", "< /").replace('<', " ");
                    let good = "<style>.b{color:#0000ff} em{color:#010203} #i1{background-color:#040506}</style>";
                    html = match r.b(3) {
                        0 => format!("<style>{safe}</style>{good}<div class=a><p id=i1>qb <em>qc</em></p><ul><li>qd<li class=b>qf</ul></div>"),
                        1 => format!("{good}<style>{safe}</style><div class=a><p id=i1>qb <em>qc</em></p><ul><li>qd<li class=b>qf</ul></div>"),
                        _ => format!("<style>{safe}</style><div class=a><p id=i1>qb <em>qc</em></p>{good}<ul><li>qd<li class=b>qf</ul></div><style>{safe}</style>"),
                    };
                    stream = "style-elements";
                }
                0 => {
                    cfg.user_css = Some(s);
                    html = "<div class=a><p id=i1>qb <em>qc</em></p><ul><li>qd<li class=b>qf</ul></div>".to_string();
                    stream = "add_css";
                }
                1 => {
                    cfg.agent_css = Some(s);
                    html = "<div class=a><p id=i1>qb <em>qc</em></p><ul><li>qd<li class=b>qf</ul></div>".to_string();
                    stream = "add_agent_css";
                }
                2 => {
                    cfg.use_doc_css = true;
                    let safe = s.replace("</", "< /").replace('<', " ");
                    html = format!("<style>{safe}</style><div class=a><p id=i1>qb <em>qc</em></p><ul><li>qd<li class=b>qf</ul></div>");
                    stream = "style-element";
                }
                _ => {
                    cfg.use_doc_css = true;
                    // a style attribute holds declarations, not rule sets: in four cases of ten a generated declaration
                    // list, possibly ending inside a string or an escape
                    let s = if r.p(40) {
                        let mut d: Vec<String> = (0..1 + r.b(3)).map(|_| gen::decl(r)).collect();
                        if r.p(40) {
                            d.push(r.pick(&["content:'\\", "x:\"\\", "quotes:'a\\", "x:'a", "x:url(", "x:/*", "color:rgb(1,2", "\\", "x:\\", "x:a \\\n", "color:\\"]).to_string());
                        }
                        d.join(";")
                    } else {
                        s
                    };
                    let safe = s.replace('"', "'").replace('<', " ").replace('&', " ");
                    html = format!("<div class=a><p id=i1 style=\"{safe}\">qb <em>qc</em></p><ul><li>qd<li class=b>qf</ul></div>");
                    stream = "style-attribute";
                }
            }
            v.push(case(html, cfg, 30, stream));
        }
        // (b) variants
        let n = scale(tier, 1500, 30000);
        for _ in 0..n {
            let seed = r.n();
            let variant = 1 + r.b(8);
            let html = gen_doc(r, knobs()).0;
            let mut cfg = Cfg::rich();
            cfg.min_wrap = 1;
            let w = 8 + r.u(60);
            let mut c = case(html, cfg, w, VARIANTS[variant as usize]);
            c.aux = format!("{seed},{variant}");
            // the case itself carries the canonical sheet (correspondence runs on it)
            let mut rr = R(seed);
            let sheet = gen_sheet(&mut rr);
            c.cfg.user_css = Some(print_sheet(&mut rr, &sheet, None));
            v.push(c);
        }
        v
    }
    fn oracle(&self, c: &Case, o: &Obs) -> Vec<Viol> {
        let mut out = vec![];
        match o {
            Obs::Ok(_) | Obs::CssErr | Obs::Narrow => {}
            x => {
                out.push(viol(format!("CSS input breaks rendering: {} (sheets: agent {:?} user {:?})", x.short(), c.cfg.agent_css, c.cfg.user_css)));
                return out;
            }
        }
        if c.stream == "style-element" || c.stream == "style-attribute" || c.stream == "style-elements" {
            // document CSS must not change whether, or what text, is rendered
            if !matches!(o, Obs::Ok(_)) {
                out.push(viol(format!("a document with embedded CSS gives {}", o.short())));
                return out;
            }
            let parsed = {
                let h = c.html.clone();
                obs::guarded(20, move || { let dom = html2text::config::plain().parse_html(&h[..]).ok(); dom.and_then(|d| html2text::dom_to_parsed_style(&d).ok()).unwrap_or_default() }).unwrap_or_default()
            };
            let lower = String::from_utf8_lossy(&c.html).to_lowercase();
            let affects_text = parsed.contains("display: none") || parsed.contains("content:") || lower.contains("display") || lower.contains("content") || lower.contains("height") || lower.contains("overflow");
            if !affects_text {
                let mut cfg2 = c.cfg.clone();
                cfg2.use_doc_css = false;
                let o2 = run(&c.html, &cfg2, c.width);
                let ns = |o: &Obs| -> String { o.text_lines().map(|l| l.join("").chars().filter(|ch| !ch.is_whitespace()).collect()).unwrap_or_else(|| o.class().to_string()) };
                if ns(o) != ns(&o2) {
                    out.push(viol(format!("document CSS changes the text stream: {:?} vs {:?}", ns(o), ns(&o2))));
                }
            }
            return out;
        }
        if let Some((seed, variant)) = c.aux.split_once(',') {
            let (seed, variant): (u64, u64) = match (seed.parse(), variant.parse()) {
                (Ok(a), Ok(b)) => (a, b),
                _ => return out,
            };
            let mut rr = R(seed);
            let sheet = gen_sheet(&mut rr);
            let _canon = print_sheet(&mut rr, &sheet, None);
            let var = print_sheet(&mut rr, &sheet, Some(variant));
            if matches!(o, Obs::CssErr) {
                out.push(viol(format!("a valid sheet is rejected: {:?}", c.cfg.user_css)));
                return out;
            }
            for place in 0..2 {
                let mut cfg2 = c.cfg.clone();
                let mut cfg1 = c.cfg.clone();
                if place == 1 {
                    cfg1.agent_css = cfg1.user_css.take();
                    cfg2.user_css = None;
                    cfg2.agent_css = Some(var.clone());
                } else {
                    cfg2.user_css = Some(var.clone());
                }
                let o1 = if place == 0 { o.clone() } else { run(&c.html, &cfg1, c.width) };
                let o2 = run(&c.html, &cfg2, c.width);
                if o1 != o2 {
                    if variant == 8 {
                        out.push(known("an unparsable rule set between rules ends the sheet".to_string(), "C17-bad-ruleset-ends-sheet"));
                    } else {
                        out.push(viol(format!("variant ({}) styles differently: canonical {:?} gives {}, variant {:?} gives {}", VARIANTS[variant as usize], c.cfg.user_css, o1.short(), var, o2.short())));
                    }
                    break;
                }
            }
        }
        out
    }
    fn project(&self, _c: &Case, o: &Obs) -> String {
        whole(o)
    }
    fn nontrivial(&self, c: &Case, o: &Obs) -> bool {
        match o {
            Obs::Ok(ls) => {
                if c.aux.is_empty() {
                    true
                } else {
                    ls.iter().any(|l| l.iter().any(|e| matches!(e, crate::obs::El::Ch(_, t) if t.contains('F') || t.contains('B'))))
                }
            }
            Obs::CssErr => true,
            _ => false,
        }
    }
    fn timeout(&self) -> u64 {
        15
    }
}
