import H2T.Lemmas.FitsTable
import H2T.Lemmas.ShrinkFloor
import H2T.Lemmas.ColumnEdges

/-! # C06 — table cells stay in their columns; columns with text get space

The part of the property that is pure arithmetic is the column allocation of `render_table_tree`: the
initial proportional widths are reduced one column at a time until the row fits.  Status: **partial** — the
shrink loop is proved (terminates, never takes a column below zero, keeps the number of columns, exits with
`Σ widths + separators ≤ width`); **columns with text get space** (`columns_keep_their_minimum`,
`column_with_text_gets_space`): side by side every column ends at least as wide as the smaller of its content size and its
minimum width, so a column that holds text and has a positive minimum width is never allocated zero width — the loop only
ever shrinks a column of maximal slack, and while the row does not fit some column is above its minimum.  With a *zero*
minimum the statement is refuted for the unchanged code, in exactly the two situations recorded as known findings with
witnesses replayed on every run (a cell's estimate divided over its colspan rounds to zero; `min_wrap_width(0)` makes
every minimum zero). -/

namespace H2T.C06

/-- **Column allocation fits.**  Under the side-by-side guard (`n − 1 ≤ width`, implied by
    `Σ min_width + (n−1) ≤ width`) and with enough fuel (the model passes `Σ w + 2`), the shrink loop returns —
    it neither hangs nor underflows — the same number of columns, with `Σ w + (n − 1) ≤ width`. -/
theorem allocation_fits (width : Nat) (cs : List SizeEst) (fuel : Nat) (ws : List Nat)
    (hl : ws.length ≤ cs.length) (hg : ws.length - 1 ≤ width) (hf : ws.sum < fuel) :
    ∃ ws', shrinkLoop width cs fuel ws = .ok ws' ∧ ws'.length = ws.length ∧ ws'.sum + ws'.length - 1 ≤ width :=
  shrinkLoop_ok width cs fuel ws hl hg hf

/-- the fuel `allocCols` supplies is enough -/
theorem allocCols_fuel (ws : List Nat) : ws.sum < ws.sum + 2 := by omega

/-- one shrink step takes exactly one column down by one -/
theorem shrink_step (ws : List Nat) (i : Nat) (hi : i < ws.length) (hp : 0 < ws[i]) :
    (decAt ws i).length = ws.length ∧ (decAt ws i).sum + 1 = ws.sum :=
  decAt_spec ws i hi hp

/-- the column that is shrunk has positive width whenever any column has: the loop never decrements a zero -/
theorem shrunk_column_positive (ws : List Nat) (cs : List SizeEst) (hl : ws.length ≤ cs.length) (hs : 0 < ws.sum) :
    ∃ k i, argmaxCol ws cs 0 none = some (k, i) ∧ ∃ hi : i < ws.length, 0 < ws[i] :=
  argmax_pos ws cs hl hs

/-- **the allocation as a whole**: whatever `render_table_tree` decides for a table given `width` columns — stacked
    (every cell gets the full width) or side by side (column widths `ws`) — the table's own width is at most `width`,
    and side by side `Σ ws + (n − 1) ≤ width` (one separator per column boundary) -/
theorem table_fits (cfg : Cfg) (width : Nat) (cols : List SizeEst) (ws : List Nat) (vert : Bool) (tw : Nat)
    (h : allocCols cfg width cols = .ok (ws, vert, tw)) :
    tw ≤ width ∧ (vert = true → ∀ x ∈ ws, x ≤ width) ∧ (vert = false → ws.sum + ws.length ≤ width + 1) :=
  allocCols_ok cfg width cols ws vert tw h

/-- **cells of one row**: cells that occupy disjoint, increasing column ranges (`wfCells`, which `compile` guarantees:
    `compileCells_wf`) are rendered into renderers whose widths plus separators add up to at most the widths plus
    separators of the columns from `next` on — so no cell reaches into a column of a later cell, and the row is no
    wider than the table -/
theorem row_cells_fit (wm : SubR → Cfg → Nat → Nat → Except Err Nat) (cfg : Cfg) (d : Deco) (hwm : WMContract wm cfg)
    (hov : cfg.overflow = false) (cells : List Op) (ws : List Nat) (ann : Tag) (links l2 : List (List Ch)) (next : Nat)
    (subs : List SubR) (hwf : wfCells next cells = true)
    (h : runCells wm cfg d ws false ann links cells = .ok (l2, subs)) :
    (subs.map fun c => c.width + 1).sum ≤ (ws.drop next).sum + (ws.length - next) :=
  (runCells_fitsT wm cfg d hwm hov cells ws false ann links next l2 subs hwf h).2.2 rfl

/-- **side by side, no column is taken below its minimum**: every column ends at least as wide as the smaller of its
    content size and its minimum width -/
theorem columns_keep_their_minimum (cfg : Cfg) (width : Nat) (cols : List SizeEst) (ws : List Nat) (tw : Nat)
    (h : allocCols cfg width cols = .ok (ws, false, tw)) :
    ws.length = cols.length ∧ ∀ j, j < cols.length → (cols.getD j {}).size ≠ 0 →
      min (cols.getD j {}).size (cols.getD j {}).minW ≤ ws.getD j 0 :=
  allocCols_floor cfg width cols ws tw h

/-- **a column that holds text is never allocated zero width** (when its minimum width is positive, as it is for any
    column with a cell of its own under a positive `min_wrap_width`) -/
theorem column_with_text_gets_space (cfg : Cfg) (width : Nat) (cols : List SizeEst) (ws : List Nat) (tw : Nat) (j : Nat)
    (h : allocCols cfg width cols = .ok (ws, false, tw)) (hj : j < cols.length) (hs : 0 < (cols.getD j {}).size)
    (hm : 0 < (cols.getD j {}).minW) : 0 < ws.getD j 0 := by
  have := (allocCols_floor cfg width cols ws tw h).2 j hj (by omega)
  omega

/-! non-vacuity: three columns of 10 at width 12 are taken down to 3+3+4 (+2 separators = 12) -/
example : (shrinkLoop 12 [{ minW := 1 }, { minW := 1 }, { minW := 1 }] 40 [10, 10, 10]).toOption = some [3, 3, 4] := by decide

/-! ## column boundaries are the same in every row -/

/-- the x position of the bar after column `k − 1` (for `0 < k < n`): the widths of the first `k` columns and the `k − 1`
    bars between them — a function of the column widths alone -/
def colEdge (ws : List Nat) (k : Nat) : Nat := (ws.take k).sum + k - 1

/-- **the vertical bars of a row stand at column boundaries**: in a side-by-side table whose columns all have width, a
    row whose cells tile the columns gets its bars (`barPositions` of the cells' line sets — the positions where
    `row_line_shape` puts the separators and `bars_join_the_rules` the junctions) only at `colEdge ws k`, `0 < k < n`.
    These positions do not depend on the row, so column boundaries are identical in every row; a cell spanning several
    columns simply omits the bars inside its span. -/
theorem row_bars_at_column_boundaries (cfg : Cfg) (d : Deco) (hov : cfg.overflow = false) (ws : List Nat) (hpos : ∀ x ∈ ws, 0 < x)
    (ann ann2 : Tag) (cells : List Op) (links l2 : List (List Ch)) (subs : List SubR) (sets : List (Nat × List RLine))
    (hwf : wfCells 0 cells = true) (ht : tiles ws.length 0 cells = true)
    (he : runCells SubR.widthMinus cfg d ws false ann links cells = .ok (l2, subs))
    (hs : colSets ann2 subs = .ok sets) :
    ∀ x ∈ barPositions 0 sets, ∃ k, 0 < k ∧ k < ws.length ∧ x = colEdge ws k := by
  intro x hx
  obtain ⟨c1, _, _⟩ := runCells_fitsT SubR.widthMinus cfg d (widthMinus_contract cfg hov) hov cells ws false ann links 0 l2 subs hwf he
  have hw := runCells_widths cfg d hov ws hpos ann cells links 0 l2 subs hwf ht he
  obtain ⟨_, hm⟩ := colSets_exact ann2 subs sets c1 hs
  rw [barPositions_widths, hm, hw] at hx
  obtain ⟨k, k1, k2, k3⟩ := bars_at_edges ws cells 0 ht x (by simpa using hx)
  exact ⟨k, k1, k2, by unfold colEdge; omega⟩

/-- …and the cells' renderers are exactly as wide as the columns they span plus the bars inside the span -/
theorem cell_width_is_its_columns (cfg : Cfg) (d : Deco) (hov : cfg.overflow = false) (ws : List Nat) (hpos : ∀ x ∈ ws, 0 < x)
    (ann : Tag) (cells : List Op) (links l2 : List (List Ch)) (subs : List SubR)
    (hwf : wfCells 0 cells = true) (ht : tiles ws.length 0 cells = true)
    (he : runCells SubR.widthMinus cfg d ws false ann links cells = .ok (l2, subs)) :
    subs.map (·.width) = cellWidths ws cells :=
  runCells_widths cfg d hov ws hpos ann cells links 0 l2 subs hwf ht he

/-! non-vacuity: columns 3,4,5 — a row `[span 2, span 1]` has its only bar at x = 8 = colEdge 2 -/
example : barsOfWidths 0 (cellWidths [3, 4, 5] [.cell 0 2 [], .cell 2 1 []]) = [colEdge [3, 4, 5] 2] := by decide
example : barsOfWidths 0 (cellWidths [3, 4, 5] [.cell 0 1 [], .cell 1 1 [], .cell 2 1 []]) = [colEdge [3, 4, 5] 1, colEdge [3, 4, 5] 2] := by decide

end H2T.C06
