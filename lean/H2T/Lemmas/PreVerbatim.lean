import H2T.Lemmas.WrapInv

/-! C12, the fits case: a source line of a preformatted block whose expansion (tabs to 8-column stops, a whitespace
    character of width `w` as `w` blanks, characters without width dropped) fits the width is reproduced exactly — the
    wrap machine in `pre` mode emits one line equal to the expansion up to trailing blanks, tagged with the main tag. -/

namespace H2T

/-- blanks up to the next 8-column stop (at least one) -/
def tabN (col : Nat) : Nat := 8 - col % 8

/-- the expansion of a source line (no newline), continuing `acc` -/
def expandGo (tag : Tag) : TLine → List Ch → TLine
  | acc, [] => acc
  | acc, c :: cs =>
    if c.ws then
      if c.cp = 9 then expandGo tag (acc ++ List.replicate (tabN (lw acc)) (spc tag)) cs
      else if c.ctrl then expandGo tag acc cs
      else expandGo tag (acc ++ List.replicate c.w (spc tag)) cs
    else if c.ctrl then expandGo tag acc cs
    else expandGo tag (acc ++ [Elt.cell ⟨c, tag⟩]) cs

theorem lw_expandGo_mono (tag : Tag) (cs : List Ch) : ∀ (acc : TLine), lw acc ≤ lw (expandGo tag acc cs) := by
  induction cs with
  | nil => intro acc; exact Nat.le_refl _
  | cons c cs ih =>
    intro acc
    simp only [expandGo]
    split
    · split
      · exact Nat.le_trans (by simp) (ih _)
      · split
        · exact ih _
        · exact Nat.le_trans (by simp) (ih _)
    · split
      · exact ih _
      · exact Nat.le_trans (by simp) (ih _)

/-- the tab loop adds exactly the blanks up to the next stop when they fit -/
theorem tabLoop_fits (tag : Tag) : ∀ (fuel : Nat) (b : WB) (pos k : Nat), pos + k ≤ b.width → k < fuel →
    (pos + k) % 8 = 0 → (∀ j, 0 < j → j < k → (pos + j) % 8 ≠ 0) → 0 < k →
    b.tabLoop tag pos false fuel = .ok { b with line := b.line ++ List.replicate k (spc tag), linelen := b.linelen + k } := by
  -- generalised over the `one` flag: either nothing was pushed yet, or the position is not at a stop
  have gen : ∀ (fuel : Nat) (b : WB) (pos k : Nat) (one : Bool), pos + k ≤ b.width → k < fuel →
      (pos + k) % 8 = 0 → (∀ j, j < k → (one = false ∧ j = 0) ∨ (pos + j) % 8 ≠ 0) → (k = 0 → one = true) →
      b.tabLoop tag pos one fuel = .ok { b with line := b.line ++ List.replicate k (spc tag), linelen := b.linelen + k } := by
    intro fuel
    induction fuel with
    | zero => intro b pos k one _ hk; omega
    | succ fuel ih =>
      intro b pos k one hw hk hstop hmid h0
      simp only [WB.tabLoop]
      cases k with
      | zero =>
        have ho := h0 rfl
        have hp : pos % 8 = 0 := by simpa using hstop
        simp [hp, ho]
      | succ k =>
        have hcond : (pos % 8 != 0 || !one) = true := by
          rcases hmid 0 (by omega) with ⟨h1, _⟩ | h1
          · simp [h1]
          · simp at h1; simp [h1]
        rw [if_pos hcond]
        rw [if_neg (by omega)]
        have := ih ({ b with line := b.line ++ [spc tag], linelen := b.linelen + 1 } : WB) (pos + 1) k true (by show pos + 1 + k ≤ b.width; omega) (by omega)
          (by rw [← hstop]; congr 1; omega)
          (by intro j hj; right
              rcases hmid (j + 1) (by omega) with ⟨_, h2⟩ | h2
              · omega
              · have : pos + 1 + j = pos + (j + 1) := by omega
                rw [this]; exact h2)
          (fun _ => rfl)
        rw [this]
        congr 1
        simp only [List.append_assoc, List.singleton_append, List.replicate_succ]
        congr 1
        omega
  intro fuel b pos k hw hk hstop hmid hk0
  exact gen fuel b pos k false hw hk hstop (by
    intro j hj
    by_cases hj0 : j = 0
    · left; exact ⟨rfl, hj0⟩
    · right; exact hmid j (by omega) hj) (by omega)

theorem tabN_spec (col : Nat) : 0 < tabN col ∧ tabN col ≤ 8 ∧ (col + tabN col) % 8 = 0 ∧ ∀ j, 0 < j → j < tabN col → (col + j) % 8 ≠ 0 := by
  unfold tabN
  refine ⟨by omega, by omega, by omega, ?_⟩
  intro j h1 h2; omega

/-- the state of the machine inside a line of a `pre` block, before any wrapping: line, pending blanks and pending word
    together are the expansion so far -/
structure PreInv (tag : Tag) (b : WB) (e : TLine) : Prop where
  inv : b.Inv
  eq : b.line ++ List.replicate b.wslen (spc tag) ++ b.word = e
  stag : 0 < b.wslen → b.spacetag = some tag
  pw : b.preWrapped = false
  cells : ∀ x ∈ b.word, x.isCell = true

theorem lw_replicate_spc' (n : Nat) (t : Tag) : lw (List.replicate n (spc t)) = n := lw_replicate_spc n t

/-- one character of a line that fits: the machine stays in `PreInv` with the expansion extended by that character -/
theorem addChar_pre_fits (b : WB) (tag wt : Tag) (e : TLine) (c : Ch) (h : PreInv tag b e) (hnl : c.cp ≠ 10)
    (hfit : lw (expandGo tag e [c]) ≤ b.width) :
    ∃ b', b.addChar .pre tag wt false c = .ok (b', false) ∧ PreInv tag b' (expandGo tag e [c]) ∧ b'.width = b.width ∧
      b'.text = b.text ∧ b'.padBlocks = b.padBlocks := by
  obtain ⟨hi, heq, hst, hpw, hcells⟩ := h
  have hle : lw e = b.linelen + b.wslen + b.wordlen := by
    rw [← heq, lw_append, lw_append, lw_replicate_spc, hi.linelen_eq, hi.wordlen_eq]
  have hmono := lw_expandGo_mono tag [c] e
  by_cases hws : c.ws = true
  · -- whitespace: flush the pending word first
    have hflush : ∃ b1, (if (c.ws && decide (b.wordlen > 0)) = true then b.flushWord .pre else Except.ok b) = .ok b1 ∧
        PreInv tag b1 e ∧ b1.word = [] ∧ b1.wordlen = 0 ∧ b1.width = b.width ∧ b1.text = b.text ∧ b1.padBlocks = b.padBlocks := by
      by_cases hwl : b.wordlen > 0
      · rw [if_pos (by simp [hws, hwl])]
        have hnc : b.word.noContent = false := by
          cases hw : b.word with
          | nil => rw [hw] at hi; have := hi.wordlen_eq; simp [lw] at this; omega
          | cons x xs =>
            have := hcells x (by rw [hw]; simp)
            simp [TLine.noContent, this]
        unfold WB.flushWord
        rw [if_neg (by simp [hnc])]
        simp only
        rw [if_neg (by have := hi.line_fit; show ¬ b.linelen > b.width; omega)]
        rw [if_pos (by show b.wslen + b.wordlen ≤ b.width - b.linelen; omega)]
        unfold WB.placeFits
        by_cases hwz : b.wslen > 0
        · rw [if_pos hwz]
          simp only [hst hwz]
          refine ⟨_, rfl, ⟨?_, ?_, fun h0 => by simp at h0, rfl, fun x hx => by simp at hx⟩, rfl, rfl, rfl, rfl, rfl⟩
          · refine ⟨?_, rfl, ?_, hi.text_fit, fun h0 => by simp at h0⟩
            · simp only [WB.pushWs, lw_append, lw_replicate_spc, hi.linelen_eq]
            · show b.linelen + b.wslen + lw b.word ≤ b.width
              rw [← hi.wordlen_eq]; omega
          · simp only [WB.pushWs, List.replicate_zero, List.append_nil]
            rw [← heq]
        · rw [if_neg hwz]
          have hz : b.wslen = 0 := by omega
          refine ⟨_, rfl, ⟨?_, ?_, fun h0 => by simp [hz] at h0, rfl, fun x hx => by simp at hx⟩, rfl, rfl, rfl, rfl, rfl⟩
          · refine ⟨?_, rfl, ?_, hi.text_fit, fun h0 => by simp [hz] at h0⟩
            · simp only [lw_append, hi.linelen_eq]
            · show b.linelen + lw b.word ≤ b.width
              rw [← hi.wordlen_eq]; omega
          · simp only [hz, List.replicate_zero, List.append_nil]
            rw [← heq, hz]; simp
      · rw [if_neg (by simp [hwl])]
        have hz : b.wordlen = 0 := by omega
        have hw0 : b.word = [] := by
          cases hw : b.word with
          | nil => rfl
          | cons x xs =>
            have hx := hcells x (by rw [hw]; simp)
            have := hi.wordlen_eq
            rw [hw, hz] at this
            cases x with
            | frag n => simp [Elt.isCell] at hx
            | cell cc => exact absurd rfl (by intro; exact absurd hx (by simp)) |>.elim
        exact ⟨b, rfl, ⟨hi, heq, hst, hpw, hcells⟩, hw0, hz, rfl, rfl, rfl⟩
    obtain ⟨b1, hf1, ⟨hi1, heq1, hst1, hpw1, _⟩, hw1, hwl1, hwid1, htx1, hpad1⟩ := hflush
    have hle1 : lw e = b1.linelen + b1.wslen := by
      rw [← heq1, hw1, lw_append, lw_append, lw_replicate_spc, hi1.linelen_eq]; simp [lw]
    unfold WB.addChar
    simp only
    rw [hf1]
    simp only [hws, if_true, WS.preserve]
    rw [if_neg hnl]
    simp only [expandGo, hws, if_true] at hfit hmono ⊢
    by_cases h9 : c.cp = 9
    · rw [if_pos h9] at hfit ⊢
      simp only [h9, if_true] at hmono
      obtain ⟨t1, t2, t3, t4⟩ := tabN_spec (lw e)
      have hfit' : lw e + tabN (lw e) ≤ b.width := by
        simpa [lw_append, lw_replicate_spc] using hfit
      have := tabLoop_fits tag (2 * b1.width + 20) b1 (b1.linelen + b1.wslen) (tabN (lw e)) (by rw [← hle1, hwid1]; exact hfit') (by omega)
        (by rw [← hle1]; exact t3) (by rw [← hle1]; exact t4) t1
      rw [this]
      refine ⟨_, rfl, ⟨?_, ?_, hst1, hpw1, fun x hx => by rw [hw1] at hx; simp at hx⟩, hwid1, htx1, hpad1⟩
      · refine ⟨?_, hi1.wordlen_eq, ?_, hi1.text_fit, hi1.tag_ok⟩
        · simp only [lw_append, lw_replicate_spc, hi1.linelen_eq]
        · show b1.linelen + tabN (lw e) ≤ b1.width
          rw [hwid1]; omega
      · show b1.line ++ List.replicate (tabN (lw e)) (spc tag) ++ List.replicate b1.wslen (spc tag) ++ b1.word = _
        rw [← heq1, hw1]
        simp only [List.append_nil, List.append_assoc, ← List.replicate_add]
        congr 2; omega
    · rw [if_neg h9] at hfit ⊢
      by_cases hct : c.ctrl = true
      · rw [if_pos hct] at hfit ⊢
        exact ⟨b1, rfl, ⟨hi1, heq1, hst1, hpw1, fun x hx => by rw [hw1] at hx; simp at hx⟩, hwid1, htx1, hpad1⟩
      · rw [if_neg hct] at hfit ⊢
        have hfit' : lw e + c.w ≤ b.width := by simpa [lw_append, lw_replicate_spc] using hfit
        rw [if_neg (by rw [hwid1]; omega)]
        refine ⟨_, rfl, ⟨?_, ?_, fun _ => rfl, hpw1, fun x hx => by rw [hw1] at hx; simp at hx⟩, hwid1, htx1, hpad1⟩
        · exact ⟨hi1.linelen_eq, hi1.wordlen_eq, hi1.line_fit, hi1.text_fit, fun _ => rfl⟩
        · show b1.line ++ List.replicate (b1.wslen + c.w) (spc tag) ++ b1.word = _
          rw [← heq1, hw1]
          simp only [List.append_nil, List.append_assoc, List.replicate_add]
  · have hws' : c.ws = false := by simpa using hws
    unfold WB.addChar
    simp only [hws', Bool.false_and, Bool.false_eq_true, if_false]
    simp only [expandGo, hws', Bool.false_eq_true, if_false] at hfit ⊢
    by_cases hct : c.ctrl = true
    · rw [if_pos hct] at hfit ⊢
      exact ⟨b, rfl, ⟨hi, heq, hst, hpw, hcells⟩, rfl, rfl, rfl⟩
    · rw [if_neg hct] at hfit ⊢
      have hfit' : lw e + c.w ≤ b.width := by simpa [lw_append, lw, Elt.w] using hfit
      have hsw : (decide (WS.pre = WS.pre) && decide (b.linelen + b.wslen + (b.wordlen + c.w) > b.width)) = false := by
        simp; omega
      simp only [hsw, Bool.false_eq_true, if_false, hpw]
      refine ⟨_, rfl, ⟨?_, ?_, hst, hpw, ?_⟩, rfl, rfl, rfl⟩
      · refine ⟨hi.linelen_eq, ?_, hi.line_fit, hi.text_fit, hi.tag_ok⟩
        show b.wordlen + c.w = lw (b.word ++ [Elt.cell ⟨c, tag⟩])
        simp [lw_append, lw, Elt.w, hi.wordlen_eq]
      · show b.line ++ List.replicate b.wslen (spc tag) ++ (b.word ++ [Elt.cell ⟨c, tag⟩]) = _
        rw [← heq]; simp
      · intro x hx
        simp only [List.mem_append, List.mem_singleton] at hx
        rcases hx with hx | hx
        · exact hcells x hx
        · rw [hx]; rfl

end H2T
