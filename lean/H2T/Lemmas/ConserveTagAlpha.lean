import H2T.Lemmas.ConserveTagBlock

/-! C09 with visible block prefixes.  `renderTree_tink` needs whitespace prefixes, because a prefix is repeated on every
    line of its block and so is not a function of the program alone.  The property speaks about *text tokens*: fix a content
    alphabet `P` that the decorator's block prefixes avoid (`* `, `> `, `# `, `12. ` avoid the letters), and compare only the
    cells whose character is in `P`.  Then the tagged cells of the output are exactly those of the program — and, through
    `opsTink_compile`, exactly those of the render tree: every character of a text node carries the annotations of the
    node's annotating ancestors, outermost first (`nodeT`). -/

namespace H2T

/-- the cells whose character belongs to the content alphabet -/
def pf (P : Ch → Bool) (cs : List Cell) : List Cell := cs.filter fun c => P c.ch

theorem pf_append (P : Ch → Bool) (a b : List Cell) : pf P (a ++ b) = pf P a ++ pf P b := by simp [pf]

/-- a prefix avoids the alphabet: each of its characters is whitespace or outside `P` -/
def avoids (P : Ch → Bool) (p : List Ch) : Bool := p.all fun c => c.ws || !P c

theorem pf_prefixCells (P : Ch → Bool) (tag : Tag) (p : List Ch) (h : avoids P p = true) :
    pf P (tink (p.map fun c => Elt.cell ⟨c, tag⟩)) = [] := by
  induction p with
  | nil => rfl
  | cons c cs ih =>
    simp only [avoids, List.all_cons, Bool.and_eq_true] at h
    have := ih (by simpa [avoids] using h.2)
    simp only [tink, List.map_cons, List.filterMap_cons] at this ⊢
    cases hw : c.ws with
    | true => simpa [hw] using this
    | false =>
      have hP : P c = false := by simpa [hw] using h.1
      simp only [Bool.false_eq_true, if_false, pf, List.filter_cons, hP]
      exact this

theorem prefixLine_tinkP (P : Ch → Bool) (tag : Tag) (p : List Ch) (l : RLine) (h : avoids P p = true) (hl : l.isText = true) :
    pf P (trink (prefixLine tag p l)) = pf P (trink l) := by
  cases l with
  | text tl =>
    simp only [prefixLine]
    split
    · rfl
    · simp [trink, tink_append, pf_append, pf_prefixCells P tag p h]
  | rule b t => simp [RLine.isText] at hl

theorem pf_flatMap_congr (P : Ch → Bool) (f g : RLine → RLine) : ∀ (ls : List RLine), (∀ l ∈ ls, pf P (trink (f l)) = pf P (trink (g l))) →
    pf P ((ls.map f).flatMap trink) = pf P ((ls.map g).flatMap trink) := by
  intro ls
  induction ls with
  | nil => intro _; rfl
  | cons x xs ih =>
    intro h
    simp only [List.map_cons, List.flatMap_cons, pf_append]
    rw [h x (by simp), ih (fun y hy => h y (by simp [hy]))]

theorem zipPrefix_tinkP (P : Ch → Bool) (tag : Tag) (first rest : List Ch) (ls : List RLine) (h1 : avoids P first = true)
    (h2 : avoids P rest = true) (hl : ∀ l ∈ ls, l.isText = true) :
    pf P ((zipPrefix tag first rest ls).flatMap trink) = pf P (ls.flatMap trink) := by
  cases ls with
  | nil => rfl
  | cons l ls =>
    simp only [zipPrefix, List.flatMap_cons, pf_append, prefixLine_tinkP P tag first l h1 (hl l (by simp))]
    congr 1
    have := pf_flatMap_congr P (prefixLine tag rest) id ls (fun x hx => prefixLine_tinkP P tag rest x h2 (hl x (by simp [hx])))
    simpa using this

theorem appendSub_tinkP (P : Ch → Bool) (s other s' : SubR) (first rest : List Ch) (hf : s.FragsOk) (ho : other.FragsOk) (hnr : other.NR)
    (h1 : avoids P first = true) (h2 : avoids P rest = true) (h : s.appendSub other first rest = .ok s') :
    pf P s'.tink = pf P s.tink ++ pf P other.tink ∧ s'.FragsOk := by
  unfold SubR.appendSub at h
  cases e1 : s.flushWrapping with
  | error e => simp [e1, andThen] at h
  | ok s1 =>
    simp only [e1, andThen] at h
    obtain ⟨a1, a2, a3⟩ := flushWrapping_tink s s1 hf e1
    cases e2 : other.intoLines with
    | error e => simp [e2] at h
    | ok ls =>
      simp only [e2] at h; injection h with h; subst h
      obtain ⟨b1, b2, _⟩ := addLines_tink (zipPrefix s1.annStack first rest ls) s1 a2 a3
      refine ⟨?_, b2⟩
      rw [b1, pf_append, zipPrefix_tinkP P _ _ _ _ h1 h2 (intoLines_text_of_nr other ls hnr e2), intoLines_tink other ls ho e2, a1]

/-! ## programs -/

mutual
/-- programs these theorems cover: no tables, no `<pre>`, block prefixes that avoid the alphabet -/
def alphaOkOp (P : Ch → Bool) : Op → Bool
  | .pushPre => false
  | .popPre => false
  | .sub _ _ first rest _ body => avoids P first && avoids P rest && alphaOkOps P body
  | .table _ _ => false
  | .row _ _ _ => false
  | .cell _ _ _ => false
  | _ => true
def alphaOkOps (P : Ch → Bool) : List Op → Bool
  | [] => true
  | op :: ops => alphaOkOp P op && alphaOkOps P ops
end

mutual
theorem alphaOk_tableFree (P : Ch → Bool) : (op : Op) → alphaOkOp P op = true → tableFreeOp op = true
  | .sub _ _ _ _ _ body, h => by
    simp only [alphaOkOp, Bool.and_eq_true] at h
    simp only [tableFreeOp]; exact alphaOks_tableFree P body h.2
  | .table _ _, h => by simp [alphaOkOp] at h
  | .row _ _ _, h => by simp [alphaOkOp] at h
  | .cell _ _ _, h => by simp [alphaOkOp] at h
  | .pushWs _, _ => rfl | .popWs, _ => rfl | .pushPre, _ => rfl | .popPre, _ => rfl | .pushAnn _, _ => rfl | .popAnn, _ => rfl
  | .text _, _ => rfl | .frag _, _ => rfl | .startLink _, _ => rfl | .endLink, _ => rfl | .startAnn _ _ _, _ => rfl
  | .endAnn _ _, _ => rfl | .image _ _, _ => rfl | .startBlock, _ => rfl | .endBlock, _ => rfl | .newLine, _ => rfl | .newLineHard, _ => rfl
theorem alphaOks_tableFree (P : Ch → Bool) : (ops : List Op) → alphaOkOps P ops = true → tableFreeOps ops = true
  | [], _ => rfl
  | op :: r, h => by
    simp only [alphaOkOps, Bool.and_eq_true] at h
    simp only [tableFreeOps, Bool.and_eq_true]
    exact ⟨alphaOk_tableFree P op h.1, alphaOks_tableFree P r h.2⟩
end

/-- what a run conserves, with tags, on the alphabet -/
def TinkStepP (P : Ch → Bool) (s s' : SubR) (added : List Cell × Tag × Nat) : Prop :=
  pf P s'.tink = pf P s.tink ++ pf P added.1 ∧ s'.annStack = added.2.1 ∧ s'.filterDepth = added.2.2 ∧ s'.FragsOk ∧ s'.preDepth = 0

theorem TinkStep.toP (P : Ch → Bool) {s s' : SubR} {added : List Cell × Tag × Nat} (h : TinkStep s s' added) : TinkStepP P s s' added :=
  ⟨by rw [h.1, pf_append], h.2.1, h.2.2.1, h.2.2.2.1, h.2.2.2.2⟩

mutual
theorem runOp_tinkP (P : Ch → Bool) (cfg : Cfg) (d : Deco) (hfn : cfg.footnotes = false) :
    (op : Op) → (t t' : RS) → alphaOkOp P op = true → t.cur.FragsOk → t.cur.preDepth = 0 → runOp SubR.widthMinus cfg d t op = .ok t' →
    TinkStepP P t.cur t'.cur (opTink cfg d t.cur.annStack t.cur.filterDepth op)
  | .sub p m first rest asBlock body, t, t', hs, hfr, hp, he => by
    simp only [alphaOkOp, Bool.and_eq_true] at hs
    obtain ⟨⟨h1, h2⟩, hbody⟩ := hs
    simp only [runOp] at he
    cases e1 : t.cur.widthMinus cfg p m with
    | error e => simp [e1, andThen_error_eq] at he
    | ok w =>
      simp only [e1, andThen_ok_eq] at he
      cases e2 : runOps SubR.widthMinus cfg d { links := t.links, cur := ({ width := w, annStack := t.cur.annStack } : SubR) } body with
      | error e => simp [e2, andThen_error_eq] at he
      | ok r =>
        simp only [e2, andThen_ok_eq] at he
        obtain ⟨f1, f2⟩ := fresh_tink w t.cur.annStack
        have hb := runOps_tinkP P cfg d hfn body _ r hbody f2 rfl e2
        have hnr := runOps_nr cfg d body _ r (alphaOks_tableFree P body hbody) (by intro l hl; simp at hl) e2
        generalize e3 : (if asBlock = true then t.cur.startBlock else Except.ok t.cur) = r3 at he
        cases r3 with
        | error e => simp [andThen_error_eq] at he
        | ok s1 =>
          simp only [andThen_ok_eq] at he
          have st1 : s1.tink = t.cur.tink ∧ s1.FragsOk ∧ s1.ff = t.cur.ff := by
            split at e3
            · obtain ⟨a, b⟩ := startBlock_tink _ s1 hfr e3
              exact ⟨a, b, startBlock_ff _ s1 e3⟩
            · injection e3 with e3; subst e3; exact ⟨rfl, hfr, rfl⟩
          cases e4 : s1.appendSub r.cur first rest with
          | error e => simp [e4, andThen_error_eq] at he
          | ok s2 =>
            simp only [e4, andThen_ok_eq] at he; injection he with he; subst he
            obtain ⟨a, b⟩ := appendSub_tinkP P s1 r.cur s2 first rest st1.2.1 hb.2.2.2.1 hnr h1 h2 e4
            have hfd := (appendSub_ff s1 r.cur s2 first rest e4).trans st1.2.2
            simp only [SubR.ff, Prod.mk.injEq] at hfd
            have hrink : pf P r.cur.tink = pf P (opsTink cfg d t.cur.annStack 0 body).1 := by
              have := hb.1; rw [f1] at this; simpa [pf] using this
            simp only [opTink]
            have key : TinkStepP P t.cur s2 ((opsTink cfg d t.cur.annStack 0 body).1, t.cur.annStack, t.cur.filterDepth) :=
              ⟨by rw [a, st1.1, hrink], hfd.1, hfd.2.2.2.1, b, by rw [hfd.2.1]; exact hp⟩
            split
            · exact ⟨key.1, key.2.1, key.2.2.1, key.2.2.2.1, key.2.2.2.2⟩
            · exact key
  | .table _ _, _, _, hs, _, _, _ => by simp [alphaOkOp] at hs
  | .row _ _ _, _, _, hs, _, _, _ => by simp [alphaOkOp] at hs
  | .cell _ _ _, _, _, hs, _, _, _ => by simp [alphaOkOp] at hs
  | .pushPre, _, _, hs, _, _, _ => by simp [alphaOkOp] at hs
  | .popPre, _, _, hs, _, _, _ => by simp [alphaOkOp] at hs
  | .pushWs ws, t, t', _, hfr, hp, he => (stepSimple_tink cfg d t t' _ hfn hfr hp rfl (by simp) (by simpa [runOp] using he)).toP P
  | .popWs, t, t', _, hfr, hp, he => (stepSimple_tink cfg d t t' _ hfn hfr hp rfl (by simp) (by simpa [runOp] using he)).toP P
  | .pushAnn a, t, t', _, hfr, hp, he => (stepSimple_tink cfg d t t' _ hfn hfr hp rfl (by simp) (by simpa [runOp] using he)).toP P
  | .popAnn, t, t', _, hfr, hp, he => (stepSimple_tink cfg d t t' _ hfn hfr hp rfl (by simp) (by simpa [runOp] using he)).toP P
  | .text x, t, t', _, hfr, hp, he => (stepSimple_tink cfg d t t' _ hfn hfr hp rfl (by simp) (by simpa [runOp] using he)).toP P
  | .frag n, t, t', _, hfr, hp, he => (stepSimple_tink cfg d t t' _ hfn hfr hp rfl (by simp) (by simpa [runOp] using he)).toP P
  | .startLink h, t, t', _, hfr, hp, he => (stepSimple_tink cfg d t t' _ hfn hfr hp rfl (by simp) (by simpa [runOp] using he)).toP P
  | .endLink, t, t', _, hfr, hp, he => (stepSimple_tink cfg d t t' _ hfn hfr hp rfl (by simp) (by simpa [runOp] using he)).toP P
  | .startAnn a x s, t, t', _, hfr, hp, he => (stepSimple_tink cfg d t t' _ hfn hfr hp rfl (by simp) (by simpa [runOp] using he)).toP P
  | .endAnn x s, t, t', _, hfr, hp, he => (stepSimple_tink cfg d t t' _ hfn hfr hp rfl (by simp) (by simpa [runOp] using he)).toP P
  | .image a b, t, t', _, hfr, hp, he => (stepSimple_tink cfg d t t' _ hfn hfr hp rfl (by simp) (by simpa [runOp] using he)).toP P
  | .startBlock, t, t', _, hfr, hp, he => (stepSimple_tink cfg d t t' _ hfn hfr hp rfl (by simp) (by simpa [runOp] using he)).toP P
  | .endBlock, t, t', _, hfr, hp, he => (stepSimple_tink cfg d t t' _ hfn hfr hp rfl (by simp) (by simpa [runOp] using he)).toP P
  | .newLine, t, t', _, hfr, hp, he => (stepSimple_tink cfg d t t' _ hfn hfr hp rfl (by simp) (by simpa [runOp] using he)).toP P
  | .newLineHard, t, t', _, hfr, hp, he => (stepSimple_tink cfg d t t' _ hfn hfr hp rfl (by simp) (by simpa [runOp] using he)).toP P
theorem runOps_tinkP (P : Ch → Bool) (cfg : Cfg) (d : Deco) (hfn : cfg.footnotes = false) :
    (ops : List Op) → (t t' : RS) → alphaOkOps P ops = true → t.cur.FragsOk → t.cur.preDepth = 0 → runOps SubR.widthMinus cfg d t ops = .ok t' →
    TinkStepP P t.cur t'.cur (opsTink cfg d t.cur.annStack t.cur.filterDepth ops)
  | [], t, t', _, hfr, hp, he => by simp [runOps] at he; subst he; exact ⟨by simp [opsTink, pf], rfl, rfl, hfr, hp⟩
  | op :: ops, t, t', hs, hfr, hp, he => by
    simp only [alphaOkOps, Bool.and_eq_true] at hs
    simp only [runOps] at he
    cases h1 : runOp SubR.widthMinus cfg d t op with
    | error e => simp [h1, andThen_error_eq] at he
    | ok t1 =>
      simp only [h1, andThen_ok_eq] at he
      obtain ⟨a1, a2, a3, a4, a5⟩ := runOp_tinkP P cfg d hfn op t t1 hs.1 hfr hp h1
      obtain ⟨b1, b2, b3, b4, b5⟩ := runOps_tinkP P cfg d hfn ops t1 t' hs.2 a4 a5 he
      simp only [opsTink]
      rw [a2, a3] at b1 b2 b3
      exact ⟨by rw [b1, a1, pf_append, List.append_assoc], b2, b3, b4, b5⟩
end

/-- **C09 at the level of whole renderings, visible prefixes included** (no tables, no `<pre>`, footnotes off): on every
    alphabet the block prefixes avoid, the cells of the lines `renderTree` returns — characters with their tag vectors — are
    exactly the tagged cells of the program, in order -/
theorem renderTree_tinkP (P : Ch → Bool) (cfg : Cfg) (d : Deco) (w : Nat) (tree : RNode) (ls : List RLine) (hfn : cfg.footnotes = false)
    (hs : alphaOkOps P (compile cfg d tree) = true) (h : renderTree cfg d w tree = .ok ls) :
    pf P (ls.flatMap trink) = pf P (opsTink cfg d [] 0 (compile cfg d tree)).1 := by
  unfold renderTree at h
  split at h
  · simp at h
  · cases h1 : runOps SubR.widthMinus cfg d { cur := { width := w } } (compile cfg d tree) with
    | error e => simp [h1, andThen_error_eq] at h
    | ok t =>
      simp only [h1, andThen_ok_eq] at h
      obtain ⟨f1, f2⟩ := fresh_tink w []
      obtain ⟨a1, _, _, a4, _⟩ := runOps_tinkP P cfg d hfn _ _ t hs f2 rfl h1
      have hf0 : footTexts cfg t.links = [] := by simp [footTexts, hfn]
      rw [hf0] at h
      simp only [List.isEmpty_nil, if_true] at h
      rw [intoLines_tink t.cur ls a4 h, a1, f1]
      simp [pf]

end H2T
