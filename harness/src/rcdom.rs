// Copyright 2014-2017 The html5ever Project Developers. See the
// COPYRIGHT file at the top-level directory of this distribution.
//
// Licensed under the Apache License, Version 2.0 <LICENSE-APACHE or
// http://www.apache.org/licenses/LICENSE-2.0> or the MIT license
// <LICENSE-MIT or http://opensource.org/licenses/MIT>, at your
// option. This file may not be copied, modified, or distributed
// except according to those terms.

//! A simple reference-counted DOM.
//!
//! This is sufficient as a static parse tree, but don't build a
//! web browser using it. :)
//!
//! A DOM is a [tree structure] with ordered children that can be represented in an XML-like
//! format. For example, the following graph
//!
//! ```text
//! div
//!  +- "text node"
//!  +- span
//! ```
//! in HTML would be serialized as
//!
//! ```html
//! <div>text node<span></span></div>
//! ```
//!
//! See the [document object model article on wikipedia][dom wiki] for more information.
//!
//! This implementation stores the information associated with each node once, and then hands out
//! refs to children. The nodes themselves are reference-counted to avoid copying - you can create
//! a new ref and then a node will outlive the document. Nodes own their children, but only have
//! weak references to their parents.
//!
//! [tree structure]: https://en.wikipedia.org/wiki/Tree_(data_structure)
//! [dom wiki]: https://en.wikipedia.org/wiki/Document_Object_Model

extern crate tendril;

use std::borrow::Cow;
use std::cell::{Cell, RefCell};
use std::collections::{HashSet, VecDeque};
use std::fmt;
use std::io;
use std::mem;
use std::rc::{Rc, Weak};

use html5ever::interface::ElemName;
use tendril::StrTendril;

use html5ever::interface::tree_builder;
use html5ever::interface::tree_builder::{ElementFlags, NodeOrText, QuirksMode, TreeSink};
use html5ever::serialize::TraversalScope;
use html5ever::serialize::TraversalScope::{ChildrenOnly, IncludeNode};
use html5ever::serialize::{Serialize, Serializer};
use html5ever::Attribute;
use html5ever::ExpandedName;
use html5ever::QualName;

/// The different kinds of nodes in the DOM.
#[derive(Debug)]
pub enum NodeData {
    /// The `Document` itself - the root node of a HTML document.
    Document,

    /// A `DOCTYPE` with name, public id, and system id. See
    /// [document type declaration on wikipedia][dtd wiki].
    ///
    /// [dtd wiki]: https://en.wikipedia.org/wiki/Document_type_declaration
    Doctype {
        name: StrTendril,
        public_id: StrTendril,
        system_id: StrTendril,
    },

    /// A text node.
    Text { contents: RefCell<StrTendril> },

    /// A comment.
    Comment { contents: StrTendril },

    /// An element with attributes.
    Element {
        name: QualName,
        attrs: RefCell<Vec<Attribute>>,

        /// For HTML \<template\> elements, the [template contents].
        ///
        /// [template contents]: https://html.spec.whatwg.org/multipage/#template-contents
        template_contents: RefCell<Option<Handle>>,

        /// Whether the node is a [HTML integration point].
        ///
        /// [HTML integration point]: https://html.spec.whatwg.org/multipage/#html-integration-point
        mathml_annotation_xml_integration_point: bool,
    },

    /// A Processing instruction.
    ProcessingInstruction {
        target: StrTendril,
        contents: StrTendril,
    },
}

/// A DOM node.
pub struct Node {
    /// Parent node.
    pub parent: Cell<Option<WeakHandle>>,
    /// Child nodes of this node.
    pub children: RefCell<Vec<Handle>>,
    /// Represents this node's data.
    pub data: NodeData,
}

impl Node {
    /// Create a new node from its contents
    pub fn new(data: NodeData) -> Rc<Self> {
        Rc::new(Node {
            data,
            parent: Cell::new(None),
            children: RefCell::new(Vec::new()),
        })
    }

    pub fn get_parent(&self) -> Option<Rc<Self>> {
        if let Some(parent) = self.parent.take() {
            let parent_handle = parent.upgrade();
            self.parent.set(Some(parent));
            parent_handle
        } else {
            None
        }
    }

    /// Return the nth child element of this node, or None.
    pub fn nth_child(&self, idx: usize) -> Option<Rc<Self>> {
        let mut element_idx = 0;
        for child in self.children.borrow().iter() {
            if let NodeData::Element { .. } = child.data {
                element_idx += 1;
                if element_idx == idx {
                    return Some(child.clone());
                }
            }
        }
        None
    }

    /// Return the element type (if an element)
    pub fn element_name(&self) -> Option<String> {
        if let NodeData::Element { ref name, .. } = self.data {
            Some(format!("{}", name.local_name()))
        } else {
            None
        }
    }
}

impl Drop for Node {
    fn drop(&mut self) {
        let mut nodes = mem::take(&mut *self.children.borrow_mut());
        while let Some(node) = nodes.pop() {
            let children = mem::take(&mut *node.children.borrow_mut());
            nodes.extend(children.into_iter());
            if let NodeData::Element {
                ref template_contents,
                ..
            } = node.data
            {
                if let Some(template_contents) = template_contents.borrow_mut().take() {
                    nodes.push(template_contents);
                }
            }
        }
    }
}

impl fmt::Debug for Node {
    fn fmt(&self, fmt: &mut fmt::Formatter) -> fmt::Result {
        fmt.debug_struct("Node")
            .field("data", &self.data)
            .field("children", &self.children)
            .finish()
    }
}

/// Reference to a DOM node.
pub type Handle = Rc<Node>;

/// Weak reference to a DOM node, used for parent pointers.
pub type WeakHandle = Weak<Node>;

/// Append a parentless node to another nodes' children
fn append(new_parent: &Handle, child: Handle) {
    let previous_parent = child.parent.replace(Some(Rc::downgrade(new_parent)));
    // Invariant: child cannot have existing parent
    assert!(previous_parent.is_none());
    new_parent.children.borrow_mut().push(child);
}

/// If the node has a parent, get it and this node's position in its children
fn get_parent_and_index(target: &Handle) -> Option<(Handle, usize)> {
    let weak = target.parent.take()?;
    let parent = weak.upgrade().expect("dangling weak pointer");
    target.parent.set(Some(weak));
    let i = match parent
        .children
        .borrow()
        .iter()
        .enumerate()
        .find(|&(_, child)| Rc::ptr_eq(child, target))
    {
        Some((i, _)) => i,
        None => panic!("have parent but couldn't find in parent's children!"),
    };
    Some((parent, i))
}

fn append_to_existing_text(prev: &Handle, text: &str) -> bool {
    match prev.data {
        NodeData::Text { ref contents } => {
            contents.borrow_mut().push_slice(text);
            true
        }
        _ => false,
    }
}

fn remove_from_parent(target: &Handle) {
    if let Some((parent, i)) = get_parent_and_index(target) {
        parent.children.borrow_mut().remove(i);
        target.parent.set(None);
    }
}

/// The DOM itself; the result of parsing.
pub struct RcDom {
    /// The `Document` itself.
    pub document: Handle,

    /// Errors that occurred during parsing.
    pub errors: RefCell<Vec<Cow<'static, str>>>,

    /// The document's quirks mode.
    pub quirks_mode: Cell<QuirksMode>,
}

impl RcDom {
    fn add_node_to_string(s: &mut String, node: &Handle, indent: usize) {
        use std::fmt::Write as _;
        match &node.data {
            NodeData::Document => {
                for child in &*node.children.borrow() {
                    Self::add_node_to_string(s, child, indent);
                }
            }
            NodeData::Doctype { .. } => {
                writeln!(s, "{0:indent$}<doctype>", "", indent = indent).unwrap();
            }
            NodeData::Text { contents } => {
                let borrowed = contents.borrow();
                let text = borrowed.to_string();
                if !text.trim().is_empty() {
                    writeln!(s, "{0:indent$}Text:{1}", "", text, indent = indent).unwrap();
                }
            }
            NodeData::Comment { .. } => (),
            NodeData::Element { name, .. } => {
                writeln!(s, "{0:indent$}<{1}>", "", name.local, indent = indent).unwrap();
                for child in &*node.children.borrow() {
                    Self::add_node_to_string(s, child, indent + 1);
                }
                writeln!(s, "{0:indent$}</{1}>", "", name.local, indent = indent).unwrap();
            }
            NodeData::ProcessingInstruction { .. } => {}
        }
    }

    /// A low-quality debug DOM rendering.
    pub fn as_dom_string(&self) -> String {
        let mut s = String::new();
        Self::add_node_to_string(&mut s, &self.document, 0);
        s
    }

    /// A low-quality debug DOM rendering of an individual node
    pub fn node_as_dom_string(node: &Handle) -> String {
        let mut s = String::new();
        Self::add_node_to_string(&mut s, node, 0);
        s
    }

    /// Find the node at a child path starting from the root element.  At each level, 1 is the
    /// first child element, and only elements are counted.
    pub fn get_node_by_path(&self, path: &[usize]) -> Option<Handle> {
        let mut node = self.document.clone();
        for idx in path {
            node = match node.nth_child(*idx) {
                Some(new_node) => new_node,
                None => return None,
            };
        }
        Some(node)
    }
}

impl TreeSink for RcDom {
    type Output = Self;

    type ElemName<'a> = ExpandedName<'a>;
    fn finish(self) -> Self {
        self
    }

    type Handle = Handle;

    fn parse_error(&self, msg: Cow<'static, str>) {
        self.errors.borrow_mut().push(msg);
    }

    fn get_document(&self) -> Handle {
        self.document.clone()
    }

    fn get_template_contents(&self, target: &Handle) -> Handle {
        if let NodeData::Element {
            ref template_contents,
            ..
        } = target.data
        {
            template_contents
                .borrow()
                .as_ref()
                .expect("not a template element!")
                .clone()
        } else {
            panic!("not a template element!")
        }
    }

    fn set_quirks_mode(&self, mode: QuirksMode) {
        self.quirks_mode.set(mode);
    }

    fn same_node(&self, x: &Handle, y: &Handle) -> bool {
        Rc::ptr_eq(x, y)
    }

    fn elem_name<'a>(&self, target: &'a Handle) -> ExpandedName<'a> {
        match target.data {
            NodeData::Element { ref name, .. } => name.expanded(),
            _ => panic!("not an element!"),
        }
    }

    fn create_element(&self, name: QualName, attrs: Vec<Attribute>, flags: ElementFlags) -> Handle {
        Node::new(NodeData::Element {
            name,
            attrs: RefCell::new(attrs),
            template_contents: RefCell::new(if flags.template {
                Some(Node::new(NodeData::Document))
            } else {
                None
            }),
            mathml_annotation_xml_integration_point: flags.mathml_annotation_xml_integration_point,
        })
    }

    fn create_comment(&self, text: StrTendril) -> Handle {
        Node::new(NodeData::Comment { contents: text })
    }

    fn create_pi(&self, target: StrTendril, data: StrTendril) -> Handle {
        Node::new(NodeData::ProcessingInstruction {
            target,
            contents: data,
        })
    }

    fn append(&self, parent: &Handle, child: NodeOrText<Handle>) {
        // Append to an existing Text node if we have one.
        if let NodeOrText::AppendText(text) = &child {
            if let Some(h) = parent.children.borrow().last() {
                if append_to_existing_text(h, text) {
                    return;
                }
            }
        }

        append(
            parent,
            match child {
                NodeOrText::AppendText(text) => Node::new(NodeData::Text {
                    contents: RefCell::new(text),
                }),
                NodeOrText::AppendNode(node) => node,
            },
        );
    }

    fn append_before_sibling(&self, sibling: &Handle, child: NodeOrText<Handle>) {
        let (parent, i) = get_parent_and_index(sibling)
            .expect("append_before_sibling called on node without parent");

        let child = match (child, i) {
            // No previous node.
            (NodeOrText::AppendText(text), 0) => Node::new(NodeData::Text {
                contents: RefCell::new(text),
            }),

            // Look for a text node before the insertion point.
            (NodeOrText::AppendText(text), i) => {
                let children = parent.children.borrow();
                let prev = &children[i - 1];
                if append_to_existing_text(prev, &text) {
                    return;
                }
                Node::new(NodeData::Text {
                    contents: RefCell::new(text),
                })
            }

            // The tree builder promises we won't have a text node after
            // the insertion point.

            // Any other kind of node.
            (NodeOrText::AppendNode(node), _) => node,
        };

        remove_from_parent(&child);

        child.parent.set(Some(Rc::downgrade(&parent)));
        parent.children.borrow_mut().insert(i, child);
    }

    fn append_based_on_parent_node(
        &self,
        element: &Self::Handle,
        prev_element: &Self::Handle,
        child: NodeOrText<Self::Handle>,
    ) {
        let parent = element.parent.take();
        let has_parent = parent.is_some();
        element.parent.set(parent);

        if has_parent {
            self.append_before_sibling(element, child);
        } else {
            self.append(prev_element, child);
        }
    }

    fn append_doctype_to_document(
        &self,
        name: StrTendril,
        public_id: StrTendril,
        system_id: StrTendril,
    ) {
        append(
            &self.document,
            Node::new(NodeData::Doctype {
                name,
                public_id,
                system_id,
            }),
        );
    }

    fn add_attrs_if_missing(&self, target: &Handle, attrs: Vec<Attribute>) {
        let mut existing = if let NodeData::Element { ref attrs, .. } = target.data {
            attrs.borrow_mut()
        } else {
            panic!("not an element")
        };

        let existing_names = existing
            .iter()
            .map(|e| e.name.clone())
            .collect::<HashSet<_>>();
        existing.extend(
            attrs
                .into_iter()
                .filter(|attr| !existing_names.contains(&attr.name)),
        );
    }

    fn remove_from_parent(&self, target: &Handle) {
        remove_from_parent(target);
    }

    fn reparent_children(&self, node: &Handle, new_parent: &Handle) {
        let mut children = node.children.borrow_mut();
        let mut new_children = new_parent.children.borrow_mut();
        for child in children.iter() {
            let previous_parent = child.parent.replace(Some(Rc::downgrade(new_parent)));
            assert!(Rc::ptr_eq(
                node,
                &previous_parent.unwrap().upgrade().expect("dangling weak")
            ))
        }
        new_children.extend(mem::take(&mut *children));
    }

    fn is_mathml_annotation_xml_integration_point(&self, target: &Handle) -> bool {
        if let NodeData::Element {
            mathml_annotation_xml_integration_point,
            ..
        } = target.data
        {
            mathml_annotation_xml_integration_point
        } else {
            panic!("not an element!")
        }
    }
}

impl Default for RcDom {
    fn default() -> RcDom {
        RcDom {
            document: Node::new(NodeData::Document),
            errors: vec![].into(),
            quirks_mode: tree_builder::NoQuirks.into(),
        }
    }
}

enum SerializeOp {
    Open(Handle),
    Close(QualName),
}

pub struct SerializableHandle(Handle);

impl From<Handle> for SerializableHandle {
    fn from(h: Handle) -> SerializableHandle {
        SerializableHandle(h)
    }
}

impl Serialize for SerializableHandle {
    fn serialize<S>(&self, serializer: &mut S, traversal_scope: TraversalScope) -> io::Result<()>
    where
        S: Serializer,
    {
        let mut ops = VecDeque::new();
        match traversal_scope {
            IncludeNode => ops.push_back(SerializeOp::Open(self.0.clone())),
            ChildrenOnly(_) => ops.extend(
                self.0
                    .children
                    .borrow()
                    .iter()
                    .map(|h| SerializeOp::Open(h.clone())),
            ),
        }

        while let Some(op) = ops.pop_front() {
            match op {
                SerializeOp::Open(handle) => match handle.data {
                    NodeData::Element {
                        ref name,
                        ref attrs,
                        ..
                    } => {
                        serializer.start_elem(
                            name.clone(),
                            attrs.borrow().iter().map(|at| (&at.name, &at.value[..])),
                        )?;

                        ops.reserve(1 + handle.children.borrow().len());
                        ops.push_front(SerializeOp::Close(name.clone()));

                        for child in handle.children.borrow().iter().rev() {
                            ops.push_front(SerializeOp::Open(child.clone()));
                        }
                    }

                    NodeData::Doctype { ref name, .. } => serializer.write_doctype(name)?,

                    NodeData::Text { ref contents } => serializer.write_text(&contents.borrow())?,

                    NodeData::Comment { ref contents } => serializer.write_comment(contents)?,

                    NodeData::ProcessingInstruction {
                        ref target,
                        ref contents,
                    } => serializer.write_processing_instruction(target, contents)?,

                    NodeData::Document => panic!("Can't serialize Document node itself"),
                },

                SerializeOp::Close(name) => {
                    serializer.end_elem(name)?;
                }
            }
        }

        Ok(())
    }
}
