//! C10: all API routes agree; rendering is deterministic and trees are reusable.

use super::common::*;
use crate::cfg::{Cfg, Deco, FamDeco, Route};
use crate::gen::{self, Knobs};
use crate::obs::{self, canon_lines, canon_string, line_text, Obs, TagName};
use crate::util::R;
use crate::{Case, Prop, Tier, Viol};
use html2text::config::{self, Config};
use html2text::render::{TextDecorator, TrivialDecorator};

pub struct C10;

fn text_of(o: &Obs) -> Result<String, &'static str> {
    match o {
        Obs::Ok(ls) => Ok(ls.iter().map(|l| line_text(l) + "\n").collect()),
        o => Err(o.class()),
    }
}

/// the staged route: parse_html, dom_to_render_tree, then render clones of the tree at each width in turn
fn staged<D: TextDecorator>(base: Config<D>, cfg: &Cfg, html: &[u8], widths: &[usize]) -> Vec<Result<(String, String), String>>
where
    D::Annotation: TagName + std::fmt::Debug + Clone + PartialEq + Eq + Default,
{
    let c = match obs::build_config(base, cfg) {
        Ok(c) => c,
        Err(e) => return widths.iter().map(|_| Err(format!("{e:?}"))).collect(),
    };
    let dom = match c.parse_html(html) {
        Ok(d) => d,
        Err(e) => return widths.iter().map(|_| Err(format!("{e:?}"))).collect(),
    };
    let tree = match c.dom_to_render_tree(&dom) {
        Ok(t) => t,
        Err(e) => return widths.iter().map(|_| Err(format!("{e:?}"))).collect(),
    };
    widths
        .iter()
        .map(|w| {
            let s = c.render_to_string(tree.clone(), *w).map_err(|e| format!("{e:?}"))?;
            let l = c.render_to_lines(tree.clone(), *w).map_err(|e| format!("{e:?}"))?;
            let lt: String = canon_lines(&l).iter().map(|x| line_text(x) + "\n").collect();
            Ok((s, lt))
        })
        .collect()
}

fn err_class(e: &str) -> &'static str {
    if e.contains("TooNarrow") {
        "narrow"
    } else if e.contains("CssParseError") {
        "csserr"
    } else {
        "other"
    }
}

impl Prop for C10 {
    fn id(&self) -> &'static str {
        "C10"
    }
    fn rule(&self) -> &'static str {
        "G-doc + mutation with random configurations (standard decorators, CSS sometimes) x width histories w1..wn (n <= 6, repeats, out of order, widths that give TooNarrow in between); compares string_from_read, lines_from_read, coloured(identity), staged render_to_string/render_to_lines on clones, and a repeated call; non-trivial = at least two different widths render Ok"
    }
    fn cases(&self, r: &mut R, tier: Tier) -> Vec<Case> {
        let n = scale(tier, 1500, 20000);
        let mut v = Vec::new();
        for i in 0..n {
            let css = r.p(30);
            let k = if css { Knobs::all() } else { Knobs::all().no_css() };
            let mut html = String::new();
            if css && r.p(50) {
                html.push_str(&format!("<style>{}</style>", gen::sheet(r).replace("</", "< /")));
            }
            html.push_str(&gen_doc(r, k).0);
            // documents that end with an element carrying an id but no text (markers pending at the very end): the
            // routes must still agree (added after the seeded change C10-lines-route-trailing-fragment-line)
            if r.p(20) {
                html.push_str(r.pick(&["<a name=\"end\"></a>", "<div id=\"foot\"></div>", "<span id=\"z\"></span>", "<p id=\"q\"></p>", " <a id=\"e2\"></a>"]));
            }
            // documents with many links (10..40) where a link's size estimate decides layout: in table cells and in
            // nested prefixed blocks (added after the seeded change C10-link-estimate-uses-parse-time-link-count)
            if r.p(20) {
                let n = 10 + r.u(31);
                let mut t = String::new();
                if r.p(60) {
                    let cols = 2 + r.u(3);
                    t.push_str("<table>");
                    for k in 0..n {
                        if k % cols == 0 {
                            t.push_str("<tr>");
                        }
                        t.push_str(&format!("<td><a href=\"/{k}/\">n{k}</a>{}</td>", if r.p(40) { " tail words" } else { "" }));
                        if k % cols == cols - 1 {
                            t.push_str("</tr>");
                        }
                    }
                    t.push_str("</table>");
                } else {
                    t.push_str("<ul>");
                    for k in 0..n {
                        t.push_str(&format!("<li><blockquote><a href=\"/{k}/\">n{k}</a></blockquote></li>"));
                    }
                    t.push_str("</ul>");
                }
                html.push_str(&t);
            }
            let bytes = if i % 7 == 6 { gen::mutate(r, html.as_bytes()) } else { html.into_bytes() };
            let mut cfg = mk_cfg(r, css);
            if css && r.p(40) {
                cfg.user_css = Some(gen::sheet(r));
            }
            let nw = 2 + r.u(5);
            let mut ws: Vec<usize> = (0..nw).map(|_| match r.b(6) { 0 => 0, 1 => 1 + r.u(3), 2 => 200, _ => 4 + r.u(60) }).collect();
            if r.p(50) {
                let x = ws[0];
                ws.push(x);
            }
            let mut c = case(bytes, cfg, ws[0], "history");
            c.aux = ws.iter().map(|w| w.to_string()).collect::<Vec<_>>().join(",");
            v.push(c);
        }
        v
    }
    fn oracle(&self, c: &Case, _o: &Obs) -> Vec<Viol> {
        let mut out = vec![];
        let ws: Vec<usize> = c.aux.split(',').filter_map(|x| x.parse().ok()).collect();
        if ws.is_empty() {
            return out;
        }
        let html = c.html.clone();
        let cfg = c.cfg.clone();
        let ws2 = ws.clone();
        let res = obs::guarded(60, move || {
            let st = match &cfg.deco {
                Deco::Plain => staged(config::plain_no_decorate(), &cfg, &html, &ws2),
                Deco::Rich => staged(config::rich(), &cfg, &html, &ws2),
                Deco::Trivial => staged(config::with_decorator(TrivialDecorator::new()), &cfg, &html, &ws2),
                Deco::Fam(f) => staged(config::with_decorator(FamDeco(f.clone())), &cfg, &html, &ws2),
            };
            let mut one = Vec::new();
            for w in &ws2 {
                let mut cs = cfg.clone();
                cs.route = Route::Str;
                let a = text_of(&obs::run_impl_raw(&html, &cs, *w));
                let a2 = text_of(&obs::run_impl_raw(&html, &cs, *w));
                cs.route = Route::Lines;
                let b = text_of(&obs::run_impl_raw(&html, &cs, *w));
                let col = if cfg.deco == Deco::Rich {
                    Some(match obs::build_config(config::rich(), &cfg) {
                        Ok(cc) => cc.coloured(&html[..], *w, |_, s| s.to_string()).map_err(|e| err_class(&format!("{e:?}"))),
                        Err(e) => Err(err_class(&format!("{e:?}"))),
                    })
                } else {
                    None
                };
                one.push((a, a2, b, col));
            }
            // the crate-level convenience functions are routes too: each equals the configuration it is documented to wrap
            let mut conv: Vec<String> = Vec::new();
            for w in ws2.iter().take(2) {
                let e = |r: Result<String, html2text::Error>| -> Result<String, &'static str> { r.map_err(|e| err_class(&format!("{e:?}"))) };
                let a = e(html2text::from_read(&html[..], *w));
                let b = e(config::plain().string_from_read(&html[..], *w));
                if a != b {
                    conv.push(format!("width {w}: from_read {:?} != config::plain().string_from_read {:?}", a, b));
                }
                let a = html2text::from_read_rich(&html[..], *w).map(|l| format!("{:?}", l)).map_err(|e| err_class(&format!("{e:?}")));
                let b = config::rich().lines_from_read(&html[..], *w).map(|l| format!("{:?}", l)).map_err(|e| err_class(&format!("{e:?}")));
                if a != b {
                    conv.push(format!("width {w}: from_read_rich != config::rich().lines_from_read"));
                }
                let a = e(html2text::from_read_with_decorator(&html[..], *w, TrivialDecorator::new()));
                let b = e(config::with_decorator(TrivialDecorator::new()).string_from_read(&html[..], *w));
                if a != b {
                    conv.push(format!("width {w}: from_read_with_decorator(Trivial) {:?} != with_decorator(Trivial).string_from_read {:?}", a, b));
                }
                let c = match html2text::parse(&html[..]) {
                    Ok(tree) => e(config::with_decorator(TrivialDecorator::new()).render_to_string(tree, *w)),
                    Err(x) => Err(err_class(&format!("{x:?}"))),
                };
                if c != b {
                    conv.push(format!("width {w}: parse() + render_to_string {:?} != with_decorator(Trivial).string_from_read {:?}", c, b));
                }
            }
            (st, one, conv)
        });
        let (st, one, conv) = match res {
            Ok(x) => x,
            Err(o) => {
                out.push(viol(format!("a route did not return: {}", o.short())));
                return out;
            }
        };
        if let Some(m) = conv.first() {
            out.push(viol(m.clone()));
            return out;
        }
        for (i, w) in ws.iter().enumerate() {
            let (a, a2, b, col) = &one[i];
            if a != a2 {
                out.push(viol(format!("width {w}: two identical string_from_read calls differ")));
                break;
            }
            if a != b {
                out.push(viol(format!("width {w}: string_from_read {:?} != join(lines_from_read) {:?}", a, b)));
                break;
            }
            if let Some(cl) = col {
                let cl2: Result<String, &'static str> = cl.clone();
                if &cl2 != a {
                    out.push(viol(format!("width {w}: coloured(identity) {:?} != string_from_read {:?}", cl2, a)));
                    break;
                }
            }
            let s: Result<(String, String), &'static str> = st[i].clone().map_err(|e| err_class(&e));
            match (&s, a) {
                (Ok((ss, sl)), Ok(t)) => {
                    if ss != t || sl != t {
                        out.push(viol(format!("width {w} (position {i} of history {:?}): staged render on a cloned tree {:?}/{:?} != one-shot {:?}", ws, ss, sl, t)));
                        break;
                    }
                }
                (Err(e1), Err(e2)) if e1 == e2 => {}
                (x, y) => {
                    out.push(viol(format!("width {w}: staged route gives {:?}, one-shot gives {:?}", x.as_ref().map(|_| "ok"), y.as_ref().map(|_| "ok"))));
                    break;
                }
            }
        }
        out
    }
    fn project(&self, _c: &Case, o: &Obs) -> String {
        text_only(o)
    }
}
