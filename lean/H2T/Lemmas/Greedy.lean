import H2T.Spec.Greedy
import H2T.Lemmas.WrapInv

/-! Refinement of the wrap machine (normal mode, overflow off) to the reference greedy wrapper `Spec.greedy`.
    Ported from the design-phase calibration proof to the piece-based hard wrap of the final model. -/

namespace H2T
open H2T.Spec

/-! ## erasure: the characters of a line (fragment markers and tags forgotten) -/

def er (l : TLine) : List Ch := l.filterMap fun e => match e with | .cell c => some c.ch | .frag _ => none
def erL (t : List TLine) : List (List Ch) := t.map er
def erC (l : List Cell) : List Ch := l.map (·.ch)

@[simp] theorem er_nil : er [] = [] := rfl
@[simp] theorem er_cell (c : Cell) (l : TLine) : er (.cell c :: l) = c.ch :: er l := rfl
@[simp] theorem er_frag (n : List Ch) (l : TLine) : er (.frag n :: l) = er l := rfl
@[simp] theorem er_append (a b : TLine) : er (a ++ b) = er a ++ er b := by simp [er, List.filterMap_append]
@[simp] theorem erL_append (a b : List TLine) : erL (a ++ b) = erL a ++ erL b := by simp [erL]
@[simp] theorem erL_single (a : TLine) : erL [a] = [er a] := rfl
@[simp] theorem erC_nil : erC [] = [] := rfl
@[simp] theorem erC_cons (c : Cell) (l : List Cell) : erC (c :: l) = c.ch :: erC l := rfl
@[simp] theorem erC_append (a b : List Cell) : erC (a ++ b) = erC a ++ erC b := by simp [erC]
theorem er_cells (cs : List Cell) : er (cs.map Elt.cell) = erC cs := by
  induction cs with
  | nil => rfl
  | cons c cs ih => simp [ih]

@[simp] theorem lwc_nil : lwc [] = 0 := rfl
@[simp] theorem lwc_cons (c : Ch) (l : List Ch) : lwc (c :: l) = c.w + lwc l := by simp [lwc]
@[simp] theorem lwc_append (a b : List Ch) : lwc (a ++ b) = lwc a + lwc b := by simp [lwc]

theorem lw_eq (l : TLine) : lw l = lwc (er l) := by
  induction l with
  | nil => rfl
  | cons e l ih => cases e <;> simp [Elt.w, ih]
theorem cellsW_eq (l : List Cell) : cellsW l = lwc (erC l) := by
  induction l with
  | nil => rfl
  | cons c l ih => simp [ih]

theorem er_eq_nil_iff (l : TLine) : er l = [] ↔ l.noContent = true := by
  induction l with
  | nil => simp [TLine.noContent]
  | cons e l ih =>
    cases e with
    | cell c => simp [TLine.noContent, Elt.isCell]
    | frag n => simpa [TLine.noContent, Elt.isCell] using ih

theorem er_replicate_spc (n : Nat) (t : Tag) : er (List.replicate n (spc t)) = List.replicate n spaceCh := by
  induction n with
  | zero => rfl
  | succ n ih =>
    rw [List.replicate_succ, List.replicate_succ]
    show er (Elt.cell ⟨spaceCh, t⟩ :: List.replicate n (spc t)) = spaceCh :: List.replicate n spaceCh
    rw [er_cell, ih]

/-! ## a relation lifter for `Except` -/

def ExRel {α β : Type} (R : α → β → Prop) : Except Err α → Except Err β → Prop
  | .ok a, .ok b => R a b
  | .error e1, .error e2 => e1 = e2
  | _, _ => False

@[simp] theorem ExRel_ok_ok {α β : Type} (R : α → β → Prop) (a : α) (b : β) : ExRel R (.ok a) (.ok b) = R a b := rfl
@[simp] theorem ExRel_err_err {α β : Type} (R : α → β → Prop) (e1 e2 : Err) :
    ExRel R (.error e1 : Except Err α) (.error e2 : Except Err β) = (e1 = e2) := rfl
@[simp] theorem ExRel_ok_err {α β : Type} (R : α → β → Prop) (a : α) (e : Err) :
    ExRel R (.ok a) (.error e : Except Err β) = False := rfl
@[simp] theorem ExRel_err_ok {α β : Type} (R : α → β → Prop) (b : β) (e : Err) :
    ExRel R (.error e : Except Err α) (.ok b) = False := rfl
@[simp] theorem andThen_ok {α β : Type} (a : α) (f : α → Except Err β) : andThen (.ok a) f = f a := rfl
@[simp] theorem andThen_err {α β : Type} (e : Err) (f : α → Except Err β) : andThen (.error e) f = .error e := rfl
theorem andThen_assoc {α β γ : Type} (x : Except Err α) (f : α → Except Err β) (g : β → Except Err γ) :
    andThen x (fun a => andThen (f a) g) = andThen (andThen x f) g := by
  cases x <;> rfl

/-! ## the part of the relation that concerns finished lines and the current line -/

structure Core (b : WB) (g : G) : Prop where
  text : erL b.text = g.done
  line : er b.line = g.cur
  linelen : b.linelen = lwc g.cur
  noov : b.overflow = false
  nopad : b.padBlocks = false
  fit : lwc g.cur ≤ b.width

theorem Core.congr {b b' : WB} {g : G} (h : Core b g) (h1 : b'.text = b.text) (h2 : b'.line = b.line)
    (h3 : b'.linelen = b.linelen) (h4 : b'.overflow = b.overflow) (h5 : b'.width = b.width)
    (h6 : b'.padBlocks = b.padBlocks) : Core b' g :=
  ⟨by rw [h1]; exact h.text, by rw [h2]; exact h.line, by rw [h3]; exact h.linelen, by rw [h4]; exact h.noov,
   by rw [h6]; exact h.nopad, by rw [h5]; exact h.fit⟩

/-- b' differs from b only in text/line/linelen -/
def Frame (b b' : WB) : Prop := b' = { b with text := b'.text, line := b'.line, linelen := b'.linelen }
theorem Frame.refl (b : WB) : Frame b b := by simp [Frame]
theorem Frame.trans {a b c : WB} (h1 : Frame a b) (h2 : Frame b c) : Frame a c := by
  unfold Frame at *; rw [h2, h1]
theorem Frame.width {a b : WB} (h : Frame a b) : b.width = a.width := by rw [h]
theorem Frame.word {a b : WB} (h : Frame a b) : b.word = a.word := by rw [h]
theorem Frame.wordlen {a b : WB} (h : Frame a b) : b.wordlen = a.wordlen := by rw [h]
theorem Frame.wslen {a b : WB} (h : Frame a b) : b.wslen = a.wslen := by rw [h]
theorem Frame.spacetag {a b : WB} (h : Frame a b) : b.spacetag = a.spacetag := by rw [h]
theorem Frame.overflow {a b : WB} (h : Frame a b) : b.overflow = a.overflow := by rw [h]
theorem Frame.pad {a b : WB} (h : Frame a b) : b.padBlocks = a.padBlocks := by rw [h]

/-! ## facts about the reference -/

theorem fill_append (W : Nat) (a b : List Ch) : ∀ (g : G),
    g.fill W (a ++ b) = andThen (g.fill W a) (fun g' => g'.fill W b) := by
  induction a with
  | nil => intro g; simp [G.fill]
  | cons c cs ih =>
    intro g
    simp only [List.cons_append, G.fill]
    cases g.fillCh W c with
    | error e => rfl
    | ok g' => exact ih g'

theorem fill_fits (W : Nat) (word : List Ch) : ∀ (g : G), lwc g.cur + lwc word ≤ W →
    g.fill W word = .ok { g with cur := g.cur ++ word } := by
  induction word with
  | nil => intro g _; simp [G.fill]
  | cons c cs ih =>
    intro g h
    simp only [lwc_cons] at h
    have h1 : lwc g.cur + c.w ≤ W := by omega
    simp only [G.fill, G.fillCh, h1, if_true]
    rw [ih]
    · simp
    · simp; omega

/-- the first character of `cs` that does not fit, after a maximal fitting prefix: what `G.fill` does with it -/
theorem fill_prefix_then (W : Nat) (g : G) (taken : List Ch) (c : Ch) (more : List Ch)
    (hfit : lwc g.cur + lwc taken ≤ W) (hno : ¬ lwc g.cur + lwc taken + c.w ≤ W) :
    g.fill W (taken ++ c :: more) =
      (if lwc g.cur + lwc taken = 0 then .error .tooNarrow
       else if c.w ≤ W then ({ done := g.done ++ [g.cur ++ taken], cur := [c] } : G).fill W more
       else .error .tooNarrow) := by
  rw [fill_append, fill_fits W taken g hfit]
  simp only [andThen_ok, G.fill, G.fillCh, lwc_append]
  simp only [hno, if_false]
  by_cases h0 : lwc g.cur + lwc taken = 0
  · simp [h0]
  · simp only [h0, if_false]
    by_cases hc : c.w ≤ W
    · simp [hc]
    · simp [hc]

/-! ## the piece-based hard wrap refines character-by-character filling -/

theorem Core_pushCells (b : WB) (g : G) (cs : List Cell) (h : Core b g) (hfit : lwc g.cur + cellsW cs ≤ b.width) :
    Core (b.pushCells cs) { g with cur := g.cur ++ erC cs } :=
  ⟨h.text, by simp [WB.pushCells, h.line, er_cells], by simp [WB.pushCells, h.linelen, cellsW_eq], h.noov, h.nopad,
   by simp [cellsW_eq] at hfit ⊢; exact hfit⟩

theorem Core_flush (b : WB) (g : G) (h : Core b g) :
    Core b.forceFlush { done := g.done ++ [g.cur], cur := [] } := by
  have hp := h.nopad
  refine ⟨?_, rfl, rfl, h.noov, hp, by simp⟩
  simp [WB.forceFlush, hp, h.text, h.line]

/-- what one iteration of the reference does with a character that does not fit on a fresh line state -/
theorem fill_fresh (W : Nat) (done : List (List Ch)) (c : Ch) (more : List Ch) :
    ({ done := done, cur := [] } : G).fill W (c :: more) =
      if c.w ≤ W then ({ done := done, cur := [c] } : G).fill W more else .error .tooNarrow := by
  simp only [G.fill, G.fillCh, lwc_nil, Nat.zero_add, List.nil_append]
  by_cases hc : c.w ≤ W <;> simp [hc]

/-- result relation of the piece loop -/
def LoopRel (W w : Nat) (b : WB) (rest : List Cell) (moved : Bool)
    (r : WB × Nat × Nat × List Cell × Bool) (g' : G) : Prop :=
  ∃ gm : G, Core r.1 gm ∧ r.2.1 = W - r.1.linelen ∧ Frame b r.1 ∧ r.2.2.1 + cellsW r.2.2.2.1 = w ∧
    lwc gm.cur + cellsW r.2.2.2.1 ≤ W ∧ g' = { gm with cur := gm.cur ++ erC r.2.2.2.1 } ∧
    (r.2.2.2.2 = false → moved = false ∧ r.2.2.2.1 = rest)

theorem pieceLoop_refines (w : Nat) : ∀ (fuel : Nat) (b : WB) (g : G) (ll wpos : Nat) (rest : List Cell) (moved : Bool),
    Core b g → ll = b.width - b.linelen → wpos + cellsW rest = w →
    rest.length + (if 0 < b.linelen then 1 else 0) < fuel →
    ExRel (LoopRel b.width w b rest moved) (b.pieceLoop w fuel ll wpos rest moved) (g.fill b.width (erC rest)) := by
  intro fuel
  induction fuel with
  | zero => intro b g ll wpos rest moved _ _ _ hf; omega
  | succ fuel ih =>
    intro b g ll wpos rest moved hc hll hw hf
    have hlin := hc.linelen
    have hfit0 := hc.fit
    simp only [WB.pieceLoop]
    by_cases hgt : w - wpos > ll
    · simp only [hgt, if_true]
      obtain ⟨hs1, hs2, hs3, hs4, hs5⟩ := scanFit_spec rest ll wpos
      generalize hr : scanFit ll wpos rest = r at hs1 hs2 hs3 hs4 hs5
      obtain ⟨taken, rest1, ll1, wpos1⟩ := r
      simp only at hs1 hs2 hs3 hs4 hs5 ⊢
      have hrestw : cellsW rest = cellsW taken + cellsW rest1 := by rw [← hs1]; simp
      cases rest1 with
      | nil => exfalso; simp at hrestw; omega
      | cons c more =>
        simp only
        have hnofit := hs5 c more rfl
        have hrw : cellsW rest = cellsW taken + c.ch.w + cellsW more := by rw [hrestw]; simp; omega
        -- the reference on `taken ++ c :: more`
        have hgfit : lwc g.cur + lwc (erC taken) ≤ b.width := by rw [← cellsW_eq]; omega
        have hgno : ¬ lwc g.cur + lwc (erC taken) + c.ch.w ≤ b.width := by rw [← cellsW_eq]; omega
        have hspec := fill_prefix_then b.width g (erC taken) c.ch (erC more) hgfit hgno
        have hrest_er : erC rest = erC taken ++ c.ch :: erC more := by rw [← hs1]; simp
        rw [hrest_er, hspec]
        have hlwline : lw b.line = lwc g.cur := by rw [lw_eq, hc.line]
        by_cases hnp : (taken.isEmpty && lw b.line = 0) = true
        · -- nothing fits on an empty line: too narrow on both sides
          have htk : taken = [] := by simp only [Bool.and_eq_true, List.isEmpty_iff] at hnp; exact hnp.1
          have hl0 : lwc g.cur = 0 := by simp only [Bool.and_eq_true, decide_eq_true_eq] at hnp; rw [← hlwline]; exact hnp.2
          simp only [hnp, if_true, hc.noov, Bool.false_eq_true, if_false]
          simp [htk, hl0]
        · simp only [hnp, Bool.false_eq_true, if_false]
          -- the machine pushes what fits and starts a new line
          have hcore1 : Core (b.pushCells taken) { g with cur := g.cur ++ erC taken } :=
            Core_pushCells b g taken hc (by rw [← hlin] at *; omega)
          have hcore2 := Core_flush _ _ hcore1
          have hwid : (b.pushCells taken).forceFlush.width = b.width := rfl
          have hlen2 : (b.pushCells taken).forceFlush.linelen = 0 := rfl
          have hih := ih (b.pushCells taken).forceFlush { done := g.done ++ [g.cur ++ erC taken], cur := [] }
            b.width wpos1 (c :: more) (moved || !taken.isEmpty) hcore2 (by rw [hwid, hlen2]; simp)
            (by simp only [cellsW_cons]; rw [hs4]; omega)
            (by
              rw [hlen2]; simp only [Nat.lt_irrefl, if_false, Nat.add_zero, List.length_cons]
              have hlen : rest.length = taken.length + (more.length + 1) := by rw [← hs1]; simp
              by_cases ht : taken = []
              · -- then the line was non-empty
                subst ht
                have : 0 < b.linelen := by
                  simp only [List.isEmpty_nil, Bool.true_and, decide_eq_true_eq] at hnp
                  rw [hlin, ← hlwline]; omega
                simp only [this, if_true] at hf
                simp at hlen; omega
              · have : 0 < taken.length := List.length_pos_iff.mpr ht
                omega)
          rw [hwid] at hih
          simp only [erC_cons] at hih
          rw [fill_fresh] at hih
          -- the reference: same continuation unless the zero-width corner applies
          by_cases h0 : lwc g.cur + lwc (erC taken) = 0
          · -- zero-width prefix on an empty line and a character wider than the line: both too narrow
            simp only [h0, if_true]
            have hcw : ¬ c.ch.w ≤ b.width := by
              have : cellsW taken = 0 := by rw [cellsW_eq]; omega
              have : b.linelen = 0 := by omega
              omega
            simp only [hcw, if_false] at hih
            revert hih
            cases (b.pushCells taken).forceFlush.pieceLoop w fuel b.width wpos1 (c :: more) (moved || !taken.isEmpty) with
            | error e => simp
            | ok r => simp
          · simp only [h0, if_false]
            revert hih
            cases hrec : (b.pushCells taken).forceFlush.pieceLoop w fuel b.width wpos1 (c :: more) (moved || !taken.isEmpty) with
            | error e =>
              intro hih
              by_cases hcw : c.ch.w ≤ b.width
              · simp only [hcw, if_true] at hih ⊢
                revert hih
                cases ({ done := g.done ++ [g.cur ++ erC taken], cur := [c.ch] } : G).fill b.width (erC more) <;> simp
              · simp only [hcw, if_false] at hih ⊢
                simpa using hih
            | ok r =>
              intro hih
              by_cases hcw : c.ch.w ≤ b.width
              · simp only [hcw, if_true] at hih ⊢
                revert hih
                cases ({ done := g.done ++ [g.cur ++ erC taken], cur := [c.ch] } : G).fill b.width (erC more) with
                | error e => simp
                | ok g' =>
                  simp only [ExRel_ok_ok]
                  rintro ⟨gm, k1, k2, k3, k4, k5, k6, k7⟩
                  refine ⟨gm, k1, k2, ?_, k4, k5, k6, ?_⟩
                  · exact Frame.trans (by simp [Frame, WB.pushCells, WB.forceFlush]) k3
                  · intro hm
                    obtain ⟨hm1, hm2⟩ := k7 hm
                    simp only [Bool.or_eq_false_iff, Bool.not_eq_false'] at hm1
                    have htk : taken = [] := by simpa using hm1.2
                    subst htk
                    simp at hs1
                    exact ⟨hm1.1, by rw [hm2, hs1]⟩
              · simp only [hcw, if_false] at hih
                simp at hih
    · -- the rest fits: the loop ends
      simp only [hgt, if_false]
      have hfits : lwc g.cur + lwc (erC rest) ≤ b.width := by rw [← cellsW_eq]; omega
      rw [fill_fits b.width (erC rest) g hfits]
      simp only [ExRel_ok_ok]
      exact ⟨g, hc, hll, Frame.refl b, hw, by rw [cellsW_eq]; exact hfits, rfl, fun _ => ⟨by assumption, rfl⟩⟩

end H2T
