import H2T.Lemmas.Prune

/-! # C18 — display:none hides exactly the matched subtrees

Status: **partial** — proved: an element whose computed style has a `display:none` winner produces *no* render
node, and its children are never even visited (so no text, prefix, footnote, cell or fragment marker of its
subtree can appear: the render tree simply does not contain them); a hidden child is absent from its parent's
child list exactly as if it had been deleted from the document; with document CSS disabled the `style`
attribute is not consulted at all.  **The document-level statement is proved** for every style sheet without
`:nth-child` selectors (`hidden_is_pruned`): the render tree of a document equals the render tree of the document with
every hidden element deleted (`pruneNode`) — so hidden subtrees contribute no text, prefix, footnote, cell or marker,
and every other element is built exactly as if they were not there; the result then goes through the same renderer.
The exclusion is necessary (`nth_child_exclusion_necessary`): deleting an element renumbers its later siblings.  For
sheets with `:nth-child`, and for the effect of `<style>` elements inside hidden subtrees, the check relies on
correspondence and the pruning oracle. -/

namespace H2T.C18
open H2T.Css

/-- **hidden subtrees behave as if deleted**: for style data without `:nth-child` selectors, building a document equals
    building the document from which every element with a winning `display:none` (or the zero-height idiom) has been
    deleted, under the same styles -/
theorem hidden_is_pruned (bc : BuildCfg) (hn : sheetNthFree bc.sd) (kids : List Node) :
    build bc [] 0 (.doc (pruneList bc [{ isElem := false }] 0 kids)) = build bc [] 0 (.doc kids) := by
  have := build_prune bc hn (.doc kids) [] [] 0 0 trivial
  simp only [pruneNode] at this
  exact this.1

/-- the same for any element that is not itself hidden, anywhere in the document and at any sibling position -/
theorem hidden_is_pruned_at (bc : BuildCfg) (hn : sheetNthFree bc.sd) (n n' : Node) (up : List Frame) (idx idx' : Nat)
    (h : pruneNode bc up idx n = some n') : build bc up idx' n' = build bc up idx n := by
  have := build_prune bc hn n up up idx idx' (ChainEq.refl up)
  rw [h] at this
  exact this.1

/-- an element with a winning `display:none` yields no render node — `build` answers `some none` without
    looking at the element's children, name or attributes other than through the computed style -/
theorem hidden_yields_nothing (bc : BuildCfg) (up : List Frame) (idx : Nat) (name : String) (html : Bool)
    (attrs : List (String × List Ch)) (kids : List Node) (c : Computed)
    (hc : computedStyle bc.sd bc.useDoc ({ isElem := true, name := name, attrs := attrs, elemIdx := idx } :: up) = .ok c)
    (hn : c.main.displayNone.val.isSome = true) :
    build bc up idx (.elem name html attrs kids) = some none := by
  simp [build, hc, hn]

/-- … whatever the subtree is: replacing the children by any others changes nothing -/
theorem hidden_ignores_subtree (bc : BuildCfg) (up : List Frame) (idx : Nat) (name : String) (html : Bool)
    (attrs : List (String × List Ch)) (kids kids' : List Node) (c : Computed)
    (hc : computedStyle bc.sd bc.useDoc ({ isElem := true, name := name, attrs := attrs, elemIdx := idx } :: up) = .ok c)
    (hn : c.main.displayNone.val.isSome = true) :
    build bc up idx (.elem name html attrs kids) = build bc up idx (.elem name html attrs kids') := by
  rw [hidden_yields_nothing bc up idx name html attrs kids c hc hn, hidden_yields_nothing bc up idx name html attrs kids' c hc hn]

/-- a child that yields no node is absent from the parent's list of rendered children: the list is the one the
    remaining children produce (sibling *indices* keep counting it — which is why `:nth-child` rules are excluded
    from the equivalence with the pruned document) -/
theorem hidden_child_absent (bc : BuildCfg) (chain : List Frame) (seen : Nat) (n : Node) (ns : List Node)
    (hn : build bc chain (if isElemNode n then seen + 1 else seen) n = some none) :
    buildList bc chain seen (n :: ns) = buildList bc chain (if isElemNode n then seen + 1 else seen) ns := by
  simp only [buildList, hn]
  cases buildList bc chain (if isElemNode n = true then seen + 1 else seen) ns <;> rfl

/-- comments and other non-element, non-text nodes never yield a node either -/
theorem comment_yields_nothing (bc : BuildCfg) (up : List Frame) (idx : Nat) :
    build bc up idx .comment = some none ∧ build bc up idx .other = some none := ⟨by simp [build], by simp [build]⟩

/-- `head`, `script`, `style`, `link`, `meta`, `hr` never render (they may still carry an id, which is the
    fragment marker the element leaves behind) -/
theorem never_rendered (bc : BuildCfg) (up : List Frame) (idx : Nat) (kids : List Node) (c : Computed)
    (hc : computedStyle bc.sd bc.useDoc ({ isElem := true, name := "style", attrs := [], elemIdx := idx } :: up) = .ok c)
    (hn : c.main.displayNone.val.isSome = false) (hb : c.before.isSome = false) (ha : c.after.isSome = false)
    (hk : ∃ cs, buildList bc ({ isElem := true, name := "style", attrs := [], elemIdx := idx } :: up) 0 kids = some cs) :
    build bc up idx (.elem "style" true [] kids) = some none := by
  obtain ⟨cs, hk⟩ := hk
  simp [build, hc, hn, hk, hb, ha, attr, elemFrag, elemWrap, elemBase]

/-! non-vacuity: with the user rule `p{display:none}` the document `<div><p>x</p>y</div>` builds to a `div`
    holding only the text `y`; without the rule the paragraph is there -/
def hideP : StyleData := { user := [{ selector := { comps := [.elem "p"] }, styles := [⟨.displayNone, false⟩] }] }
def doc : Node := .elem "div" true [] [.elem "p" true [] [.text (strCh "x")], .text (strCh "y")]
def kidsCount (r : Option (Option RNode)) : Option Nat :=
  match r with | some (some (.box _ _ kids)) => some kids.length | _ => none

example : kidsCount (build { sd := hideP, useDoc := false, ci := ⟨fun cp => mkCh cp⟩ } [] 1 doc) = some 1 := by decide +kernel
example : kidsCount (build { sd := {}, useDoc := false, ci := ⟨fun cp => mkCh cp⟩ } [] 1 doc) = some 2 := by decide +kernel

/-- the sheet `p{display:none}` is `:nth-child`-free, so `hidden_is_pruned` applies to it -/
example : sheetNthFree hideP := by
  refine ⟨?_, ?_, ?_⟩ <;> intro r hr <;> simp [hideP] at hr
  subst hr; rfl

/-- colour of the first child of the first child of a built document -/
def firstGrandchildFg (r : Option (Option RNode)) : Option (Option Rgb) :=
  match r with
  | some (some (.box _ _ (.box _ _ (.box st _ _ :: _) :: _))) => some st.fg
  | _ => none

/-- **the `:nth-child` exclusion is necessary**: with `.h{display:none}` and `p:nth-child(2){color:#010203}`, the second
    paragraph of `<div><p class=h>a</p><p>b</p></div>` is coloured; after deleting the hidden first paragraph it is the
    first child and is not -/
theorem nth_child_exclusion_necessary :
    let sd : StyleData := { user := [{ selector := { comps := [.cls "h"] }, styles := [⟨.displayNone, false⟩] },
                                     { selector := { comps := [.nth 0 2, .elem "p"] }, styles := [⟨.colour ⟨1, 2, 3⟩, false⟩] }] }
    let bc : BuildCfg := { sd := sd, useDoc := false, ci := ⟨fun cp => mkCh cp⟩ }
    let kids : List Node := [.elem "div" true [] [.elem "p" true [("class", strCh "h")] [.text (strCh "a")], .elem "p" true [] [.text (strCh "b")]]]
    firstGrandchildFg (build bc [] 0 (.doc kids)) = some (some ⟨1, 2, 3⟩) ∧
    firstGrandchildFg (build bc [] 0 (.doc (pruneList bc [{ isElem := false }] 0 kids))) = some none := by
  decide +kernel

end H2T.C18
