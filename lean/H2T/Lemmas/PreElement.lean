import H2T.Lemmas.PreVerbatim
import H2T.Lemmas.SubCompose
import H2T.Lemmas.DomFactor

/-! C12 end to end for a `<pre>` element: the render tree `pre[text]` whose lines fit renders to exactly the source lines. -/

namespace H2T

theorem dropLast_snoc_getLast? {α : Type} (l : List α) (a : α) (h : l.getLast? = some a) : l.dropLast ++ [a] = l := by
  induction l with
  | nil => simp at h
  | cons x r ih =>
    cases r with
    | nil => simp at h; simp [h]
    | cons y r2 =>
      simp only [List.getLast?_cons_cons] at h
      simp [ih h]

theorem finish_preinv_nil (tag : Tag) (b : WB) (h : PreInv tag b []) : b.finish = .ok b.text ∧ b.word = [] := by
  obtain ⟨_, heq, _, _, _⟩ := h
  have hlen := congrArg List.length heq
  simp only [List.length_append, List.length_replicate, List.length_nil] at hlen
  have hw : b.word = [] := List.eq_nil_of_length_eq_zero (by omega)
  have hl : b.line = [] := List.eq_nil_of_length_eq_zero (by omega)
  refine ⟨?_, hw⟩
  unfold WB.finish WB.flushWord
  simp only [hw, TLine.noContent, List.any_nil, Bool.not_false, if_true, andThen, WB.flushLine, hl, rescueMarks]
  cases h : b.text.getLast? with
  | none => rfl
  | some last =>
    simp only [List.append_nil]
    congr 1
    exact dropLast_snoc_getLast? _ _ h

/-- the program of a `<pre>` element holding one text node -/
theorem compile_pre_text (cfg : Cfg) (d : Deco) (s : List Ch) :
    compile cfg d (.box { ws := some .pre, pre := true } .block [.text {} s]) =
      [.pushWs .pre, .pushPre, .startBlock, .text s, .endBlock, .popWs, .popPre] := by
  simp [compile, compileList, styleOpen, styleClose]

/-- **a `<pre>` element whose lines fit is reproduced line for line by the whole renderer**: `renderTree` of the tree
    `pre[text]`, the text being the lines `ls` each followed by a newline, returns one text line per source line — its
    expansion minus trailing blanks, every cell tagged `Preformat(false)` -/
theorem renderTree_pre_text (cfg : Cfg) (d : Deco) (w : Nat) (hw : 0 < w) (hww : cfg.wrapWidth = none) (hpad : cfg.padBlocks = false)
    (nl : Ch) (hnl : nl.cp = 10) (hws : nl.ws = true) (ls : List (List Ch))
    (hfit : ∀ l ∈ ls, (∀ c ∈ l, c.cp ≠ 10) ∧ lw (expandGo [d.annOf (Ann.pre false)] [] l) ≤ w) :
    ∃ Ls : List TLine,
      renderTree cfg d w (.box { ws := some .pre, pre := true } .block [.text {} (ls.flatMap (· ++ [nl]))]) = .ok (Ls.map RLine.text) ∧
      Ls.length = ls.length ∧
      ∀ i (_ : i < ls.length) (_ : i < Ls.length), ∃ k,
        expandGo [d.annOf (Ann.pre false)] [] ls[i] = Ls[i] ++ List.replicate k (spc [d.annOf (Ann.pre false)]) := by
  let b0 : WB := { width := w, padBlocks := cfg.padBlocks, overflow := cfg.overflow }
  have hb0 : PreInv [d.annOf (Ann.pre false)] b0 [] := ⟨new_inv w cfg.padBlocks cfg.overflow, rfl, fun h => by simp [b0] at h, rfl, fun x hx => by simp [b0] at hx⟩
  obtain ⟨b', Ls, e1, e2, e3, e4, e5⟩ := pre_block_verbatim [d.annOf (Ann.pre false)] [d.annOf (Ann.pre true)] nl hnl hws ls b0 hb0 hpad
    (by simpa [b0] using hfit)
  obtain ⟨f1, f2⟩ := finish_preinv_nil _ b' e5
  refine ⟨Ls, ?_, e3, e4⟩
  have htext : b'.text = Ls := by simpa [b0] using e2
  unfold renderTree
  rw [if_neg (by omega), compile_pre_text]
  have hadd : ({ width := w, wsStack := [WS.pre], preDepth := 1 } : SubR).addInlineText cfg (ls.flatMap (· ++ [nl])) d.annOf =
      .ok { width := w, wsStack := [WS.pre], preDepth := 1, wrapping := some b' } := by
    unfold SubR.addInlineText
    simp only [SubR.wsMode, List.getLast?_singleton, Option.getD_some, WS.preserve, Bool.not_true, Bool.false_and, Bool.false_eq_true, if_false,
      andThen, iterN, SubR.getWrapping, hww, List.nil_append, Nat.zero_lt_one, if_true]
    unfold WB.addText WB.zeroGuard
    have : ¬ w = 0 := by omega
    simp only [this, if_false, andThen]
    simp only [b0] at e1
    rw [e1]
  have hsb : ({ width := w, preDepth := 1, wsStack := [WS.pre] } : SubR).startBlock = .ok { width := w, preDepth := 1, wsStack := [WS.pre] } := by
    simp [SubR.startBlock, SubR.flushWrapping, andThen]
  have hfin : ({ width := w, atBlockEnd := true, wrapping := some b' } : SubR).intoLines = .ok (Ls.map RLine.text) := by
    unfold SubR.intoLines SubR.flushWrapping
    have hb' : ∀ x : WB, x.word = [] → ({ x with word := [] } : WB) = x := by intro x h; cases x; simp_all
    have hbe : ({ b' with word := [] } : WB) = b' := hb' b' f2
    simp only [f2, TLine.noContent, List.any_nil, Bool.not_false, if_true]
    rw [hbe, f1]
    have := (addLines_plain (Ls.map RLine.text) ({ width := w, atBlockEnd := true } : SubR) rfl).1
    simp only [List.nil_append] at this
    simp only [andThen, htext, this, List.append_nil]
  have hrun : runOps SubR.widthMinus cfg d { cur := { width := w } }
      [Op.pushWs WS.pre, Op.pushPre, Op.startBlock, Op.text (ls.flatMap (· ++ [nl])), Op.endBlock, Op.popWs, Op.popPre] =
      .ok { links := [], cur := { width := w, atBlockEnd := true, wrapping := some b' } } := by
    simp only [runOps, runOp, stepSimple, RS.onCur, andThen, List.nil_append, Nat.zero_add, hsb, hadd]
    simp
  rw [hrun]
  simp only [andThen, footTexts, List.zipIdx_nil, List.map_nil, ite_self, List.isEmpty_nil, if_true, hfin]


/-- the DOM html5ever builds for `<pre>text</pre>` (the parser has already removed a newline directly after `<pre>`) -/
def preDoc (s : List Ch) : Node :=
  .doc [.elem "html" true [] [.elem "head" true [] [], .elem "body" true [] [.elem "pre" true [] [.text s]]]]

/-- without style sheets its render tree is the `pre` block inside the containers of `html` and `body` -/
theorem domTree_preDoc (ci : CharInfo) (depth : Nat) (s : List Ch) :
    domTree false false none none ci depth (preDoc s) =
      .ok (.box {} .container [.box {} .container [.box {} .container [.box { ws := some .pre, pre := true } .block [.text {} s]]]]) := by
  rfl

theorem renderTree_wrapped (cfg : Cfg) (d : Deco) (w : Nat) (x : RNode) :
    renderTree cfg d w (.box {} .container [.box {} .container [.box {} .container [x]]]) = renderTree cfg d w x := by
  unfold renderTree
  simp only [compile_container, compileList, List.append_nil]

/-- **`<pre>` documents, the whole pipeline**: parsing result → style computation → render tree → renderer -/
theorem renderDom_preDoc (cfg : Cfg) (d : Deco) (w : Nat) (hw : 0 < w) (hdec : cfg.decorate = false) (hww : cfg.wrapWidth = none)
    (hpad : cfg.padBlocks = false) (ci : CharInfo) (depth : Nat)
    (nl : Ch) (hnl : nl.cp = 10) (hws : nl.ws = true) (ls : List (List Ch))
    (hfit : ∀ l ∈ ls, (∀ c ∈ l, c.cp ≠ 10) ∧ lw (expandGo [d.annOf (Ann.pre false)] [] l) ≤ w) :
    ∃ Ls : List TLine,
      renderDom cfg d w false none none ci depth (preDoc (ls.flatMap (· ++ [nl]))) = .lines (Ls.map RLine.text) ∧
      Ls.length = ls.length ∧
      ∀ i (_ : i < ls.length) (_ : i < Ls.length), ∃ k,
        expandGo [d.annOf (Ann.pre false)] [] ls[i] = Ls[i] ++ List.replicate k (spc [d.annOf (Ann.pre false)]) := by
  obtain ⟨Ls, e1, e2, e3⟩ := renderTree_pre_text cfg d w hw hww hpad nl hnl hws ls hfit
  refine ⟨Ls, ?_, e2, e3⟩
  rw [renderDom_factor, hdec, domTree_preDoc]
  simp only [renderTree_wrapped, e1, treeOutcome]

end H2T
