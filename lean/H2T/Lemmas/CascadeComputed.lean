import H2T.Lemmas.Cascade

/-! C19, the front half: the colour `computed_style` leaves in an element's style is the reference cascade's winner among
    the colour declarations that apply to the element — sheet rules whose selector matches (agent, user, author sheets in
    this order, each in sheet order), then the `style` and `color` attributes in attribute order. -/

namespace H2T

namespace Css

/-- a declaration with a value of any type (the development of `Lemmas/Cascade` does not look at values) -/
structure DclG (α : Type) where
  important : Bool
  origin : Origin
  spec : Spec
  val : α

def DclG.key {α : Type} (d : DclG α) : Dcl := ⟨d.important, d.origin, d.spec, 0⟩

def DclG.le {α : Type} (a b : DclG α) : Bool := a.key.le b.key

def cascadeFromG {α : Type} : DclG α → List (DclG α) → DclG α
  | c, [] => c
  | c, d :: ds => cascadeFromG (if c.le d then d else c) ds

/-- the reference cascade over declarations with values: order by layer, then specificity, later wins ties -/
def cascadeRefG {α : Type} : List (DclG α) → Option (DclG α)
  | [] => none
  | d :: ds => some (cascadeFromG d ds)

def holdG {α : Type} (d : DclG α) : WithSpec α := { val := some d.val, origin := d.origin, spec := d.spec, important := d.important }

def foldG {α : Type} : WithSpec α → List (DclG α) → WithSpec α
  | w, [] => w
  | w, d :: ds => foldG (w.maybeUpdate d.important d.origin d.spec d.val) ds

theorem foldG_append {α : Type} (a b : List (DclG α)) : ∀ w : WithSpec α, foldG w (a ++ b) = foldG (foldG w a) b := by
  induction a with
  | nil => intro w; rfl
  | cons x a ih => intro w; simp only [List.cons_append, foldG]; exact ih _

theorem maybeUpdate_stepG {α : Type} (c d : DclG α) (hc : c.origin.real) (hd : d.origin.real) :
    (holdG c).maybeUpdate d.important d.origin d.spec d.val = holdG (if c.le d then d else c) := by
  obtain ⟨ci, co, cs, cv⟩ := c
  obtain ⟨di, dor, ds, dv⟩ := d
  cases ci <;> cases di <;> cases co <;> cases dor <;>
    simp_all [WithSpec.maybeUpdate, holdG, DclG.le, DclG.key, Dcl.le, layer, Origin.rank, Origin.real, spec_lt_iff] <;>
    (cases h : cs.le ds <;> simp_all)

theorem cascade_correctG {α : Type} (ds : List (DclG α)) : ∀ (c : DclG α), c.origin.real → (∀ d ∈ ds, d.origin.real) →
    foldG (holdG c) ds = holdG (cascadeFromG c ds) := by
  induction ds with
  | nil => intro c _ _; rfl
  | cons d ds ih =>
    intro c hc hreal
    have hd := hreal d (by simp)
    simp only [foldG, cascadeFromG]
    rw [maybeUpdate_stepG c d hc hd]
    apply ih
    · split <;> assumption
    · exact fun x hx => hreal x (by simp [hx])

/-- folding `maybe_update` from the empty holder over any list of declarations with real origins gives the reference
    cascade's winner -/
theorem cascade_correct_emptyG {α : Type} (ds : List (DclG α)) (hreal : ∀ x ∈ ds, x.origin.real) :
    (foldG ({} : WithSpec α) ds).val = (cascadeRefG ds).map (·.val) := by
  cases ds with
  | nil => rfl
  | cons d ds =>
    have h0 : (({} : WithSpec α).maybeUpdate d.important d.origin d.spec d.val) = holdG d := by
      simp [WithSpec.maybeUpdate, holdG]
    simp only [foldG, cascadeRefG, h0]
    rw [cascade_correctG ds d (hreal d (by simp)) (fun x hx => hreal x (by simp [hx]))]
    rfl

/-! ## what `computed_style` folds over -/

/-- the colour declarations of a list of style declarations, with the given origin and specificity -/
def colourOf (origin : Origin) (spec : Spec) (styles : List StyleDecl) : List (DclG Rgb) :=
  styles.filterMap fun d => match d.style with | .colour c => some ⟨d.important, origin, spec, c⟩ | _ => none

/-- the colour declarations of a sheet that apply to the element at the head of `chain` (rules for `::before`/`::after`
    style the generated content, not the element) -/
def sheetDcls (origin : Origin) (rules : List Rule) (chain : List Frame) : List (DclG Rgb) :=
  rules.flatMap fun r =>
    if selMatches r.selector chain = .yes && r.selector.pseudo.isNone then colourOf origin (specOf r.selector) r.styles else []

/-- the colour declarations of the element's own attributes, in attribute order -/
def attrDcls (node : Frame) : List (DclG Rgb) :=
  node.attrs.flatMap fun a =>
    if a.1 = "style" then
      match parseRules (a.2.map fun ch => Char.ofNat ch.cp) with
      | some (_, decls) => colourOf .author { inline := true } (stylesFromProperties decls)
      | none => []
    else if a.1 = "color" then
      match parseColorAttribute (a.2.map fun ch => Char.ofNat ch.cp) with
      | some col => [⟨false, .author, { inline := true }, col⟩]
      | none => []
    else []

/-- all of them, in the order `computed_style` visits them -/
def colourDcls (sd : StyleData) (useDoc : Bool) (chain : List Frame) : List (DclG Rgb) :=
  sheetDcls .agent sd.agent chain ++ sheetDcls .user sd.user chain ++ sheetDcls .author sd.author chain ++
    (match chain with | node :: _ => if useDoc then attrDcls node else [] | [] => [])

theorem merge_colour (c : Computed) (imp : Bool) (o : Origin) (sp : Spec) (d : StyleDecl) :
    (c.merge imp o sp none d).main.colour =
      (match d.style with | .colour col => c.main.colour.maybeUpdate imp o sp col | _ => c.main.colour) := by
  cases d with
  | mk st i => cases st <;> rfl

theorem merge_colour_pseudo (c : Computed) (imp : Bool) (o : Origin) (sp : Spec) (p : Pseudo) (d : StyleDecl) :
    (c.merge imp o sp (some p) d).main.colour = c.main.colour := by
  cases p <;> rfl

theorem styles_fold_colour (o : Origin) (sp : Spec) (styles : List StyleDecl) : ∀ (c : Computed),
    (styles.foldl (fun c d => c.merge d.important o sp none d) c).main.colour = foldG c.main.colour (colourOf o sp styles) := by
  induction styles with
  | nil => intro c; rfl
  | cons d ds ih =>
    intro c
    simp only [List.foldl_cons]
    rw [ih, merge_colour]
    cases d with
    | mk st i => cases st <;> simp [colourOf, foldG]

theorem styles_fold_colour_pseudo (o : Origin) (sp : Spec) (p : Pseudo) (styles : List StyleDecl) : ∀ (c : Computed),
    (styles.foldl (fun c d => c.merge d.important o sp (some p) d) c).main.colour = c.main.colour := by
  induction styles with
  | nil => intro c; rfl
  | cons d ds ih => intro c; simp only [List.foldl_cons]; rw [ih, merge_colour_pseudo]

theorem applyRules_panic (origin : Origin) (rules : List Rule) (chain : List Frame) : applyRules origin rules chain .panic = .panic := by
  unfold applyRules
  induction rules with
  | nil => rfl
  | cons r rs ih => simp only [List.foldl_cons]; exact ih

theorem applyRules_colour (origin : Origin) (chain : List Frame) : ∀ (rules : List Rule) (c0 c1 : Computed),
    applyRules origin rules chain (.ok c0) = .ok c1 → c1.main.colour = foldG c0.main.colour (sheetDcls origin rules chain) := by
  intro rules
  induction rules with
  | nil => intro c0 c1 h; simp [applyRules] at h; subst h; rfl
  | cons r rs ih =>
    intro c0 c1 h
    unfold applyRules at h
    simp only [List.foldl_cons] at h
    cases hm : selMatches r.selector chain with
    | panic =>
      simp only [hm] at h
      have := applyRules_panic origin rs chain
      unfold applyRules at this
      rw [this] at h; cases h
    | no =>
      simp only [hm] at h
      have := ih c0 c1 (by unfold applyRules; exact h)
      rw [this]
      simp [sheetDcls, hm]
    | yes =>
      simp only [hm] at h
      have := ih _ c1 (by unfold applyRules; exact h)
      rw [this]
      simp only [sheetDcls, List.flatMap_cons, hm, foldG_append]
      congr 1
      cases hp : r.selector.pseudo with
      | none => simp [styles_fold_colour]
      | some p => simp [styles_fold_colour_pseudo, foldG]

theorem attrs_fold_colour (attrs : List (String × List Ch)) : ∀ (c : Computed),
    (attrs.foldl (fun c a =>
      if a.1 = "style" then
        match parseRules (a.2.map fun ch => Char.ofNat ch.cp) with
        | some (_, decls) => (stylesFromProperties decls).foldl (fun c d => c.merge d.important .author { inline := true } none d) c
        | none => c
      else if a.1 = "color" then
        match parseColorAttribute (a.2.map fun ch => Char.ofNat ch.cp) with
        | some col => c.merge false .author { inline := true } none ⟨.colour col, false⟩
        | none => c
      else if a.1 = "bgcolor" then
        match parseColorAttribute (a.2.map fun ch => Char.ofNat ch.cp) with
        | some col => c.merge false .author { inline := true } none ⟨.bgColour col, false⟩
        | none => c
      else c) c).main.colour = foldG c.main.colour (attrDcls ⟨true, "", attrs, 0⟩) := by
  induction attrs with
  | nil => intro c; rfl
  | cons a as ih =>
    intro c
    simp only [List.foldl_cons]
    rw [ih]
    simp only [attrDcls, List.flatMap_cons, foldG_append]
    congr 1
    by_cases h1 : a.1 = "style"
    · simp only [h1, if_true]
      cases parseRules (a.2.map fun ch => Char.ofNat ch.cp) with
      | none => rfl
      | some v => obtain ⟨_, decls⟩ := v; exact styles_fold_colour _ _ _ c
    · simp only [h1, if_false]
      by_cases h2 : a.1 = "color"
      · simp only [h2, if_true]
        cases parseColorAttribute (a.2.map fun ch => Char.ofNat ch.cp) with
        | none => rfl
        | some col => rfl
      · simp only [h2, if_false]
        by_cases h3 : a.1 = "bgcolor"
        · simp only [h3, if_true]
          cases parseColorAttribute (a.2.map fun ch => Char.ofNat ch.cp) with
          | none => rfl
          | some col => rfl
        · simp [h3, foldG]

theorem attrDcls_attrs (node : Frame) : attrDcls node = attrDcls ⟨true, "", node.attrs, 0⟩ := rfl

/-- **the computed colour is a fold of `maybe_update` over the applicable colour declarations** -/
theorem computed_colour_fold (sd : StyleData) (useDoc : Bool) (chain : List Frame) (c : Computed)
    (h : computedStyle sd useDoc chain = .ok c) : c.main.colour = foldG {} (colourDcls sd useDoc chain) := by
  unfold computedStyle at h
  simp only at h
  cases h1 : applyRules .agent sd.agent chain (.ok {}) with
  | panic => rw [h1, applyRules_panic, applyRules_panic] at h; cases chain <;> simp at h
  | ok c1 =>
    rw [h1] at h
    cases h2 : applyRules .user sd.user chain (.ok c1) with
    | panic => rw [h2, applyRules_panic] at h; cases chain <;> simp at h
    | ok c2 =>
      rw [h2] at h
      cases h3 : applyRules .author sd.author chain (.ok c2) with
      | panic => rw [h3] at h; cases chain <;> simp at h
      | ok c3 =>
        rw [h3] at h
        have e1 := applyRules_colour .agent chain sd.agent {} c1 h1
        have e2 := applyRules_colour .user chain sd.user c1 c2 h2
        have e3 := applyRules_colour .author chain sd.author c2 c3 h3
        have e123 : c3.main.colour = foldG {} (sheetDcls .agent sd.agent chain ++ sheetDcls .user sd.user chain ++ sheetDcls .author sd.author chain) := by
          rw [foldG_append, foldG_append, e3, e2, e1]
        cases chain with
        | nil =>
          simp only at h; injection h with h; subst h
          simp [colourDcls, e123]
        | cons node rest =>
          simp only at h
          by_cases hu : useDoc = true
          · simp only [hu, Bool.not_true, Bool.false_eq_true, if_false] at h
            injection h with h; subst h
            have key := attrs_fold_colour node.attrs c3
            refine Eq.trans (b := foldG c3.main.colour (attrDcls ⟨true, "", node.attrs, 0⟩)) ?_ ?_
            · exact key
            · rw [e123]
              simp only [colourDcls, hu, if_true, foldG_append]
              rfl
          · have hu' : useDoc = false := by simpa using hu
            simp only [hu', Bool.not_false, if_true] at h
            injection h with h; subst h
            simp [colourDcls, hu', e123]

theorem colourOf_real (o : Origin) (sp : Spec) (styles : List StyleDecl) (ho : o.real) : ∀ x ∈ colourOf o sp styles, x.origin.real := by
  intro x hx
  simp only [colourOf, List.mem_filterMap] at hx
  obtain ⟨d, _, hd⟩ := hx
  cases hs : d.style <;> simp [hs] at hd
  subst hd; exact ho

theorem colourDcls_real (sd : StyleData) (useDoc : Bool) (chain : List Frame) : ∀ x ∈ colourDcls sd useDoc chain, x.origin.real := by
  have hs : ∀ (o : Origin) (rules : List Rule), o.real → ∀ x ∈ sheetDcls o rules chain, x.origin.real := by
    intro o rules ho x hx
    simp only [sheetDcls, List.mem_flatMap] at hx
    obtain ⟨r, _, hr⟩ := hx
    split at hr
    · exact colourOf_real o _ _ ho x hr
    · simp at hr
  have ha : ∀ node : Frame, ∀ x ∈ attrDcls node, x.origin.real := by
    intro node x hx
    simp only [attrDcls, List.mem_flatMap] at hx
    obtain ⟨a, _, hr⟩ := hx
    split at hr
    · split at hr
      · exact colourOf_real .author _ _ rfl x hr
      · simp at hr
    · split at hr
      · split at hr
        · simp at hr; subst hr; rfl
        · simp at hr
      · simp at hr
  intro x hx
  simp only [colourDcls, List.mem_append] at hx
  rcases hx with ((h | h) | h) | h
  · exact hs .agent _ rfl x h
  · exact hs .user _ rfl x h
  · exact hs .author _ rfl x h
  · cases chain with
    | nil => simp at h
    | cons node rest =>
      simp only at h
      split at h
      · exact ha node x h
      · simp at h

/-- **C19, front half**: the colour in an element's computed style is the reference cascade's winner among the colour
    declarations that apply to the element, visited in `computed_style`'s order (`none` when there is none) -/
theorem computed_colour_is_cascade (sd : StyleData) (useDoc : Bool) (chain : List Frame) (c : Computed)
    (h : computedStyle sd useDoc chain = .ok c) :
    c.main.colour.val = (cascadeRefG (colourDcls sd useDoc chain)).map (·.val) := by
  rw [computed_colour_fold sd useDoc chain c h]
  exact cascade_correct_emptyG _ (colourDcls_real sd useDoc chain)

end Css

end H2T
