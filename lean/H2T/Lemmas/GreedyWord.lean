import H2T.Lemmas.Greedy
import H2T.Spec.Parts

/-! Refinement, continued: one piece, a whole word (pieces and fragment markers), then word placement. -/

namespace H2T
open H2T.Spec

theorem Frame.pushCells (b : WB) (cs : List Cell) : Frame b (b.pushCells cs) := by simp [Frame, WB.pushCells]

/-- one piece of a word: the machine's lines are those of character-by-character filling -/
theorem hardWrapPiece_refines (b : WB) (g : G) (ll : Nat) (piece : List Cell) (hc : Core b g)
    (hll : ll = b.width - b.linelen) :
    ExRel (fun (r : WB × Nat) g' => Core r.1 g' ∧ r.2 = b.width - r.1.linelen ∧ Frame b r.1)
      (b.hardWrapPiece ll piece) (g.fill b.width (erC piece)) := by
  have h := pieceLoop_refines (cellsW piece) (piece.length + 2) b g ll 0 piece false hc hll (by simp)
    (by split <;> omega)
  simp only [WB.hardWrapPiece]
  generalize b.pieceLoop (cellsW piece) (piece.length + 2) ll 0 piece false = pl at h ⊢
  cases pl with
  | error e => revert h; cases g.fill b.width (erC piece) <;> simp
  | ok r =>
    revert h
    cases g.fill b.width (erC piece) with
    | error e => simp
    | ok g' =>
      obtain ⟨b1, ll1, wpos1, rest1, moved1⟩ := r
      simp only [ExRel_ok_ok, andThen_ok]
      rintro ⟨gm, k1, k2, k3, k4, k5, k6, k7⟩
      simp only at k1 k2 k3 k4 k5 k6 k7
      have hw1 : b1.width = b.width := k3.width
      have hlin1 := k1.linelen
      cases moved1 with
      | false =>
        obtain ⟨_, hrest⟩ := k7 rfl
        subst hrest
        simp only [Bool.not_false, if_true, ExRel_ok_ok]
        refine ⟨?_, ?_, Frame.trans k3 (Frame.pushCells _ _)⟩
        · rw [k6]; exact Core_pushCells b1 gm rest1 k1 (by rw [hw1]; exact k5)
        · simp only [WB.pushCells]; rw [k2]; omega
      | true =>
        simp only [Bool.not_true, Bool.false_eq_true, if_false]
        cases rest1 with
        | nil =>
          simp only [List.isEmpty_nil, Bool.not_true, Bool.false_eq_true, if_false, ExRel_ok_ok]
          refine ⟨?_, k2, k3⟩
          rw [k6]; simpa using k1
        | cons c more =>
          simp only [List.isEmpty_cons, Bool.not_false, if_true, ExRel_ok_ok]
          refine ⟨?_, ?_, Frame.trans k3 (Frame.pushCells _ _)⟩
          · rw [k6]; exact Core_pushCells b1 gm (c :: more) k1 (by rw [hw1]; exact k5)
          · simp only [WB.pushCells]; rw [k2]; omega

/-- the characters of a word's items -/
def itemsChars : List WItem → List Ch
  | [] => []
  | .frag _ :: ps => itemsChars ps
  | .piece p :: ps => erC p ++ itemsChars ps

theorem itemsChars_itemsOf : ∀ (l : TLine), itemsChars (itemsOf l) = er l
  | [] => rfl
  | .frag n :: es => by simp [itemsOf, itemsChars, itemsChars_itemsOf es]
  | .cell c :: es => by
    have ih := itemsChars_itemsOf es
    simp only [itemsOf, er_cell]
    rw [← ih]
    cases hio : itemsOf es with
    | nil => simp [itemsChars]
    | cons i ps =>
      cases i with
      | frag n => simp [itemsChars]
      | piece p =>
        cases es with
        | nil => simp [itemsChars]
        | cons e es' =>
          cases e with
          | frag n => simp [itemsChars]
          | cell c' =>
            simp only
            split <;> simp [itemsChars]

theorem Core_pushFrag (b : WB) (g : G) (n : List Ch) (h : Core b g) :
    Core ({ b with line := b.line ++ [Elt.frag n] } : WB) g :=
  ⟨h.text, by simp [h.line], h.linelen, h.noov, h.nopad, h.fit⟩

/-- a whole word: pieces are filled character by character; fragment markers do not matter -/
theorem hardWrapGo_refines : ∀ (items : List WItem) (b : WB) (g : G) (ll : Nat), Core b g → ll = b.width - b.linelen →
    ExRel (fun b' g' => Core b' g' ∧ Frame b b') (b.hardWrapGo ll items) (g.fill b.width (itemsChars items))
  | [], b, g, ll, hc, _ => by simp [WB.hardWrapGo, itemsChars, G.fill, hc, Frame.refl]
  | .frag n :: ps, b, g, ll, hc, hll => by
    simp only [WB.hardWrapGo, itemsChars]
    have ih := hardWrapGo_refines ps ({ b with line := b.line ++ [Elt.frag n] } : WB) g ll (Core_pushFrag b g n hc) hll
    revert ih
    cases ({ b with line := b.line ++ [Elt.frag n] } : WB).hardWrapGo ll ps with
    | error e => cases g.fill b.width (itemsChars ps) <;> simp
    | ok b' =>
      cases g.fill b.width (itemsChars ps) with
      | error e => simp
      | ok g' =>
        simp only [ExRel_ok_ok]
        rintro ⟨h1, h2⟩
        exact ⟨h1, Frame.trans (by simp [Frame]) h2⟩
  | .piece p :: ps, b, g, ll, hc, hll => by
    simp only [WB.hardWrapGo, itemsChars]
    rw [fill_append]
    have h1 := hardWrapPiece_refines b g ll p hc hll
    revert h1
    cases b.hardWrapPiece ll p with
    | error e => cases g.fill b.width (erC p) <;> simp
    | ok r =>
      cases g.fill b.width (erC p) with
      | error e => simp
      | ok g1 =>
        obtain ⟨b1, ll1⟩ := r
        simp only [ExRel_ok_ok, andThen_ok]
        rintro ⟨k1, k2, k3⟩
        have ih := hardWrapGo_refines ps b1 g1 ll1 k1 (by rw [k2, k3.width])
        rw [k3.width] at ih
        revert ih
        cases b1.hardWrapGo ll1 ps with
        | error e => cases g1.fill b.width (itemsChars ps) <;> simp
        | ok b' =>
          cases g1.fill b.width (itemsChars ps) with
          | error e => simp
          | ok g' =>
            simp only [ExRel_ok_ok]
            rintro ⟨h1, h2⟩
            exact ⟨h1, Frame.trans k3 h2⟩

theorem hardWrap_refines (word : TLine) (b : WB) (g : G) (h : Core b g) :
    ExRel (fun b' g' => Core b' g' ∧ Frame b b') (b.hardWrap word) (g.fill b.width (er word)) := by
  unfold WB.hardWrap
  have : ¬ (b.linelen > b.width) := by have := h.linelen; have := h.fit; omega
  simp only [this, if_false]
  rw [← itemsChars_itemsOf]
  exact hardWrapGo_refines (itemsOf word) b g _ h rfl

/-! ## word placement -/

theorem ExRel.bind {α β γ δ : Type} {R : α → β → Prop} {S : γ → δ → Prop}
    {x : Except Err α} {y : Except Err β} {f : α → Except Err γ} {k : β → Except Err δ}
    (h : ExRel R x y) (hf : ∀ a b, R a b → ExRel S (f a) (k b)) : ExRel S (andThen x f) (andThen y k) := by
  cases x <;> cases y <;> simp_all

theorem ExRel.mono {α β : Type} {R S : α → β → Prop} {x : Except Err α} {y : Except Err β}
    (h : ExRel R x y) (hrs : ∀ a b, R a b → S a b) : ExRel S x y := by
  cases x <;> cases y <;> simp_all

/-- filling keeps the current line within the width, and makes it non-trivial if anything with width was there or added -/
theorem fill_pos (W : Nat) (word : List Ch) : ∀ (g g' : G), lwc g.cur ≤ W → g.fill W word = .ok g' →
    lwc g'.cur ≤ W ∧ ((0 < lwc g.cur ∨ 0 < lwc word) → 0 < lwc g'.cur) ∧ (g.cur ≠ [] ∨ word ≠ [] → g'.cur ≠ []) := by
  induction word with
  | nil => intro g g' hf h; simp [G.fill] at h; subst h; simp; exact hf
  | cons c cs ih =>
    intro g g' hf h
    simp only [G.fill] at h
    cases h1 : g.fillCh W c with
    | error e => simp [h1] at h
    | ok g1 =>
      simp only [h1] at h
      unfold G.fillCh at h1
      by_cases a1 : lwc g.cur + c.w ≤ W
      · simp [a1] at h1; subst h1
        have := ih _ g' (by simp; omega) h
        refine ⟨this.1, ?_, ?_⟩
        · intro hp; apply this.2.1; simp at hp ⊢; omega
        · intro _; apply this.2.2; simp
      · simp only [a1, if_false] at h1
        by_cases a2 : lwc g.cur = 0
        · simp [a2] at h1
        · simp only [a2, if_false] at h1
          by_cases a3 : c.w ≤ W
          · simp [a3] at h1; subst h1
            have := ih _ g' (by simpa using a3) h
            refine ⟨this.1, ?_, ?_⟩
            · intro _; apply this.2.1; simp; omega
            · intro _; apply this.2.2; simp
          · simp [a3] at h1

/-- the word-level relation between the machine and the reference: `pend` is the word being collected -/
structure Rel (b : WB) (g : G) (pend : List Ch) : Prop where
  core : Core b g
  word : er b.word = pend
  wordlen : b.wordlen = lwc pend
  ws : b.wslen = if 0 < lwc g.cur then 1 else 0
  tag : 0 < b.wslen → b.spacetag.isSome
  curpos : g.cur ≠ [] → 0 < lwc g.cur

/-- what a successful word placement leaves behind -/
def Placed (W : Nat) (b' : WB) (g' : G) : Prop :=
  Core b' g' ∧ b'.word = [] ∧ b'.wordlen = 0 ∧ b'.wslen = 0 ∧ b'.width = W ∧ 0 < lwc g'.cur ∧ g'.cur ≠ []

theorem placeFits_refines (b : WB) (g : G) (pend : List Ch) (h : Rel b g pend) (hp : pend ≠ [])
    (hw : 0 < lwc pend) (hfit : b.wslen + lwc pend ≤ b.width - lwc g.cur) :
    ∃ b', b.placeFits = .ok b' ∧
      Placed b.width b' { g with cur := g.cur ++ (if g.cur = [] then [] else [spaceCh]) ++ pend } := by
  obtain ⟨⟨ht, hl, hll, ho, hnp, hf⟩, hwd, hwl, hws, htag, hcp⟩ := h
  have hlwword : lw b.word = lwc pend := by rw [lw_eq, hwd]
  unfold WB.placeFits
  by_cases hc : g.cur = []
  · have hz : lwc g.cur = 0 := by rw [hc]; rfl
    have hws0 : b.wslen = 0 := by rw [hws]; simp [hz]
    have h0 : ¬ (b.wslen > 0) := by omega
    simp only [h0, if_false]
    refine ⟨_, rfl, ⟨ht, ?_, ?_, ho, hnp, ?_⟩, rfl, rfl, hws0, rfl, ?_, ?_⟩
    · simp [hl, hwd, hc]
    · simp [hll, hlwword, hc]
    · simp [hc]; omega
    · simp [hc]; exact hw
    · simp [hc]; exact hp
  · have hpos := hcp hc
    have hws1 : b.wslen = 1 := by rw [hws]; simp [hpos]
    have h1 : b.wslen > 0 := by omega
    simp only [h1, if_true]
    have hs := htag h1
    cases hst : b.spacetag with
    | none => simp [hst] at hs
    | some t =>
      simp only [WB.pushWs, hws1]
      refine ⟨_, rfl, ⟨ht, ?_, ?_, ho, hnp, ?_⟩, rfl, rfl, rfl, rfl, ?_, ?_⟩
      · simp [hl, hwd, hc, spc]
      · simp [hll, hlwword, hc, spaceCh]; omega
      · simp [hc, spaceCh]; omega
      · simp [hc, spaceCh]; omega
      · simp [hc]

theorem wsLoop_zero (b : WB) (h : b.wslen = 0) (n : Nat) : b.wsLoop (n + 1) = .ok b := by
  simp [WB.wsLoop, h]

def Spec.G.newline (g : G) : G := if g.cur = [] then g else { done := g.done ++ [g.cur], cur := [] }

theorem Core_newline (b : WB) (g : G) (h : Core b g) : Core b.flushLine g.newline := by
  unfold WB.flushLine Spec.G.newline
  by_cases hc : g.cur = []
  · have hl0 : b.line.noContent = true := (er_eq_nil_iff _).mp (by rw [h.line, hc])
    simp only [hl0, hc, if_true]
    exact h
  · have hl1 : ¬ b.line.noContent = true := by
      intro h0; apply hc; rw [← h.line]; exact (er_eq_nil_iff _).mpr h0
    simp only [hl1, hc, if_false]
    exact Core_flush b g h

theorem flushLine_frame (b : WB) : Frame b b.flushLine := by
  unfold WB.flushLine; split <;> simp [Frame, WB.forceFlush]

/-- in normal mode the "no room" path throws the pending space away and starts a fresh line -/
theorem newline_normal (b : WB) (g : G) (h : Core b g) :
    ∃ b0, andThen (b.disposeWs .normal) (fun b1 => b1.startWordLine .normal) = .ok b0 ∧
      Core b0 g.newline ∧ b0.word = b.word ∧ b0.width = b.width ∧ b0.wslen = 0 ∧ b0.wordlen = b.wordlen := by
  simp only [WB.disposeWs, WS.doWrap, Bool.not_true, Bool.false_eq_true, if_false, andThen_ok, WB.startWordLine]
  have : (WS.normal = WS.pre) = False := by simp
  simp only [this, if_false]
  generalize hb1 : ({ b with spacetag := none, wslen := 0 } : WB) = b1
  have hc1 : Core b1 g := by rw [← hb1]; exact h.congr rfl rfl rfl rfl rfl rfl
  have hf := flushLine_frame b1
  have hz : b1.flushLine.wslen = 0 := by rw [hf.wslen, ← hb1]
  rw [hz, wsLoop_zero _ hz]
  refine ⟨_, rfl, (Core_newline _ _ hc1).congr rfl rfl rfl rfl rfl rfl, ?_, ?_, ?_, ?_⟩
  · show b1.flushLine.word = b.word; rw [hf.word, ← hb1]
  · show b1.flushLine.width = b.width; rw [hf.width, ← hb1]
  · show b1.flushLine.wslen = 0; exact hz
  · show b1.flushLine.wordlen = b.wordlen; rw [hf.wordlen, ← hb1]

theorem flushWord_refines (b : WB) (g : G) (pend : List Ch) (h : Rel b g pend) (hp : pend ≠ [])
    (hw : 0 < lwc pend) :
    ExRel (Placed b.width) (b.flushWord .normal) (g.place b.width pend) := by
  have hne : ¬ b.word.noContent = true := by
    intro h0; apply hp; rw [← h.word]; exact (er_eq_nil_iff _).mpr h0
  have hlen := h.core.linelen
  have hfit0 := h.core.fit
  unfold WB.flushWord
  simp only [hne, if_false]
  have hnl : ¬ (b.linelen > b.width) := by omega
  simp only [hnl, if_false]
  -- the relation is insensitive to the pre_wrapped flag
  have hrel' : Rel ({ b with preWrapped := false } : WB) g pend :=
    ⟨h.core.congr rfl rfl rfl rfl rfl rfl, h.word, h.wordlen, h.ws, h.tag, h.curpos⟩
  by_cases hfit : b.wslen + b.wordlen ≤ b.width - b.linelen
  · simp only [hfit, if_true]
    have hfit' : b.wslen + lwc pend ≤ b.width - lwc g.cur := by rw [← h.wordlen, ← hlen]; exact hfit
    obtain ⟨b', hb', hpl⟩ := placeFits_refines _ g pend hrel' hp hw hfit'
    rw [hb']
    unfold G.place
    by_cases hc : g.cur = []
    · simp only [hc, if_true]
      have hz : lwc g.cur = 0 := by rw [hc]; rfl
      rw [fill_fits]
      · simpa [hc] using hpl
      · simp only [hc, lwc_nil] at *; omega
    · have hws1 : b.wslen = 1 := by rw [h.ws]; simp [h.curpos hc]
      have : lwc g.cur + 1 + lwc pend ≤ b.width := by omega
      simp only [hc, if_false, this, if_true]
      simpa [hc] using hpl
  · simp only [hfit, if_false]
    -- spec side: the word does not fit after the current line
    have hspec : g.place b.width pend = g.newline.fill b.width pend := by
      unfold G.place Spec.G.newline
      by_cases hc : g.cur = []
      · simp [hc]
      · have hws1 : b.wslen = 1 := by rw [h.ws]; simp [h.curpos hc]
        have : ¬ (lwc g.cur + 1 + lwc pend ≤ b.width) := by rw [← h.wordlen, ← hlen]; omega
        simp [hc, this]
    rw [hspec]
    -- implementation side: collapse the first two binds
    have hcoreb : Core ({ b with preWrapped := false } : WB) g := h.core.congr rfl rfl rfl rfl rfl rfl
    obtain ⟨b0, hb0, hcore0, hw0, hwid0, hws0, hwl0⟩ := newline_normal _ g hcoreb
    rw [andThen_assoc, hb0, andThen_ok]
    generalize hb1 : ({ b0 with word := [], wordlen := 0 } : WB) = b1
    have hcore1 : Core b1 g.newline := by rw [← hb1]; exact hcore0.congr rfl rfl rfl rfl rfl rfl
    have hwid1 : b1.width = b.width := by rw [← hb1]; exact hwid0
    have hws1 : b1.wslen = 0 := by rw [← hb1]; exact hws0
    have hwd1 : b1.word = [] := by rw [← hb1]
    have h2 := hardWrap_refines b.word b1 _ hcore1
    rw [hwid1, h.word] at h2
    have hnlfit : lwc g.newline.cur ≤ b.width := by
      unfold Spec.G.newline; split
      · exact hfit0
      · simp
    revert h2
    cases b1.hardWrap b.word with
    | error e => cases g.newline.fill b.width pend <;> simp
    | ok b5 =>
      cases hfill : g.newline.fill b.width pend with
      | error e => simp
      | ok g' =>
        simp only [ExRel_ok_ok, andThen_ok]
        rintro ⟨hc5, hfr5⟩
        have hp5 := fill_pos b.width pend _ g' hnlfit hfill
        refine ⟨hc5.congr rfl rfl rfl rfl rfl rfl, ?_, rfl, ?_, ?_, hp5.2.1 (Or.inr hw), hp5.2.2 (Or.inr hp)⟩
        · show b5.word = []; rw [hfr5.word]; exact hwd1
        · show b5.wslen = 0; rw [hfr5.wslen]; exact hws1
        · show b5.width = b.width; rw [hfr5.width]; exact hwid1

/-- result of the whitespace step after a word was placed (or when nothing was pending) -/
theorem setWs_rel (b : WB) (g : G) (tag : Tag) (hc : Core b g) (hw : er b.word = []) (hwl : b.wordlen = 0)
    (hcp : g.cur ≠ [] → 0 < lwc g.cur)
    (hws : b.wslen = 0 ∨ (b.wslen = (if 0 < lwc g.cur then 1 else 0) ∧ (0 < b.wslen → b.spacetag.isSome))) :
    Rel (if b.linelen > 0 && b.wslen = 0 then { b with spacetag := some tag, wslen := 1 } else b) g [] := by
  have hll := hc.linelen
  by_cases h1 : 0 < lwc g.cur
  · rcases hws with h0 | ⟨h0, ht⟩
    · have : (b.linelen > 0 && b.wslen = 0) = true := by simp [h0]; omega
      simp only [this, if_true]
      exact ⟨hc.congr rfl rfl rfl rfl rfl rfl, hw, by simp [hwl], by simp [h1], by simp, hcp⟩
    · have hw1 : b.wslen = 1 := by rw [h0]; simp [h1]
      have : (b.linelen > 0 && b.wslen = 0) = false := by simp [hw1]
      simp only [this]
      exact ⟨hc, hw, by simp [hwl], h0, ht, hcp⟩
  · have hl0 : b.linelen = 0 := by omega
    have : (b.linelen > 0 && b.wslen = 0) = false := by simp [hl0]
    simp only [this]
    show Rel b g []
    rcases hws with h0 | ⟨h0, ht⟩
    · exact ⟨hc, hw, by simp [hwl], by simp [h0, h1], by omega, hcp⟩
    · exact ⟨hc, hw, by simp [hwl], h0, ht, hcp⟩

theorem er_noContent (l : TLine) (h : l.noContent = true) : er l = [] := by
  induction l with
  | nil => rfl
  | cons e l ih =>
    cases e with
    | cell c => simp [TLine.noContent, Elt.isCell] at h
    | frag n =>
      have h' : TLine.noContent l = true := by simpa [TLine.noContent, Elt.isCell] using h
      simp [ih h']

/-- rescuing markers does not change the characters of any line -/
theorem erL_rescueMarks (text : List TLine) (line : TLine) (h : line.noContent = true) : erL (rescueMarks text line) = erL text := by
  unfold rescueMarks
  split
  · rename_i last hl
    have ht : text = text.dropLast ++ [last] := by
      have := dropLast_append_of_getLast? _ last hl
      exact this.symm
    conv => rhs; rw [ht]
    simp [erL, er_noContent line h]
  · rfl

theorem finish_rel (b : WB) (g : G) (hc : Core b g) : erL b.flushLine.text = g.finish := by
  have := Core_newline b g hc
  unfold G.finish
  have ht := this.text
  unfold Spec.G.newline at ht
  by_cases h : g.cur = []
  · simp only [h, if_true] at ht ⊢; exact ht
  · simp only [h, if_false] at ht ⊢; exact ht

end H2T
