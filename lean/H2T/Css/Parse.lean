/-! Transcription of src/css/parser.rs on top of a re-implementation of the nom 7 combinators it uses. -/

namespace H2T

namespace Css

abbrev Inp := List Char
abbrev Res (α : Type) := Option (Inp × α)

def tag (t : String) (i : Inp) : Res Unit :=
  if t.toList.isPrefixOf i then some (i.drop t.length, ()) else none

/-- nom `many0` with its "no progress ⇒ error" rule; fuel = input length + 1 -/
def many0Go {α : Type} (p : Inp → Res α) : Nat → Inp → List α → Res (List α)
  | 0, i, acc => some (i, acc)
  | f + 1, i, acc =>
    match p i with
    | none => some (i, acc)
    | some (i1, o) => if i1.length = i.length then none else many0Go p f i1 (acc ++ [o])
def many0 {α : Type} (p : Inp → Res α) (i : Inp) : Res (List α) := many0Go p (i.length + 1) i []

/-- nom `many1`: the first iteration is not progress-checked -/
def many1 {α : Type} (p : Inp → Res α) (i : Inp) : Res (List α) :=
  match p i with
  | none => none
  | some (i1, o) => many0Go p (i1.length + 1) i1 [o]

def opt {α : Type} (p : Inp → Res α) (i : Inp) : Res (Option α) :=
  match p i with
  | some (i1, a) => some (i1, some a)
  | none => some (i, none)

/-- nom `separated_list0` -/
def sepListGo {α β : Type} (sep : Inp → Res β) (p : Inp → Res α) : Nat → Inp → List α → Res (List α)
  | 0, i, acc => some (i, acc)
  | f + 1, i, acc =>
    match sep i with
    | none => some (i, acc)
    | some (i1, _) =>
      if i1.length = i.length then none else
      match p i1 with
      | none => some (i, acc)
      | some (i2, o) => sepListGo sep p f i2 (acc ++ [o])
def separatedList0 {α β : Type} (sep : Inp → Res β) (p : Inp → Res α) (i : Inp) : Res (List α) :=
  match p i with
  | none => some (i, [])
  | some (i1, o) => sepListGo sep p (i1.length + 1) i1 [o]

/-! whitespace and comments -/
def isWsChar (c : Char) : Bool := c = ' ' || c = '\t' || c = '\r' || c = '\n' || c = '\x0c'

/-- `take_until("*/")` followed by `tag("*/")` -/
def skipToCommentEnd : Inp → Option Inp
  | [] => none
  | '*' :: '/' :: rest => some rest
  | _ :: rest => skipToCommentEnd rest

def matchComment (i : Inp) : Res Unit :=
  match i with
  | '/' :: '*' :: rest => (skipToCommentEnd rest).map fun r => (r, ())
  | _ => none

def wsItem (i : Inp) : Res Unit :=
  match i with
  | c :: rest => if isWsChar c then some (rest, ()) else matchComment i
  | [] => none

def skipWs (i : Inp) : Inp := match many0 wsItem i with | some (r, _) => r | none => i
def parseWs1 (i : Inp) : Res Unit := (many1 wsItem i).map fun r => (r.1, ())

/-! identifiers -/
def lower (c : Char) : Char := if 'A' ≤ c ∧ c ≤ 'Z' then Char.ofNat (c.toNat + 32) else c
def isAlpha (c : Char) : Bool := ('a' ≤ c && c ≤ 'z') || ('A' ≤ c && c ≤ 'Z')
def isDigit (c : Char) : Bool := '0' ≤ c && c ≤ '9'
def isHex (c : Char) : Bool := isDigit c || ('a' ≤ c && c ≤ 'f') || ('A' ≤ c && c ≤ 'F')
def hexVal (c : Char) : Nat :=
  if isDigit c then c.toNat - 48 else if 'a' ≤ c ∧ c ≤ 'f' then c.toNat - 87 else c.toNat - 55

def nmstartChar (i : Inp) : Res Char :=
  match i with
  | c :: rest => if c = '_' || isAlpha c then some (rest, lower c) else none
  | [] => none
def nmcharChar (i : Inp) : Res Char :=
  match i with
  | c :: rest => if c = '_' || isAlpha c || isDigit c || c = '-' then some (rest, lower c) else none
  | [] => none

/-- index of the first position ≥ 1 that is not a hex digit or is ≥ 6; `none` if the input ends first -/
def escEnd : Nat → Inp → Option Nat
  | _, [] => none
  | k, c :: rest => if isHex c && k < 6 then escEnd (k + 1) rest else some k

def identEscape (i : Inp) : Res Char :=
  match i with
  | '\\' :: rest =>
    match rest with
    | [] => some (rest, Char.ofNat 0xfffd)
    | c :: more =>
      if isHex c then
        let endIdx := (escEnd 1 more).getD 1          -- the loop leaves end_idx = 1 when the input ends
        let v := (rest.take endIdx).foldl (fun a d => a * 16 + hexVal d) 0
        let ch := if v < 0xD800 ∨ (0xDFFF < v ∧ v < 0x110000) then Char.ofNat v else Char.ofNat 0xfffd
        some (rest.drop endIdx, ch)
      else some (more, c)
  | _ => none

def nmstart (i : Inp) : Res Char := match nmstartChar i with | some r => some r | none => identEscape i
def nmchar (i : Inp) : Res Char := match nmcharChar i with | some r => some r | none => identEscape i

/-- an optional leading `-` of an identifier -/
def stripDash (i : Inp) : Inp × Bool := match i with | '-' :: r => (r, true) | _ => (i, false)

def identBody (dash : Bool) (rest : Inp) : Res String :=
  match nmstart rest with
  | none => none
  | some (rest, st) =>
    match many0 nmchar rest with
    | none => none
    | some (rest, cs) => some (rest, String.ofList ((if dash then ['-'] else []) ++ [st] ++ cs))

def parseIdent (text : Inp) : Res String :=
  identBody (stripDash (skipWs text)).2 (stripDash (skipWs text)).1

def parseIdentString (text : Inp) : Res String :=
  (many1 nmchar (skipWs text)).map fun r => (r.1, String.ofList r.2)

/-! tokens -/
inductive Tok
  | ident (s : String) | function (s : String) | atKeyword (s : String) | hash (s : String)
  | string (s : String) | badString (s : String) | delim (c : Char)
  | number (s : String) | dimension (n u : String) | percentage (s : String)
  | cdo | cdc | colon | semicolon | comma | openSquare | closeSquare | openRound | closeRound | openBrace | closeBrace
deriving Repr, DecidableEq, Inhabited

def digits (i : Inp) : Inp × Inp := (i.takeWhile isDigit, i.dropWhile isDigit)

/-- an optional sign of a number -/
def stripSign (i : Inp) : Inp := match i with | '-' :: r => r | '+' :: r => r | _ => i

/-- integer (`digit1`, which wins in `alt`) or decimal (`digit0 "." digit1`) -/
def numberRestGo (rest : Inp) : Option Inp :=
  if !(rest.takeWhile isDigit).isEmpty then some (rest.dropWhile isDigit)
  else match rest.dropWhile isDigit with
    | '.' :: r2 => if (r2.takeWhile isDigit).isEmpty then none else some (r2.dropWhile isDigit)
    | _ => none

/-- parse_number, returning only the rest (the value is re-read from the recognised slice) -/
def parseNumberRest (text : Inp) : Option Inp := numberRestGo (stripSign (skipWs text))

def parseNumericToken (text : Inp) : Res Tok :=
  match parseNumberRest text with
  | none => none
  | some rest =>
    let num := String.ofList (text.take (text.length - rest.length))
    match rest with
    | '%' :: r => some (r, .percentage num)
    | _ => match parseIdent rest with
      | some (r, dim) => some (r, .dimension num dim)
      | none => some (rest, .number num)

def parseIdentLike (text : Inp) : Res Tok :=
  match parseIdent text with
  | none => none
  | some (rest, id) => match rest with
    | '(' :: r => some (r, .function id)
    | _ => some (rest, .ident id)

def stringGo (endc : Char) : Inp → List Char → Inp × Tok
  | [], acc => ([], .string (String.ofList acc))
  | c :: rest, acc =>
    if c = endc then (rest, .string (String.ofList acc))
    else if c = '\n' then (c :: rest, .badString (String.ofList acc))
    else if c = '\\' then
      match rest with
      | [] => ([], .string (String.ofList acc))
      | '\n' :: r => stringGo endc r acc
      | d :: r => stringGo endc r (acc ++ [d])
    else stringGo endc rest (acc ++ [c])

def isIdentStart (c : Char) : Bool := isAlpha c || c = '_' || c.toNat ≥ 0x81

/-- the token that starts with `c` (`rest = c :: r`) -/
def tokenBody (c : Char) (r rest : Inp) : Res Tok :=
  if c = '"' || c = '\'' then some (stringGo c r [])
  else if c = '#' then (match parseIdentString r with | some (r2, id) => some (r2, .hash id) | none => some (r, .delim '#'))
  else if c = ';' then some (r, .semicolon)
  else if c = '(' then some (r, .openRound)
  else if c = ')' then some (r, .closeRound)
  else if c = '+' then (match parseNumericToken r with | some x => some x | none => some (r, .delim '+'))
  else if c = ',' then some (r, .comma)
  else if c = '-' then
    (match parseNumericToken rest with
     | some x => some x
     | none => match rest with
       | '-' :: '-' :: '>' :: r3 => some (r3, .cdc)
       | _ => match parseIdentLike rest with
         | some x => some x
         | none => some (r, .delim '-'))
  else if c = '.' then (match parseNumericToken rest with | some x => some x | none => some (r, .delim '.'))
  else if c = ':' then some (r, .colon)
  else if c = '<' then (match rest with | '<' :: '!' :: '-' :: '-' :: r4 => some (r4, .cdo) | _ => some (r, .delim '<'))
  else if c = '@' then (match parseIdent rest with | some (r2, id) => some (r2, .atKeyword id) | none => some (r, .delim '@'))
  else if c = '[' then some (r, .openSquare)
  else if c = '\\' then (match parseIdentLike rest with | some x => some x | none => some (r, .delim '\\'))
  else if c = ']' then some (r, .closeSquare)
  else if c = '{' then some (r, .openBrace)
  else if c = '}' then some (r, .closeBrace)
  else if isIdentStart c then parseIdentLike rest
  else if isDigit c then parseNumericToken rest
  else some (r, .delim c)

def parseToken (text : Inp) : Res Tok :=
  match skipWs text with
  | [] => none
  | c :: r => tokenBody c r (c :: r)

structure RawValue where
  tokens : List Tok
  important : Bool
deriving Repr

/-- the closing token an opening token waits for -/
def closerOf : Tok → Option Tok
  | .function _ => some .closeRound
  | .openRound => some .closeRound
  | .openSquare => some .closeSquare
  | .openBrace => some .closeBrace
  | _ => none

def isCloserTok : Tok → Bool
  | .closeRound | .closeSquare | .closeBrace => true
  | _ => false

/-- `open_blocks.iter().rposition(..)` + `truncate`: close the innermost waiting block of this kind together with
    everything still open inside it (the stack is kept innermost first) -/
def dropTo (st : List Tok) (t : Tok) : Option (List Tok) :=
  match st with
  | [] => none
  | x :: r => if x = t then some r else dropTo r t
def closeBlock (st : List Tok) (t : Tok) : List Tok := (dropTo st t).getD st

/-- the token loop of `parse_value` (since the `fix:` commit "a ';' inside brackets does not end a declaration value"):
    the value ends at a ';' outside every (), [] and {} block, or at a '}' that closes no '{' opened inside the value -/
def valueGo : Nat → Inp → List Tok → List Tok → Inp × List Tok
  | 0, i, _, acc => (i, acc)
  | f + 1, i, st, acc =>
    match parseToken i with
    | none => (i, acc)
    | some (next, t) =>
      if t = .semicolon && st.isEmpty then (i, acc)
      else if t = .closeBrace && !st.contains .closeBrace then (i, acc)
      else
        let st' := match closerOf t with
          | some c => c :: st
          | none => if isCloserTok t then closeBlock st t else st
        valueGo f next st' (acc ++ [t])

def parseValue (text : Inp) : Res RawValue :=
  let (rest, toks) := valueGo (text.length + 1) text [] []
  match toks.reverse with
  | .ident x :: .delim '!' :: more =>
    if x = "important" then some (rest, { tokens := more.reverse, important := true })
    else some (rest, { tokens := toks, important := false })
  | _ => some (rest, { tokens := toks, important := false })

/-! declarations -/
structure Rgb where
  r : Nat
  g : Nat
  b : Nat
deriving Repr, DecidableEq, Inhabited

inductive WSVal | normal | pre | preWrap deriving Repr, DecidableEq
inductive Ovf | visible | hidden | scroll | auto deriving Repr, DecidableEq

inductive Decl
  | color (c : Rgb) | bgColor (c : Rgb) | height (zero : Bool) | maxHeight (zero : Bool)
  | overflow (v : Ovf) | overflowY (v : Ovf) | display (none : Bool) | whiteSpace (v : WSVal)
  | content (s : String) | unknown (name : String)
deriving Repr, DecidableEq

structure Declaration where
  data : Decl
  important : Bool
deriving Repr, DecidableEq

/-- Rust `u8::from_str` on a token string: optional '+', digits, value ≤ 255 -/
def parseU8 (s : String) : Option Nat :=
  let cs := s.toList
  let cs := match cs with | '+' :: r => r | _ => cs
  if cs.isEmpty || !cs.all isDigit then none else
  let v := cs.foldl (fun a d => a * 10 + (d.toNat - 48)) 0
  if v ≤ 255 then some v else none

/-- `u32::from_str_radix(s, 16)` on a string known to have 3 or 6 bytes -/
def parseHexStr (s : String) : Option Nat :=
  let cs := s.toList
  let cs := match cs with | '+' :: r => r | _ => cs
  if cs.isEmpty || !cs.all isHex then none else some (cs.foldl (fun a d => a * 16 + hexVal d) 0)

def namedColour (c : String) : Option Rgb :=
  match c with
  | "aqua" => some ⟨0, 0xff, 0xff⟩ | "black" => some ⟨0, 0, 0⟩ | "blue" => some ⟨0, 0, 0xff⟩
  | "fuchsia" => some ⟨0xff, 0, 0xff⟩ | "gray" => some ⟨0x80, 0x80, 0x80⟩ | "green" => some ⟨0, 0x80, 0⟩
  | "lime" => some ⟨0, 0xff, 0⟩ | "maroon" => some ⟨0x80, 0, 0⟩ | "navy" => some ⟨0, 0, 0x80⟩
  | "olive" => some ⟨0x80, 0x80, 0⟩ | "orange" => some ⟨0xff, 0xa5, 0⟩ | "purple" => some ⟨0x80, 0, 0x80⟩
  | "red" => some ⟨0xff, 0, 0⟩ | "silver" => some ⟨0xc0, 0xc0, 0xc0⟩ | "teal" => some ⟨0, 0x80, 0x80⟩
  | "white" => some ⟨0xff, 0xff, 0xff⟩ | "yellow" => some ⟨0xff, 0xff, 0⟩
  | _ => none

def parseColor (toks : List Tok) : Option Rgb :=
  match toks with
  | [.ident c] => namedColour c
  | [.hash s] =>
    if s.utf8ByteSize = 3 then
      (parseHexStr s).map fun v => ⟨(v / 256 % 16) * 0x11, (v / 16 % 16) * 0x11, (v % 16) * 0x11⟩
    else if s.utf8ByteSize = 6 then
      (parseHexStr s).map fun v => ⟨v / 65536 % 256, v / 256 % 256, v % 256⟩
    else none
  | .function name :: rest =>
    match rest.reverse with
    | .closeRound :: argsRev =>
      if name = "rgb" then
        match argsRev.reverse with
        | [.number r, .comma, .number g, .comma, .number b] =>
          match parseU8 r, parseU8 g, parseU8 b with
          | some r, some g, some b => some ⟨r, g, b⟩
          | _, _, _ => none
        | _ => none
      else none
    | _ => none
  | _ => none

def lastCommaGroup (toks : List Tok) : List Tok :=
  (toks.reverse.takeWhile (· ≠ .comma)).reverse

def isZeroNumber (s : String) : Option Bool :=
  -- parse_number on the token text; we only need whether the value is 0.0
  match parseNumberRest s.toList with
  | none => none
  | some _ => some ((s.toList.filter isDigit).all (· = '0'))

def parseHeight (v : RawValue) : Option Bool :=
  match v.tokens with
  | [.dimension n unit] =>
    if unit ∈ ["in", "cm", "mm", "pt", "pc", "px", "em", "ex"] then isZeroNumber n else none
  | [.number n] => match isZeroNumber n with | some true => some true | _ => none
  | _ => none

def firstIdentMatch {α : Type} (toks : List Tok) (f : String → Option α) : Option α :=
  toks.findSome? fun t => match t with | .ident w => f w | _ => none

def parseOverflow (v : RawValue) : Option Ovf :=
  firstIdentMatch v.tokens fun w =>
    if w = "visible" then some .visible else if w = "hidden" then some .hidden
    else if w = "scroll" then some .scroll else if w = "auto" then some .auto else none

def parseContent (v : RawValue) : Option String :=
  v.tokens.foldl (fun acc t => match acc, t with | some s, .string w => some (s ++ w) | _, _ => none) (some "")

def parseDeclaration (text : Inp) : Res Declaration :=
  match parseIdent text with
  | none => none
  | some (rest, prop) =>
    match skipWs rest with
    | ':' :: rest2 =>
      match parseValue (skipWs rest2) with
      | none => none
      | some (rest3, value) =>
        let unk := Decl.unknown prop
        let decl : Decl :=
          if prop = "background-color" then (match parseColor value.tokens with | some c => .bgColor c | none => unk)
          else if prop = "background" then (match parseColor (lastCommaGroup value.tokens) with | some c => .bgColor c | none => unk)
          else if prop = "color" then (match parseColor value.tokens with | some c => .color c | none => unk)
          else if prop = "height" then (match parseHeight value with | some z => .height z | none => unk)
          else if prop = "max-height" then (match parseHeight value with | some z => .maxHeight z | none => unk)
          else if prop = "overflow" then (match parseOverflow value with | some o => .overflow o | none => unk)
          else if prop = "overflow-y" then (match parseOverflow value with | some o => .overflowY o | none => unk)
          else if prop = "display" then .display ((firstIdentMatch value.tokens fun w => if w = "none" then some true else none).getD false)
          else if prop = "white-space" then
            .whiteSpace ((firstIdentMatch value.tokens fun w =>
              if w = "normal" then some WSVal.normal else if w = "pre" then some .pre else if w = "pre-wrap" then some .preWrap else none).getD .normal)
          else if prop = "content" then (match parseContent value with | some s => .content s | none => unk)
          else unk
        some (rest3, { data := decl, important := value.important })
    | _ => none

/-- further `;` (each followed by optional whitespace) after the first: `many0(tuple((tag(";"), skip_ws)))` -/
def eatSemis : Nat → Inp → Inp
  | f + 1, ';' :: r => eatSemis f (skipWs r)
  | _, i => i

/-- the separator of `parse_rules`: `many1(tuple((skip_ws, tag(";"), skip_ws)))` -/
def sepSemis (i : Inp) : Res Unit :=
  match skipWs i with
  | ';' :: r => some (eatSemis r.length (skipWs r), ())
  | _ => none

def parseRules (text : Inp) : Res (List Declaration) :=
  separatedList0 sepSemis parseDeclaration text

/-! selectors -/
inductive SelComp
  | cls (s : String) | elem (s : String) | hash (s : String) | star | child | desc | nth (a b : Int)
deriving Repr, DecidableEq

inductive Pseudo | before | after deriving Repr, DecidableEq

structure Selector where
  comps : List SelComp        -- right-most first, as stored
  pseudo : Option Pseudo := none
deriving Repr, DecidableEq

/-- `<i32 as FromStr>::from_str(digits)` on a digit string: `none` = out of range (the `map_res` then fails the
    alternative; before fix 77b1b03 this was an `unwrap()` panic) -/
def parseI32Digits (ds : Inp) : Option Int :=
  let v : Nat := ds.foldl (fun a d => a * 10 + (d.toNat - 48)) 0
  if v ≤ 2147483647 then some (Int.ofNat v) else none

/-- a parser result: success with the rest of the input, or failure.  There is deliberately no `panic`
    constructor: nothing in the CSS parser can panic (C17), and the type says so. -/
inductive PRes (α : Type) | ok (r : Inp) (a : α) | fail
deriving Repr

def signOf (i : Inp) : Inp × Int := match i with | '-' :: r => (r, -1) | '+' :: r => (r, 1) | _ => (i, 1)

def parseNthArgs (text : Inp) : PRes SelComp :=
  match text with
  | '(' :: rest =>
    let rest := skipWs rest
    let finish (r : Inp) (a b : Int) : PRes SelComp :=
      match skipWs r with | ')' :: r2 => .ok r2 (.nth a b) | _ => .fail
    if "even".toList.isPrefixOf rest then finish (rest.drop 4) 2 0
    else if "odd".toList.isPrefixOf rest then finish (rest.drop 3) 2 1
    else
      let (r1, asign) := signOf rest
      let (ads, r2) := digits r1
      -- alt 5 ("just b"): opt_sign digit1, map_res over i32::from_str
      let justB : PRes SelComp :=
        if ads.isEmpty then .fail else
        match parseI32Digits ads with | some b => finish r2 0 (b * asign) | none => .fail
      match r2 with
      | 'n' :: r3 =>
        let aval : Option Int := if ads.isEmpty then some 1 else parseI32Digits ads
        let r4 := skipWs r3
        let withB : Option (Inp × Inp × Int) := match r4 with
          | '-' :: r5 => let (bds, r6) := digits r5; if bds.isEmpty then none else some (bds, r6, -1)
          | '+' :: r5 => let (bds, r6) := digits r5; if bds.isEmpty then none else some (bds, r6, 1)
          | _ => none
        -- alt 3 ("a and b"): a map_res failure falls through to the next alternative
        let both : Option (PRes SelComp) := match withB with
          | some (bds, r6, bs) =>
            (match aval, parseI32Digits bds with
             | some a, some b => some (finish r6 (a * asign) (b * bs))
             | _, _ => none)
          | none => none
        (match both with
         | some r => r
         | none => match aval with
           | some a => finish r3 (a * asign) 0       -- alt 4 ("just a")
           | none => justB)
      | _ => justB
  | _ => .fail

/-- one selector component; `fail` = no alternative matched -/
def parseSelComp (text : Inp) : PRes SelComp :=
  let t1 := skipWs text
  match t1 with
  | '>' :: r => .ok (skipWs r) .child
  | _ =>
    match text with
    | '*' :: r => .ok r .star
    | _ =>
    match parseWs1 text with
    | some (r, _) => .ok r .desc
    | none =>
      match text with
      | '.' :: r => (match parseIdent r with | some (r2, n) => .ok r2 (.cls n) | none => .fail)   -- falls through the remaining alternatives, all of which fail on '.'
      | '#' :: r => (match parseIdentString r with | some (r2, n) => .ok r2 (.hash n) | none => .fail)
      | _ =>
        match parseIdent text with
        | some (r, n) => .ok r (.elem n)
        | none =>
          match text with
          | ':' :: r =>
            (match parseIdent r with
             | some (r2, n) => if n = "nth-child" then parseNthArgs r2 else .fail
             | none => .fail)
          | _ => .fail

def selCompsGo : Nat → Inp → List SelComp → Bool → PRes (List SelComp)
  | 0, i, acc, _ => .ok i acc
  | f + 1, i, acc, first =>
    match parseSelComp i with
    | .fail => .ok i acc
    | .ok i1 c => if i1.length = i.length && !first then .fail else selCompsGo f i1 (acc ++ [c]) false

def trimDesc (l : List SelComp) : List SelComp :=
  match l.reverse with | .desc :: r => r.reverse | _ => l

def parseSelector (text : Inp) : PRes Selector :=
  -- alt(parse_selector_with_element, parse_selector_without_element, fail)
  let r : PRes (List SelComp) :=
    match parseIdent text with
    | some (rest, id) =>
      (match selCompsGo (rest.length + 1) rest [] false with
       | .ok r cs => .ok r (.elem id :: cs)
       | .fail => (match parseSelComp text with          -- many0 errored: try many1 alternative
          | .ok i1 c => selCompsGo (i1.length + 1) i1 [c] false
          | .fail => .fail))
    | none =>
      match parseSelComp text with
      | .ok i1 c => selCompsGo (i1.length + 1) i1 [c] false
      | .fail => .fail
  match r with
  | .fail => .fail
  | .ok rest comps =>
    let comps := trimDesc (trimDesc comps).reverse
    if "::before".toList.isPrefixOf rest then .ok (rest.drop 8) { comps := comps, pseudo := some .before }
    else if "::after".toList.isPrefixOf rest then .ok (rest.drop 7) { comps := comps, pseudo := some .after }
    else .ok rest { comps := comps }

structure RuleSet where
  selectors : List Selector
  decls : List Declaration
deriving Repr

def selListGo : Nat → Inp → List Selector → PRes (List Selector)
  | 0, i, acc => .ok i acc
  | f + 1, i, acc =>
    match i with
    | ',' :: r =>
      let i1 := skipWs r
      (match parseSelector i1 with
       | .ok i2 s => selListGo f i2 (acc ++ [s])
       | .fail => .ok i acc)
    | _ => .ok i acc

def parseRuleset (text : Inp) : PRes RuleSet :=
  let rest := skipWs text
  let sels : PRes (List Selector) :=
    match parseSelector rest with
    | .ok i1 s => selListGo (i1.length + 1) i1 [s]
    | .fail => .ok rest []
  match sels with
  | .fail => .fail
  | .ok rest sels =>
    match skipWs rest with
    | '{' :: r1 =>
      (match parseRules (skipWs r1) with
       | none => .fail
       | some (r2, decls) =>
         let r3 := skipWs r2
         let r3 := eatSemis r3.length r3
         match skipWs r3 with
         | '}' :: r4 => .ok (skipWs r4) { selectors := sels, decls := decls }
         | _ => .fail)
    | _ => .fail

def isCloser : Tok → Bool | .cdc | .closeSquare | .closeRound | .closeBrace => true | _ => false

inductive SRes | ok (i : Inp) | fail | hang
deriving Repr

def skipStmtGo : Nat → Inp → List Tok → SRes
  | 0, _, _ => .hang                    -- a token that consumes nothing: the Rust loop never ends
  | f + 1, rest, stack =>
    match parseToken rest with
    | none => .ok rest
    | some (remain, tok) =>
      match tok with
      | .function _ | .openRound => skipStmtGo f remain (.closeRound :: stack)
      | .cdo => skipStmtGo f remain (.cdc :: stack)
      | .openSquare => skipStmtGo f remain (.closeSquare :: stack)
      | .openBrace => skipStmtGo f remain (.closeBrace :: stack)
      | .semicolon => if stack.isEmpty then .ok remain else skipStmtGo f remain stack
      | _ =>
        if isCloser tok then
          if tok = .closeBrace && stack.isEmpty then .ok rest
          else match stack with
            | top :: more =>
              if top = tok then
                if tok = .closeBrace && more.isEmpty then .ok remain else skipStmtGo f remain more
              else .fail
            | [] => .fail
        else skipStmtGo f remain stack

def parseAtRule (text : Inp) : SRes :=
  match skipWs text with
  | '@' :: r =>
    (match parseIdent (skipWs r) with
     | some (r2, _) => skipStmtGo (2 * r2.length + 2) r2 []
     | none => .fail)
  | _ => .fail

inductive SheetRes | ok (rules : List RuleSet) | err | hang
deriving Repr

def sheetGo : Nat → Inp → List RuleSet → SheetRes
  | 0, _, acc => .ok acc
  | f + 1, i, acc =>
    match parseRuleset i with
    | .ok i1 rs => if i1.length = i.length then .err else sheetGo f i1 (acc ++ [rs])
    | .fail =>
      match parseAtRule i with
      | .ok i1 => if i1.length = i.length then .err else sheetGo f i1 acc
      | .fail => .ok acc
      | .hang => .hang

def parseStylesheet (text : Inp) : SheetRes := sheetGo (text.length + 1) text []

end Css

end H2T
