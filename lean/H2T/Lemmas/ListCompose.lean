import H2T.Lemmas.LinksIrrel
import H2T.Lemmas.SubCompose

/-! C07, lists compositionally: a list is its items, each rendered on its own at the narrower width, with the marker in
    front of the item's first line and the indentation in front of its later lines, one item after the other. -/

namespace H2T

/-- the lines of a list: item `i` rendered on its own at width `w'`, prefixed with `first i` / `rest` -/
def itemLines (cfg : Cfg) (d : Deco) (w' : Nat) (first : Nat → List Ch) (rest : List Ch) : Nat → List RNode → Except Err (List RLine)
  | _, [] => .ok []
  | i, k :: ks =>
    andThen (renderTree cfg d w' k) fun ls =>
    andThen (itemLines cfg d w' first rest (i + 1) ks) fun more => .ok (zipPrefix [] (first i) rest ls ++ more)

theorem ff_width' {s s' : SubR} (h : s'.ff = s.ff) : s'.annStack = s.annStack ∧ s'.width = s.width := by
  simp only [SubR.ff, Prod.mk.injEq] at h; exact ⟨h.1, h.2.2.2.2⟩

/-- a parent renderer with nothing pending -/
def SubR.Plain (s : SubR) : Prop := s.wrapping = none ∧ s.pendingFrags = [] ∧ s.annStack = []

theorem renderTree_noFoot (cfg : Cfg) (d : Deco) (w : Nat) (n : RNode) (hfn : cfg.footnotes = false) (hw : w ≠ 0) :
    renderTree cfg d w n = andThen (runOps SubR.widthMinus cfg d { cur := { width := w } } (compile cfg d n)) fun t => t.cur.intoLines := by
  unfold renderTree
  rw [if_neg hw]
  have : ∀ l, footTexts cfg l = [] := by intro l; simp [footTexts, hfn]
  simp only [this, List.isEmpty_nil, if_true]

theorem compileItems_run (cfg : Cfg) (d : Deco) (hfn : cfg.footnotes = false) (w w' pw minW : Nat) (first : Nat → List Ch) (rest : List Ch)
    (hw' : SubR.widthMinus { width := w } cfg pw minW = .ok w') (hw'0 : w' ≠ 0) :
    ∀ (kids : List RNode) (i : Nat) (t : RS), t.cur.Plain → t.cur.width = w →
    ((andThen (runOps SubR.widthMinus cfg d t (compileItems cfg d pw minW first rest i kids)) fun t' => Except.ok t'.cur.lines) =
      (andThen (itemLines cfg d w' first rest i kids) fun ls => Except.ok (t.cur.lines ++ ls))) ∧
    ∀ t', runOps SubR.widthMinus cfg d t (compileItems cfg d pw minW first rest i kids) = .ok t' → t'.cur.Plain := by
  intro kids
  induction kids with
  | nil => intro i t hp hw; simp [compileItems, runOps, itemLines, andThen, hp]
  | cons k ks ih =>
    intro i t hp hwt
    obtain ⟨hp1, hp2, hp3⟩ := hp
    have hwm : t.cur.widthMinus cfg pw minW = .ok w' := by
      unfold SubR.widthMinus at hw' ⊢; rw [hwt]; exact hw'
    simp only [compileItems, runOps, runOp, itemLines, hwm, andThen_ok_eq]
    rw [renderTree_noFoot cfg d w' k hfn hw'0]
    -- the item's own run, started from the threaded link list or from the empty one
    have hl := runOps_links_irrel SubR.widthMinus cfg d hfn (compile cfg d k) { cur := { width := w' } } t.links
    rw [hp3]
    revert hl
    cases e1 : runOps SubR.widthMinus cfg d { cur := { width := w' } } (compile cfg d k) with
    | error e =>
      intro hl
      cases e1' : runOps SubR.widthMinus cfg d { links := t.links, cur := ({ width := w' } : SubR) } (compile cfg d k) with
      | ok r' => rw [e1'] at hl; simp [SameCur] at hl
      | error e' =>
        rw [e1'] at hl; simp only [SameCur] at hl; subst hl
        simp [andThen_error_eq]
    | ok r =>
      intro hl
      obtain ⟨r', e1', hc⟩ := hl.ok_iff
      have e1'' : runOps SubR.widthMinus cfg d { links := t.links, cur := ({ width := w', annStack := [] } : SubR) } (compile cfg d k) = .ok r' := e1'
      rw [e1'']
      simp only [andThen_ok_eq, Bool.false_eq_true, if_false, hc]
      unfold SubR.appendSub
      have hfl : t.cur.flushWrapping = .ok t.cur := by unfold SubR.flushWrapping; rw [hp1]
      rw [hfl]
      simp only [andThen_ok_eq]
      cases e3 : r.cur.intoLines with
      | error e => simp [andThen_error_eq]
      | ok ls =>
        simp only [andThen_ok_eq, hp3]
        obtain ⟨a, b, c⟩ := addLines_plain (zipPrefix [] (first i) rest ls) t.cur hp2
        have hplain : (t.cur.addLines (zipPrefix [] (first i) rest ls)).Plain := by
          refine ⟨c.trans hp1, b, ?_⟩
          have := ff_width' (addLines_ff (zipPrefix [] (first i) rest ls) t.cur)
          exact this.1.trans hp3
        have hwid : (t.cur.addLines (zipPrefix [] (first i) rest ls)).width = w := by
          have := ff_width' (addLines_ff (zipPrefix [] (first i) rest ls) t.cur)
          exact this.2.trans hwt
        obtain ⟨ih1, ih2⟩ := ih (i + 1) { links := r'.links, cur := t.cur.addLines (zipPrefix [] (first i) rest ls) } hplain hwid
        refine ⟨?_, ih2⟩
        rw [ih1]
        cases itemLines cfg d w' first rest (i + 1) ks with
        | error e => rfl
        | ok more => simp only [andThen_ok_eq]; rw [a]; simp

theorem intoLines_plain (s : SubR) (h : s.Plain) : s.intoLines = .ok s.lines := by
  simp [SubR.intoLines, SubR.flushWrapping, h.1, andThen]

/-- a tree whose program is a list of items -/
theorem renderTree_items (cfg : Cfg) (d : Deco) (w w' pw minW : Nat) (first : Nat → List Ch) (rest : List Ch) (tree : RNode) (kids : List RNode)
    (hc : compile cfg d tree = compileItems cfg d pw minW first rest 0 kids) (hfn : cfg.footnotes = false) (hw : w ≠ 0)
    (hw' : SubR.widthMinus { width := w } cfg pw minW = .ok w') (hw'0 : w' ≠ 0) :
    renderTree cfg d w tree = itemLines cfg d w' first rest 0 kids := by
  rw [renderTree_noFoot cfg d w tree hfn hw, hc]
  obtain ⟨h1, h2⟩ := compileItems_run cfg d hfn w w' pw minW first rest hw' hw'0 kids 0 { cur := { width := w } } ⟨rfl, rfl, rfl⟩ rfl
  cases e : runOps SubR.widthMinus cfg d { cur := { width := w } } (compileItems cfg d pw minW first rest 0 kids) with
  | error x =>
    rw [e] at h1
    simp only [andThen_error_eq] at h1 ⊢
    cases hi : itemLines cfg d w' first rest 0 kids with
    | error y => rw [hi] at h1; simp only [andThen_error_eq] at h1; exact h1
    | ok ls => rw [hi] at h1; simp [andThen_ok_eq] at h1
  | ok t' =>
    rw [e] at h1
    simp only [andThen_ok_eq] at h1 ⊢
    rw [intoLines_plain t'.cur (h2 t' e)]
    cases hi : itemLines cfg d w' first rest 0 kids with
    | error y => rw [hi] at h1; simp [andThen_error_eq] at h1
    | ok ls => rw [hi] at h1; simp only [andThen_ok_eq] at h1; rw [h1]; simp

end H2T
