import H2T.Lemmas.DomTotal
import H2T.DomTree

/-! The pipeline `renderDom` factors into a configuration-independent front end (style sheets, DOM → render tree, which only reads
    the `decorate` switch) and `renderTree`: whole-run relations between configurations proved for render trees transfer to
    the whole pipeline. -/
namespace H2T

theorem renderDom_factor (cfg : Cfg) (d : Deco) (w : Nat) (useDoc : Bool) (agentCss userCss : Option (List Char))
    (ci : CharInfo) (depth : Nat) (dom : Node) :
    renderDom cfg d w useDoc agentCss userCss ci depth dom =
      match domTree cfg.decorate useDoc agentCss userCss ci depth dom with
      | .error o => o
      | .ok tree => treeOutcome (renderTree cfg d w tree) := by
  have h0 : renderDom cfg d w useDoc agentCss userCss ci depth dom =
      (match addTo (if cfg.decorate then decorateRules else []) agentCss with
      | .error o => o
      | .ok agent =>
      match addTo [] userCss with
      | .error o => o
      | .ok user =>
      match docRulesOf useDoc depth dom with
      | .error o => o
      | .ok author =>
      match build { sd := { agent := agent, user := user, author := author }, useDoc := useDoc, ci := ci } [] 0 dom with
      | none => .panic "computed_style"
      | some none => .panic "Fail: no render tree"
      | some (some tree) =>
        if !tableOk tree then .panic "tableOk: a cell lies outside its table's columns" else
        match renderTree cfg d w tree with
        | .ok ls => .lines ls
        | .error .tooNarrow => .narrow
        | .error (.panic s) => .panic s
        | .error (.hang s) => .hang s) := rfl
  rw [h0]
  unfold domTree
  cases addTo (if cfg.decorate then decorateRules else []) agentCss with
  | error o => rfl
  | ok agent =>
    simp only
    cases addTo [] userCss with
    | error o => rfl
    | ok user =>
      simp only
      cases docRulesOf useDoc depth dom with
      | error o => rfl
      | ok author =>
        simp only
        unfold buildTree
        cases build { sd := { agent := agent, user := user, author := author }, useDoc := useDoc, ci := ci } [] 0 dom with
        | none => rfl
        | some r =>
          cases r with
          | none => rfl
          | some tree =>
            simp only
            cases tableOk tree with
            | false => rfl
            | true =>
              simp only [Bool.not_true, Bool.false_eq_true, if_false, treeOutcome]
              cases renderTree cfg d w tree with
              | ok ls => rfl
              | error e => cases e <;> rfl
end H2T
