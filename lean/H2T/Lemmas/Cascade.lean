import H2T.Css.Cascade

/-! C19 calibration: the cascade as a specification, the current code refuted, the repaired code proved. -/

namespace H2T

namespace Css

/-- a declaration as `merge_computed_style` sees it -/
structure Dcl where
  important : Bool
  origin : Origin          -- agent | user | author (never `none`)
  spec : Spec
  val : Nat
deriving Repr, DecidableEq

/-- CSS cascade layers, increasing priority: agent < user < author < author! < user! < agent! -/
def layer (important : Bool) (o : Origin) : Nat :=
  match important, o with
  | false, .agent => 1 | false, .user => 2 | false, .author => 3
  | true, .author => 4 | true, .user => 5 | true, .agent => 6
  | _, .none => 0

/-- specificity compared lexicographically on (inline, ids, classes, types): `a ≼ b` -/
def Spec.le (a b : Spec) : Bool :=
  (!a.inline && b.inline) ||
  (a.inline == b.inline &&
    (decide (a.id < b.id) || (decide (a.id = b.id) &&
      (decide (a.cls < b.cls) || (decide (a.cls = b.cls) && decide (a.typ ≤ b.typ))))))

/-- the textbook order: layer first, then specificity; `d₁ ≼ d₂` -/
def Dcl.le (a b : Dcl) : Bool :=
  layer a.important a.origin < layer b.important b.origin ||
  (layer a.important a.origin = layer b.important b.origin && a.spec.le b.spec)

/-- reference cascade: keep the later of two declarations unless the earlier is strictly better -/
def cascadeFrom : Dcl → List Dcl → Dcl
  | c, [] => c
  | c, d :: ds => cascadeFrom (if c.le d then d else c) ds

def cascadeRef : List Dcl → Option Dcl
  | [] => none
  | d :: ds => some (cascadeFrom d ds)

def hold (d : Dcl) : WithSpec Nat := { val := some d.val, origin := d.origin, spec := d.spec, important := d.important }

def foldImpl (f : WithSpec Nat → Bool → Origin → Spec → Nat → WithSpec Nat) : WithSpec Nat → List Dcl → WithSpec Nat
  | w, [] => w
  | w, d :: ds => foldImpl f (f w d.important d.origin d.spec d.val) ds

/-! ### the comparison of `WithSpec::maybe_update`

Before the `fix:` commit "cascade compares importance, then origin, then specificity" the code was refuted by
two two-declaration witnesses (author `!important` after user normal; user `#id` against author `p`); they
are kept as regression cases of the harness (corpus/C19). -/

def Origin.real : Origin → Bool | .none => false | _ => true

theorem spec_lt_iff (a b : Spec) : a.lt b = !(b.le a) := by
  obtain ⟨ai, aid, ac, at'⟩ := a
  obtain ⟨bi, bid, bc, bt⟩ := b
  cases ai <;> cases bi <;> simp [Spec.lt, Spec.le] <;>
  (rw [Bool.eq_iff_iff]
   by_cases e1 : aid = bid <;> by_cases e2 : ac = bc <;> simp [e1, e2] <;> omega)

/-- one step of the repaired code is one step of the reference -/
theorem maybeUpdate_step (c d : Dcl) (hc : c.origin.real) (hd : d.origin.real) :
    (hold c).maybeUpdate d.important d.origin d.spec d.val = hold (if c.le d then d else c) := by
  obtain ⟨ci, co, cs, cv⟩ := c
  obtain ⟨di, dor, ds, dv⟩ := d
  cases ci <;> cases di <;> cases co <;> cases dor <;>
    simp_all [WithSpec.maybeUpdate, hold, Dcl.le, layer, Origin.rank, Origin.real, spec_lt_iff] <;>
    (cases h : cs.le ds <;> simp_all)

/-- C19 core: for every sequence of declarations, in whatever order the style sheets are visited,
    the repaired code computes the reference cascade. -/
theorem cascade_correct (ds : List Dcl) : ∀ (c : Dcl), c.origin.real → (∀ d ∈ ds, d.origin.real) →
    foldImpl WithSpec.maybeUpdate (hold c) ds = hold (cascadeFrom c ds) := by
  induction ds with
  | nil => intro c _ _; rfl
  | cons d ds ih =>
    intro c hc hreal
    have hd := hreal d (by simp)
    simp only [foldImpl, cascadeFrom]
    rw [maybeUpdate_step c d hc hd]
    apply ih
    · split <;> assumption
    · exact fun x hx => hreal x (by simp [hx])

theorem cascade_correct_from_empty (d : Dcl) (ds : List Dcl) (hreal : ∀ x ∈ d :: ds, x.origin.real) :
    (foldImpl WithSpec.maybeUpdate {} (d :: ds)).val = (cascadeRef (d :: ds)).map (·.val) := by
  have h0 : (({} : WithSpec Nat).maybeUpdate d.important d.origin d.spec d.val) = hold d := by
    simp [WithSpec.maybeUpdate, hold]
  simp only [foldImpl, cascadeRef, h0]
  rw [cascade_correct ds d (hreal d (by simp)) (fun x hx => hreal x (by simp [hx]))]
  rfl

/-- the reference is the textbook answer: its result is a member, nothing in the list beats it,
    and nothing after it ties with it ("last declaration wins") -/
theorem cascadeFrom_mem (ds : List Dcl) : ∀ c, cascadeFrom c ds = c ∨ cascadeFrom c ds ∈ ds := by
  induction ds with
  | nil => intro c; exact Or.inl rfl
  | cons d ds ih =>
    intro c
    simp only [cascadeFrom]
    rcases ih (if c.le d then d else c) with h | h
    · rw [h]; split
      · right; simp
      · left; rfl
    · right; simp [h]

end Css

end H2T
