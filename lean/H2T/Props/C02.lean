import H2T.Lemmas.FitsBlock

/-! # C02 — no output line is wider than the requested width

Property theorems only (helper lemmas live in `H2T/Lemmas`).  Status: **partial** — proved for the wrap layer
(every white-space mode, tabs, padding, hard wrap) and for every table-free nested program; the table
operations (`appendColumns`, `appendVertRow`), the footnote list and `compile_ok` (the programs `compile`
emits satisfy `okOps`) are covered by the correspondence and the search oracle only.  The full statement is
kept as `C02.lines_fit_full`. -/

namespace H2T.C02

/-- display width of a rendered line -/
abbrev width (l : RLine) : Nat := rlw l

/-- **Full statement** (not yet proved as a whole): whenever the model renders a tree with overflow off and
    link wrapping on, every line fits the width. -/
def lines_fit_full : Prop :=
  ∀ (cfg : Cfg) (d : Deco) (w : Nat) (tree : RNode) (ls : List RLine),
    cfg.overflow = false → cfg.wrapLinks = true →
    renderTree cfg d w tree = .ok ls → ∀ l ∈ ls, width l ≤ w

/-- Wrap layer: a `WrappedBlock` that satisfies its invariant (every block reachable from `WrappedBlock::new`
    by `add_text`/`add_element` calls does — `addText_inv`) only emits lines that fit its width. -/
theorem wrap_lines_fit (b : WB) (ls : List TLine) (hi : b.Inv) (ho : b.overflow = false)
    (h : b.finish = .ok ls) : ∀ l ∈ ls, lw l ≤ b.width :=
  finish_lines_fit b ls hi ho h

/-- every sequence of `add_text` calls on a fresh block, then `into_lines`: all lines fit -/
theorem wrap_texts_fit (w : Nat) (pad : Bool) (texts : List (WS × Tag × Tag × List Ch)) (b : WB) (ls : List TLine)
    (hrun : texts.foldlM (fun (b : WB) (x : WS × Tag × Tag × List Ch) => b.addText x.1 x.2.1 x.2.2.1 x.2.2.2)
        ({ width := w, padBlocks := pad, overflow := false } : WB) = .ok b)
    (h : b.finish = .ok ls) : ∀ l ∈ ls, lw l ≤ w := by
  have key : ∀ (texts : List (WS × Tag × Tag × List Ch)) (b0 b : WB), b0.Inv → b0.overflow = false →
      texts.foldlM (fun (b : WB) (x : WS × Tag × Tag × List Ch) => b.addText x.1 x.2.1 x.2.2.1 x.2.2.2) b0 = .ok b →
      b.Inv ∧ b.overflow = false ∧ b.width = b0.width := by
    intro texts
    induction texts with
    | nil => intro b0 b hi ho hr; simp [List.foldlM, pure, Except.pure] at hr; subst hr; exact ⟨hi, ho, rfl⟩
    | cons x xs ih =>
      intro b0 b hi ho hr
      simp only [List.foldlM, bind, Except.bind] at hr
      cases h1 : b0.addText x.1 x.2.1 x.2.2.1 x.2.2.2 with
      | error e => simp [h1] at hr
      | ok b1 =>
        simp only [h1] at hr
        obtain ⟨i1, s1⟩ := addText_inv _ _ _ _ b0 b1 hi ho h1
        obtain ⟨i2, o2, w2⟩ := ih b1 b i1 (by rw [s1.overflow]; exact ho) hr
        exact ⟨i2, o2, by rw [w2, s1.width]⟩
  obtain ⟨hi, ho, hw⟩ := key texts _ b (new_inv w pad false) rfl hrun
  intro l hl
  have := finish_lines_fit b ls hi ho h l hl
  rw [hw] at this
  exact this

/-- `width_minus` returns a width that leaves room for the prefix (what the block layer needs of it) -/
theorem width_minus_contract (cfg : Cfg) (hov : cfg.overflow = false) (s : SubR) (p m w : Nat)
    (h : s.widthMinus cfg p m = .ok w) : w + p ≤ s.width :=
  widthMinus_contract cfg hov s p m w h

/-- Block layer (**partial**: table-free programs): any nesting of sub-renderers (quotes, list items,
    headings, definitions) whose prefixes are no wider than the width reserved for them, run from an empty
    renderer of width `w` with overflow off, yields only lines of width ≤ `w`. -/
theorem block_lines_fit_partial (cfg : Cfg) (d : Deco) (hov : cfg.overflow = false) (w : Nat) (ops : List Op)
    (hok : okOps ops = true) (t : RS) (ls : List RLine)
    (h1 : runOps SubR.widthMinus cfg d { cur := { width := w } } ops = .ok t) (h2 : t.cur.intoLines = .ok ls) :
    ∀ l ∈ ls, width l ≤ w :=
  block_lines_fit SubR.widthMinus cfg d (widthMinus_contract cfg hov) hov w ops hok t ls h1 h2

/-! ## non-vacuity: concrete inputs that meet the hypotheses -/

/-- "aaa bb" at width 4 wraps into two lines and both fit -/
example : (({ width := 4 } : WB).addText .normal [] [] (strCh "aaa bb")).toOption.bind
    (fun b => b.finish.toOption.map (·.map lw)) = some [3, 2] := by decide

/-- a quote containing a list item is an `okOps` program, renders, and fits width 8 -/
example :
    let ops : List Op := [.sub 2 3 (strCh "> ") (strCh "> ") true [.sub 2 1 (strCh "* ") (strCh "  ") false [.text (strCh "hello world")]]]
    okOps ops = true ∧
    ((runOps SubR.widthMinus {} Deco.plain { cur := { width := 8 } } ops).toOption.bind
      (fun t => t.cur.intoLines.toOption.map (·.map rlw))) = some [8, 5, 8, 5] := by decide

end H2T.C02
