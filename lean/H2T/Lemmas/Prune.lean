import H2T.Lemmas.DomTotal

/-! C18: `display:none` (and the zero-height idiom, which the cascade maps to the same flag) hides exactly the matched
    subtrees.  For style sheets without `:nth-child` selectors, building the render tree of a document equals building
    the render tree of the document with every hidden element deleted: a hidden subtree contributes nothing and does not
    influence how anything else is styled or built.  (The exclusion is necessary: deleting an element renumbers its later
    siblings, which `:nth-child` observes.) -/

namespace H2T
open Css

/-- frames that agree on everything but the sibling index -/
def FrameEq (a b : Frame) : Prop := a.isElem = b.isElem ∧ a.name = b.name ∧ a.attrs = b.attrs

/-- ancestor chains that agree frame by frame up to sibling indices -/
def ChainEq : List Frame → List Frame → Prop
  | [], [] => True
  | a :: as, b :: bs => FrameEq a b ∧ ChainEq as bs
  | _, _ => False

theorem ChainEq.length : ∀ {a b : List Frame}, ChainEq a b → a.length = b.length
  | [], [], _ => rfl
  | _ :: as, _ :: bs, h => by simp [ChainEq.length h.2]
  | [], _ :: _, h => by simp [ChainEq] at h
  | _ :: _, [], h => by simp [ChainEq] at h

theorem ChainEq.refl : ∀ (a : List Frame), ChainEq a a
  | [] => trivial
  | x :: xs => ⟨⟨rfl, rfl, rfl⟩, ChainEq.refl xs⟩

def nthFree (comps : List SelComp) : Bool := comps.all fun c => match c with | .nth .. => false | _ => true

theorem hasClass_eq {a b : Frame} (h : FrameEq a b) (cl : String) : hasClass a cl = hasClass b cl := by
  unfold hasClass; rw [h.2.2]

/-- without `:nth-child` the matcher does not look at sibling indices -/
theorem doMatches_chainEq : ∀ (fuel : Nat) (comps : List SelComp) (c1 c2 : List Frame), nthFree comps = true → ChainEq c1 c2 →
    doMatches comps c1 fuel = doMatches comps c2 fuel := by
  intro fuel
  induction fuel with
  | zero => intro comps c1 c2 _ _; simp [doMatches]
  | succ fuel ih =>
    intro comps c1 c2 hn hc
    cases comps with
    | nil => cases c1 <;> cases c2 <;> simp [doMatches]
    | cons c rest =>
      have hrest : nthFree rest = true := by simp [nthFree] at hn ⊢; exact hn.2
      cases c1 with
      | nil => cases c2 with
        | nil => simp [doMatches]
        | cons b bs => simp [ChainEq] at hc
      | cons n1 up1 => cases c2 with
        | nil => simp [ChainEq] at hc
        | cons n2 up2 =>
          obtain ⟨hf, hu⟩ := hc
          have hself := ih rest (n1 :: up1) (n2 :: up2) hrest ⟨hf, hu⟩
          have hup := ih rest up1 up2 hrest hu
          have hemp : up1.isEmpty = up2.isEmpty := by
            have := hu.length
            cases up1 <;> cases up2 <;> simp at this ⊢
          cases c with
          | cls cl => simp only [doMatches]; rw [hf.1, hasClass_eq hf cl, hself]
          | hash h => simp only [doMatches]; rw [hf.1, hf.2.2, hself]
          | elem nm => simp only [doMatches]; rw [hf.1, hf.2.1, hself]
          | star => simp only [doMatches]; rw [hf.1, hself]
          | child => simp only [doMatches]; rw [hemp, hup]
          | desc =>
            simp only [doMatches]
            rw [hemp, hup, ih (.desc :: rest) up1 up2 (by simpa [nthFree] using hn) hu]
          | nth a b => simp [nthFree] at hn

theorem selMatches_chainEq (s : Selector) (c1 c2 : List Frame) (hn : nthFree s.comps = true) (hc : ChainEq c1 c2) :
    selMatches s c1 = selMatches s c2 := by
  unfold selMatches matchFuel
  rw [hc.length]
  exact doMatches_chainEq _ _ _ _ hn hc

def rulesNthFree (rules : List Rule) : Prop := ∀ r ∈ rules, nthFree r.selector.comps = true
def sheetNthFree (sd : StyleData) : Prop := rulesNthFree sd.agent ∧ rulesNthFree sd.user ∧ rulesNthFree sd.author

theorem applyRules_chainEq (origin : Origin) (rules : List Rule) (c1 c2 : List Frame) (hn : rulesNthFree rules) (hc : ChainEq c1 c2) :
    ∀ (c : CRes), applyRules origin rules c1 c = applyRules origin rules c2 c := by
  unfold applyRules
  induction rules with
  | nil => intro c; rfl
  | cons r rs ih =>
    intro c
    simp only [List.foldl_cons]
    rw [selMatches_chainEq r.selector c1 c2 (hn r (by simp)) hc]
    exact ih (fun x hx => hn x (by simp [hx])) _

theorem computedStyle_chainEq (sd : StyleData) (useDoc : Bool) (f1 f2 : Frame) (up1 up2 : List Frame) (hn : sheetNthFree sd)
    (hf : FrameEq f1 f2) (hu : ChainEq up1 up2) : computedStyle sd useDoc (f1 :: up1) = computedStyle sd useDoc (f2 :: up2) := by
  unfold computedStyle
  have hc : ChainEq (f1 :: up1) (f2 :: up2) := ⟨hf, hu⟩
  rw [applyRules_chainEq .agent sd.agent _ _ hn.1 hc, applyRules_chainEq .user sd.user _ _ hn.2.1 hc,
    applyRules_chainEq .author sd.author _ _ hn.2.2 hc]
  generalize applyRules Origin.author sd.author (f2 :: up2)
    (applyRules Origin.user sd.user (f2 :: up2) (applyRules Origin.agent sd.agent (f2 :: up2) (CRes.ok { }))) = r
  cases r with
  | panic => rfl
  | ok c => simp only [hf.2.2]

/-! ## deleting hidden elements -/

mutual
/-- the node with every hidden descendant deleted; `none` when the node itself is hidden -/
def pruneNode (bc : BuildCfg) (up : List Frame) (idx : Nat) : Node → Option Node
  | .elem name html attrs kids =>
    match computedStyle bc.sd bc.useDoc ({ isElem := true, name := name, attrs := attrs, elemIdx := idx } :: up) with
    | .panic => some (.elem name html attrs kids)
    | .ok c =>
      if c.main.displayNone.val.isSome then none
      else some (.elem name html attrs (pruneList bc ({ isElem := true, name := name, attrs := attrs, elemIdx := idx } :: up) 0 kids))
  | .doc kids => some (.doc (pruneList bc [{ isElem := false }] 0 kids))
  | .text s => some (.text s)
  | .comment => some .comment
  | .other => some .other
def pruneList (bc : BuildCfg) (chain : List Frame) (seen : Nat) : List Node → List Node
  | [] => []
  | n :: ns =>
    (match pruneNode bc chain (if isElemNode n then seen + 1 else seen) n with | some n' => [n'] | none => []) ++
      pruneList bc chain (if isElemNode n then seen + 1 else seen) ns
end

mutual
theorem build_prune (bc : BuildCfg) (hn : sheetNthFree bc.sd) : (n : Node) → (up up' : List Frame) → (idx idx' : Nat) → ChainEq up up' →
    (match pruneNode bc up idx n with
     | none => build bc up idx n = some none
     | some n' => build bc up' idx' n' = build bc up idx n ∧ isElemNode n' = isElemNode n)
  | .text s, up, up', idx, idx', _ => by simp [pruneNode, build]
  | .comment, up, up', idx, idx', _ => by simp [pruneNode, build]
  | .other, up, up', idx, idx', _ => by simp [pruneNode, build]
  | .doc kids, up, up', idx, idx', _ => by
    simp only [pruneNode, build]
    rw [buildList_prune bc hn kids _ _ 0 0 (ChainEq.refl _)]
    exact ⟨rfl, rfl⟩
  | .elem name html attrs kids, up, up', idx, idx', hc => by
    have hce := computedStyle_chainEq bc.sd bc.useDoc { isElem := true, name := name, attrs := attrs, elemIdx := idx' }
      { isElem := true, name := name, attrs := attrs, elemIdx := idx } up' up hn ⟨rfl, rfl, rfl⟩ (by
        -- ChainEq is symmetric
        have sym : ∀ (a b : List Frame), ChainEq a b → ChainEq b a := by
          intro a
          induction a with
          | nil => intro b h; cases b <;> simp [ChainEq] at h ⊢
          | cons x xs ih => intro b h; cases b with
            | nil => simp [ChainEq] at h
            | cons y ys => exact ⟨⟨h.1.1.symm, h.1.2.1.symm, h.1.2.2.symm⟩, ih ys h.2⟩
        exact sym _ _ hc)
    simp only [pruneNode]
    cases hcs : computedStyle bc.sd bc.useDoc ({ isElem := true, name := name, attrs := attrs, elemIdx := idx } :: up) with
    | panic =>
      obtain ⟨c, hok⟩ := computedStyle_ok bc.sd bc.useDoc ({ isElem := true, name := name, attrs := attrs, elemIdx := idx } :: up)
      rw [hok] at hcs; simp at hcs
    | ok c =>
      simp only
      by_cases hd : c.main.displayNone.val.isSome = true
      · simp only [hd, if_true]
        simp [build, hcs, hd]
      · simp only [hd]
        refine ⟨?_, rfl⟩
        simp only [build, hce, hcs, hd, Bool.false_eq_true, if_false]
        have hcc : ChainEq ({ isElem := true, name := name, attrs := attrs, elemIdx := idx } :: up)
            ({ isElem := true, name := name, attrs := attrs, elemIdx := idx' } :: up') := ⟨⟨rfl, rfl, rfl⟩, hc⟩
        rw [buildList_prune bc hn kids _ _ 0 0 hcc]
theorem buildList_prune (bc : BuildCfg) (hn : sheetNthFree bc.sd) : (ns : List Node) → (chain chain' : List Frame) → (seen seen' : Nat) →
    ChainEq chain chain' → buildList bc chain' seen' (pruneList bc chain seen ns) = buildList bc chain seen ns
  | [], chain, chain', seen, seen', _ => by simp [pruneList, buildList]
  | n :: ns, chain, chain', seen, seen', hc => by
    simp only [pruneList]
    have hnode := build_prune bc hn n chain chain' (if isElemNode n = true then seen + 1 else seen)
    cases hp : pruneNode bc chain (if isElemNode n = true then seen + 1 else seen) n with
    | none =>
      have h1 := hnode (if isElemNode n = true then seen' + 1 else seen') hc
      rw [hp] at h1
      simp only [List.nil_append, buildList, h1]
      rw [buildList_prune bc hn ns chain chain' _ seen' hc]
      cases buildList bc chain (if isElemNode n = true then seen + 1 else seen) ns <;> rfl
    | some n' =>
      have h1 := hnode (if isElemNode n' = true then seen' + 1 else seen') hc
      rw [hp] at h1
      obtain ⟨hb, _⟩ := h1
      simp only [List.singleton_append, buildList, hb]
      rw [buildList_prune bc hn ns chain chain' _ _ hc]
end

end H2T
