//! C11: width errors — width 0 is TooNarrow, the overflow option always succeeds and is otherwise a no-op.

use super::common::*;
use crate::domwalk::{self, N};
use crate::gen::{self, Knobs};
use crate::obs::{line_text, Obs};
use crate::refimpl::{additive, sw};
use crate::util::R;
use crate::{run, Case, Prop, Tier, Viol};

pub struct C11;

/// largest total prefix width of any chain of nested prefixed blocks (built-in decorators: "> ", "* ", "N. ", "### ", dd "  ")
fn prefix_depth(n: &N, plainlike: bool) -> usize {
    fn go(n: &N, plainlike: bool) -> usize {
        let own = match n.name() {
            "blockquote" if plainlike => 2,
            "ul" if plainlike => 2,
            "ol" if plainlike => {
                // the widest marker of the list: digits of start and of start+n-1, plus ". "
                let items = n.kids().iter().filter(|k| k.is("li")).count() as i64;
                let start: i64 = n.attr("start").and_then(|s| s.parse().ok()).unwrap_or(1);
                let last = start + items - 1;
                (format!("{start}. ").len()).max(format!("{last}. ").len())
            }
            "h1" | "h2" | "h3" | "h4" | "h5" | "h6" if plainlike => n.name()[1..].parse::<usize>().unwrap_or(1) + 1,
            "dd" => 2,
            _ => 0,
        };
        own + n.kids().iter().map(|k| go(k, plainlike)).max().unwrap_or(0)
    }
    go(n, plainlike)
}

impl Prop for C11 {
    fn id(&self) -> &'static str {
        "C11"
    }
    fn rule(&self) -> &'static str {
        "G-doc + mutation, widths 0..60, + chains of 1..4 prefixed blocks around zero-minimum-width content at every width 0..12, random option mixes, each rendered with and without allow_width_overflow; bound checked on table-free documents; non-trivial = the run without overflow is TooNarrow at width >= 1 (so the option matters) or Ok with >= 2 lines"
    }
    fn cases(&self, r: &mut R, tier: Tier) -> Vec<Case> {
        let n = scale(tier, 2500, 40000);
        let mut v = Vec::new();
        for i in 0..n {
            let tables = r.p(40);
            let k = if tables { Knobs::all().no_css() } else { Knobs::all().no_css().no_tables() };
            let html = gen_doc(r, k).0;
            let bytes = if i % 6 == 5 { gen::mutate(r, html.as_bytes()) } else { html.into_bytes() };
            for _ in 0..(if tier == Tier::Quick { 3 } else { 5 }) {
                let mut cfg = mk_cfg(r, false);
                cfg.overflow = false;
                let w = match r.b(10) { 0 => 0, 1..=6 => 1 + r.u(12), _ => 1 + r.u(60) };
                v.push(case(bytes.clone(), cfg, w, if i % 6 == 5 { "g-mut" } else { "g-doc" }));
            }
        }
        // chains of prefixed blocks around content whose minimum width is 0 (cells without text, markers only, zero-width
        // text): at widths equal to the total prefix width the inner block legitimately gets 0 columns, which is where the
        // run with overflow and the run without must still agree (added after the seeded change
        // C11-overflow-width-minus-at-least-one was missed)
        let nchain = scale(tier, 150, 3000);
        for _ in 0..nchain {
            let mut open = String::new();
            let mut close = String::new();
            for _ in 0..1 + r.u(4) {
                let (o, c): (&str, &str) = match r.b(6) {
                    0 => ("<ul><li>", "</li></ul>"),
                    1 => ("<ol><li>", "</li></ol>"),
                    2 => ("<blockquote>", "</blockquote>"),
                    3 => ("<dl><dd>", "</dd></dl>"),
                    4 => ("<h3>", "</h3>"),
                    _ => ("<ol start=9><li>x</li><li>", "</li></ol>"),
                };
                open.push_str(o);
                close.insert_str(0, c);
            }
            let inner: &str = r.pick(&[
                "<table><tr><td></td></tr></table>",
                "<table><tr><td></td></tr><tr><td></td></tr></table>",
                "<table><tr><td><a name=\"x\"></a></td></tr></table>",
                "<table><tr><td></td><td></td></tr></table>",
                "<table><tr><td> </td></tr></table>",
                "<a name=\"y\"></a>",
                "<br>",
                "&#x301;",
                "<p></p>",
                "<span id=\"z\"></span>",
                "<table><tr><td>a</td></tr></table>",
                "a",
                "",
            ]);
            let html = format!("{open}{inner}{close}");
            let mut cfg = mk_cfg(r, false);
            cfg.overflow = false;
            for w in 0..=12usize {
                v.push(case(html.clone().into_bytes(), cfg.clone(), w, "prefix-chain"));
            }
        }
        v
    }
    fn oracle(&self, c: &Case, o: &Obs) -> Vec<Viol> {
        let mut out = vec![];
        let mut cfg_o = c.cfg.clone();
        cfg_o.overflow = true;
        let oo = run(&c.html, &cfg_o, c.width);
        if c.width == 0 {
            if *o != Obs::Narrow {
                out.push(viol(format!("width 0 gives {} instead of TooNarrow", o.short())));
            }
            if oo != Obs::Narrow {
                out.push(viol(format!("width 0 with overflow allowed gives {} instead of TooNarrow", oo.short())));
            }
            return out;
        }
        match &oo {
            Obs::Ok(_) => {}
            x => {
                out.push(viol(format!("with allow_width_overflow the document does not render at width {}: {}", c.width, x.short())));
                return out;
            }
        }
        if let Obs::Ok(_) = o {
            if *o != oo {
                out.push(viol(format!("allowing overflow changed a rendering that already succeeded: {} vs {}", o.short(), oo.short())));
                return out;
            }
        }
        // the bound, on table-free documents
        let dom = domwalk::tree(&c.html);
        if !dom.has_elem("table") && !c.cfg.nolinkwrap {
            let plainlike = !matches!(c.cfg.deco, crate::cfg::Deco::Trivial);
            let p = prefix_depth(&dom, plainlike);
            let bound = c.width.max(p + c.cfg.min_wrap.max(5));
            if let Obs::Ok(ls) = &oo {
                for l in ls {
                    let t = line_text(l);
                    if additive(&t) && sw(&t) > bound {
                        out.push(viol(format!("overflowing line {:?} has width {} > max(w={}, P={} + max(min_wrap_width={},5))", t, sw(&t), c.width, p, c.cfg.min_wrap)));
                        break;
                    }
                }
            }
        }
        out
    }
    fn project(&self, _c: &Case, o: &Obs) -> String {
        o.class().to_string()
    }
    fn nontrivial(&self, c: &Case, o: &Obs) -> bool {
        (c.width >= 1 && matches!(o, Obs::Narrow)) || matches!(o, Obs::Ok(l) if l.len() >= 2)
    }
}
