//! Shared by C18/C19/C20: per-character colour observation and alignment with the oracle DOM.

use crate::domwalk::{self, Flat, N};
use crate::obs::{El, Obs};
use crate::props::c03::is_tok;

/// token characters of the output in order, each with its list of colour tags (outermost first)
pub fn out_colours(o: &Obs, bg: bool) -> Option<Vec<(char, Vec<String>)>> {
    let ls = o.lines()?;
    let mut v = Vec::new();
    let p = if bg { 'B' } else { 'F' };
    for l in ls {
        for e in l {
            if let El::Ch(c, tags) = e {
                if is_tok(*c) {
                    let cols: Vec<String> = tags.split(';').filter(|t| t.starts_with(p)).map(|t| t[1..].to_string()).collect();
                    v.push((*c, cols));
                }
            }
        }
    }
    Some(v)
}

/// token characters of the document in order with their innermost element
pub fn doc_tokens(f: &Flat) -> Vec<(char, usize)> {
    f.flow.iter().filter(|(c, _)| is_tok(*c)).cloned().collect()
}

pub fn col(c: (u8, u8, u8)) -> String {
    format!("{}.{}.{}", c.0, c.1, c.2)
}
pub fn hexcol(c: (u8, u8, u8)) -> String {
    format!("#{:02x}{:02x}{:02x}", c.0, c.1, c.2)
}

/// does the document keep its characters in order in the output? (table-free, or raw mode)
pub fn sequence_ok(dom: &N, raw: bool) -> bool {
    raw || !dom.has_elem("table")
}

pub fn flat_of(dom: &N) -> Flat<'_> {
    domwalk::flat(dom)
}
