import H2T.Lemmas.GreedyWord

/-! Refinement, concluded: characters of one `add_text` call, then a list of parts, then the whole paragraph. -/

namespace H2T
open H2T.Spec

/-- the relation between results: same lines once tags and markers are forgotten -/
def SameLines (ls : List TLine) (gs : List (List Ch)) : Prop := erL ls = gs
/-- the end of the reference run -/
def specEnd (g : G) : Except Err (List (List Ch)) := .ok g.finish

theorem places_cons (W : Nat) (g : G) (w : List Ch) (ws : List (List Ch)) :
    g.places W (w :: ws) = andThen (g.place W w) (fun g' => g'.places W ws) := by
  simp only [G.places]; cases g.place W w <;> rfl

theorem addTextGo_cons (b : WB) (mt wt : Tag) (cur : Bool) (c : Ch) (cs : List Ch) :
    b.addTextGo .normal mt wt cur (c :: cs) =
      andThen (b.addChar .normal mt wt cur c) (fun r => r.1.addTextGo .normal mt wt r.2 cs) := by
  simp only [WB.addTextGo]; cases b.addChar .normal mt wt cur c <;> rfl

/-- the end of a paragraph: the pending word is placed and the last line flushed -/
theorem finish_refines (b : WB) (g : G) (pend : List Ch) (W : Nat) (h : Rel b g pend) (hW : b.width = W)
    (hall : ∀ w ∈ wordsFrom pend [], 0 < lwc w) :
    ExRel SameLines b.finish (andThen (g.places W (wordsFrom pend [])) specEnd) := by
  subst hW
  simp only [wordsFrom, WB.finish]
  by_cases hp : pend = []
  · have hw : b.word.noContent = true := (er_eq_nil_iff _).mp (by rw [h.word, hp])
    simp only [hp, if_true, G.places, andThen_ok, WB.flushWord, hw, specEnd, ExRel_ok_ok]
    show erL (rescueMarks _ _) = _
    rw [erL_rescueMarks _ _ (flushLine_line_noContent _)]
    exact finish_rel _ g (h.core.congr rfl rfl rfl rfl rfl rfl)
  · simp only [hp, if_false]
    rw [places_cons, ← andThen_assoc]
    have hw := hall pend (by simp [wordsFrom, hp])
    have h1 := flushWord_refines b g pend h hp hw
    refine ExRel.bind h1 ?_
    intro b' g' hpl
    simp only [G.places, andThen_ok, specEnd, ExRel_ok_ok]
    show erL (rescueMarks _ _) = _
    rw [erL_rescueMarks _ _ (flushLine_line_noContent _)]
    exact finish_rel _ _ hpl.1

theorem noContent_iff_er_nil (l : TLine) : l.noContent = true ↔ er l = [] := by
  induction l with
  | nil => simp [TLine.noContent]
  | cons e l ih =>
    cases e with
    | cell c => simp [TLine.noContent, Elt.isCell]
    | frag n =>
      simp only [TLine.noContent, List.any_cons, Elt.isCell, Bool.false_or] at ih ⊢
      simpa [er] using ih

/-- the characters of one `add_text` call, with an arbitrary continuation for what follows -/
theorem addTextGo_refines (W : Nat) (mt wt : Tag) (tail : List Ch) (kI : WB → Except Err (List TLine)) (cs : List Ch) :
    ∀ (b : WB) (g : G) (pend : List Ch) (cur : Bool),
    Rel b g pend → b.width = W → (∀ w ∈ wordsFrom pend (cs ++ tail), 0 < lwc w) →
    (∀ b' g' pend', Rel b' g' pend' → b'.width = W → (∀ w ∈ wordsFrom pend' tail, 0 < lwc w) →
      ExRel SameLines (kI b') (andThen (g'.places W (wordsFrom pend' tail)) specEnd)) →
    ExRel SameLines (andThen (b.addTextGo .normal mt wt cur cs) kI)
      (andThen (g.places W (wordsFrom pend (cs ++ tail))) specEnd) := by
  induction cs with
  | nil =>
    intro b g pend cur h hW hall hk
    simp only [WB.addTextGo, andThen_ok, List.nil_append] at hall ⊢
    exact hk b g pend h hW hall
  | cons c cs ih =>
    intro b g pend cur h hW hall hk
    rw [addTextGo_cons, ← andThen_assoc]
    simp only [List.cons_append] at hall ⊢
    by_cases hws : c.ws = true
    · -- whitespace character
      by_cases hp : pend = []
      · -- nothing pending
        have hwl0 : b.wordlen = 0 := by rw [h.wordlen, hp]; rfl
        have hw0 : er b.word = [] := by rw [h.word, hp]
        have hwf : wordsFrom pend (c :: (cs ++ tail)) = wordsFrom [] (cs ++ tail) := by simp [wordsFrom, hws, hp]
        rw [hwf] at hall ⊢
        generalize htag : (if cur then wt else mt) = tag
        have hstep : b.addChar .normal mt wt cur c =
            .ok ((if b.linelen > 0 && b.wslen = 0 then { b with spacetag := some tag, wslen := 1 } else b), cur) := by
          have hd : (!b.word.noContent) = false := by simp [(noContent_iff_er_nil b.word).mpr hw0]
          simp only [WB.addChar, hws, hd, Bool.and_false, htag, WS.preserve, Bool.false_eq_true, if_false, if_true]
          split <;> rfl
        rw [hstep, andThen_ok]
        have hrel := setWs_rel b g tag h.core hw0 hwl0 h.curpos (Or.inr ⟨h.ws, h.tag⟩)
        have hwid : (if b.linelen > 0 && b.wslen = 0 then { b with spacetag := some tag, wslen := 1 } else b).width = W := by
          split <;> exact hW
        exact ih _ g [] cur hrel hwid hall hk
      · -- a word is pending: place it
        have hwf : wordsFrom pend (c :: (cs ++ tail)) = pend :: wordsFrom [] (cs ++ tail) := by simp [wordsFrom, hws, hp]
        rw [hwf] at hall ⊢
        have hw := hall pend (by simp)
        have hwl : b.wordlen > 0 := by rw [h.wordlen]; exact hw
        have h1 := flushWord_refines b g pend h hp hw
        rw [hW] at h1
        rw [places_cons, ← andThen_assoc]
        generalize htag : (if cur then wt else mt) = tag
        have hstep : b.addChar .normal mt wt cur c =
            andThen (b.flushWord .normal) (fun b' =>
              .ok ((if b'.linelen > 0 && b'.wslen = 0 then { b' with spacetag := some tag, wslen := 1 } else b'), cur)) := by
          have hnc : (!b.word.noContent) = true := by
            have : ¬ b.word.noContent = true := fun hn => hp (by rw [← h.word]; exact (noContent_iff_er_nil b.word).mp hn)
            simpa using this
          simp only [WB.addChar, hws, hnc, htag, Bool.and_self, if_true, WS.preserve, Bool.false_eq_true, if_false]
          cases b.flushWord .normal with
          | error e => rfl
          | ok b' => simp only [andThen_ok]; split <;> rfl
        rw [hstep, ← andThen_assoc]
        refine ExRel.bind h1 ?_
        intro b' g' hpl
        obtain ⟨hc', hw', hwl', hws', hwid', hpos', hne'⟩ := hpl
        simp only [andThen_ok]
        have hcp' : g'.cur ≠ [] → 0 < lwc g'.cur := fun _ => hpos'
        have hrel := setWs_rel b' g' tag hc' (by rw [hw']; rfl) hwl' hcp' (Or.inl hws')
        have hall' : ∀ w ∈ wordsFrom [] (cs ++ tail), 0 < lwc w := fun w hm => hall w (by simp [hm])
        have hwid : (if b'.linelen > 0 && b'.wslen = 0 then { b' with spacetag := some tag, wslen := 1 } else b').width = W := by
          split <;> exact hwid'
        exact ih _ g' [] cur hrel hwid hall' hk
    · -- not whitespace
      have hws' : c.ws = false := by simpa using hws
      by_cases hct : c.ctrl = true
      · have hwf : wordsFrom pend (c :: (cs ++ tail)) = wordsFrom pend (cs ++ tail) := by simp [wordsFrom, hws', hct]
        rw [hwf] at hall ⊢
        have hstep : b.addChar .normal mt wt cur c = .ok (b, cur) := by
          simp [WB.addChar, hws', hct]
        rw [hstep, andThen_ok]
        exact ih b g pend cur h hW hall hk
      · have hct' : c.ctrl = false := by simpa using hct
        have hwf : wordsFrom pend (c :: (cs ++ tail)) = wordsFrom (pend ++ [c]) (cs ++ tail) := by
          simp [wordsFrom, hws', hct']
        rw [hwf] at hall ⊢
        generalize htag : (if cur then wt else mt) = tag
        have hstep : b.addChar .normal mt wt cur c =
            .ok ({ b with wordlen := b.wordlen + c.w, word := b.word ++ [Elt.cell ⟨c, tag⟩] }, cur) := by
          simp [WB.addChar, hws', hct', htag]
        rw [hstep, andThen_ok]
        have hrel : Rel ({ b with wordlen := b.wordlen + c.w, word := b.word ++ [Elt.cell ⟨c, tag⟩] } : WB) g (pend ++ [c]) :=
          ⟨h.core.congr rfl rfl rfl rfl rfl rfl, by simp [h.word], by simp [h.wordlen], h.ws, h.tag, h.curpos⟩
        exact ih _ g (pend ++ [c]) cur hrel hW hall hk

theorem zeroGuard_pos (b : WB) (cs : List Ch) (h : 1 ≤ b.width) : b.zeroGuard cs = .ok b := by
  have : ¬ b.width = 0 := by omega
  simp [WB.zeroGuard, this]

/-- a whole paragraph: any split into `add_text` calls with any tags, fragment markers anywhere -/
theorem runParts_refines (W : Nat) (hW1 : 1 ≤ W) : ∀ (parts : List Part) (b : WB) (g : G) (pend : List Ch),
    Rel b g pend → b.width = W → (∀ w ∈ wordsFrom pend (partsText parts), 0 < lwc w) →
    ExRel SameLines (andThen (b.runParts parts) WB.finish)
      (andThen (g.places W (wordsFrom pend (partsText parts))) specEnd)
  | [], b, g, pend, h, hW, hall => by
    simp only [WB.runParts, andThen_ok, partsText] at hall ⊢
    exact finish_refines b g pend W h hW hall
  | .frag n :: ps, b, g, pend, h, hW, hall => by
    simp only [WB.runParts, WB.addPart, andThen_ok, partsText, Part.chars, List.nil_append] at hall ⊢
    have hrel : Rel (b.addElement (.frag n)) g pend :=
      ⟨h.core.congr rfl rfl rfl rfl rfl rfl, by simp [WB.addElement, h.word], h.wordlen, h.ws, h.tag, h.curpos⟩
    exact runParts_refines W hW1 ps _ g pend hrel hW hall
  | .text mt wt cs :: ps, b, g, pend, h, hW, hall => by
    simp only [WB.runParts, WB.addPart, partsText, Part.chars] at hall ⊢
    rw [← andThen_assoc]
    simp only [WB.addText]
    rw [zeroGuard_pos b cs (by omega), andThen_ok]
    exact addTextGo_refines W mt wt (partsText ps) (fun b' => andThen (b'.runParts ps) WB.finish) cs b g pend
      b.preWrapped h hW hall
      (fun b' g' pend' hr hw' hall' => runParts_refines W hW1 ps b' g' pend' hr hw' hall')

/-- from related results to equal results -/
theorem ExRel_SameLines_eq {x : Except Err (List TLine)} {y : Except Err (List (List Ch))}
    (h : ExRel SameLines x y) : andThen x (fun ls => .ok (erL ls)) = y := by
  cases x <;> cases y <;> simp_all [SameLines]

end H2T
