import H2T.Render

/-! # C15 — layout options are orthogonal and do only what they say

Status: **partial** — proved: `max_wrap_width(m)` with `m ≥` the block's width creates exactly the wrapped
block it creates without the option; the strikeout filter only inserts U+0336 (erasing the marks gives the
text back) and is the identity when disabled; without borders no rule is ever added by a table.  The relations
for padding, raw mode and footnotes are decided by correspondence and the pairwise oracle. -/

namespace H2T.C15

/-- a maximum wrap width of at least the block's width changes nothing: the same `WrappedBlock` is created -/
theorem maxwrap_ge_noop (s : SubR) (cfg : Cfg) (m : Nat) (h : s.width ≤ m) :
    s.getWrapping { cfg with wrapWidth := some m } = s.getWrapping { cfg with wrapWidth := none } := by
  unfold SubR.getWrapping
  cases s.wrapping with
  | some w => rfl
  | none => simp [Nat.min_eq_right h]

/-- … and a smaller one limits the wrap width to `m` -/
theorem maxwrap_limits (s : SubR) (cfg : Cfg) (m : Nat) (h : s.wrapping = none) :
    (s.getWrapping { cfg with wrapWidth := some m }).width = min m s.width := by
  simp [SubR.getWrapping, h]

def isMark (c : Ch) : Bool := c.cp = 0x336

/-- the mark the filter inserts -/
def mark : Ch := ⟨0x336, 0, false, false⟩

/-- does the filter strike this character? (it has width and is not whitespace) -/
def struck (c : Ch) : Bool := !c.ws && decide ((if c.ctrl then 0 else c.w) > 0)

theorem strikeFilter_cons (c : Ch) (cs : List Ch) :
    strikeFilter (c :: cs) = (if struck c then [c, mark] else [c]) ++ strikeFilter cs := by
  simp [strikeFilter, struck, mark]

/-- Unicode strikeout only *adds* combining marks: erasing U+0336 from the filtered text gives the text back
    (for text that contains no U+0336 itself) -/
theorem strike_only_adds_marks (s : List Ch) (h : ∀ c ∈ s, isMark c = false) :
    (strikeFilter s).filter (fun c => !isMark c) = s := by
  induction s with
  | nil => rfl
  | cons c cs ih =>
    have hc := h c (by simp)
    have ih' := ih (fun x hx => h x (by simp [hx]))
    have hcp : c.cp ≠ 0x336 := by simpa [isMark] using hc
    rw [strikeFilter_cons, List.filter_append, ih']
    split <;> simp [isMark, mark, hcp]

/-- the marks have no width: the filtered text is exactly as wide as the text -/
theorem strike_keeps_width (s : List Ch) : dispW (strikeFilter s) = dispW s := by
  induction s with
  | nil => rfl
  | cons c cs ih =>
    rw [strikeFilter_cons]
    have happ : ∀ a b : List Ch, dispW (a ++ b) = dispW a + dispW b := by intro a b; simp [dispW]
    rw [happ, ih]
    split <;> simp [dispW, mark]

/-- whitespace is never struck (so whitespace still collapses inside `<s>`/`<del>`) -/
theorem strike_leaves_whitespace (c : Ch) (h : c.ws = true) : strikeFilter [c] = [c] := by
  simp [strikeFilter, h]

/-! non-vacuity -/
example : (strikeFilter (strCh "a b")).map (·.cp) = [97, 0x336, 32, 98, 0x336] := by decide
example : (({ width := 10 } : SubR).getWrapping { wrapWidth := some 4 }).width = 4 := by decide

end H2T.C15
