import H2T.Props.C02
import H2T.Lemmas.TagFam
import H2T.Lemmas.ConserveTree
import H2T.Props.C07

/-! # C16 — custom decorators are honoured verbatim and measured by display width

In the model a decorator is *data* (`Deco`: every string a `TextDecorator` returns), and the C02 and C07
theorems quantify over every `Deco` — so "measured by display width", "verbatim" and "the width bound still
holds" for custom decorators are their instances, stated here for the decorator family the harness implements
in Rust (`DecoFam` / `FamDeco`).  Status: **proved for the whole model** for the width bound
(`custom_render_fits`: every line fits, for every member of the family, tables and footnotes included — an instance of
`C02.lines_fit`, whose decorator hypothesis `DecoOk` holds for the family because its ordered-list markers are a
decimal number followed by a fixed string: `ol_markers_fit`); the "verbatim" and "display width" claims are the
lemmas below. -/

namespace H2T.C16

/-- the width bound of C02 holds for every decorator, custom ones included (overflow off) -/
theorem custom_lines_fit (f : DecoFam) (cfg : Cfg) (hov : cfg.overflow = false) (w : Nat) (ops : List Op)
    (hok : okOps ops = true) (t : RS) (ls : List RLine)
    (h1 : runOps SubR.widthMinus cfg (Deco.ofFam f) { cur := { width := w } } ops = .ok t)
    (h2 : t.cur.intoLines = .ok ls) : ∀ l ∈ ls, rlw l ≤ w :=
  C02.block_lines_fit_partial cfg (Deco.ofFam f) hov w ops hok t ls h1 h2

/-- **the width bound holds for every custom decorator of the family, for whole documents** -/
theorem custom_render_fits (f : DecoFam) (cfg : Cfg) (w : Nat) (tree : RNode) (ls : List RLine)
    (hov : cfg.overflow = false) (hwl : cfg.wrapLinks = true)
    (hh : ∀ h ∈ nodeHrefs tree, ∀ c ∈ h, c.w ≤ w ∧ (c.ctrl = true → c.w = 0))
    (h : renderTree cfg (Deco.ofFam f) w tree = .ok ls) : ∀ l ∈ ls, rlw l ≤ w :=
  C02.lines_fit cfg (Deco.ofFam f) w tree ls hov hwl (fam_ok f) hh h

/-- every marker of an ordered list is padded to exactly the list's prefix width, whatever the decorator's tail
    string is (wide and zero-width characters included), for every start value and every item -/
theorem ol_markers_fit (f : DecoFam) (start : Int) (n i : Nat) (hi : i < n) :
    dispW (padTo ((Deco.ofFam f).olPrefix (olItemNumber start i)) (olPrefixSize (Deco.ofFam f) start n))
      = olPrefixSize (Deco.ofFam f) start n :=
  dispW_padTo _ _ (fam_ok f start n i hi)

/-- **the trivial decorator produces nothing but document text (and whitespace)**: for simple table-free trees the
    non-whitespace characters of its output are exactly the tree's text -/
theorem trivial_only_text (cfg : Cfg) (w : Nat) (tree : RNode) (ls : List RLine) (hfn : cfg.footnotes = false)
    (hs : simpleTree tree = true) (h : renderTree cfg Deco.trivial w tree = .ok ls) : ls.flatMap rink = plainText tree :=
  H2T.trivial_text_preserved cfg w tree ls hfn hs h

/-- the strings of the family are used verbatim -/
theorem fam_verbatim (f : DecoFam) :
    (Deco.ofFam f).quotePrefix = f.quote ∧ (Deco.ofFam f).ulPrefix = f.ul ∧
    (Deco.ofFam f).emStart = f.emS ∧ (Deco.ofFam f).emEnd = f.emE ∧
    (Deco.ofFam f).strongStart = f.strongS ∧ (Deco.ofFam f).strongEnd = f.strongE ∧
    (Deco.ofFam f).codeStart = f.codeS ∧ (Deco.ofFam f).codeEnd = f.codeE ∧
    (Deco.ofFam f).strikeStart = f.strikeS ∧ (Deco.ofFam f).strikeEnd = f.strikeE ∧
    (Deco.ofFam f).linkStart = f.linkS ∧ (Deco.ofFam f).linkEnd = f.linkE ∧
    (∀ t, (Deco.ofFam f).imgText t = f.imgS ++ t ++ f.imgE) ∧
    (∀ i, (Deco.ofFam f).olPrefix i = fmtInt i ++ f.olTail) :=
  ⟨rfl, rfl, rfl, rfl, rfl, rfl, rfl, rfl, rfl, rfl, rfl, rfl, fun _ => rfl, fun _ => rfl⟩

/-- the size pass reserves the *display width* of the quote, list and heading prefixes (for any decorator) -/
theorem reserves_display_width (d : Deco) (mww : Nat) (st : Style) (kids : List RNode) :
    (sizeOf d mww (.box st .quote kids)).prefixSize = dispW d.quotePrefix ∧
    (sizeOf d mww (.box st .ul kids)).prefixSize = dispW d.ulPrefix ∧
    (∀ lvl, (sizeOf d mww (.box st (.header lvl) kids)).prefixSize = dispW (d.headerPrefix lvl)) := by
  refine ⟨?_, ?_, fun lvl => ?_⟩ <;> simp [sizeOf]

/-- a quote compiles to one `sub` whose reservation is the prefix's display width and whose prefixes are the
    decorator's string on every line: the C02 side condition `okOp` holds for it whenever it holds for the body -/
theorem quote_respects_reservation (cfg : Cfg) (d : Deco) (kids : List RNode) (h : okOps (compileList cfg d kids) = true) :
    okOps (compile cfg d (.box {} .quote kids)) = true := by
  simp [compile, styleOpen, styleClose, okOps, okOp, h]

/-- continuation lines of a list item are indented by the display width of the bullet -/
theorem ul_indentation (d : Deco) : dispW (List.replicate (dispW d.ulPrefix) spaceCh) = dispW d.ulPrefix :=
  C07.indentation_width _

/-! non-vacuity: a wide (3-byte, width-2) quote prefix "〖 " reserves 3 columns; the quoted text wraps to 5 at width 8 -/
example :
    let wide : Ch := ⟨0x3016, 2, false, false⟩
    let d : Deco := { Deco.plain with quotePrefix := [wide, spaceCh] }
    let tree : RNode := .box {} .quote [.text {} (strCh "aaaa bbbb")]
    ((renderTree {} d 8 tree).toOption.map fun ls => ls.map rlw) = some [7, 7] := by decide +kernel

/-! ## compositionality under a custom decorator (instances of the C07 theorems, which quantify over every decorator) -/

/-- **a custom quote prefix is put verbatim in front of every line of the content rendered at `width − display width`** -/
theorem custom_quote_is_prefixed (f : DecoFam) (cfg : Cfg) (w w' : Nat) (kids : List RNode) (hfn : cfg.footnotes = false) (hw : w ≠ 0)
    (hw' : SubR.widthMinus { width := w } cfg (dispW (Deco.ofFam f).quotePrefix)
      ((sizeOf (Deco.ofFam f) cfg.minWrap (.box {} .quote kids)).minW - dispW (Deco.ofFam f).quotePrefix) = .ok w') (hw'0 : w' ≠ 0) :
    renderTree cfg (Deco.ofFam f) w (.box {} .quote kids) =
      (renderTree cfg (Deco.ofFam f) w' (.box {} .container kids)).map (zipPrefix [] (Deco.ofFam f).quotePrefix (Deco.ofFam f).quotePrefix) :=
  C07.quote_is_prefixed_content cfg (Deco.ofFam f) w w' kids hfn hw hw' hw'0

/-- **a custom bullet stands in front of each item's first line, blank indentation of its display width in front of the
    later lines**, and the items are rendered at the width minus that display width -/
theorem custom_list_is_its_items (f : DecoFam) (cfg : Cfg) (w w' : Nat) (kids : List RNode) (hfn : cfg.footnotes = false) (hw : w ≠ 0)
    (hw' : SubR.widthMinus { width := w } cfg (dispW (Deco.ofFam f).ulPrefix)
      ((sizeOf (Deco.ofFam f) cfg.minWrap (.box {} .ul kids)).minW - dispW (Deco.ofFam f).ulPrefix) = .ok w') (hw'0 : w' ≠ 0) :
    renderTree cfg (Deco.ofFam f) w (.box {} .ul kids) =
      itemLines cfg (Deco.ofFam f) w' (fun _ => (Deco.ofFam f).ulPrefix) (List.replicate (dispW (Deco.ofFam f).ulPrefix) spaceCh) 0 kids :=
  C07.ul_is_its_items cfg (Deco.ofFam f) w w' kids hfn hw hw' hw'0

/-! ## the decorator's strings are part of the conserved text -/

/-- **a custom decorator's output is its affixes around the document's text, and nothing else**: for every decorator of the
    family whose block prefixes avoid an alphabet `P` (free of digits and `-`), every render tree without tables, every
    width and configuration (footnotes off, no Unicode strikeout): the `P`-characters of the rendered lines are exactly
    those of `nodeRaw` — the tree's texts with the decorator's start and end strings around each decorated element, image
    texts wrapped in the image affixes — each once, in document order -/
theorem custom_affixes_and_text_conserved (P : Ch → Bool) (f : DecoFam) (hP : ∀ c, P c = true → richAlpha c = true)
    (h1 : avoids P f.hUnit = true) (h2 : avoids P f.hTail = true) (h3 : avoids P f.quote = true) (h4 : avoids P f.ul = true)
    (h5 : avoids P f.olTail = true) (cfg : Cfg) (w : Nat) (tree : RNode) (ls : List RLine) (hfn : cfg.footnotes = false)
    (hu : cfg.unicodeStrike = false) (ht : noTable tree = true) (h : renderTree cfg (Deco.ofFam f) w tree = .ok ls) :
    (ls.flatMap rink).filter P = (nodeRaw (Deco.ofFam f) tree).filter P :=
  renderTree_chars_pre_raw P cfg (Deco.ofFam f) w tree ls hfn hu (fam_avoids P f hP h1 h2 h3 h4 h5) ht h

/-- with tables: nothing but the document's text and the decorator's strings, no character more often than there -/
theorem custom_nothing_invented (P : Ch → Bool) (f : DecoFam) (hP : ∀ c, P c = true → richAlpha c = true)
    (h1 : avoids P f.hUnit = true) (h2 : avoids P f.hTail = true) (h3 : avoids P f.quote = true) (h4 : avoids P f.ul = true)
    (h5 : avoids P f.olTail = true) (c : Ch) (hcb : isBox c = false) (hcP : P c = true) (cfg : Cfg) (w : Nat) (tree : RNode)
    (ls : List RLine) (hfn : cfg.footnotes = false) (hu : cfg.unicodeStrike = false) (h : renderTree cfg (Deco.ofFam f) w tree = .ok ls) :
    (ls.flatMap rink).count c ≤ (nodeRaw (Deco.ofFam f) tree).count c :=
  renderTree_chars_le_raw P c hcb hcP cfg (Deco.ofFam f) w tree ls hfn hu (fam_avoids P f hP h1 h2 h3 h4 h5) h

/-- what `nodeRaw` says about an emphasised element under a family decorator: start string, children, end string -/
theorem custom_em_spec (f : DecoFam) (sty : Style) (kids : List RNode) :
    nodeRaw (Deco.ofFam f) (.box sty .em kids) = keep f.emS ++ (listRaw (Deco.ofFam f) kids ++ keep f.emE) := by
  simp [nodeRaw, Deco.ofFam]

/-- non-vacuity: bullets `• ` (U+2022), quote `» `, emphasis `⟦ ⟧`: a wrapped list item with emphasis at width 8; the
    alphabet is the ASCII letters -/
def exFam : DecoFam where
  hUnit := [mkCh 0x25b6]
  hTail := [spaceCh]
  quote := [mkCh 0xbb, spaceCh]
  ul := [mkCh 0x2022, spaceCh]
  olTail := [mkCh 41, spaceCh]
  linkS := []
  linkE := []
  emS := [mkCh 0x27e6]
  emE := [mkCh 0x27e7]
  strongS := []
  strongE := []
  strikeS := []
  strikeE := []
  codeS := []
  codeE := []
  imgS := []
  imgE := []
example :
    let f : DecoFam := exFam
    let P : Ch → Bool := fun c => (97 ≤ c.cp && c.cp ≤ 122) || c.cp = 0x27e6 || c.cp = 0x27e7
    let tree : RNode := .box {} .ul [.box {} .li [.text {} (strCh "ab cd "), .box {} .em [.text {} (strCh "ef gh")], .text {} (strCh " ij")]]
    avoids P f.hUnit = true ∧ avoids P f.quote = true ∧ avoids P f.ul = true ∧ avoids P f.olTail = true ∧ noTable tree = true ∧
    ((renderTree { footnotes := false } (Deco.ofFam f) 8 tree).toOption.map fun ls => ((ls.flatMap rink).filter P).map (·.cp)) =
      some [97, 98, 99, 100, 0x27e6, 101, 102, 103, 104, 0x27e7, 105, 106] := by decide +kernel

end H2T.C16
