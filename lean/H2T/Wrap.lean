/-! Wrap layer with general tags (transcription of text_renderer.rs:96-688). -/

namespace H2T

structure Ch where
  cp : Nat
  w : Nat
  ws : Bool
  ctrl : Bool := false   -- UnicodeWidthChar::width = None
deriving Repr, DecidableEq, Inhabited

inductive Ann
  | unit | dflt | em | strong | strike | code | link (href : List Ch) | image (src : List Ch) | pre (cont : Bool)
  | fg (r g b : Nat) | bg (r g b : Nat)
deriving Repr, DecidableEq

abbrev Tag := List Ann

structure Cell where
  ch : Ch
  tag : Tag
deriving Repr, DecidableEq

inductive Elt
  | cell (c : Cell)
  | frag (name : List Ch)
deriving Repr, DecidableEq

def Elt.w : Elt → Nat | .cell c => c.ch.w | .frag _ => 0
def Elt.isCell : Elt → Bool | .cell _ => true | .frag _ => false

abbrev TLine := List Elt
def lw (l : TLine) : Nat := (l.map Elt.w).sum
/-- TaggedLine::is_empty: no Str element -/
def TLine.noContent (l : TLine) : Bool := !(l.any Elt.isCell)

inductive Err | tooNarrow | panic (site : String) | hang (site : String)
deriving Repr, DecidableEq

def andThen {α β : Type} (x : Except Err α) (f : α → Except Err β) : Except Err β :=
  match x with
  | .ok a => f a
  | .error e => .error e

inductive WS | normal | pre | preWrap
deriving Repr, DecidableEq
def WS.preserve : WS → Bool | .normal => false | _ => true
def WS.doWrap : WS → Bool | .pre => false | _ => true

def mkCh (cp : Nat) : Ch := ⟨cp, 1, false, false⟩
def spaceCh : Ch := ⟨32, 1, true, false⟩
def spc (t : Tag) : Elt := .cell ⟨spaceCh, t⟩
def strCh (s : String) : List Ch := s.toList.map fun c => if c = ' ' then spaceCh else mkCh c.toNat

structure WB where
  width : Nat
  text : List TLine := []
  line : TLine := []
  linelen : Nat := 0
  spacetag : Option Tag := none
  word : TLine := []
  wordlen : Nat := 0
  wslen : Nat := 0
  preWrapped : Bool := false
  padBlocks : Bool := false
  overflow : Bool := false
deriving Repr

def WB.pushWs (b : WB) (n : Nat) (t : Tag) : WB :=
  { b with line := b.line ++ List.replicate n (spc t), linelen := b.linelen + n }

/-- force_flush_line, including pad_to when pad_blocks -/
def WB.forceFlush (b : WB) : WB :=
  let l := if b.padBlocks && b.width > lw b.line
    then b.line ++ List.replicate (b.width - lw b.line) (spc (b.spacetag.getD [])) else b.line
  { b with text := b.text ++ [l], line := [], linelen := 0 }
def WB.flushLine (b : WB) : WB := if b.line.noContent then b else b.forceFlush

/-- scan of one chunk in flush_word_hard_wrap: consume characters while they fit -/
def scanFit (lineleft wpos : Nat) : List Cell → (List Cell × List Cell × Nat × Nat)
  | [] => ([], [], lineleft, wpos)
  | c :: cs =>
    if c.ch.w ≤ lineleft then
      let r := scanFit (lineleft - c.ch.w) (wpos + c.ch.w) cs
      (c :: r.1, r.2.1, r.2.2.1, r.2.2.2)
    else ([], c :: cs, lineleft, wpos)

def cellsW (l : List Cell) : Nat := (l.map (·.ch.w)).sum
def WB.pushCells (b : WB) (cs : List Cell) : WB :=
  { b with line := b.line ++ cs.map Elt.cell, linelen := b.linelen + cellsW cs }

/-- the `while w - wpos > lineleft` loop for one piece (a maximal run of equally tagged characters).
    Returns the block, lineleft, and whether anything of the piece was already emitted (bpos ≠ 0). -/
def WB.pieceLoop (b : WB) (w : Nat) : Nat → Nat → Nat → List Cell → Bool → Except Err (WB × Nat × Nat × List Cell × Bool)
  | 0, _, _, _, _ => .error (.hang "hard wrap piece loop")
  | fuel + 1, lineleft, wpos, rest, moved =>
    if w - wpos > lineleft then
      let r := scanFit lineleft wpos rest
      let taken := r.1; let rest' := r.2.1; let wpos' := r.2.2.2
      match rest' with
      | [] =>
        -- the scan ran off the end without `break` (impossible when widths are additive): split_idx = 0
        b.forceFlush.pieceLoop w fuel b.width wpos' rest moved
      | c :: more =>
        if taken.isEmpty && lw b.line = 0 then
          if b.overflow then (b.pushCells [c]).forceFlush.pieceLoop w fuel b.width (wpos' + c.ch.w) more true
          else .error .tooNarrow
        else (b.pushCells taken).forceFlush.pieceLoop w fuel b.width wpos' rest' (moved || !taken.isEmpty)
    else .ok (b, lineleft, wpos, rest, moved)

def WB.hardWrapPiece (b : WB) (lineleft : Nat) (piece : List Cell) : Except Err (WB × Nat) :=
  let w := cellsW piece
  andThen (b.pieceLoop w (piece.length + 2) lineleft 0 piece false) fun (b1, ll, wpos, rest, moved) =>
  if !moved then .ok (b1.pushCells piece, ll - w)
  else if !rest.isEmpty then .ok (b1.pushCells rest, ll - (w - wpos))
  else .ok (b1, ll)

/-- an element of `word` as `flush_word_hard_wrap` sees it: a `Str` piece (maximal run of equally tagged
    characters — `push_char` merges into the previous `Str` only when the tags are equal) or a fragment marker -/
inductive WItem
  | piece (cs : List Cell)
  | frag (name : List Ch)
deriving Repr, DecidableEq

def itemsOf : TLine → List WItem
  | [] => []
  | .frag n :: es => .frag n :: itemsOf es
  | .cell c :: es =>
    match itemsOf es, es with
    | (.piece p :: ps), (.cell c' :: _) => if c'.tag = c.tag then .piece (c :: p) :: ps else .piece [c] :: .piece p :: ps
    | ps, _ => .piece [c] :: ps

def WB.hardWrapGo (b : WB) (lineleft : Nat) : List WItem → Except Err WB
  | [] => .ok b
  | .frag n :: ps => ({ b with line := b.line ++ [Elt.frag n] } : WB).hardWrapGo lineleft ps
  | .piece p :: ps =>
    match b.hardWrapPiece lineleft p with
    | .ok (b', ll) => b'.hardWrapGo ll ps
    | .error e => .error e

def WB.hardWrap (b : WB) (word : TLine) : Except Err WB :=
  if b.linelen > b.width then .error (.panic "hard_wrap lineleft") else
  b.hardWrapGo (b.width - b.linelen) (itemsOf word)

def WB.wsLoop (b : WB) : Nat → Except Err WB
  | 0 => .error (.hang "flush_word ws loop")
  | fuel + 1 =>
    if b.wslen = 0 then .ok b else
    match b.spacetag with
    | none => .error (.panic "spacetag unwrap 427")
    | some t =>
      let toCopy := min b.wslen b.width
      let b1 := b.pushWs toCopy t
      let b2 := if toCopy = b.width then b1.flushLine else b1
      ({ b2 with wslen := b2.wslen - toCopy } : WB).wsLoop fuel

def WB.placeFits (b : WB) : Except Err WB :=
  if b.wslen > 0 then
    match b.spacetag with
    | none => .error (.panic "spacetag unwrap 391")
    | some t =>
      let b1 := b.pushWs b.wslen t
      .ok { b1 with spacetag := none, wslen := 0, line := b1.line ++ b.word, linelen := b1.linelen + lw b.word, word := [], wordlen := 0 }
  else .ok { b with line := b.line ++ b.word, linelen := b.linelen + lw b.word, word := [], wordlen := 0 }

def WB.disposeWs (b : WB) (m : WS) : Except Err WB :=
  if !m.doWrap then
    if b.wslen ≥ b.width - b.linelen then .ok { b with wslen := b.wslen - (b.width - b.linelen) }
    else if b.wslen > 0 then
      match b.spacetag with
      | none => .error (.panic "spacetag unwrap 409")
      | some t => .ok { b.pushWs b.wslen t with spacetag := none, wslen := 0 }
    else .ok b
  else .ok { b with spacetag := none, wslen := 0 }

def WB.startWordLine (b : WB) (m : WS) : Except Err WB :=
  let b2 := b.flushLine
  let b3 := if m = .pre then { b2 with preWrapped := true } else b2
  andThen (b3.wsLoop (b3.wslen + 1)) fun b4 => .ok { b4 with spacetag := none }

def WB.flushWord (b : WB) (m : WS) : Except Err WB :=
  if b.word.noContent then .ok { b with wordlen := 0 } else
  let b := { b with preWrapped := false }
  if b.linelen > b.width then .error (.panic "space_in_line") else
  if b.wslen + b.wordlen ≤ b.width - b.linelen then b.placeFits
  else
    andThen (b.disposeWs m) fun b1 =>
    andThen (b1.startWordLine m) fun b4 =>
    andThen (({ b4 with word := [], wordlen := 0 } : WB).hardWrap b.word) fun b5 =>
    .ok { b5 with wordlen := 0 }

def WB.tabLoop (b : WB) (tag : Tag) (pos : Nat) (one : Bool) : Nat → Except Err WB
  | 0 => .error (.hang "tab loop")
  | fuel + 1 =>
    if pos % 8 != 0 || !one then
      if pos ≥ b.width then b.flushLine.tabLoop tag 0 one fuel
      else ({ b with line := b.line ++ [spc tag], linelen := b.linelen + 1 } : WB).tabLoop tag (pos + 1) true fuel
    else .ok b

/-- one character of add_text; `cur` = true when the loop-local tag is the wrap tag -/
def WB.addChar (b : WB) (m : WS) (mainTag wrapTag : Tag) (cur : Bool) (c : Ch) : Except Err (WB × Bool) :=
  let tag := if cur then wrapTag else mainTag
  let r : Except Err WB := if c.ws && !b.word.noContent then b.flushWord m else .ok b
  match r with
  | .error e => .error e
  | .ok b =>
    if c.ws then
      if m.preserve then
        if c.cp = 10 then
          .ok ({ b.forceFlush with wslen := 0, spacetag := none, preWrapped := false }, false)
        else if c.cp = 9 then
          match b.tabLoop tag (b.linelen + b.wslen) false (2 * b.width + 20) with
          | .error e => .error e
          | .ok b' => .ok (b', cur)
        else if c.ctrl then .ok (b, cur)
        else if b.linelen + b.wslen + c.w > b.width then
          let b1 := ({ b with wslen := 0 } : WB).flushLine
          if m.doWrap then .ok ({ b1 with preWrapped := false }, cur)
          else .ok ({ b1 with wslen := b1.wslen + c.w, spacetag := some tag, preWrapped := true }, cur)
        else .ok ({ b with spacetag := some tag, wslen := b.wslen + c.w }, cur)
      else
        if b.linelen > 0 && b.wslen = 0 then .ok ({ b with spacetag := some tag, wslen := 1 }, cur)
        else .ok (b, cur)
    else
      if c.ctrl then .ok (b, cur) else
      let wordlen := b.wordlen + c.w
      let sw := m = .pre && b.linelen + b.wslen + wordlen > b.width
      let pw := if sw then true else b.preWrapped
      let cur' := if sw then true else cur
      let tag' := if cur' then wrapTag else mainTag
      .ok ({ b with wordlen := wordlen, preWrapped := pw, word := b.word ++ [Elt.cell ⟨c, tag'⟩] }, cur')

def WB.addTextGo (b : WB) (m : WS) (mainTag wrapTag : Tag) (cur : Bool) : List Ch → Except Err WB
  | [] => .ok b
  | c :: cs => match b.addChar m mainTag wrapTag cur c with
    | .ok (b', cur') => b'.addTextGo m mainTag wrapTag cur' cs
    | .error e => .error e

/-- the guard at the top of `add_text`: a zero-width block cannot hold anything -/
def WB.zeroGuard (b : WB) (cs : List Ch) : Except Err WB :=
  if b.width = 0 then
    if b.overflow then .ok { b with width := 1 }
    else if !cs.isEmpty then .error .tooNarrow else .ok b
  else .ok b

def WB.addText (b : WB) (m : WS) (mainTag wrapTag : Tag) (cs : List Ch) : Except Err WB :=
  andThen (b.zeroGuard cs) fun b => b.addTextGo m mainTag wrapTag b.preWrapped cs

def WB.addElement (b : WB) (e : Elt) : WB := { b with word := b.word ++ [e] }

/-- markers left alone on the current line (a line without text is never flushed) are kept at the end of the last
    finished line (fix 1a5345d; before it they were dropped) -/
def rescueMarks (text : List TLine) (line : TLine) : List TLine :=
  match text.getLast? with
  | some last => text.dropLast ++ [last ++ line]
  | none => text

/-- into_lines -/
def WB.finish (b : WB) : Except Err (List TLine) :=
  andThen (b.flushWord .normal) fun b' => .ok (rescueMarks b'.flushLine.text b'.flushLine.line)

def WB.textLen (b : WB) : Nat := b.text.length + b.linelen + b.wordlen

end H2T
