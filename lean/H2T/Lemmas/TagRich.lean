import H2T.Lemmas.TagTree

/-! the rich decorator's block prefixes (`# `, `> `, `* `, `12. `) avoid every character other than `#`, `>`, `*`, `-`, `.`
    and the digits -/

namespace H2T

/-- the content alphabet for the stock decorators: everything except the characters block prefixes are made of -/
def richAlpha (c : Ch) : Bool :=
  !(c.cp == 35 || c.cp == 42 || c.cp == 45 || c.cp == 46 || c.cp == 62 || (48 ≤ c.cp && c.cp ≤ 57))

theorem int_chars (i : Int) : ∀ c ∈ (toString i).toList, c.isDigit = true ∨ c = '-' := by
  intro c hc
  rw [Int.toString_eq_repr, Int.repr_eq_if] at hc
  split at hc
  · left; rw [Nat.toList_repr] at hc; exact Nat.isDigit_of_mem_toDigits (by decide) (by decide) hc
  · rw [String.toList_append, List.mem_append] at hc
    cases hc with
    | inl h => right; simpa using h
    | inr h => left; rw [Nat.toList_repr] at h; exact Nat.isDigit_of_mem_toDigits (by decide) (by decide) h

theorem avoids_of_forall (P : Ch → Bool) (p : List Ch) (h : ∀ c ∈ p, c.ws = true ∨ P c = false) : avoids P p = true := by
  simp only [avoids, List.all_eq_true, Bool.or_eq_true, Bool.not_eq_true']
  exact h

theorem fmtInt_avoids (i : Int) : avoids richAlpha (fmtInt i) = true := by
  apply avoids_of_forall
  intro c hc
  simp only [fmtInt, strCh, List.mem_map] at hc
  obtain ⟨ch, hch, rfl⟩ := hc
  right
  have := int_chars i ch hch
  split
  · simp [richAlpha, spaceCh] 
    rename_i h; subst h
    cases this with
    | inl h => simp [Char.isDigit] at h
    | inr h => simp at h
  · cases this with
    | inl h =>
      simp only [Char.isDigit, Bool.and_eq_true, decide_eq_true_eq] at h
      have h1 : 48 ≤ ch.toNat := UInt32.le_iff_toNat_le.mp h.1
      have h2 : ch.toNat ≤ 57 := UInt32.le_iff_toNat_le.mp h.2
      simp [richAlpha, mkCh, h1, h2]
    | inr h => subst h; simp [richAlpha, mkCh]

theorem rich_avoids : DecoAvoids richAlpha Deco.rich where
  header n := by
    simp only [Deco.rich, avoids_append]
    have : avoids richAlpha (List.replicate n (mkCh 35)) = true := by
      apply avoids_of_forall; intro c hc; rw [List.mem_replicate] at hc; right; rw [hc.2]; rfl
    rw [this]; decide
  quote := by decide
  ul := by decide
  ol i := by
    simp only [Deco.rich, avoids_append, fmtInt_avoids, Bool.true_and]
    decide

theorem plain_avoids : DecoAvoids richAlpha Deco.plain where
  header n := by
    simp only [Deco.plain, avoids_append]
    have : avoids richAlpha (List.replicate n (mkCh 35)) = true := by
      apply avoids_of_forall; intro c hc; rw [List.mem_replicate] at hc; right; rw [hc.2]; rfl
    rw [this]; decide
  quote := by decide
  ul := by decide
  ol i := by
    simp only [Deco.plain, avoids_append, fmtInt_avoids, Bool.true_and]
    decide

end H2T
