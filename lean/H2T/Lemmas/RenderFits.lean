import H2T.Lemmas.CompileWf
import H2T.Lemmas.Links
import H2T.Lemmas.Decimal

/-! C02 end to end: every line `renderTree` returns fits the requested width (tables and the footnote list included). -/

namespace H2T

/-- a link target the footnote list can wrap: no character wider than the line, control characters have no width -/
def HrefOk (w : Nat) (h : List Ch) : Prop := ∀ c ∈ h, c.w ≤ w ∧ (c.ctrl = true → c.w = 0)

theorem lw_snoc (l : TLine) (e : Elt) : lw (l ++ [e]) = lw l + e.w := by simp [lw]

/-- invariant of the footnote fold: finished pieces and the current piece fit, the counter is the current piece's width -/
def LinkAcc (width : Nat) (acc : List TLine × TLine × Nat) : Prop :=
  (∀ l ∈ acc.1, lw l ≤ width) ∧ lw acc.2.1 ≤ width ∧ acc.2.2 = lw acc.2.1

theorem linkStep_ok (ftag : Ann) (width : Nat) (acc : List TLine × TLine × Nat) (c : Ch) (h : LinkAcc width acc)
    (hc : c.w ≤ width ∧ (c.ctrl = true → c.w = 0)) : LinkAcc width (linkStep ftag width acc c) := by
  obtain ⟨h1, h2, h3⟩ := h
  have hcw : (if c.ctrl = true then 0 else c.w) = c.w := by
    split
    · rename_i h; exact (hc.2 h).symm
    · rfl
  unfold linkStep
  simp only [hcw]
  by_cases hfit : acc.2.2 + c.w > width
  · simp only [hfit, if_true]
    refine ⟨?_, by simp [lw, Elt.w]; exact hc.1, by simp [lw, Elt.w]⟩
    intro l hl
    simp only [List.mem_append, List.mem_singleton] at hl
    rcases hl with hl | rfl
    · exact h1 l hl
    · exact h2
  · simp only [hfit, if_false]
    refine ⟨h1, ?_, ?_⟩
    · rw [lw_snoc]; simp only [Elt.w]; omega
    · rw [lw_snoc]; simp only [Elt.w]; omega

theorem linkFold_ok (ftag : Ann) (width : Nat) : ∀ (s : List Ch) (acc : List TLine × TLine × Nat), LinkAcc width acc →
    HrefOk width s → LinkAcc width (s.foldl (linkStep ftag width) acc) := by
  intro s
  induction s with
  | nil => intro acc h _; exact h
  | cons c s ih =>
    intro acc h hs
    exact ih _ (linkStep_ok ftag width acc c h (hs c (by simp))) (fun x hx => hs x (by simp [hx]))

theorem fmtLinkLine_fit (cfg : Cfg) (ftag : Ann) (width : Nat) (s : List Ch) (hl : cfg.wrapLinks = true) (hw : 1 ≤ width)
    (hs : HrefOk width s) : ∀ l ∈ fmtLinkLine cfg ftag width s, lw l ≤ width := by
  unfold fmtLinkLine
  simp only [hl, Bool.true_and]
  have hs' : HrefOk width (s.map fun c => if c.cp = 10 then spaceCh else c) := by
    intro c hc
    simp only [List.mem_map] at hc
    obtain ⟨c0, hc0, rfl⟩ := hc
    split
    · exact ⟨by simp [spaceCh]; exact hw, by simp [spaceCh]⟩
    · exact hs c0 hc0
  generalize (s.map fun c => if c.cp = 10 then spaceCh else c) = s' at hs'
  split
  · have := linkFold_ok ftag width s' ([], [], 0) ⟨by simp, by simp [lw], by simp [lw]⟩ hs'
    intro l hl'
    simp only [List.mem_append, List.mem_singleton] at hl'
    rcases hl' with hl' | rfl
    · exact this.1 l hl'
    · exact this.2.1
  · rename_i hnw
    intro l hl'
    simp only [List.mem_singleton] at hl'
    subst hl'
    rw [dispW_cells]
    simp only [decide_eq_true_eq, Nat.not_lt] at hnw
    exact hnw

/-! ## the link targets of a render tree, in document order -/

mutual
def nodeHrefs : RNode → List (List Ch)
  | .box _ k kids => (match k with | .link h => [h] | _ => []) ++ listHrefs kids
  | .cell _ _ kids => listHrefs kids
  | .table _ rows _ => rowsHrefs rows
  | _ => []
def listHrefs : List RNode → List (List Ch)
  | [] => []
  | n :: ns => nodeHrefs n ++ listHrefs ns
def rowsHrefs : List RNode → List (List Ch)
  | [] => []
  | .row _ cells :: rs => cellsHrefs cells ++ rowsHrefs rs
  | _ :: rs => rowsHrefs rs
def cellsHrefs : List RNode → List (List Ch)
  | [] => []
  | .cell _ _ kids :: cs => listHrefs kids ++ cellsHrefs cs
  | _ :: cs => cellsHrefs cs
end

theorem opsHrefs_append (a b : List Op) : opsHrefs (a ++ b) = opsHrefs a ++ opsHrefs b := by
  induction a with
  | nil => simp [opsHrefs]
  | cons x a ih => simp [opsHrefs, ih]

theorem styleOpen_hrefs (d : Deco) (st : Style) : opsHrefs (styleOpen d st) = [] := by
  unfold styleOpen
  simp only [opsHrefs_append, List.append_eq_nil_iff]
  refine ⟨⟨⟨?_, ?_⟩, ?_⟩, ?_⟩ <;> (repeat' split) <;> simp [opsHrefs, opHrefs]

theorem styleClose_hrefs (d : Deco) (st : Style) : opsHrefs (styleClose d st) = [] := by
  unfold styleClose
  simp only [opsHrefs_append, List.append_eq_nil_iff]
  refine ⟨⟨⟨?_, ?_⟩, ?_⟩, ?_⟩ <;> (repeat' split) <;> simp [opsHrefs, opHrefs]

theorem supDigits_hrefs (kids : List RNode) (ds : List Ch) (h : supDigits kids = some ds) : listHrefs kids = [] := by
  unfold supDigits at h
  split at h
  · simp [listHrefs, nodeHrefs]
  · simp at h

mutual
/-- the targets `compile` mentions are exactly the tree's link targets, in document order -/
theorem compile_hrefs (cfg : Cfg) (d : Deco) : (n : RNode) → opsHrefs (compile cfg d n) = nodeHrefs n
  | .text st s => by simp [compile, opsHrefs_append, styleOpen_hrefs, styleClose_hrefs, opsHrefs, opHrefs, nodeHrefs]
  | .img st src title => by simp [compile, opsHrefs_append, styleOpen_hrefs, styleClose_hrefs, opsHrefs, opHrefs, nodeHrefs]
  | .br st => by simp [compile, opsHrefs_append, styleOpen_hrefs, styleClose_hrefs, opsHrefs, opHrefs, nodeHrefs]
  | .frag n => by simp [compile, opsHrefs, opHrefs, nodeHrefs]
  | .box st k kids => by
    have hb := compileList_hrefs cfg d kids
    cases k with
    | container => simp [compile, opsHrefs_append, styleOpen_hrefs, styleClose_hrefs, hb, nodeHrefs]
    | link href => simp [compile, opsHrefs_append, styleOpen_hrefs, styleClose_hrefs, hb, opsHrefs, opHrefs, nodeHrefs]
    | em => simp [compile, opsHrefs_append, styleOpen_hrefs, styleClose_hrefs, hb, opsHrefs, opHrefs, nodeHrefs]
    | strong => simp [compile, opsHrefs_append, styleOpen_hrefs, styleClose_hrefs, hb, opsHrefs, opHrefs, nodeHrefs]
    | strike => simp [compile, opsHrefs_append, styleOpen_hrefs, styleClose_hrefs, hb, opsHrefs, opHrefs, nodeHrefs]
    | code => simp [compile, opsHrefs_append, styleOpen_hrefs, styleClose_hrefs, hb, opsHrefs, opHrefs, nodeHrefs]
    | block => simp [compile, opsHrefs_append, styleOpen_hrefs, styleClose_hrefs, hb, opsHrefs, opHrefs, nodeHrefs]
    | li => simp [compile, opsHrefs_append, styleOpen_hrefs, styleClose_hrefs, hb, opsHrefs, opHrefs, nodeHrefs]
    | header lvl => simp [compile, opsHrefs_append, styleOpen_hrefs, styleClose_hrefs, hb, opsHrefs, opHrefs, nodeHrefs]
    | div => simp [compile, opsHrefs_append, styleOpen_hrefs, styleClose_hrefs, hb, opsHrefs, opHrefs, nodeHrefs]
    | quote => simp [compile, opsHrefs_append, styleOpen_hrefs, styleClose_hrefs, hb, opsHrefs, opHrefs, nodeHrefs]
    | ul => simp [compile, opsHrefs_append, styleOpen_hrefs, styleClose_hrefs, nodeHrefs, compileItems_hrefs cfg d _ _ _ _ 0 kids]
    | ol start => simp [compile, opsHrefs_append, styleOpen_hrefs, styleClose_hrefs, nodeHrefs, compileItems_hrefs cfg d _ _ _ _ 0 kids]
    | dl => simp [compile, opsHrefs_append, styleOpen_hrefs, styleClose_hrefs, hb, opsHrefs, opHrefs, nodeHrefs]
    | dt => simp [compile, opsHrefs_append, styleOpen_hrefs, styleClose_hrefs, hb, opsHrefs, opHrefs, nodeHrefs]
    | dd => simp [compile, opsHrefs_append, styleOpen_hrefs, styleClose_hrefs, hb, opsHrefs, opHrefs, nodeHrefs]
    | sup =>
      simp only [compile]
      split
      · rename_i ds hds
        simp [opsHrefs_append, styleOpen_hrefs, styleClose_hrefs, opsHrefs, opHrefs, nodeHrefs, supDigits_hrefs kids ds hds]
      · simp [opsHrefs_append, styleOpen_hrefs, styleClose_hrefs, hb, opsHrefs, opHrefs, nodeHrefs]
  | .cell st _ kids => by
    simp [compile, opsHrefs_append, styleOpen_hrefs, styleClose_hrefs, compileList_hrefs cfg d kids, nodeHrefs]
  | .row _ _ => by simp [compile, opsHrefs, nodeHrefs]
  | .tbody _ _ => by simp [compile, opsHrefs, nodeHrefs]
  | .table st rows n => by
    simp [compile, opsHrefs_append, styleOpen_hrefs, styleClose_hrefs, opsHrefs, opHrefs, nodeHrefs, compileRows_hrefs cfg d rows]
theorem compileList_hrefs (cfg : Cfg) (d : Deco) : (ns : List RNode) → opsHrefs (compileList cfg d ns) = listHrefs ns
  | [] => by simp [compileList, opsHrefs, listHrefs]
  | n :: ns => by simp [compileList, opsHrefs_append, compile_hrefs cfg d n, compileList_hrefs cfg d ns, listHrefs]
theorem compileItems_hrefs (cfg : Cfg) (d : Deco) (pw minW : Nat) (first : Nat → List Ch) (rest : List Ch) :
    (i : Nat) → (ns : List RNode) → opsHrefs (compileItems cfg d pw minW first rest i ns) = listHrefs ns
  | _, [] => by simp [compileItems, opsHrefs, listHrefs]
  | i, n :: ns => by
    simp [compileItems, opsHrefs, opHrefs, listHrefs, compile_hrefs cfg d n, compileItems_hrefs cfg d pw minW first rest (i + 1) ns]
theorem compileRows_hrefs (cfg : Cfg) (d : Deco) : (rows : List RNode) → opsHrefs (compileRows cfg d rows) = rowsHrefs rows
  | [] => by simp [compileRows, opsHrefs, rowsHrefs]
  | .row st cells :: rs => by
    simp [compileRows, opsHrefs, opHrefs, rowsHrefs, styleOpen_hrefs, styleClose_hrefs, compileCells_hrefs cfg d 0 cells,
      compileRows_hrefs cfg d rs]
  | .text _ _ :: rs => by simp [compileRows, rowsHrefs, compileRows_hrefs cfg d rs]
  | .img _ _ _ :: rs => by simp [compileRows, rowsHrefs, compileRows_hrefs cfg d rs]
  | .br _ :: rs => by simp [compileRows, rowsHrefs, compileRows_hrefs cfg d rs]
  | .frag _ :: rs => by simp [compileRows, rowsHrefs, compileRows_hrefs cfg d rs]
  | .box _ _ _ :: rs => by simp [compileRows, rowsHrefs, compileRows_hrefs cfg d rs]
  | .cell _ _ _ :: rs => by simp [compileRows, rowsHrefs, compileRows_hrefs cfg d rs]
  | .tbody _ _ :: rs => by simp [compileRows, rowsHrefs, compileRows_hrefs cfg d rs]
  | .table _ _ _ :: rs => by simp [compileRows, rowsHrefs, compileRows_hrefs cfg d rs]
theorem compileCells_hrefs (cfg : Cfg) (d : Deco) : (colno : Nat) → (cells : List RNode) →
    opsHrefs (compileCells cfg d colno cells) = cellsHrefs cells
  | _, [] => by simp [compileCells, opsHrefs, cellsHrefs]
  | colno, .cell st span kids :: cs => by
    simp [compileCells, opsHrefs, opHrefs, cellsHrefs, opsHrefs_append, styleOpen_hrefs, styleClose_hrefs,
      compileList_hrefs cfg d kids, compileCells_hrefs cfg d (colno + span) cs]
  | colno, .text _ _ :: cs => by simp [compileCells, cellsHrefs, compileCells_hrefs cfg d colno cs]
  | colno, .img _ _ _ :: cs => by simp [compileCells, cellsHrefs, compileCells_hrefs cfg d colno cs]
  | colno, .br _ :: cs => by simp [compileCells, cellsHrefs, compileCells_hrefs cfg d colno cs]
  | colno, .frag _ :: cs => by simp [compileCells, cellsHrefs, compileCells_hrefs cfg d colno cs]
  | colno, .box _ _ _ :: cs => by simp [compileCells, cellsHrefs, compileCells_hrefs cfg d colno cs]
  | colno, .row _ _ :: cs => by simp [compileCells, cellsHrefs, compileCells_hrefs cfg d colno cs]
  | colno, .tbody _ _ :: cs => by simp [compileCells, cellsHrefs, compileCells_hrefs cfg d colno cs]
  | colno, .table _ _ _ :: cs => by simp [compileCells, cellsHrefs, compileCells_hrefs cfg d colno cs]
end

/-! ## the whole rendering -/

theorem strCh_ok (s : String) : ∀ c ∈ strCh s, c.w = 1 ∧ c.ctrl = false := by
  intro c hc
  simp only [strCh, List.mem_map] at hc
  obtain ⟨x, _, rfl⟩ := hc
  split <;> simp [spaceCh, mkCh]

theorem HrefOk.append {w : Nat} {a b : List Ch} (ha : HrefOk w a) (hb : HrefOk w b) : HrefOk w (a ++ b) := by
  intro c hc
  simp only [List.mem_append] at hc
  rcases hc with hc | hc
  · exact ha c hc
  · exact hb c hc

theorem strCh_hrefOk (w : Nat) (hw : 1 ≤ w) (s : String) : HrefOk w (strCh s) := by
  intro c hc
  obtain ⟨a, b⟩ := strCh_ok s c hc
  exact ⟨by omega, by simp [b]⟩

/-- **C02 for the whole model**: with overflow off and link wrapping on, every line `renderTree` returns fits the
    requested width — wrapped text in every white-space mode, prefixed blocks at any nesting depth, side-by-side and
    stacked table rows with their borders, and the footnote list — for every tree, every configuration, and every
    decorator whose ordered-list markers are no wider than the wider end (`DecoOk`).  The hypothesis on the link
    targets is exactly the known finding `C02-footnote-wide-char` (a character wider than the whole line cannot be
    wrapped) plus the harness convention that control characters have width 0. -/
theorem renderTree_lines_fit (cfg : Cfg) (d : Deco) (w : Nat) (tree : RNode) (ls : List RLine)
    (hov : cfg.overflow = false) (hd : DecoOk d)
    (hfoot : cfg.footnotes = true → cfg.wrapLinks = true ∧ ∀ h ∈ nodeHrefs tree, HrefOk w h)
    (h : renderTree cfg d w tree = .ok ls) : ∀ l ∈ ls, rlw l ≤ w := by
  unfold renderTree at h
  split at h
  · simp at h
  · rename_i hw0
    have hw : 1 ≤ w := Nat.one_le_iff_ne_zero.mpr hw0
    cases h1 : runOps SubR.widthMinus cfg d { cur := { width := w } } (compile cfg d tree) with
    | error e => simp [h1, andThen_error_eq] at h
    | ok t =>
      simp only [h1, andThen_ok_eq] at h
      have st := runOps_fitsT SubR.widthMinus cfg d (widthMinus_contract cfg hov) hov _ _ t (compile_wf cfg d hd tree)
        (fresh_fits w []) h1
      have hwt : t.cur.width = w := st.2
      by_cases hfn : cfg.footnotes = true
      case neg =>
        have : footTexts cfg t.links = [] := by simp [footTexts, hfn]
        rw [this] at h
        simp only [List.isEmpty_nil, if_true] at h
        intro l hl
        have := intoLines_fit t.cur ls st.1 h l hl
        omega
      obtain ⟨hwl, hh⟩ := hfoot hfn
      obtain ⟨added, e1, e2⟩ := runOps_links SubR.widthMinus cfg d _ _ t h1
      have hlinks : ∀ u ∈ t.links, HrefOk w u := by
        intro u hu
        rw [e1] at hu
        simp only [List.nil_append] at hu
        have := e2.subset hu
        rw [compile_hrefs] at this
        exact hh u this
      have hfootok : ∀ f ∈ footTexts cfg t.links, HrefOk w f := by
        intro f hf
        simp only [footTexts, hfn, if_true, List.mem_map] at hf
        obtain ⟨⟨u, i⟩, hui, rfl⟩ := hf
        have hu : u ∈ t.links := (List.mem_zipIdx hui).2.2 ▸ List.getElem_mem _
        exact (((strCh_hrefOk w hw "[").append (strCh_hrefOk w hw _)).append (strCh_hrefOk w hw "]: ")).append (hlinks u hu)
      generalize footTexts cfg t.links = foot at h hfootok
      split at h
      · intro l hl
        have := intoLines_fit t.cur ls st.1 h l hl
        omega
      · cases h2 : t.cur.startBlock with
        | error e => simp [h2, andThen_error_eq] at h
        | ok s1 =>
          simp only [h2, andThen_ok_eq] at h
          have st1 := startBlock_step _ s1 st.1 h2
          have hw1 : s1.width = w := st1.2.trans hwt
          have hfoot : ∀ l ∈ (foot.flatMap (fmtLinkLine cfg (d.annOf Ann.dflt) s1.width)).map RLine.text, rlw l ≤ s1.width := by
            intro l hl
            simp only [List.mem_map, List.mem_flatMap] at hl
            obtain ⟨tl, ⟨f, hf, htl⟩, rfl⟩ := hl
            exact fmtLinkLine_fit cfg _ s1.width f hwl (by omega) (by rw [hw1]; exact hfootok f hf) tl htl
          obtain ⟨⟨f2, w2⟩, _⟩ := addLines_step _ s1 st1.1 hfoot
          intro l hl
          have := intoLines_fit _ ls f2 h l hl
          omega

end H2T
