import H2T.Css.Parse

/-! styles_from_properties, do_add_css, Display for StyleData (to compare with dom_to_parsed_style). -/

namespace H2T

namespace Css

inductive Style
  | colour (c : Rgb) | bgColour (c : Rgb) | displayNone | whiteSpace (v : WSVal) | content (s : String)
deriving Repr, DecidableEq

structure StyleDecl where
  style : Style
  important : Bool
deriving Repr, DecidableEq

def stylesFromProperties (decls : List Declaration) : List StyleDecl :=
  let r := decls.foldl (fun (acc : List StyleDecl × Bool × Bool) d =>
    let (out, ovh, hz) := acc
    match d.data with
    | .color c => (out ++ [⟨.colour c, d.important⟩], ovh, hz)
    | .bgColor c => (out ++ [⟨.bgColour c, d.important⟩], ovh, hz)
    | .height z => (out, ovh, hz || z)
    | .maxHeight z => (out, ovh, hz || z)
    | .overflow v => (out, ovh || v = .hidden, hz)
    | .overflowY v => (out, ovh || v = .hidden, hz)
    | .display n => (if n then out ++ [⟨.displayNone, d.important⟩] else out, ovh, hz)
    | .whiteSpace v => (out ++ [⟨.whiteSpace v, d.important⟩], ovh, hz)
    | .content s => (out ++ [⟨.content s, d.important⟩], ovh, hz)
    | .unknown _ => (out, ovh, hz)) ([], false, false)
  if r.2.1 && r.2.2 then r.1 ++ [⟨.displayNone, false⟩] else r.1

structure Rule where
  selector : Selector
  styles : List StyleDecl
deriving Repr

inductive AddRes | ok (rules : List Rule) | err | hang
deriving Repr

def doAddCss (css : Inp) : AddRes :=
  match parseStylesheet css with
  | .hang => .hang
  | .err => .err
  | .ok rss =>
    .ok (rss.flatMap fun rs =>
      let st := stylesFromProperties rs.decls
      if st.isEmpty then [] else rs.selectors.map fun s => { selector := s, styles := st })

def hex2 (n : Nat) : String :=
  let d (k : Nat) : Char := if k < 10 then Char.ofNat (48 + k) else Char.ofNat (87 + k)
  String.ofList [d (n / 16 % 16), d (n % 16)]

def showComp : SelComp → String
  | .cls n => "." ++ n | .elem n => n | .hash n => "#" ++ n | .star => " * " | .child => " > " | .desc => " "
  | .nth a b => ":nth-child(" ++ toString a ++ "n+" ++ toString b ++ ")"

def showSelector (s : Selector) : String :=
  String.join (s.comps.reverse.map showComp) ++
  (match s.pseudo with | some .before => "::before" | some .after => "::after" | none => "")

def showDecl (d : StyleDecl) : String :=
  (match d.style with
   | .colour c => "color: #" ++ hex2 c.r ++ hex2 c.g ++ hex2 c.b
   | .bgColour c => "background-color: #" ++ hex2 c.r ++ hex2 c.g ++ hex2 c.b
   | .displayNone => "display: none"
   | .whiteSpace .normal => "white-space: normal"
   | .whiteSpace .pre => "white-space: pre"
   | .whiteSpace .preWrap => "white-space: pre-wrap"
   | .content s => "content: \"" ++ s ++ "\"") ++ (if d.important then " !important" else "")

def showRules (title : String) (rs : List Rule) : String :=
  if rs.isEmpty then "" else
  title ++ "\n" ++ String.join (rs.map fun r =>
    "  " ++ showSelector r.selector ++ " {\n" ++ String.join (r.styles.map fun d => "    " ++ showDecl d ++ "\n") ++ "  }\n")

end Css

end H2T
