import H2T.Render

/-! C06 / C01 calibration: the table column shrink loop never underflows, never hangs, and exits fitting. -/

namespace H2T

theorem keyLe_refl (a : Nat × Nat × Nat) : keyLe a a = true := by simp [keyLe]
theorem keyLe_total (a b : Nat × Nat × Nat) : keyLe a b = true ∨ keyLe b a = true := by
  simp only [keyLe, Bool.or_eq_true, Bool.and_eq_true, decide_eq_true_eq]; omega
theorem keyLe_trans {a b c : Nat × Nat × Nat} (h1 : keyLe a b = true) (h2 : keyLe b c = true) : keyLe a c = true := by
  simp only [keyLe, Bool.or_eq_true, Bool.and_eq_true, decide_eq_true_eq] at *; omega

/-- what `argmaxCol` guarantees, as a predicate on its result -/
def ArgSpec (ws : List Nat) (cs : List SizeEst) (i : Nat) (acc res : Option ((Nat × Nat × Nat) × Nat)) : Prop :=
  match res with
  | none => acc = none ∧ ws = []
  | some r =>
    (∀ a, acc = some a → keyLe a.1 r.1 = true) ∧
    (∀ j (hj : j < ws.length), keyLe (colKey ws[j] (cs.getD j {}).minW (i + j)) r.1 = true) ∧
    (acc = some r ∨ ∃ j, ∃ hj : j < ws.length, r = (colKey ws[j] (cs.getD j {}).minW (i + j), i + j))

/-- lifting the guarantee for the tail (run with the updated accumulator) to the whole list -/
theorem ArgSpec_cons (w : Nat) (ws : List Nat) (c : SizeEst) (cs : List SizeEst) (i : Nat)
    (acc : Option ((Nat × Nat × Nat) × Nat)) (r0 : (Nat × Nat × Nat) × Nat) (res : Option ((Nat × Nat × Nat) × Nat))
    (hhead : keyLe (colKey w c.minW i) r0.1 = true) (hold : ∀ a, acc = some a → keyLe a.1 r0.1 = true)
    (hwho : acc = some r0 ∨ r0 = (colKey w c.minW i, i))
    (h : ArgSpec ws cs (i + 1) (some r0) res) : ArgSpec (w :: ws) (c :: cs) i acc res := by
  unfold ArgSpec at *
  cases res with
  | none => simp at h
  | some r =>
    simp only at h ⊢
    obtain ⟨h1, h2, h3⟩ := h
    have h10 := h1 r0 rfl
    refine ⟨fun a ha => keyLe_trans (hold a ha) h10, ?_, ?_⟩
    · intro j hj
      cases j with
      | zero => simpa using keyLe_trans hhead h10
      | succ j =>
        have := h2 j (by simpa using hj)
        simpa [Nat.add_assoc, Nat.add_comm 1 j] using this
    · rcases h3 with h3 | ⟨j, hj, h3⟩
      · injection h3 with h3
        rcases hwho with hw | hw
        · left; rw [hw, h3]
        · right; exact ⟨0, by simp, by rw [← h3, hw]; simp⟩
      · right
        exact ⟨j + 1, by simpa using hj, by simpa [Nat.add_assoc, Nat.add_comm 1 j] using h3⟩

/-- the arg-max returns a maximal element of (accumulator ∪ list), with its own index -/
theorem argmaxCol_spec : ∀ (ws : List Nat) (cs : List SizeEst) (i : Nat) (acc : Option ((Nat × Nat × Nat) × Nat)),
    ws.length ≤ cs.length → ArgSpec ws cs i acc (argmaxCol ws cs i acc) := by
  intro ws
  induction ws with
  | nil =>
    intro cs i acc _
    cases acc with
    | none => simp [argmaxCol, ArgSpec]
    | some a => simp [argmaxCol, ArgSpec, keyLe_refl]
  | cons w ws ih =>
    intro cs i acc hl
    cases cs with
    | nil => simp at hl
    | cons c cs =>
      have hl' : ws.length ≤ cs.length := by simpa using hl
      simp only [argmaxCol]
      cases acc with
      | none =>
        exact ArgSpec_cons w ws c cs i none (colKey w c.minW i, i) _ (keyLe_refl _) (fun a ha => by simp at ha)
          (Or.inr rfl) (ih cs (i + 1) _ hl')
      | some a0 =>
        simp only
        by_cases hle : keyLe a0.1 (colKey w c.minW i) = true
        · simp only [hle, if_true]
          exact ArgSpec_cons w ws c cs i (some a0) (colKey w c.minW i, i) _ (keyLe_refl _)
            (fun a ha => by injection ha with ha; subst ha; exact hle) (Or.inr rfl) (ih cs (i + 1) _ hl')
        · simp only [hle]
          have hge : keyLe (colKey w c.minW i) a0.1 = true := by
            rcases keyLe_total a0.1 (colKey w c.minW i) with h | h
            · exact absurd h hle
            · exact h
          exact ArgSpec_cons w ws c cs i (some a0) a0 _ hge
            (fun a ha => by injection ha with ha; subst ha; exact keyLe_refl _) (Or.inl rfl) (ih cs (i + 1) _ hl')

theorem sum_pos_exists : ∀ (ws : List Nat), 0 < ws.sum → ∃ j, ∃ hj : j < ws.length, 0 < ws[j] := by
  intro ws
  induction ws with
  | nil => simp
  | cons w ws ih =>
    intro h
    by_cases hw : 0 < w
    · exact ⟨0, by simp, by simpa using hw⟩
    · have : 0 < ws.sum := by simp at h; omega
      obtain ⟨j, hj, hp⟩ := ih this
      exact ⟨j + 1, by simpa using hj, by simpa using hp⟩

theorem decAt_spec : ∀ (ws : List Nat) (i : Nat) (hi : i < ws.length), 0 < ws[i] →
    (decAt ws i).length = ws.length ∧ (decAt ws i).sum + 1 = ws.sum := by
  intro ws
  induction ws with
  | nil => intro i hi; simp at hi
  | cons w ws ih =>
    intro i hi hp
    cases i with
    | zero => simp [decAt] at hp ⊢; omega
    | succ i =>
      have := ih i (by simpa using hi) (by simpa using hp)
      simp [decAt]; omega

/-- the chosen column has positive width whenever some column has -/
theorem argmax_pos (ws : List Nat) (cs : List SizeEst) (hl : ws.length ≤ cs.length) (hs : 0 < ws.sum) :
    ∃ k i, argmaxCol ws cs 0 none = some (k, i) ∧ ∃ hi : i < ws.length, 0 < ws[i] := by
  have := argmaxCol_spec ws cs 0 none hl
  unfold ArgSpec at this
  cases hr : argmaxCol ws cs 0 none with
  | none => rw [hr] at this; obtain ⟨_, hnil⟩ := this; subst hnil; simp at hs
  | some r =>
    rw [hr] at this
    obtain ⟨_, h2, h3⟩ := this
    rcases h3 with h3 | ⟨j, hj, h3⟩
    · simp at h3
    · refine ⟨r.1, r.2, rfl, ?_⟩
      have hidx : r.2 = j := by rw [h3]; simp
      refine ⟨by rw [hidx]; exact hj, ?_⟩
      -- if the winner had width 0, every column would have width 0
      obtain ⟨j', hj', hp⟩ := sum_pos_exists ws hs
      have hle := h2 j' hj'
      rw [h3] at hle
      simp only [hidx]
      simp only [keyLe, colKey, Nat.zero_add, Bool.or_eq_true, Bool.and_eq_true, decide_eq_true_eq] at hle
      omega

/-- C06/C01: under the side-by-side guard (`n − 1 ≤ width`, which `min_size ≤ width` implies) the shrink loop
    terminates within `Σ w + 1` iterations, never decrements a zero, and returns columns that fit. -/
theorem shrinkLoop_ok (width : Nat) (cs : List SizeEst) : ∀ (fuel : Nat) (ws : List Nat),
    ws.length ≤ cs.length → ws.length - 1 ≤ width → ws.sum < fuel →
    ∃ ws', shrinkLoop width cs fuel ws = .ok ws' ∧ ws'.length = ws.length ∧ ws'.sum + ws'.length - 1 ≤ width := by
  intro fuel
  induction fuel with
  | zero => intro ws _ _ h; omega
  | succ fuel ih =>
    intro ws hl hg hf
    simp only [shrinkLoop]
    by_cases hfit : ws.sum + ws.length - 1 ≤ width
    · simp only [hfit, if_true]; exact ⟨ws, rfl, rfl, hfit⟩
    · simp only [hfit, if_false]
      have hs : 0 < ws.sum := by omega
      obtain ⟨k, i, hr, hi, hp⟩ := argmax_pos ws cs hl hs
      simp only [hr]
      have hnz : ¬ (ws.getD i 0 = 0) := by
        have : ws.getD i 0 = ws[i] := by simp [hi]
        omega
      simp only [hnz, if_false]
      obtain ⟨dl, dsum⟩ := decAt_spec ws i hi hp
      obtain ⟨ws', h1, h2, h3⟩ := ih (decAt ws i) (by rw [dl]; exact hl) (by rw [dl]; exact hg) (by omega)
      exact ⟨ws', h1, h2.trans dl, h3⟩

end H2T
