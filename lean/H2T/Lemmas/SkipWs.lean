import H2T.Lemmas.CssTotal

/-! C17: the algebra of `skip_optional_whitespace`.  Wherever the grammar skips whitespace, any sequence of whitespace
    characters and complete comments can be inserted, removed or replaced without changing what the parser sees next. -/

namespace H2T

namespace Css

/-- `skipWs` without the combinator: drop whitespace items while there are any -/
def dropWs : Nat → Inp → Inp
  | 0, i => i
  | f + 1, i => match wsItem i with | some (i1, _) => dropWs f i1 | none => i

theorem many0Go_wsItem (f : Nat) : ∀ (i : Inp) (acc : List Unit), ∃ out, many0Go wsItem f i acc = some (dropWs f i, out) := by
  induction f with
  | zero => intro i acc; exact ⟨acc, rfl⟩
  | succ f ih =>
    intro i acc
    simp only [many0Go, dropWs]
    cases h : wsItem i with
    | none => exact ⟨acc, rfl⟩
    | some v =>
      obtain ⟨i1, o⟩ := v
      have hlt := wsItem_lt i i1 o h
      have : ¬ i1.length = i.length := by omega
      simp only [this, if_false]
      exact ih i1 (acc ++ [o])

theorem skipWs_eq_dropWs (i : Inp) : skipWs i = dropWs (i.length + 1) i := by
  unfold skipWs many0
  obtain ⟨out, h⟩ := many0Go_wsItem (i.length + 1) i []
  rw [h]

/-- more fuel than characters changes nothing -/
theorem dropWs_fuel : ∀ (f g : Nat) (i : Inp), i.length ≤ f → i.length ≤ g → dropWs f i = dropWs g i := by
  intro f
  induction f with
  | zero =>
    intro g i h _
    have : i = [] := List.length_eq_zero_iff.mp (by omega)
    subst this
    cases g <;> simp [dropWs, wsItem]
  | succ f ih =>
    intro g i h hg
    cases g with
    | zero =>
      have : i = [] := List.length_eq_zero_iff.mp (by omega)
      subst this; simp [dropWs, wsItem]
    | succ g =>
      simp only [dropWs]
      cases hw : wsItem i with
      | none => rfl
      | some v =>
        obtain ⟨i1, o⟩ := v
        have hlt := wsItem_lt i i1 o hw
        exact ih g i1 (by omega) (by omega)

theorem skipWs_step (i i1 : Inp) (o : Unit) (h : wsItem i = some (i1, o)) : skipWs i = skipWs i1 := by
  rw [skipWs_eq_dropWs, skipWs_eq_dropWs]
  have hlt := wsItem_lt i i1 o h
  show dropWs (i.length + 1) i = _
  simp only [dropWs, h]
  exact dropWs_fuel i.length (i1.length + 1) i1 (by omega) (by omega)

theorem skipWs_stop (i : Inp) (h : wsItem i = none) : skipWs i = i := by
  rw [skipWs_eq_dropWs]; simp [dropWs, h]

/-- **a whitespace character in front is skipped** -/
theorem skipWs_ws (c : Char) (i : Inp) (h : isWsChar c = true) : skipWs (c :: i) = skipWs i :=
  skipWs_step (c :: i) i () (by simp [wsItem, h])

/-- **a complete comment in front is skipped** -/
theorem skipWs_comment (body rest : Inp) (h : skipToCommentEnd (body ++ '*' :: '/' :: rest) = some rest) :
    skipWs ('/' :: '*' :: (body ++ '*' :: '/' :: rest)) = skipWs rest := by
  apply skipWs_step _ rest ()
  have : isWsChar '/' = false := by decide
  simp [wsItem, this, matchComment, h]

/-- what `skipWs` returns does not start with whitespace or a comment -/
theorem dropWs_done : ∀ (f : Nat) (i : Inp), i.length ≤ f → wsItem (dropWs f i) = none := by
  intro f
  induction f with
  | zero => intro i h; have : i = [] := List.length_eq_zero_iff.mp (by omega); subst this; rfl
  | succ f ih =>
    intro i h
    simp only [dropWs]
    cases hw : wsItem i with
    | none => exact hw
    | some v =>
      obtain ⟨i1, o⟩ := v
      have hlt := wsItem_lt i i1 o hw
      exact ih i1 (by omega)

theorem wsItem_skipWs (i : Inp) : wsItem (skipWs i) = none := by
  rw [skipWs_eq_dropWs]; exact dropWs_done _ i (by omega)

/-- **skipping twice is skipping once** -/
theorem skipWs_idem (i : Inp) : skipWs (skipWs i) = skipWs i := skipWs_stop _ (wsItem_skipWs i)

/-- sequences of whitespace characters and complete comments -/
inductive WsSeq : Inp → Prop
  | nil : WsSeq []
  | ws (c : Char) (w : Inp) : isWsChar c = true → WsSeq w → WsSeq (c :: w)
  | comment (body w : Inp) : (∀ rest, skipToCommentEnd (body ++ '*' :: '/' :: rest) = some rest) → WsSeq w →
      WsSeq ('/' :: '*' :: (body ++ '*' :: '/' :: w))

/-- **insignificant syntax is insignificant**: any sequence of whitespace and comments in front of a position where the
    grammar skips whitespace can be inserted, removed or replaced by any other -/
theorem skipWs_absorbs (w : Inp) (hw : WsSeq w) (i : Inp) : skipWs (w ++ i) = skipWs i := by
  induction hw with
  | nil => rfl
  | ws c w hc _ ih => rw [List.cons_append, skipWs_ws c _ hc, ih]
  | comment body w hb _ ih =>
    have : '/' :: '*' :: (body ++ '*' :: '/' :: w) ++ i = '/' :: '*' :: (body ++ '*' :: '/' :: (w ++ i)) := by simp
    rw [this, skipWs_comment body (w ++ i) (hb _), ih]

theorem skipWs_variants (w1 w2 : Inp) (h1 : WsSeq w1) (h2 : WsSeq w2) (i : Inp) : skipWs (w1 ++ i) = skipWs (w2 ++ i) := by
  rw [skipWs_absorbs w1 h1, skipWs_absorbs w2 h2]

/-- a comment body without `*` closes at its own `*/` -/
theorem commentEnd_plain (body : Inp) (h : '*' ∉ body) (rest : Inp) : skipToCommentEnd (body ++ '*' :: '/' :: rest) = some rest := by
  induction body with
  | nil => rfl
  | cons c b ih =>
    have hc : c ≠ '*' := fun e => h (by simp [e])
    have hb : '*' ∉ b := fun e => h (by simp [e])
    simp only [List.cons_append]
    unfold skipToCommentEnd
    split
    · rename_i heq; cases heq
    · rename_i heq; injection heq with h1 _; exact absurd h1 hc
    · rename_i heq; injection heq with _ h2; rw [← h2]; exact ih hb

/-! ## what this means for the parser's entry points -/

/-- an identifier (property name, selector name) may be preceded by any whitespace and comments -/
theorem parseIdent_absorbs (w : Inp) (hw : WsSeq w) (t : Inp) : parseIdent (w ++ t) = parseIdent t := by
  unfold parseIdent; rw [skipWs_absorbs w hw]

/-- so may every token of a value -/
theorem parseToken_absorbs (w : Inp) (hw : WsSeq w) (t : Inp) : parseToken (w ++ t) = parseToken t := by
  unfold parseToken; rw [skipWs_absorbs w hw]

/-- …and the `;` between declarations -/
theorem sepSemis_absorbs (w : Inp) (hw : WsSeq w) (t : Inp) : sepSemis (w ++ t) = sepSemis t := by
  unfold sepSemis; rw [skipWs_absorbs w hw]

/-- a declaration is read through `skipWs` at three places — before the name, before the colon, after the colon: two texts
    whose names agree and whose remainders agree after skipping give the same declaration -/
theorem parseDeclaration_congr (t1 t2 r1 r2 : Inp) (p : String) (h1 : parseIdent t1 = some (r1, p)) (h2 : parseIdent t2 = some (r2, p))
    (a1 a2 : Inp) (c1 : skipWs r1 = ':' :: a1) (c2 : skipWs r2 = ':' :: a2) (hv : skipWs a1 = skipWs a2) :
    parseDeclaration t1 = parseDeclaration t2 := by
  unfold parseDeclaration
  simp only [h1, h2, c1, c2, hv]

/-- whitespace and comments in front of a declaration do not matter -/
theorem parseDeclaration_absorbs (w : Inp) (hw : WsSeq w) (t : Inp) : parseDeclaration (w ++ t) = parseDeclaration t := by
  unfold parseDeclaration; rw [parseIdent_absorbs w hw]

/-- whitespace and comments around the colon do not matter: if the name is read from `t` up to `r` and `r` continues with
    `w1 ++ ':' :: w2 ++ v`, the declaration is the one read with nothing around the colon -/
theorem parseDeclaration_colon (t r v w1 w2 : Inp) (p : String) (hw1 : WsSeq w1) (hw2 : WsSeq w2)
    (t' r' : Inp) (h1 : parseIdent t = some (r, p)) (h2 : parseIdent t' = some (r', p))
    (hr : r = w1 ++ ':' :: (w2 ++ v)) (hr' : r' = ':' :: v) :
    parseDeclaration t = parseDeclaration t' := by
  have hc : ∀ x, wsItem (':' :: x) = none := by
    intro x
    have : isWsChar ':' = false := by decide
    simp [wsItem, this, matchComment]
  refine parseDeclaration_congr t t' r r' p h1 h2 (w2 ++ v) v ?_ ?_ ?_
  · rw [hr, skipWs_absorbs w1 hw1, skipWs_stop _ (hc _)]
  · rw [hr', skipWs_stop _ (hc _)]
  · exact skipWs_absorbs w2 hw2 v

/-! ## rule sets -/

/-- the selector list of a rule set, read from input that has been skipped -/
def selsOf (rest : Inp) : PRes (List Selector) :=
  match parseSelector rest with
  | .ok i1 s => selListGo (i1.length + 1) i1 [s]
  | .fail => .ok rest []

/-- the block after `{`: declarations, optional semicolons, `}` -/
def blockOf (sels : List Selector) (r1 : Inp) : PRes RuleSet :=
  match parseRules (skipWs r1) with
  | none => .fail
  | some (r2, decls) =>
    let r3 := skipWs r2
    let r3 := eatSemis r3.length r3
    match skipWs r3 with
    | '}' :: r4 => .ok (skipWs r4) { selectors := sels, decls := decls }
    | _ => .fail

/-- what follows the selector list -/
def bodyOf (sels : List Selector) (rest : Inp) : PRes RuleSet :=
  match skipWs rest with
  | '{' :: r1 => blockOf sels r1
  | _ => .fail

theorem parseRuleset_eq (text : Inp) :
    parseRuleset text = (match selsOf (skipWs text) with | .fail => .fail | .ok rest sels => bodyOf sels rest) := by
  unfold parseRuleset selsOf bodyOf blockOf
  simp only
  cases h : parseSelector (skipWs text) with
  | fail => rfl
  | ok i1 s => simp only; cases selListGo (i1.length + 1) i1 [s] <;> rfl

/-- whitespace and comments in front of a rule set, between the selector list and `{`, and after `{` do not matter -/
theorem parseRuleset_absorbs (w : Inp) (hw : WsSeq w) (t : Inp) : parseRuleset (w ++ t) = parseRuleset t := by
  rw [parseRuleset_eq, parseRuleset_eq, skipWs_absorbs w hw]

theorem bodyOf_absorbs (sels : List Selector) (w : Inp) (hw : WsSeq w) (rest : Inp) : bodyOf sels (w ++ rest) = bodyOf sels rest := by
  unfold bodyOf; rw [skipWs_absorbs w hw]

theorem blockOf_absorbs (sels : List Selector) (w : Inp) (hw : WsSeq w) (r1 : Inp) : blockOf sels (w ++ r1) = blockOf sels r1 := by
  unfold blockOf; rw [skipWs_absorbs w hw]

/-- `p w1 { w2 decls` is read like `p{decls`: the rule set after a selector list that ends at `rest` -/
theorem ruleset_open_brace (sels : List Selector) (w1 w2 r : Inp) (h1 : WsSeq w1) (h2 : WsSeq w2) :
    bodyOf sels (w1 ++ '{' :: (w2 ++ r)) = bodyOf sels ('{' :: r) := by
  have hb : ∀ x, wsItem ('{' :: x) = none := by
    intro x
    have : isWsChar '{' = false := by decide
    simp [wsItem, this, matchComment]
  rw [bodyOf_absorbs sels w1 h1]
  unfold bodyOf
  rw [skipWs_stop _ (hb _), skipWs_stop _ (hb _)]
  exact blockOf_absorbs sels w2 h2 r

end Css

end H2T
