import H2T.Lemmas.ConserveTagAlpha

/-! C09, tree level: the tagged cells of a node's program are the characters of its text nodes, each with the annotations
    of its annotating ancestors, outermost first. -/

namespace H2T

/-- the annotations an element's computed style contributes (CSS colours, under a decorator that has colours) -/
def styleTags (d : Deco) (st : Style) : Tag :=
  (match st.fg with | some c => if d.colours then [Ann.fg c.r c.g c.b] else [] | none => []) ++
  (match st.bg with | some c => if d.colours then [Ann.bg c.r c.g c.b] else [] | none => [])

/-- the visible characters of a text under `dep` strikeout filters, each tagged `a` -/
def tcells (a : Tag) (dep : Nat) (x : List Ch) : List Cell := tkeep a (iterN strikeFilter dep x)

mutual
/-- **the specification**: the tagged visible characters of a render node, given the annotations `st` of its ancestors
    (outermost first) and the number `dep` of enclosing strikeouts in the same block.  An annotating element (`em`,
    `strong`, `strike`, `code`, link, the `dt` emphasis, a coloured style) appends its annotation for its own affixes and
    for everything below it; a block with its own sub-renderer (heading, quote, list item, `dd`) starts a fresh strikeout
    count; nothing else changes the tag. -/
def nodeT (cfg : Cfg) (d : Deco) (st : Tag) (dep : Nat) : RNode → List Cell
  | .text sty s => tcells (st ++ styleTags d sty) dep s
  | .img sty src title => tcells (st ++ styleTags d sty ++ [d.annOf (Ann.image src)]) dep (d.imgText title)
  | .br _ => []
  | .frag _ => []
  | .box sty k kids =>
    let s1 := st ++ styleTags d sty
    match k with
    | .container => listT cfg d s1 dep kids
    | .block => listT cfg d s1 dep kids
    | .li => listT cfg d s1 dep kids
    | .div => listT cfg d s1 dep kids
    | .dl => listT cfg d s1 dep kids
    | .link href =>
      let a := s1 ++ [d.annOf (Ann.link href)]
      tcells a dep d.linkStart ++ listT cfg d a dep kids ++ tcells a dep d.linkEnd
    | .em =>
      let a := s1 ++ [d.annOf Ann.em]
      tcells a dep d.emStart ++ listT cfg d a dep kids ++ tcells a dep d.emEnd
    | .strong =>
      let a := s1 ++ [d.annOf Ann.strong]
      tcells a dep d.strongStart ++ listT cfg d a dep kids ++ tcells a dep d.strongEnd
    | .strike =>
      let a := s1 ++ [d.annOf Ann.strike]
      tcells a dep d.strikeStart ++ listT cfg d a (if cfg.unicodeStrike then dep + 1 else dep) kids ++ tcells a dep d.strikeEnd
    | .code =>
      let a := s1 ++ [d.annOf Ann.code]
      tcells a dep d.codeStart ++ listT cfg d a dep kids ++ tcells a dep d.codeEnd
    | .dt =>
      let a := s1 ++ [d.annOf Ann.em]
      tcells a dep d.emStart ++ listT cfg d a dep kids ++ tcells a dep d.emEnd
    | .header _ => listT cfg d s1 0 kids
    | .quote => listT cfg d s1 0 kids
    | .dd => listT cfg d s1 0 kids
    | .ul => itemsT cfg d s1 kids
    | .ol _ => itemsT cfg d s1 kids
    | .sup =>
      match supDigits kids with
      | some ds => tcells s1 dep ds
      | none =>
        let a := s1 ++ [d.annOf Ann.dflt]
        tcells a dep d.supStart ++ listT cfg d a dep kids ++ tcells a dep d.supEnd
  | .cell sty _ kids => listT cfg d (st ++ styleTags d sty) dep kids
  | .row _ _ => []
  | .tbody _ _ => []
  | .table _ _ _ => []          -- tables: not covered by these theorems (`plainTree` excludes them)
def listT (cfg : Cfg) (d : Deco) (st : Tag) (dep : Nat) : List RNode → List Cell
  | [] => []
  | n :: ns => nodeT cfg d st dep n ++ listT cfg d st dep ns
/-- list items: each is rendered by its own sub-renderer -/
def itemsT (cfg : Cfg) (d : Deco) (st : Tag) : List RNode → List Cell
  | [] => []
  | n :: ns => nodeT cfg d st 0 n ++ itemsT cfg d st ns
end

theorem opsTink_append (cfg : Cfg) (d : Deco) : ∀ (a b : List Op) (st : Tag) (dep : Nat),
    opsTink cfg d st dep (a ++ b) =
      ((opsTink cfg d st dep a).1 ++ (opsTink cfg d (opsTink cfg d st dep a).2.1 (opsTink cfg d st dep a).2.2 b).1,
       (opsTink cfg d (opsTink cfg d st dep a).2.1 (opsTink cfg d st dep a).2.2 b).2) := by
  intro a
  induction a with
  | nil => intro b st dep; simp [opsTink]
  | cons x a ih =>
    intro b st dep
    simp only [List.cons_append, opsTink, ih, List.append_assoc]

theorem opsTink_styleOpen (cfg : Cfg) (d : Deco) (sty : Style) (st : Tag) (dep : Nat) :
    opsTink cfg d st dep (styleOpen d sty) = ([], st ++ styleTags d sty, dep) := by
  unfold styleOpen styleTags
  cases sty.fg <;> cases sty.bg <;> cases d.colours <;> cases sty.pre <;> (cases sty.ws with | none => simp [opsTink, opTink] | some m => cases m <;> simp [opsTink, opTink])

theorem opsTink_styleClose (cfg : Cfg) (d : Deco) (sty : Style) (st : Tag) (dep : Nat) :
    opsTink cfg d (st ++ styleTags d sty) dep (styleClose d sty) = ([], st, dep) := by
  unfold styleClose styleTags
  cases sty.fg <;> cases sty.bg <;> cases d.colours <;> cases sty.pre <;> (cases sty.ws with | none => simp [opsTink, opTink] | some m => cases m <;> simp [opsTink, opTink])

/-- a program that ends with the stack and depth it started with, wrapped in an element's style brackets -/
theorem opsTink_styled (cfg : Cfg) (d : Deco) (sty : Style) (st : Tag) (dep : Nat) (inner : List Op) (cells : List Cell)
    (h : opsTink cfg d (st ++ styleTags d sty) dep inner = (cells, st ++ styleTags d sty, dep)) :
    opsTink cfg d st dep (styleOpen d sty ++ inner ++ styleClose d sty) = (cells, st, dep) := by
  rw [List.append_assoc, opsTink_append, opsTink_styleOpen]
  simp only [opsTink_append, h, opsTink_styleClose, List.nil_append, List.append_nil]

/-- an annotating bracket around a body that hands the stack back -/
theorem opsTink_bracket (cfg : Cfg) (d : Deco) (a : Ann) (x y : List Ch) (strike : Bool) (st : Tag) (dep : Nat) (body : List Op) (cells : List Cell)
    (h : opsTink cfg d (st ++ [d.annOf a]) (if (strike && cfg.unicodeStrike) = true then dep + 1 else dep) body =
      (cells, st ++ [d.annOf a], if (strike && cfg.unicodeStrike) = true then dep + 1 else dep)) :
    opsTink cfg d st dep ([.startAnn a x strike] ++ body ++ [.endAnn y strike]) =
      (tcells (st ++ [d.annOf a]) dep x ++ cells ++ tcells (st ++ [d.annOf a]) dep y, st, dep) := by
  simp only [List.singleton_append, opsTink, opTink, opsTink_append, h, tcells]
  by_cases hs : (strike && cfg.unicodeStrike) = true
  · simp [hs]
  · simp [hs]

theorem opsTink_link (cfg : Cfg) (d : Deco) (href : List Ch) (st : Tag) (dep : Nat) (body : List Op) (cells : List Cell)
    (h : opsTink cfg d (st ++ [d.annOf (Ann.link href)]) dep body = (cells, st ++ [d.annOf (Ann.link href)], dep)) :
    opsTink cfg d st dep ([.startLink href] ++ body ++ [.endLink]) =
      (tcells (st ++ [d.annOf (Ann.link href)]) dep d.linkStart ++ cells ++ tcells (st ++ [d.annOf (Ann.link href)]) dep d.linkEnd, st, dep) := by
  simp [opsTink, opTink, opsTink_append, h, tcells]

mutual
theorem opsTink_compile (cfg : Cfg) (d : Deco) : (n : RNode) → (st : Tag) → (dep : Nat) →
    opsTink cfg d st dep (compile cfg d n) = (nodeT cfg d st dep n, st, dep)
  | .text sty s, st, dep => by
    simp only [compile, nodeT]
    exact opsTink_styled cfg d sty st dep _ _ (by simp [opsTink, opTink, tcells])
  | .img sty src title, st, dep => by
    simp only [compile, nodeT]
    exact opsTink_styled cfg d sty st dep _ _ (by simp [opsTink, opTink, tcells])
  | .br sty, st, dep => by
    simp only [compile, nodeT]
    exact opsTink_styled cfg d sty st dep _ _ (by simp [opsTink, opTink])
  | .frag n, st, dep => by simp [compile, nodeT, opsTink, opTink]
  | .row _ _, st, dep => by simp [compile, nodeT, opsTink]
  | .tbody _ _, st, dep => by simp [compile, nodeT, opsTink]
  | .table sty rows n, st, dep => by
    simp only [compile, nodeT]
    exact opsTink_styled cfg d sty st dep _ _ (by simp [opsTink, opTink])
  | .cell sty _ kids, st, dep => by
    simp only [compile, nodeT]
    exact opsTink_styled cfg d sty st dep _ _ (opsTink_compileList cfg d kids _ _)
  | .box sty k kids, st, dep => by
    have hb := fun s e => opsTink_compileList cfg d kids s e
    cases k with
    | container => simp only [compile, nodeT]; exact opsTink_styled cfg d sty st dep _ _ (hb _ _)
    | link href => simp only [compile, nodeT]; exact opsTink_styled cfg d sty st dep _ _ (opsTink_link cfg d href _ dep _ _ (hb _ _))
    | em =>
      simp only [compile, nodeT]
      exact opsTink_styled cfg d sty st dep _ _ (by
        have := opsTink_bracket cfg d .em d.emStart d.emEnd false (st ++ styleTags d sty) dep (compileList cfg d kids) _ (by simpa using hb _ _)
        simpa using this)
    | strong =>
      simp only [compile, nodeT]
      exact opsTink_styled cfg d sty st dep _ _ (by
        have := opsTink_bracket cfg d .strong d.strongStart d.strongEnd false (st ++ styleTags d sty) dep (compileList cfg d kids) _ (by simpa using hb _ _)
        simpa using this)
    | strike =>
      simp only [compile, nodeT]
      exact opsTink_styled cfg d sty st dep _ _ (by
        have := opsTink_bracket cfg d .strike d.strikeStart d.strikeEnd true (st ++ styleTags d sty) dep (compileList cfg d kids) _ (by simpa using hb _ _)
        simpa using this)
    | code =>
      simp only [compile, nodeT]
      exact opsTink_styled cfg d sty st dep _ _ (by
        have := opsTink_bracket cfg d .code d.codeStart d.codeEnd false (st ++ styleTags d sty) dep (compileList cfg d kids) _ (by simpa using hb _ _)
        simpa using this)
    | block => simp only [compile, nodeT]; exact opsTink_styled cfg d sty st dep _ _ (by simp [opsTink, opTink, opsTink_append, hb])
    | li => simp only [compile, nodeT]; exact opsTink_styled cfg d sty st dep _ _ (by simp [opsTink, opTink, opsTink_append, hb])
    | header lvl => simp only [compile, nodeT]; exact opsTink_styled cfg d sty st dep _ _ (by simp [opsTink, opTink, hb])
    | div => simp only [compile, nodeT]; exact opsTink_styled cfg d sty st dep _ _ (by simp [opsTink, opTink, opsTink_append, hb])
    | quote => simp only [compile, nodeT]; exact opsTink_styled cfg d sty st dep _ _ (by simp [opsTink, opTink, hb])
    | ul => simp only [compile, nodeT]; exact opsTink_styled cfg d sty st dep _ _ (opsTink_compileItems cfg d _ _ _ _ 0 kids _ dep)
    | ol start => simp only [compile, nodeT]; exact opsTink_styled cfg d sty st dep _ _ (opsTink_compileItems cfg d _ _ _ _ 0 kids _ dep)
    | dl => simp only [compile, nodeT]; exact opsTink_styled cfg d sty st dep _ _ (by simp [opsTink, opTink, hb])
    | dt =>
      simp only [compile, nodeT]
      exact opsTink_styled cfg d sty st dep _ _ (by
        have := opsTink_bracket cfg d .em d.emStart d.emEnd false (st ++ styleTags d sty) dep _ _ (by simpa using hb _ _)
        simpa [opsTink, opTink] using this)
    | dd => simp only [compile, nodeT]; exact opsTink_styled cfg d sty st dep _ _ (by simp [opsTink, opTink, hb])
    | sup =>
      simp only [compile, nodeT]
      cases hsd : supDigits kids with
      | some ds => exact opsTink_styled cfg d sty st dep _ _ (by simp [opsTink, opTink, tcells])
      | none =>
        exact opsTink_styled cfg d sty st dep _ _ (by
          have := opsTink_bracket cfg d .dflt d.supStart d.supEnd false (st ++ styleTags d sty) dep (compileList cfg d kids) _ (by simpa using hb _ _)
          simpa using this)
theorem opsTink_compileList (cfg : Cfg) (d : Deco) : (ns : List RNode) → (st : Tag) → (dep : Nat) →
    opsTink cfg d st dep (compileList cfg d ns) = (listT cfg d st dep ns, st, dep)
  | [], st, dep => by simp [compileList, opsTink, listT]
  | n :: ns, st, dep => by
    simp [compileList, opsTink_append, listT, opsTink_compile cfg d n, opsTink_compileList cfg d ns]
theorem opsTink_compileItems (cfg : Cfg) (d : Deco) (pw minW : Nat) (first : Nat → List Ch) (rest : List Ch) :
    (i : Nat) → (ns : List RNode) → (st : Tag) → (dep : Nat) →
    opsTink cfg d st dep (compileItems cfg d pw minW first rest i ns) = (itemsT cfg d st ns, st, dep)
  | _, [], st, dep => by simp [compileItems, opsTink, itemsT]
  | i, n :: ns, st, dep => by
    simp [compileItems, opsTink, opTink, itemsT, opsTink_compile cfg d n, opsTink_compileItems cfg d pw minW first rest (i + 1) ns]
end

/-! ## trees whose program is covered -/

mutual
/-- no table and no `<pre>` element anywhere in the tree -/
def plainTree : RNode → Bool
  | .text sty _ => !sty.pre
  | .img sty _ _ => !sty.pre
  | .br sty => !sty.pre
  | .frag _ => true
  | .box sty _ kids => !sty.pre && plainTrees kids
  | .cell sty _ kids => !sty.pre && plainTrees kids
  | .row _ _ => true
  | .tbody _ _ => true
  | .table _ _ _ => false
def plainTrees : List RNode → Bool
  | [] => true
  | n :: ns => plainTree n && plainTrees ns
end

/-- the decorator's block prefixes avoid the alphabet -/
structure DecoAvoids (P : Ch → Bool) (d : Deco) : Prop where
  header : ∀ n, avoids P (d.headerPrefix n) = true
  quote : avoids P d.quotePrefix = true
  ul : avoids P d.ulPrefix = true
  ol : ∀ i, avoids P (d.olPrefix i) = true

theorem alphaOkOps_append (P : Ch → Bool) (a b : List Op) : alphaOkOps P (a ++ b) = (alphaOkOps P a && alphaOkOps P b) := by
  induction a with
  | nil => simp [alphaOkOps]
  | cons x a ih => simp [alphaOkOps, ih, Bool.and_assoc]

theorem alphaOk_styleOpen (P : Ch → Bool) (d : Deco) (sty : Style) (h : sty.pre = false) : alphaOkOps P (styleOpen d sty) = true := by
  unfold styleOpen
  cases sty.fg <;> cases sty.bg <;> cases d.colours <;> (cases sty.ws with | none => simp [alphaOkOps, alphaOkOp, h] | some m => cases m <;> simp [alphaOkOps, alphaOkOp, h])

theorem alphaOk_styleClose (P : Ch → Bool) (d : Deco) (sty : Style) (h : sty.pre = false) : alphaOkOps P (styleClose d sty) = true := by
  unfold styleClose
  cases sty.fg <;> cases sty.bg <;> cases d.colours <;> (cases sty.ws with | none => simp [alphaOkOps, alphaOkOp, h] | some m => cases m <;> simp [alphaOkOps, alphaOkOp, h])

theorem avoids_append (P : Ch → Bool) (a b : List Ch) : avoids P (a ++ b) = (avoids P a && avoids P b) := by simp [avoids]
theorem avoids_spaces (P : Ch → Bool) (n : Nat) : avoids P (List.replicate n spaceCh) = true := by
  simp [avoids, spaceCh]
theorem avoids_padTo (P : Ch → Bool) (s : List Ch) (n : Nat) (h : avoids P s = true) : avoids P (padTo s n) = true := by
  simp [padTo, avoids_append, h, avoids_spaces]

mutual
theorem alphaOk_compile (P : Ch → Bool) (cfg : Cfg) (d : Deco) (hd : DecoAvoids P d) : (n : RNode) → plainTree n = true →
    alphaOkOps P (compile cfg d n) = true
  | .text sty s, h => by
    simp only [plainTree, Bool.not_eq_true'] at h
    simp [compile, alphaOkOps_append, alphaOk_styleOpen P d sty h, alphaOk_styleClose P d sty h, alphaOkOps, alphaOkOp]
  | .img sty _ _, h => by
    simp only [plainTree, Bool.not_eq_true'] at h
    simp [compile, alphaOkOps_append, alphaOk_styleOpen P d sty h, alphaOk_styleClose P d sty h, alphaOkOps, alphaOkOp]
  | .br sty, h => by
    simp only [plainTree, Bool.not_eq_true'] at h
    simp [compile, alphaOkOps_append, alphaOk_styleOpen P d sty h, alphaOk_styleClose P d sty h, alphaOkOps, alphaOkOp]
  | .frag _, _ => by simp [compile, alphaOkOps, alphaOkOp]
  | .row _ _, _ => by simp [compile, alphaOkOps]
  | .tbody _ _, _ => by simp [compile, alphaOkOps]
  | .table _ _ _, h => by simp [plainTree] at h
  | .cell sty _ kids, h => by
    simp only [plainTree, Bool.and_eq_true, Bool.not_eq_true'] at h
    simp [compile, alphaOkOps_append, alphaOk_styleOpen P d sty h.1, alphaOk_styleClose P d sty h.1, alphaOk_compileList P cfg d hd kids h.2]
  | .box sty k kids, h => by
    simp only [plainTree, Bool.and_eq_true, Bool.not_eq_true'] at h
    have hb := alphaOk_compileList P cfg d hd kids h.2
    have ho := alphaOk_styleOpen P d sty h.1
    have hc := alphaOk_styleClose P d sty h.1
    cases k with
    | container => simp [compile, alphaOkOps_append, ho, hc, hb]
    | link href => simp [compile, alphaOkOps_append, ho, hc, hb, alphaOkOps, alphaOkOp]
    | em => simp [compile, alphaOkOps_append, ho, hc, hb, alphaOkOps, alphaOkOp]
    | strong => simp [compile, alphaOkOps_append, ho, hc, hb, alphaOkOps, alphaOkOp]
    | strike => simp [compile, alphaOkOps_append, ho, hc, hb, alphaOkOps, alphaOkOp]
    | code => simp [compile, alphaOkOps_append, ho, hc, hb, alphaOkOps, alphaOkOp]
    | block => simp [compile, alphaOkOps_append, ho, hc, hb, alphaOkOps, alphaOkOp]
    | li => simp [compile, alphaOkOps_append, ho, hc, hb, alphaOkOps, alphaOkOp]
    | header lvl => simp [compile, alphaOkOps_append, ho, hc, hb, alphaOkOps, alphaOkOp, hd.header]
    | div => simp [compile, alphaOkOps_append, ho, hc, hb, alphaOkOps, alphaOkOp]
    | quote => simp [compile, alphaOkOps_append, ho, hc, hb, alphaOkOps, alphaOkOp, hd.quote]
    | ul =>
      simp only [compile, alphaOkOps_append, ho, hc, Bool.true_and, Bool.and_true]
      exact alphaOk_compileItems P cfg d hd _ _ _ _ (fun _ => hd.ul) (avoids_spaces P _) 0 kids h.2
    | ol start =>
      simp only [compile, alphaOkOps_append, ho, hc, Bool.true_and, Bool.and_true]
      exact alphaOk_compileItems P cfg d hd _ _ _ _ (fun i => avoids_padTo P _ _ (hd.ol _)) (avoids_spaces P _) 0 kids h.2
    | dl => simp [compile, alphaOkOps_append, ho, hc, hb, alphaOkOps, alphaOkOp]
    | dt => simp [compile, alphaOkOps_append, ho, hc, hb, alphaOkOps, alphaOkOp]
    | dd =>
      have : avoids P (strCh "  ") = true := by simp [avoids, strCh, spaceCh]
      simp [compile, alphaOkOps_append, ho, hc, hb, alphaOkOps, alphaOkOp, this]
    | sup =>
      simp only [compile]
      cases hsd : supDigits kids with
      | some ds => simp [alphaOkOps_append, ho, hc, alphaOkOps, alphaOkOp]
      | none => simp [alphaOkOps_append, ho, hc, hb, alphaOkOps, alphaOkOp]
theorem alphaOk_compileList (P : Ch → Bool) (cfg : Cfg) (d : Deco) (hd : DecoAvoids P d) : (ns : List RNode) → plainTrees ns = true →
    alphaOkOps P (compileList cfg d ns) = true
  | [], _ => by simp [compileList, alphaOkOps]
  | n :: ns, h => by
    simp only [plainTrees, Bool.and_eq_true] at h
    simp [compileList, alphaOkOps_append, alphaOk_compile P cfg d hd n h.1, alphaOk_compileList P cfg d hd ns h.2]
theorem alphaOk_compileItems (P : Ch → Bool) (cfg : Cfg) (d : Deco) (hd : DecoAvoids P d) (pw minW : Nat) (first : Nat → List Ch) (rest : List Ch)
    (hf : ∀ i, avoids P (first i) = true) (hr : avoids P rest = true) :
    (i : Nat) → (ns : List RNode) → plainTrees ns = true → alphaOkOps P (compileItems cfg d pw minW first rest i ns) = true
  | _, [], _ => by simp [compileItems, alphaOkOps]
  | i, n :: ns, h => by
    simp only [plainTrees, Bool.and_eq_true] at h
    simp [compileItems, alphaOkOps, alphaOkOp, hf i, hr, alphaOk_compile P cfg d hd n h.1,
      alphaOk_compileItems P cfg d hd pw minW first rest hf hr (i + 1) ns h.2]
end

/-- **C09 for every table-free, `<pre>`-free render tree** (any decorator whose block prefixes avoid the alphabet `P`,
    footnotes off, every width): the characters of `P` in the rendered lines, with their tag vectors and in order, are
    exactly those of the specification `nodeT` — each character of a text node tagged with the annotations of its
    annotating ancestors, outermost first, whatever the wrapping and block nesting did to it -/
theorem renderTree_tags (P : Ch → Bool) (cfg : Cfg) (d : Deco) (w : Nat) (tree : RNode) (ls : List RLine) (hfn : cfg.footnotes = false)
    (hd : DecoAvoids P d) (ht : plainTree tree = true) (h : renderTree cfg d w tree = .ok ls) :
    pf P (ls.flatMap trink) = pf P (nodeT cfg d [] 0 tree) := by
  rw [renderTree_tinkP P cfg d w tree ls hfn (alphaOk_compile P cfg d hd tree ht) h, opsTink_compile]

end H2T
