import H2T.Lemmas.DomTotal
import H2T.Lemmas.OvRun
import H2T.Lemmas.DomFactor

/-! # C11 — width errors: width 0 is TooNarrow; the overflow option removes every TooNarrow source

Status: **partial** — proved for the whole model: width 0 always fails with TooNarrow (`width0_narrow`); **with
`allow_width_overflow` every document renders at every width of at least 1** (`overflow_always_renders` for render
trees, `overflow_pipeline_never_narrow` from the DOM: the only sources of TooNarrow — `width_minus`, the zero-width
guard and the hard wrap of a character wider than the line — are all disabled by the flag, and nothing else can fail:
C01's totality); **allowing overflow never changes a rendering that succeeds without it** (`overflow_noop` for render
trees incl. tables, `overflow_noop_pipeline` from the DOM: a step-by-step simulation, `Lemmas/OvWrap`, `OvBlock`,
`OvRun` — the flag is only consulted where the run without it fails, and a zero-width block, which the flag widens to
one column, can only ever hold markers in a run that succeeds).  `width_minus` returns at least the minimum it was
asked for.  The bound on overflowing lines is decided by correspondence and the search oracle. -/

namespace H2T.C11

/-- **with overflow allowed every render tree renders at every width ≥ 1** (tables included) -/
theorem overflow_always_renders (cfg : Cfg) (d : Deco) (w : Nat) (tree : RNode) (hov : cfg.overflow = true) (hw : 1 ≤ w)
    (hok : tableOk tree = true) : ∃ ls, renderTree cfg d w tree = .ok ls := by
  have hs := renderTree_total cfg d w tree hok
  have hc : (cfg.overflow && decide (w ≠ 0)) = true := by simp [hov]; omega
  rw [hc] at hs
  exact hs.is_ok

/-- the same from the DOM: the pipeline's outcome is never `TooNarrow` (it is lines, unless user/agent CSS is rejected or
    the CSS parser runs out of fuel) -/
theorem overflow_pipeline_never_narrow (cfg : Cfg) (d : Deco) (w : Nat) (useDoc : Bool) (agentCss userCss : Option (List Char))
    (ci : CharInfo) (depth : Nat) (kids : List Node) (hov : cfg.overflow = true) (hw : 1 ≤ w) :
    (match renderDom cfg d w useDoc agentCss userCss ci depth (.doc kids) with | .narrow => False | _ => True) :=
  renderDom_overflow cfg d w useDoc agentCss userCss ci depth kids hov hw _ rfl

/-- without the flag `TooNarrow` is the only possible failure -/
theorem only_failure_is_narrow (cfg : Cfg) (d : Deco) (w : Nat) (tree : RNode) (hok : tableOk tree = true) :
    ∀ e, renderTree cfg d w tree = .error e → e = .tooNarrow :=
  (renderTree_total cfg d w tree hok).only_narrow

/-- width 0 always yields the too-narrow error, whatever the document and options -/
theorem width0_narrow (cfg : Cfg) (d : Deco) (tree : RNode) : renderTree cfg d 0 tree = .error .tooNarrow := by
  simp [renderTree]

/-- with overflow allowed `width_minus` never fails … -/
theorem widthMinus_overflow_ok (s : SubR) (cfg : Cfg) (h : cfg.overflow = true) (p m : Nat) :
    s.widthMinus cfg p m = .ok (max (s.width - p) m) := by
  simp [SubR.widthMinus, h]

/-- … and in any case it returns at least the minimum width the content asked for -/
theorem widthMinus_ge_min (s : SubR) (cfg : Cfg) (p m w : Nat) (h : s.widthMinus cfg p m = .ok w) : m ≤ w := by
  unfold SubR.widthMinus at h
  dsimp only at h
  split at h
  · simp at h
  · injection h with h; omega

/-- the zero-width guard of `add_text` does not fail when overflow is allowed -/
theorem zeroGuard_overflow_ok (b : WB) (cs : List Ch) (h : b.overflow = true) :
    ∃ b', b.zeroGuard cs = .ok b' ∧ 0 < b'.width := by
  unfold WB.zeroGuard
  by_cases hw : b.width = 0
  · simp only [hw, if_true, h]; exact ⟨_, rfl, by simp⟩
  · simp only [hw, if_false]; exact ⟨b, rfl, by omega⟩

/-- without overflow a zero-width block rejects any text -/
theorem zeroGuard_narrow (b : WB) (c : Ch) (cs : List Ch) (h : b.overflow = false) (hw : b.width = 0) :
    b.zeroGuard (c :: cs) = .error .tooNarrow := by
  simp [WB.zeroGuard, hw, h]

/-- **allowing overflow never changes a rendering that succeeds without it** — every render tree (tables included), every
    decorator, width and other option -/
theorem overflow_noop (cfg : Cfg) (d : Deco) (w : Nat) (tree : RNode) (ls : List RLine) (hov : cfg.overflow = false)
    (h : renderTree cfg d w tree = .ok ls) : renderTree { cfg with overflow := true } d w tree = .ok ls :=
  renderTree_ov_noop cfg d w tree ls hov h

/-- …and so for the whole pipeline from the DOM: the same lines -/
theorem overflow_noop_pipeline (cfg : Cfg) (d : Deco) (w : Nat) (useDoc : Bool) (agentCss userCss : Option (List Char))
    (ci : CharInfo) (depth : Nat) (dom : Node) (ls : List RLine) (hov : cfg.overflow = false)
    (h : renderDom cfg d w useDoc agentCss userCss ci depth dom = .lines ls) :
    renderDom { cfg with overflow := true } d w useDoc agentCss userCss ci depth dom = .lines ls := by
  rw [renderDom_factor] at h ⊢
  show (match domTree cfg.decorate useDoc agentCss userCss ci depth dom with
    | .error o => o
    | .ok tree => treeOutcome (renderTree { cfg with overflow := true } d w tree)) = _
  cases hd : domTree cfg.decorate useDoc agentCss userCss ci depth dom with
  | error o => rw [hd] at h; exact h
  | ok tree =>
    rw [hd] at h
    simp only at h ⊢
    cases hr : renderTree cfg d w tree with
    | error e => rw [hr] at h; cases e <;> simp [treeOutcome] at h
    | ok ls' =>
      rw [hr] at h
      simp only [treeOutcome] at h
      injection h with h; subst h
      rw [overflow_noop cfg d w tree ls' hov hr]; rfl

/-! non-vacuity -/
example : renderTree {} Deco.plain 0 (.box {} .block [.text {} (strCh "x")]) = .error .tooNarrow := by rfl
example : ({ width := 1 } : SubR).widthMinus { overflow := true } 2 3 = .ok 3 := by rfl
example : ({ width := 1 } : SubR).widthMinus {} 2 0 = .error .tooNarrow := by rfl
/-- a quote whose prefix alone is wider than the width: `TooNarrow` without the flag, three lines with it -/
example :
    let tree : RNode := .box {} .quote [.text {} (strCh "ab c")]
    (match renderTree {} Deco.plain 1 tree with | .error .tooNarrow => true | _ => false) = true ∧
    ((renderTree { overflow := true } Deco.plain 1 tree).toOption.map (·.length)) = some 2 := by decide +kernel

end H2T.C11
