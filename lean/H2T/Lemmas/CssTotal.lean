import H2T.Css.Style

/-! C01/C17: the CSS parser cannot loop — every token consumes input (since fix ca75076 for the lone `#`), so the
    at-rule skipper's fuel is never exhausted and `add_css` never reports the model's `hang` outcome. -/

namespace H2T.Css

theorem many0Go_le {α : Type} (p : Inp → Res α) (hp : ∀ i i1 o, p i = some (i1, o) → i1.length ≤ i.length) :
    ∀ (f : Nat) (i : Inp) (acc : List α) (r : Inp) (out : List α), many0Go p f i acc = some (r, out) → r.length ≤ i.length := by
  intro f
  induction f with
  | zero => intro i acc r out h; simp [many0Go] at h; obtain ⟨rfl, _⟩ := h; exact Nat.le_refl _
  | succ f ih =>
    intro i acc r out h
    simp only [many0Go] at h
    cases hpi : p i with
    | none => simp [hpi] at h; obtain ⟨rfl, _⟩ := h; exact Nat.le_refl _
    | some v =>
      obtain ⟨i1, o⟩ := v
      simp only [hpi] at h
      split at h
      · simp at h
      · exact Nat.le_trans (ih i1 _ r out h) (hp i i1 o hpi)

theorem skipToCommentEnd_lt : ∀ (i r : Inp), skipToCommentEnd i = some r → r.length < i.length := by
  intro i
  induction i using skipToCommentEnd.induct with
  | case1 => intro r h; simp [skipToCommentEnd] at h
  | case2 rest => intro r h; simp [skipToCommentEnd] at h; subst h; simp; omega
  | case3 c rest hne ih =>
    intro r h
    rw [skipToCommentEnd] at h
    · have := ih r h; simp; omega
    · exact hne

theorem wsItem_lt (i i1 : Inp) (o : Unit) (h : wsItem i = some (i1, o)) : i1.length < i.length := by
  unfold wsItem at h
  cases i with
  | nil => simp at h
  | cons c rest =>
    simp only at h
    split at h
    · injection h with h; simp only [Prod.mk.injEq] at h; obtain ⟨rfl, _⟩ := h; simp
    · unfold matchComment at h
      split at h
      · rename_i r heq
        cases hs : skipToCommentEnd r with
        | none => simp [hs] at h
        | some r' =>
          simp [hs] at h
          subst h
          have := skipToCommentEnd_lt r r' hs
          rw [heq]; simp; omega
      · simp at h

theorem skipWs_le (i : Inp) : (skipWs i).length ≤ i.length := by
  unfold skipWs many0
  cases h : many0Go wsItem (i.length + 1) i [] with
  | none => exact Nat.le_refl _
  | some v => exact many0Go_le wsItem (fun a b o hh => Nat.le_of_lt (wsItem_lt a b o hh)) _ _ _ v.1 v.2 h

theorem identEscape_lt (i i1 : Inp) (c : Char) (h : identEscape i = some (i1, c)) : i1.length < i.length := by
  unfold identEscape at h
  split at h
  · rename_i rest
    split at h
    · injection h with h; simp only [Prod.mk.injEq] at h; obtain ⟨rfl, _⟩ := h; simp
    · rename_i c0 more
      split at h
      · injection h with h; simp only [Prod.mk.injEq] at h; obtain ⟨rfl, _⟩ := h
        simp only [List.length_drop, List.length_cons]; omega
      · injection h with h; simp only [Prod.mk.injEq] at h; obtain ⟨rfl, _⟩ := h; simp; omega
  · simp at h

theorem nmchar_lt (i i1 : Inp) (c : Char) (h : nmchar i = some (i1, c)) : i1.length < i.length := by
  unfold nmchar at h
  cases hc : nmcharChar i with
  | some v =>
    simp only [hc] at h; injection h with h; subst h
    unfold nmcharChar at hc
    cases i with
    | nil => simp at hc
    | cons a rest =>
      simp only at hc
      split at hc
      · injection hc with hc; simp only [Prod.mk.injEq] at hc; obtain ⟨rfl, _⟩ := hc; simp
      · simp at hc
  | none => simp only [hc] at h; exact identEscape_lt i i1 c h

theorem nmstart_lt (i i1 : Inp) (c : Char) (h : nmstart i = some (i1, c)) : i1.length < i.length := by
  unfold nmstart at h
  cases hc : nmstartChar i with
  | some v =>
    simp only [hc] at h; injection h with h; subst h
    unfold nmstartChar at hc
    cases i with
    | nil => simp at hc
    | cons a rest =>
      simp only at hc
      split at hc
      · injection hc with hc; simp only [Prod.mk.injEq] at hc; obtain ⟨rfl, _⟩ := hc; simp
      · simp at hc
  | none => simp only [hc] at h; exact identEscape_lt i i1 c h

theorem many0_le {α : Type} (p : Inp → Res α) (hp : ∀ i i1 o, p i = some (i1, o) → i1.length ≤ i.length)
    (i r : Inp) (out : List α) (h : many0 p i = some (r, out)) : r.length ≤ i.length :=
  many0Go_le p hp _ _ _ r out h

theorem stripDash_le (i : Inp) : (stripDash i).1.length ≤ i.length := by
  unfold stripDash; split <;> simp

theorem identBody_lt (dash : Bool) (rest r : Inp) (s : String) (h : identBody dash rest = some (r, s)) : r.length < rest.length := by
  unfold identBody at h
  cases h1 : nmstart rest with
  | none => simp [h1] at h
  | some v =>
    obtain ⟨rest2, st⟩ := v
    simp only [h1] at h
    have l1 := nmstart_lt rest rest2 st h1
    cases h2 : many0 nmchar rest2 with
    | none => simp [h2] at h
    | some v2 =>
      obtain ⟨rest3, cs⟩ := v2
      simp only [h2] at h
      injection h with h; simp only [Prod.mk.injEq] at h; obtain ⟨rfl, _⟩ := h
      have l2 := many0_le nmchar (fun a b o e => Nat.le_of_lt (nmchar_lt a b o e)) rest2 rest3 cs h2
      omega

theorem parseIdent_lt (text r : Inp) (s : String) (h : parseIdent text = some (r, s)) : r.length < text.length := by
  unfold parseIdent at h
  have := identBody_lt _ _ r s h
  have := stripDash_le (skipWs text)
  have := skipWs_le text
  omega

theorem parseIdentString_lt (text r : Inp) (s : String) (h : parseIdentString text = some (r, s)) : r.length < text.length := by
  unfold parseIdentString many1 at h
  have hws := skipWs_le text
  cases h1 : nmchar (skipWs text) with
  | none => simp [h1] at h
  | some v =>
    obtain ⟨i1, o⟩ := v
    simp only [h1] at h
    have l1 := nmchar_lt _ i1 o h1
    cases h2 : many0Go nmchar (i1.length + 1) i1 [o] with
    | none => simp [h2] at h
    | some v2 =>
      simp [h2] at h
      obtain ⟨rfl, _⟩ := h
      have := many0Go_le nmchar (fun a b o e => Nat.le_of_lt (nmchar_lt a b o e)) _ _ _ v2.1 v2.2 h2
      omega

theorem dropWhile_le {α : Type} (p : α → Bool) (l : List α) : (l.dropWhile p).length ≤ l.length := by
  induction l with
  | nil => simp
  | cons a l ih => simp only [List.dropWhile]; split <;> simp <;> omega

theorem takeWhile_dropWhile_len {α : Type} (p : α → Bool) (l : List α) : (l.takeWhile p).length + (l.dropWhile p).length = l.length := by
  induction l with
  | nil => simp
  | cons a l ih => simp only [List.takeWhile, List.dropWhile]; split <;> simp <;> omega

theorem stripSign_le (i : Inp) : (stripSign i).length ≤ i.length := by
  unfold stripSign; split <;> simp

theorem numberRestGo_lt (rest r : Inp) (h : numberRestGo rest = some r) : r.length < rest.length := by
  unfold numberRestGo at h
  have tw := takeWhile_dropWhile_len isDigit rest
  split at h
  · rename_i hne
    injection h with h; subst h
    have : 0 < (rest.takeWhile isDigit).length := by
      cases hh : rest.takeWhile isDigit with
      | nil => simp [hh] at hne
      | cons a b => simp
    omega
  · split at h
    · rename_i r2 heq
      split at h
      · simp at h
      · injection h with h; subst h
        have := dropWhile_le isDigit r2
        have : (rest.dropWhile isDigit).length = r2.length + 1 := by rw [heq]; simp
        omega
    · simp at h

theorem parseNumberRest_lt (text r : Inp) (h : parseNumberRest text = some r) : r.length < text.length := by
  unfold parseNumberRest at h
  have := numberRestGo_lt _ r h
  have := stripSign_le (skipWs text)
  have := skipWs_le text
  omega

theorem parseNumericToken_lt (text r : Inp) (t : Tok) (h : parseNumericToken text = some (r, t)) : r.length < text.length := by
  unfold parseNumericToken at h
  cases h1 : parseNumberRest text with
  | none => simp [h1] at h
  | some rest =>
    simp only [h1] at h
    have l1 := parseNumberRest_lt text rest h1
    split at h
    · rename_i r2 heq
      injection h with h; simp only [Prod.mk.injEq] at h; obtain ⟨rfl, _⟩ := h
      simp at l1; omega
    · cases h2 : parseIdent rest with
      | none => simp [h2] at h; obtain ⟨rfl, _⟩ := h; exact l1
      | some v =>
        simp [h2] at h; obtain ⟨rfl, _⟩ := h
        have := parseIdent_lt rest v.1 v.2 h2
        omega

theorem parseIdentLike_lt (text r : Inp) (t : Tok) (h : parseIdentLike text = some (r, t)) : r.length < text.length := by
  unfold parseIdentLike at h
  cases h1 : parseIdent text with
  | none => simp [h1] at h
  | some v =>
    obtain ⟨rest, id⟩ := v
    simp only [h1] at h
    have l1 := parseIdent_lt text rest id h1
    split at h
    · injection h with h; simp only [Prod.mk.injEq] at h; obtain ⟨rfl, _⟩ := h; simp at l1; omega
    · injection h with h; simp only [Prod.mk.injEq] at h; obtain ⟨rfl, _⟩ := h; exact l1

theorem stringGo_le (endc : Char) : ∀ (n : Nat) (i : Inp) (acc : List Char), i.length ≤ n → (stringGo endc i acc).1.length ≤ i.length := by
  intro n
  induction n with
  | zero =>
    intro i acc h
    cases i with
    | nil => simp [stringGo]
    | cons c r => simp at h
  | succ n ih =>
    intro i acc h
    cases i with
    | nil => simp [stringGo]
    | cons c rest =>
      simp only [List.length_cons] at h
      unfold stringGo
      split
      · simp
      · split
        · simp
        · split
          · cases rest with
            | nil => simp
            | cons d r =>
              simp only [List.length_cons] at h
              split
              · rename_i heq; simp at heq
              · rename_i r' heq
                simp only [List.cons.injEq] at heq
                obtain ⟨_, rfl⟩ := heq
                have := ih r acc (by omega)
                simp; omega
              · rename_i d' r' _ heq
                simp only [List.cons.injEq] at heq
                obtain ⟨rfl, rfl⟩ := heq
                have := ih r (acc ++ [d]) (by omega)
                simp; omega
          · have := ih rest (acc ++ [c]) (by omega); simp; omega

/-- the token starting at `c :: r` ends strictly inside `c :: r` -/
theorem tokenBody_lt (c : Char) (r0 r : Inp) (t : Tok) (h : tokenBody c r0 (c :: r0) = some (r, t)) : r.length ≤ r0.length := by
  unfold tokenBody at h
  have tail : ∀ (t' : Tok), (some (r0, t') : Res Tok) = some (r, t) → r.length ≤ r0.length := by
    intro t' e; injection e with e; simp only [Prod.mk.injEq] at e; obtain ⟨rfl, _⟩ := e; exact Nat.le_refl _
  by_cases h0 : (decide (c = '"') || decide (c = '\'')) = true
  · rw [if_pos h0] at h
    injection h with h; have := stringGo_le c (r0.length) r0 [] (Nat.le_refl _); rw [h] at this; exact this
  · rw [if_neg h0] at h
    by_cases h1 : c = '#'
    · rw [if_pos h1] at h
      cases hps : parseIdentString r0 with
      | none => rw [hps] at h; exact tail _ h
      | some v => rw [hps] at h; injection h with h; simp only [Prod.mk.injEq] at h; obtain ⟨rfl, _⟩ := h; exact Nat.le_of_lt (parseIdentString_lt r0 v.1 v.2 hps)
    · rw [if_neg h1] at h
      by_cases h2 : c = ';'
      · rw [if_pos h2] at h
        exact tail _ h
      · rw [if_neg h2] at h
        by_cases h3 : c = '('
        · rw [if_pos h3] at h
          exact tail _ h
        · rw [if_neg h3] at h
          by_cases h4 : c = ')'
          · rw [if_pos h4] at h
            exact tail _ h
          · rw [if_neg h4] at h
            by_cases h5 : c = '+'
            · rw [if_pos h5] at h
              cases hps : parseNumericToken r0 with
              | none => rw [hps] at h; exact tail _ h
              | some v => rw [hps] at h; injection h with h; subst h; exact Nat.le_of_lt (parseNumericToken_lt r0 _ _ hps)
            · rw [if_neg h5] at h
              by_cases h6 : c = ','
              · rw [if_pos h6] at h
                exact tail _ h
              · rw [if_neg h6] at h
                by_cases h7 : c = '-'
                · rw [if_pos h7] at h
                  cases hps : parseNumericToken (c :: r0) with
                  | some v => rw [hps] at h; injection h with h; subst h; have := parseNumericToken_lt (c :: r0) _ _ hps; simp at this; omega
                  | none =>
                    rw [hps] at h
                    simp only at h
                    split at h
                    · rename_i r3 heq; injection h with h; simp only [Prod.mk.injEq] at h; obtain ⟨rfl, _⟩ := h; simp only [List.cons.injEq] at heq; rw [heq.2]; simp; omega
                    · cases hpi : parseIdentLike (c :: r0) with
                      | none => rw [hpi] at h; exact tail _ h
                      | some v => rw [hpi] at h; injection h with h; subst h; have := parseIdentLike_lt (c :: r0) _ _ hpi; simp at this; omega
                · rw [if_neg h7] at h
                  by_cases h8 : c = '.'
                  · rw [if_pos h8] at h
                    cases hps : parseNumericToken (c :: r0) with
                    | none => rw [hps] at h; exact tail _ h
                    | some v => rw [hps] at h; injection h with h; subst h; have := parseNumericToken_lt (c :: r0) _ _ hps; simp at this; omega
                  · rw [if_neg h8] at h
                    by_cases h9 : c = ':'
                    · rw [if_pos h9] at h
                      exact tail _ h
                    · rw [if_neg h9] at h
                      by_cases h10 : c = '<'
                      · rw [if_pos h10] at h
                        split at h
                        · rename_i r4 heq; injection h with h; simp only [Prod.mk.injEq] at h; obtain ⟨rfl, _⟩ := h; simp only [List.cons.injEq] at heq; rw [heq.2]; simp; omega
                        · exact tail _ h
                      · rw [if_neg h10] at h
                        by_cases h11 : c = '@'
                        · rw [if_pos h11] at h
                          cases hps : parseIdent (c :: r0) with
                          | none => rw [hps] at h; exact tail _ h
                          | some v => rw [hps] at h; injection h with h; simp only [Prod.mk.injEq] at h; obtain ⟨rfl, _⟩ := h; have := parseIdent_lt (c :: r0) v.1 v.2 hps; simp at this; omega
                        · rw [if_neg h11] at h
                          by_cases h12 : c = '['
                          · rw [if_pos h12] at h
                            exact tail _ h
                          · rw [if_neg h12] at h
                            by_cases h13 : c = '\\'
                            · rw [if_pos h13] at h
                              cases hps : parseIdentLike (c :: r0) with
                              | none => rw [hps] at h; exact tail _ h
                              | some v => rw [hps] at h; injection h with h; subst h; have := parseIdentLike_lt (c :: r0) _ _ hps; simp at this; omega
                            · rw [if_neg h13] at h
                              by_cases h14 : c = ']'
                              · rw [if_pos h14] at h
                                exact tail _ h
                              · rw [if_neg h14] at h
                                by_cases h15 : c = '{'
                                · rw [if_pos h15] at h
                                  exact tail _ h
                                · rw [if_neg h15] at h
                                  by_cases h16 : c = '}'
                                  · rw [if_pos h16] at h
                                    exact tail _ h
                                  · rw [if_neg h16] at h
                                    by_cases h17 : isIdentStart c = true
                                    · rw [if_pos h17] at h
                                      have := parseIdentLike_lt (c :: r0) _ _ h; simp at this; omega
                                    · rw [if_neg h17] at h
                                      by_cases h18 : isDigit c = true
                                      · rw [if_pos h18] at h
                                        have := parseNumericToken_lt (c :: r0) _ _ h; simp at this; omega
                                      · rw [if_neg h18] at h
                                        exact tail _ h

/-- **every token consumes input** -/
theorem parseToken_lt (text r : Inp) (t : Tok) (h : parseToken text = some (r, t)) : r.length < text.length := by
  unfold parseToken at h
  have hws := skipWs_le text
  split at h
  · simp at h
  · rename_i c r0 heq
    have := tokenBody_lt c r0 r t h
    rw [heq] at hws; simp at hws; omega

/-- with more fuel than input the at-rule skipper never runs out: every iteration consumes a token -/
theorem skipStmtGo_no_hang : ∀ (f : Nat) (rest : Inp) (stack : List Tok), rest.length < f → skipStmtGo f rest stack ≠ .hang := by
  intro f
  induction f with
  | zero => intro rest stack h; omega
  | succ f ih =>
    intro rest stack hf
    simp only [skipStmtGo]
    cases hp : parseToken rest with
    | none => simp
    | some v =>
      obtain ⟨remain, tok⟩ := v
      have hlt := parseToken_lt rest remain tok hp
      have hrec : ∀ st, skipStmtGo f remain st ≠ .hang := fun st => ih remain st (by omega)
      simp only
      split
      · exact hrec _
      · exact hrec _
      · exact hrec _
      · exact hrec _
      · exact hrec _
      · split
        · simp
        · exact hrec _
      · split
        · split
          · simp
          · split
            · split
              · split
                · simp
                · exact hrec _
              · simp
            · simp
        · exact hrec _

theorem parseAtRule_no_hang (text : Inp) : parseAtRule text ≠ .hang := by
  unfold parseAtRule
  split
  · split
    · exact skipStmtGo_no_hang _ _ _ (by omega)
    · simp
  · simp

theorem sheetGo_no_hang : ∀ (f : Nat) (i : Inp) (acc : List RuleSet), sheetGo f i acc ≠ .hang := by
  intro f
  induction f with
  | zero => intro i acc; simp [sheetGo]
  | succ f ih =>
    intro i acc
    simp only [sheetGo]
    split
    · split
      · simp
      · exact ih _ _
    · have := parseAtRule_no_hang i
      split
      · split
        · simp
        · exact ih _ _
      · simp
      · rename_i h; exact absurd h this

/-- **the style-sheet parser never hangs**: for every string, `parse_stylesheet` returns rules or an error -/
theorem parseStylesheet_no_hang (text : Inp) : parseStylesheet text ≠ .hang := sheetGo_no_hang _ _ _

/-- **`add_css` never hangs**: for every string the outcome is a rule list or a parse error -/
theorem doAddCss_no_hang (css : Inp) : (∃ rs, doAddCss css = .ok rs) ∨ doAddCss css = .err := by
  unfold doAddCss
  have := parseStylesheet_no_hang css
  cases h : parseStylesheet css with
  | hang => exact absurd h this
  | err => right; rfl
  | ok rss => left; exact ⟨_, rfl⟩

end H2T.Css
