import H2T.Lemmas.ConserveTag
import H2T.Lemmas.ConserveBlock
import H2T.Lemmas.TableRules

/-! C09, block layer: a port of `ConserveBlock` that keeps the tags.  Outside `<pre>` (pre depth 0) the main tag and the
    continuation tag of `add_inline_text` are both the annotation stack, so every visible character a program adds is in the
    output exactly once, in order, tagged with the annotation stack in force when it was added. -/

namespace H2T

/-- the tink of a rendered line; a rule counts with its box-drawing characters (it is printed as such when prefixed) -/
def trink : RLine → List Cell
  | .text tl => tink tl
  | .rule _ _ => []

/-- everything a sub-renderer holds, in output order -/
def SubR.tink (s : SubR) : List Cell :=
  s.lines.flatMap trink ++ (match s.wrapping with | some w => w.tink | none => [])

theorem tink_fragsOnly (l : List Elt) (h : fragsOnly l) : tink l = [] := by
  induction l with
  | nil => rfl
  | cons e l ih =>
    have he := h e (by simp)
    cases e with
    | cell c => simp [Elt.isCell] at he
    | frag n => simp only [tink, List.filterMap_cons]; exact ih (fun x hx => h x (by simp [hx]))

theorem addLine_tink (s : SubR) (l : RLine) (hf : s.FragsOk) :
    (s.addLine l).tink = s.lines.flatMap trink ++ trink l ++ (match s.wrapping with | some w => w.tink | none => []) ∧ (s.addLine l).FragsOk := by
  cases l with
  | rule b t => exact ⟨by simp [SubR.addLine, SubR.tink], hf⟩
  | text tl =>
    simp only [SubR.addLine]
    split
    · exact ⟨by simp [SubR.tink], hf⟩
    · refine ⟨by simp [SubR.tink, trink, tink_append, tink_fragsOnly _ hf], ?_⟩
      intro e he; simp at he

/-- adding lines to a renderer with nothing pending -/
theorem addLines_tink (ls : List RLine) : ∀ (s : SubR), s.FragsOk → s.wrapping = none →
    (s.addLines ls).tink = s.tink ++ ls.flatMap trink ∧ (s.addLines ls).FragsOk ∧ (s.addLines ls).wrapping = none := by
  induction ls with
  | nil => intro s hf hw; simp [SubR.addLines, hf, hw]
  | cons l ls ih =>
    intro s hf hw
    obtain ⟨a1, a2⟩ := addLine_tink s l hf
    have hw1 : (s.addLine l).wrapping = none := by rw [addLine_wrapping]; exact hw
    obtain ⟨b1, b2, b3⟩ := ih (s.addLine l) a2 hw1
    refine ⟨?_, b2, b3⟩
    show ((s.addLine l).addLines ls).tink = _
    rw [b1, a1]
    simp [SubR.tink, hw, List.append_assoc]

theorem flushWrapping_tink (s s' : SubR) (hf : s.FragsOk) (h : s.flushWrapping = .ok s') :
    s'.tink = s.tink ∧ s'.FragsOk ∧ s'.wrapping = none := by
  unfold SubR.flushWrapping at h
  cases hw : s.wrapping with
  | none => simp only [hw] at h; injection h with h; subst h; exact ⟨rfl, hf, hw⟩
  | some w =>
    simp only [hw] at h
    generalize hw' : (if w.word.noContent = true then { w with word := [] } else w) = w' at h
    have hink : w'.tink = w.tink := by
      rw [← hw']; split
      · rename_i hn; simp [WB.tink, tink_noContent _ hn, tink_nil]
      · rfl
    cases hfin : w'.finish with
    | error e => simp [hfin, andThen] at h
    | ok ls =>
      simp only [hfin, andThen] at h
      injection h with h; subst h
      have h0f : ({ s with wrapping := none } : SubR).FragsOk := hf
      obtain ⟨a1, a2, a3⟩ := addLines_tink (ls.map RLine.text) _ h0f rfl
      refine ⟨?_, ?_, a3⟩
      · show (({ s with wrapping := none } : SubR).addLines (ls.map RLine.text)).lines.flatMap trink ++ _ = _
        have : (({ s with wrapping := none } : SubR).addLines (ls.map RLine.text)).tink = s.lines.flatMap trink ++ w.tink := by
          rw [a1]
          have e := finish_tink w' ls hfin
          simp only [SubR.tink, List.append_nil]
          rw [List.flatMap_map]
          show s.lines.flatMap trink ++ ls.flatMap tink = _
          rw [e, hink]
        simp only [SubR.tink, a3] at this ⊢
        simp only [hw]
        exact this
      · intro e he
        simp only [List.mem_append] at he
        rcases he with h1 | h1
        · exact a2 e h1
        · split at h1
          · rename_i hn; exact noContent_fragsOnly _ hn e h1
          · simp at h1

theorem addEmptyLine_tink (s s' : SubR) (hf : s.FragsOk) (h : s.addEmptyLine = .ok s') : s'.tink = s.tink ∧ s'.FragsOk := by
  unfold SubR.addEmptyLine at h
  cases h1 : s.flushWrapping with
  | error e => simp [h1, andThen] at h
  | ok s1 =>
    simp only [h1, andThen] at h; injection h with h; subst h
    obtain ⟨a1, a2, a3⟩ := flushWrapping_tink s s1 hf h1
    obtain ⟨b1, b2⟩ := addLine_tink s1 (.text []) a2
    refine ⟨?_, b2⟩
    show (s1.addLine (.text [])).tink = s.tink
    rw [b1, ← a1]
    simp [SubR.tink, trink, tink_nil, a3]

theorem startBlock_tink (s s' : SubR) (hf : s.FragsOk) (h : s.startBlock = .ok s') : s'.tink = s.tink ∧ s'.FragsOk := by
  unfold SubR.startBlock at h
  cases h1 : s.flushWrapping with
  | error e => simp [h1, andThen] at h
  | ok s1 =>
    simp only [h1, andThen] at h
    obtain ⟨a1, a2, _⟩ := flushWrapping_tink s s1 hf h1
    generalize hr : (if s1.lines.any RLine.hasContent = true then s1.addEmptyLine else Except.ok s1) = r at h
    cases r with
    | error e => simp at h
    | ok s2 =>
      simp only at h; injection h with h; subst h
      have e2 : s2.tink = s1.tink ∧ s2.FragsOk := by
        split at hr
        · exact addEmptyLine_tink s1 s2 a2 hr
        · injection hr with hr; subst hr; exact ⟨rfl, a2⟩
      exact ⟨e2.1.trans a1, e2.2⟩

theorem newLineHard_tink (s s' : SubR) (hf : s.FragsOk) (h : s.newLineHard = .ok s') : s'.tink = s.tink ∧ s'.FragsOk := by
  unfold SubR.newLineHard at h
  split at h
  · exact addEmptyLine_tink s s' hf h
  · split at h
    · exact addEmptyLine_tink s s' hf h
    · obtain ⟨a, b, _⟩ := flushWrapping_tink s s' hf h; exact ⟨a, b⟩

theorem getWrapping_tink (s : SubR) (cfg : Cfg) : (s.getWrapping cfg).tink = (match s.wrapping with | some w => w.tink | none => []) := by
  unfold SubR.getWrapping
  cases s.wrapping with
  | some w => rfl
  | none => rfl

theorem addInlineText_tink (s s' : SubR) (cfg : Cfg) (x : List Ch) (f : Ann → Ann) (hf : s.FragsOk) (hp : s.preDepth = 0)
    (h : s.addInlineText cfg x f = .ok s') :
    s'.tink = s.tink ++ tkeep s.annStack (iterN strikeFilter s.filterDepth x) ∧ s'.FragsOk ∧ s'.ff = s.ff := by
  have hff := addInlineText_ff s s' cfg x f h
  refine ⟨?_, ?_, hff⟩
  all_goals unfold SubR.addInlineText at h
  · split at h
    · rename_i hc
      injection h with h; subst h
      simp only [Bool.and_eq_true] at hc
      simp [tkeep, keep_filtered_ws _ _ hc.2]
    · generalize hs0 : (if s.atBlockEnd = true then s.startBlock else Except.ok s) = r0 at h
      cases r0 with
      | error e => simp [andThen] at h
      | ok s0 =>
        have e0 : s0.tink = s.tink ∧ s0.FragsOk ∧ s0.ff = s.ff := by
          split at hs0
          · obtain ⟨a, b⟩ := startBlock_tink s s0 hf hs0
            exact ⟨a, b, startBlock_ff s s0 hs0⟩
          · injection hs0 with hs0; subst hs0; exact ⟨rfl, hf, rfl⟩
        have hff0 := e0.2.2
        simp only [SubR.ff, Prod.mk.injEq] at hff0
        have hp0 : s0.preDepth = 0 := by rw [hff0.2.1]; exact hp
        simp only [andThen, hp0, Nat.lt_irrefl, if_false] at h
        cases hr : (s0.getWrapping cfg).addText s0.wsMode s0.annStack s0.annStack (iterN strikeFilter s0.filterDepth x) with
        | error e => simp [hr] at h
        | ok w' =>
          simp only [hr] at h; injection h with h; subst h
          have := addText_tink _ w' _ _ _ hr
          show s0.lines.flatMap trink ++ w'.tink = _
          rw [this, getWrapping_tink, ← e0.1, hff0.1, hff0.2.2.2.1]
          simp [SubR.tink, List.append_assoc]
  · split at h
    · injection h with h; subst h; exact hf
    · generalize hs0 : (if s.atBlockEnd = true then s.startBlock else Except.ok s) = r0 at h
      cases r0 with
      | error e => simp [andThen] at h
      | ok s0 =>
        have e0 : s0.FragsOk := by
          split at hs0
          · exact (startBlock_tink s s0 hf hs0).2
          · injection hs0 with hs0; subst hs0; exact hf
        simp only [andThen] at h
        generalize (if s0.preDepth > 0 then s0.annStack ++ [f (Ann.pre false)] else s0.annStack) = mt at h
        generalize (if s0.preDepth > 0 then s0.annStack ++ [f (Ann.pre true)] else s0.annStack) = ct at h
        cases hr : (s0.getWrapping cfg).addText s0.wsMode mt ct (iterN strikeFilter s0.filterDepth x) with
        | error e => simp [hr] at h
        | ok w' => simp only [hr] at h; injection h with h; subst h; exact e0

theorem recordFrag_tink (s : SubR) (cfg : Cfg) (n : List Ch) (hf : s.FragsOk) : (s.recordFrag cfg n).tink = s.tink ∧ (s.recordFrag cfg n).FragsOk := by
  refine ⟨?_, hf⟩
  show s.lines.flatMap trink ++ ((s.getWrapping cfg).addElement (.frag n)).tink = _
  have : ((s.getWrapping cfg).addElement (.frag n)).tink = (s.getWrapping cfg).tink := by
    simp [WB.tink, WB.addElement, tink_append, tink_frag]
  rw [this, getWrapping_tink]; rfl

theorem tink_wsCells (tag : Tag) (p : List Ch) (h : p.all chIsWs = true) : tink (p.map fun c => Elt.cell ⟨c, tag⟩) = [] := by
  induction p with
  | nil => rfl
  | cons c cs ih =>
    simp only [List.all_cons, Bool.and_eq_true] at h
    have hc : c.ws = true := h.1
    have := ih h.2
    simp only [tink, List.map_cons, List.filterMap_cons, hc, if_true] at this ⊢
    exact this

theorem prefixLine_tink (tag : Tag) (p : List Ch) (l : RLine) (h : p.all chIsWs = true) (hl : l.isText = true) :
    trink (prefixLine tag p l) = trink l := by
  cases l with
  | text tl =>
    simp only [prefixLine]
    split
    · rfl
    · simp [trink, tink_append, tink_wsCells tag p h]
  | rule b t => simp [RLine.isText] at hl

theorem zipPrefix_tink (tag : Tag) (first rest : List Ch) (ls : List RLine) (h1 : first.all chIsWs = true) (h2 : rest.all chIsWs = true)
    (hl : ∀ l ∈ ls, l.isText = true) : (zipPrefix tag first rest ls).flatMap trink = ls.flatMap trink := by
  cases ls with
  | nil => rfl
  | cons l ls =>
    simp only [zipPrefix, List.flatMap_cons, prefixLine_tink tag first l h1 (hl l (by simp))]
    congr 1
    have hl' : ∀ x ∈ ls, x.isText = true := fun x hx => hl x (by simp [hx])
    clear hl
    induction ls with
    | nil => rfl
    | cons x xs ih =>
      simp only [List.map_cons, List.flatMap_cons, prefixLine_tink tag rest x h2 (hl' x (by simp))]
      rw [ih (fun y hy => hl' y (by simp [hy]))]

theorem intoLines_tink (s : SubR) (ls : List RLine) (hf : s.FragsOk) (h : s.intoLines = .ok ls) : ls.flatMap trink = s.tink := by
  unfold SubR.intoLines at h
  cases h1 : s.flushWrapping with
  | error e => simp [h1, andThen] at h
  | ok s1 =>
    simp only [h1, andThen] at h; injection h with h; subst h
    obtain ⟨a1, _, a3⟩ := flushWrapping_tink s s1 hf h1
    rw [← a1]; simp [SubR.tink, a3]

theorem appendSub_tink (s other s' : SubR) (first rest : List Ch) (hf : s.FragsOk) (ho : other.FragsOk) (hnr : other.NR)
    (h1 : first.all chIsWs = true) (h2 : rest.all chIsWs = true) (h : s.appendSub other first rest = .ok s') :
    s'.tink = s.tink ++ other.tink ∧ s'.FragsOk := by
  unfold SubR.appendSub at h
  cases e1 : s.flushWrapping with
  | error e => simp [e1, andThen] at h
  | ok s1 =>
    simp only [e1, andThen] at h
    obtain ⟨a1, a2, a3⟩ := flushWrapping_tink s s1 hf e1
    cases e2 : other.intoLines with
    | error e => simp [e2] at h
    | ok ls =>
      simp only [e2] at h; injection h with h; subst h
      obtain ⟨b1, b2, _⟩ := addLines_tink (zipPrefix s1.annStack first rest ls) s1 a2 a3
      exact ⟨by rw [b1, zipPrefix_tink _ _ _ _ h1 h2 (intoLines_text_of_nr other ls hnr e2), intoLines_tink other ls ho e2, a1], b2⟩

/-! ## programs -/

mutual
/-- programs these theorems cover: no tables, whitespace block prefixes, no `<pre>` (inside `<pre>` the continuation tag
    differs from the main tag) -/
def tagOkOp : Op → Bool
  | .pushPre => false
  | .popPre => false
  | .sub _ _ first rest _ body => first.all chIsWs && rest.all chIsWs && tagOkOps body
  | .table _ _ => false
  | .row _ _ _ => false
  | .cell _ _ _ => false
  | _ => true
def tagOkOps : List Op → Bool
  | [] => true
  | op :: ops => tagOkOp op && tagOkOps ops
end

mutual
theorem tagOk_tableFree : (op : Op) → tagOkOp op = true → tableFreeOp op = true
  | .sub _ _ _ _ _ body, h => by
    simp only [tagOkOp, Bool.and_eq_true] at h
    simp only [tableFreeOp]; exact tagOks_tableFree body h.2
  | .table _ _, h => by simp [tagOkOp] at h
  | .row _ _ _, h => by simp [tagOkOp] at h
  | .cell _ _ _, h => by simp [tagOkOp] at h
  | .pushWs _, _ => rfl | .popWs, _ => rfl | .pushPre, _ => rfl | .popPre, _ => rfl | .pushAnn _, _ => rfl | .popAnn, _ => rfl
  | .text _, _ => rfl | .frag _, _ => rfl | .startLink _, _ => rfl | .endLink, _ => rfl | .startAnn _ _ _, _ => rfl
  | .endAnn _ _, _ => rfl | .image _ _, _ => rfl | .startBlock, _ => rfl | .endBlock, _ => rfl | .newLine, _ => rfl | .newLineHard, _ => rfl
theorem tagOks_tableFree : (ops : List Op) → tagOkOps ops = true → tableFreeOps ops = true
  | [], _ => rfl
  | op :: r, h => by
    simp only [tagOkOps, Bool.and_eq_true] at h
    simp only [tableFreeOps, Bool.and_eq_true]
    exact ⟨tagOk_tableFree op h.1, tagOks_tableFree r h.2⟩
end

mutual
/-- the tagged cells an operation adds, the annotation stack and the strikeout depth afterwards -/
def opTink (cfg : Cfg) (d : Deco) (st : Tag) (dep : Nat) : Op → List Cell × Tag × Nat
  | .text x => (tkeep st (iterN strikeFilter dep x), st, dep)
  | .pushAnn a => ([], st ++ [a], dep)
  | .popAnn => ([], st.dropLast, dep)
  | .startLink href => (tkeep (st ++ [d.annOf (Ann.link href)]) (iterN strikeFilter dep d.linkStart), st ++ [d.annOf (Ann.link href)], dep)
  | .endLink => (tkeep st (iterN strikeFilter dep d.linkEnd), st.dropLast, dep)
  | .startAnn a x strike =>
    (tkeep (st ++ [d.annOf a]) (iterN strikeFilter dep x), st ++ [d.annOf a], if strike && cfg.unicodeStrike then dep + 1 else dep)
  | .endAnn x strike =>
    (tkeep st (iterN strikeFilter (if strike && cfg.unicodeStrike then dep - 1 else dep) x), st.dropLast,
      if strike && cfg.unicodeStrike then dep - 1 else dep)
  | .image src title => (tkeep (st ++ [d.annOf (Ann.image src)]) (iterN strikeFilter dep (d.imgText title)), st, dep)
  | .sub _ _ _ _ _ body => ((opsTink cfg d st 0 body).1, st, dep)
  | _ => ([], st, dep)
def opsTink (cfg : Cfg) (d : Deco) (st : Tag) (dep : Nat) : List Op → List Cell × Tag × Nat
  | [] => ([], st, dep)
  | op :: r =>
    ((opTink cfg d st dep op).1 ++ (opsTink cfg d (opTink cfg d st dep op).2.1 (opTink cfg d st dep op).2.2 r).1,
     (opsTink cfg d (opTink cfg d st dep op).2.1 (opTink cfg d st dep op).2.2 r).2)
end

/-- what a run conserves, with tags -/
def TinkStep (s s' : SubR) (added : List Cell × Tag × Nat) : Prop :=
  s'.tink = s.tink ++ added.1 ∧ s'.annStack = added.2.1 ∧ s'.filterDepth = added.2.2 ∧ s'.FragsOk ∧ s'.preDepth = 0

theorem onCur_tink (t : RS) (f : SubR → Except Err SubR) (t1 : RS) (added : List Cell × Tag × Nat) (h0 : t.onCur f = .ok t1)
    (hf : ∀ s1, f t.cur = .ok s1 → TinkStep t.cur s1 added) : TinkStep t.cur t1.cur added := by
  unfold RS.onCur at h0
  cases hfc : f t.cur with
  | error e => simp [hfc, andThen] at h0
  | ok s1 => simp only [hfc, andThen] at h0; injection h0 with h0; subst h0; exact hf s1 hfc

/-- `add_inline_text` from a state related to `t.cur` -/
theorem txt_step (cfg : Cfg) (s0 s1 : SubR) (x : List Ch) (f : Ann → Ann) (hf : s0.FragsOk) (hp : s0.preDepth = 0)
    (e : s0.addInlineText cfg x f = .ok s1) :
    s1.tink = s0.tink ++ tkeep s0.annStack (iterN strikeFilter s0.filterDepth x) ∧ s1.annStack = s0.annStack ∧
      s1.filterDepth = s0.filterDepth ∧ s1.FragsOk ∧ s1.preDepth = 0 := by
  obtain ⟨a, b, c⟩ := addInlineText_tink s0 s1 cfg x f hf hp e
  simp only [SubR.ff, Prod.mk.injEq] at c
  exact ⟨a, c.1, c.2.2.2.1, b, by rw [c.2.1]; exact hp⟩

theorem stepSimple_tink (cfg : Cfg) (d : Deco) (t t' : RS) (op : Op) (hfn : cfg.footnotes = false) (hfr : t.cur.FragsOk)
    (hp : t.cur.preDepth = 0) (hs : tagOkOp op = true) (hsub : ∀ p m f r a b, op ≠ .sub p m f r a b)
    (h : stepSimple cfg d t op = .ok t') : TinkStep t.cur t'.cur (opTink cfg d t.cur.annStack t.cur.filterDepth op) := by
  have keep0 : ∀ (s0 : SubR), s0.lines = t.cur.lines → s0.wrapping = t.cur.wrapping → s0.pendingFrags = t.cur.pendingFrags →
      s0.filterDepth = t.cur.filterDepth → s0.preDepth = t.cur.preDepth → TinkStep t.cur s0 ([], s0.annStack, t.cur.filterDepth) := by
    intro s0 e1 e2 e3 e4 e5
    exact ⟨by simp [SubR.tink, e1, e2], rfl, e4, by unfold SubR.FragsOk; rw [e3]; exact hfr, by rw [e5]; exact hp⟩
  have ffStep : ∀ (s1 : SubR), s1.tink = t.cur.tink → s1.FragsOk → s1.ff = t.cur.ff →
      TinkStep t.cur s1 ([], t.cur.annStack, t.cur.filterDepth) := by
    intro s1 a b c
    simp only [SubR.ff, Prod.mk.injEq] at c
    exact ⟨by rw [a]; simp, c.1, c.2.2.2.1, b, by rw [c.2.1]; exact hp⟩
  cases op <;> simp only [stepSimple] at h
  case pushWs ws => exact onCur_tink t _ t' _ h fun s1 e => by injection e with e; subst e; exact keep0 _ rfl rfl rfl rfl rfl
  case popWs => exact onCur_tink t _ t' _ h fun s1 e => by injection e with e; subst e; exact keep0 _ rfl rfl rfl rfl rfl
  case pushAnn a => exact onCur_tink t _ t' _ h fun s1 e => by injection e with e; subst e; exact keep0 _ rfl rfl rfl rfl rfl
  case popAnn => exact onCur_tink t _ t' _ h fun s1 e => by injection e with e; subst e; exact keep0 _ rfl rfl rfl rfl rfl
  case pushPre => simp [tagOkOp] at hs
  case popPre => simp [tagOkOp] at hs
  case text x => exact onCur_tink t _ t' _ h fun s1 e => txt_step cfg _ s1 x _ hfr hp e
  case frag n =>
    exact onCur_tink t _ t' _ h fun s1 e => by
      injection e with e; subst e
      obtain ⟨a, b⟩ := recordFrag_tink t.cur cfg n hfr
      exact ⟨by rw [a]; simp [opTink], rfl, rfl, b, hp⟩
  case startLink href =>
    exact onCur_tink { t with links := t.links ++ [href] } _ t' (opTink cfg d t.cur.annStack t.cur.filterDepth (.startLink href)) h fun s1 e =>
      txt_step cfg ({ t.cur with annStack := t.cur.annStack ++ [d.annOf (Ann.link href)] } : SubR) s1 _ _ hfr hp e
  case endLink =>
    simp only [hfn, Bool.false_eq_true, if_false] at h
    generalize h1 : (t.onCur fun s => andThen (s.addInlineText cfg d.linkEnd d.annOf) fun s' => Except.ok { s' with annStack := s'.annStack.dropLast }) = r1 at h
    cases r1 with
    | error e => simp [andThen] at h
    | ok t1 =>
      simp only [andThen] at h; injection h with h; subst h
      exact onCur_tink t _ t1 _ h1 fun s1 e => by
        cases h2 : t.cur.addInlineText cfg d.linkEnd d.annOf with
        | error e' => simp [h2, andThen] at e
        | ok s2 =>
          simp only [h2, andThen] at e; injection e with e; subst e
          obtain ⟨a, b, c, f, g⟩ := txt_step cfg t.cur s2 _ _ hfr hp h2
          exact ⟨a, by show s2.annStack.dropLast = _; rw [b]; rfl, c, f, g⟩
  case startAnn a x strike =>
    exact onCur_tink t _ t' _ h fun s1 e => by
      cases h2 : ({ t.cur with annStack := t.cur.annStack ++ [d.annOf a] } : SubR).addInlineText cfg x d.annOf with
      | error e' => simp [h2, andThen] at e
      | ok s2 =>
        simp only [h2, andThen] at e; injection e with e; subst e
        obtain ⟨a1, b1, c1, f1, g1⟩ := txt_step cfg ({ t.cur with annStack := t.cur.annStack ++ [d.annOf a] } : SubR) s2 _ _ hfr hp h2
        simp only [opTink]
        split
        · exact ⟨a1, b1, by simp [c1], f1, g1⟩
        · exact ⟨a1, b1, c1, f1, g1⟩
  case endAnn x strike =>
    exact onCur_tink t _ t' _ h fun s1 e => by
      generalize hs0 : (if (strike && cfg.unicodeStrike) = true then { t.cur with filterDepth := t.cur.filterDepth - 1 } else t.cur) = s0 at e
      have e0 : s0.tink = t.cur.tink ∧ s0.FragsOk ∧ s0.preDepth = 0 ∧ s0.annStack = t.cur.annStack ∧
          s0.filterDepth = (if (strike && cfg.unicodeStrike) = true then t.cur.filterDepth - 1 else t.cur.filterDepth) := by
        rw [← hs0]; split
        · exact ⟨rfl, hfr, hp, rfl, rfl⟩
        · exact ⟨rfl, hfr, hp, rfl, rfl⟩
      cases h2 : s0.addInlineText cfg x d.annOf with
      | error e' => simp [h2, andThen] at e
      | ok s2 =>
        simp only [h2, andThen] at e; injection e with e; subst e
        obtain ⟨a1, b1, c1, f1, g1⟩ := txt_step cfg s0 s2 _ _ e0.2.1 e0.2.2.1 h2
        simp only [opTink]
        refine ⟨?_, ?_, ?_, f1, g1⟩
        · show s2.tink = _
          rw [a1, e0.1, e0.2.2.2.1, e0.2.2.2.2]
        · show s2.annStack.dropLast = _
          rw [b1, e0.2.2.2.1]
        · show s2.filterDepth = _
          rw [c1, e0.2.2.2.2]
  case image src title =>
    exact onCur_tink t _ t' _ h fun s1 e => by
      cases h2 : ({ t.cur with annStack := t.cur.annStack ++ [d.annOf (Ann.image src)] } : SubR).addInlineText cfg (d.imgText title) d.annOf with
      | error e' => simp [h2, andThen] at e
      | ok s2 =>
        simp only [h2, andThen] at e; injection e with e; subst e
        obtain ⟨a1, b1, c1, f1, g1⟩ := txt_step cfg ({ t.cur with annStack := t.cur.annStack ++ [d.annOf (Ann.image src)] } : SubR) s2 _ _ hfr hp h2
        refine ⟨a1, ?_, c1, f1, g1⟩
        show s2.annStack.dropLast = t.cur.annStack
        rw [b1]; simp
  case startBlock =>
    exact onCur_tink t _ t' _ h fun s1 e => by
      obtain ⟨a, b⟩ := startBlock_tink _ s1 hfr e
      exact ffStep s1 a b (startBlock_ff _ s1 e)
  case endBlock => exact onCur_tink t _ t' _ h fun s1 e => by injection e with e; subst e; exact keep0 _ rfl rfl rfl rfl rfl
  case newLine =>
    exact onCur_tink t _ t' _ h fun s1 e => by
      obtain ⟨a, b, _⟩ := flushWrapping_tink _ s1 hfr e
      exact ffStep s1 a b (flushWrapping_ff _ s1 e)
  case newLineHard =>
    exact onCur_tink t _ t' _ h fun s1 e => by
      obtain ⟨a, b⟩ := newLineHard_tink _ s1 hfr e
      exact ffStep s1 a b (newLineHard_ff _ s1 e)
  case sub p m f r a b => exact absurd rfl (hsub p m f r a b)
  case table _ _ => simp [tagOkOp] at hs
  case row _ _ _ => simp [tagOkOp] at hs
  case cell _ _ _ => simp [tagOkOp] at hs


theorem fresh_tink (w : Nat) (ann : Tag) : ({ width := w, annStack := ann } : SubR).tink = [] ∧ ({ width := w, annStack := ann } : SubR).FragsOk :=
  ⟨rfl, fun e he => by simp at he⟩

mutual
theorem runOp_tink (cfg : Cfg) (d : Deco) (hfn : cfg.footnotes = false) :
    (op : Op) → (t t' : RS) → tagOkOp op = true → t.cur.FragsOk → t.cur.preDepth = 0 → runOp SubR.widthMinus cfg d t op = .ok t' →
    TinkStep t.cur t'.cur (opTink cfg d t.cur.annStack t.cur.filterDepth op)
  | .sub p m first rest asBlock body, t, t', hs, hfr, hp, he => by
    simp only [tagOkOp, Bool.and_eq_true] at hs
    obtain ⟨⟨h1, h2⟩, hbody⟩ := hs
    simp only [runOp] at he
    cases e1 : t.cur.widthMinus cfg p m with
    | error e => simp [e1, andThen_error_eq] at he
    | ok w =>
      simp only [e1, andThen_ok_eq] at he
      cases e2 : runOps SubR.widthMinus cfg d { links := t.links, cur := ({ width := w, annStack := t.cur.annStack } : SubR) } body with
      | error e => simp [e2, andThen_error_eq] at he
      | ok r =>
        simp only [e2, andThen_ok_eq] at he
        obtain ⟨f1, f2⟩ := fresh_tink w t.cur.annStack
        have hb := runOps_tink cfg d hfn body _ r hbody f2 rfl e2
        have hnr := runOps_nr cfg d body _ r (tagOks_tableFree body hbody) (by intro l hl; simp at hl) e2
        generalize e3 : (if asBlock = true then t.cur.startBlock else Except.ok t.cur) = r3 at he
        cases r3 with
        | error e => simp [andThen_error_eq] at he
        | ok s1 =>
          simp only [andThen_ok_eq] at he
          have st1 : s1.tink = t.cur.tink ∧ s1.FragsOk ∧ s1.ff = t.cur.ff := by
            split at e3
            · obtain ⟨a, b⟩ := startBlock_tink _ s1 hfr e3
              exact ⟨a, b, startBlock_ff _ s1 e3⟩
            · injection e3 with e3; subst e3; exact ⟨rfl, hfr, rfl⟩
          cases e4 : s1.appendSub r.cur first rest with
          | error e => simp [e4, andThen_error_eq] at he
          | ok s2 =>
            simp only [e4, andThen_ok_eq] at he; injection he with he; subst he
            obtain ⟨a, b⟩ := appendSub_tink s1 r.cur s2 first rest st1.2.1 hb.2.2.2.1 hnr h1 h2 e4
            have hfd := (appendSub_ff s1 r.cur s2 first rest e4).trans st1.2.2
            simp only [SubR.ff, Prod.mk.injEq] at hfd
            have hrink : r.cur.tink = (opsTink cfg d t.cur.annStack 0 body).1 := by
              have := hb.1; rw [f1] at this; simpa using this
            simp only [opTink]
            have key : TinkStep t.cur s2 ((opsTink cfg d t.cur.annStack 0 body).1, t.cur.annStack, t.cur.filterDepth) :=
              ⟨by rw [a, st1.1, hrink], hfd.1, hfd.2.2.2.1, b, by rw [hfd.2.1]; exact hp⟩
            split
            · exact ⟨key.1, key.2.1, key.2.2.1, key.2.2.2.1, key.2.2.2.2⟩
            · exact key
  | .table _ _, _, _, hs, _, _, _ => by simp [tagOkOp] at hs
  | .row _ _ _, _, _, hs, _, _, _ => by simp [tagOkOp] at hs
  | .cell _ _ _, _, _, hs, _, _, _ => by simp [tagOkOp] at hs
  | .pushPre, _, _, hs, _, _, _ => by simp [tagOkOp] at hs
  | .popPre, _, _, hs, _, _, _ => by simp [tagOkOp] at hs
  | .pushWs ws, t, t', hs, hfr, hp, he => stepSimple_tink cfg d t t' _ hfn hfr hp hs (by simp) (by simpa [runOp] using he)
  | .popWs, t, t', hs, hfr, hp, he => stepSimple_tink cfg d t t' _ hfn hfr hp hs (by simp) (by simpa [runOp] using he)
  | .pushAnn a, t, t', hs, hfr, hp, he => stepSimple_tink cfg d t t' _ hfn hfr hp hs (by simp) (by simpa [runOp] using he)
  | .popAnn, t, t', hs, hfr, hp, he => stepSimple_tink cfg d t t' _ hfn hfr hp hs (by simp) (by simpa [runOp] using he)
  | .text x, t, t', hs, hfr, hp, he => stepSimple_tink cfg d t t' _ hfn hfr hp hs (by simp) (by simpa [runOp] using he)
  | .frag n, t, t', hs, hfr, hp, he => stepSimple_tink cfg d t t' _ hfn hfr hp hs (by simp) (by simpa [runOp] using he)
  | .startLink h, t, t', hs, hfr, hp, he => stepSimple_tink cfg d t t' _ hfn hfr hp hs (by simp) (by simpa [runOp] using he)
  | .endLink, t, t', hs, hfr, hp, he => stepSimple_tink cfg d t t' _ hfn hfr hp hs (by simp) (by simpa [runOp] using he)
  | .startAnn a x s, t, t', hs, hfr, hp, he => stepSimple_tink cfg d t t' _ hfn hfr hp hs (by simp) (by simpa [runOp] using he)
  | .endAnn x s, t, t', hs, hfr, hp, he => stepSimple_tink cfg d t t' _ hfn hfr hp hs (by simp) (by simpa [runOp] using he)
  | .image a b, t, t', hs, hfr, hp, he => stepSimple_tink cfg d t t' _ hfn hfr hp hs (by simp) (by simpa [runOp] using he)
  | .startBlock, t, t', hs, hfr, hp, he => stepSimple_tink cfg d t t' _ hfn hfr hp hs (by simp) (by simpa [runOp] using he)
  | .endBlock, t, t', hs, hfr, hp, he => stepSimple_tink cfg d t t' _ hfn hfr hp hs (by simp) (by simpa [runOp] using he)
  | .newLine, t, t', hs, hfr, hp, he => stepSimple_tink cfg d t t' _ hfn hfr hp hs (by simp) (by simpa [runOp] using he)
  | .newLineHard, t, t', hs, hfr, hp, he => stepSimple_tink cfg d t t' _ hfn hfr hp hs (by simp) (by simpa [runOp] using he)
theorem runOps_tink (cfg : Cfg) (d : Deco) (hfn : cfg.footnotes = false) :
    (ops : List Op) → (t t' : RS) → tagOkOps ops = true → t.cur.FragsOk → t.cur.preDepth = 0 → runOps SubR.widthMinus cfg d t ops = .ok t' →
    TinkStep t.cur t'.cur (opsTink cfg d t.cur.annStack t.cur.filterDepth ops)
  | [], t, t', _, hfr, hp, he => by simp [runOps] at he; subst he; exact ⟨by simp [opsTink], rfl, rfl, hfr, hp⟩
  | op :: ops, t, t', hs, hfr, hp, he => by
    simp only [tagOkOps, Bool.and_eq_true] at hs
    simp only [runOps] at he
    cases h1 : runOp SubR.widthMinus cfg d t op with
    | error e => simp [h1, andThen_error_eq] at he
    | ok t1 =>
      simp only [h1, andThen_ok_eq] at he
      obtain ⟨a1, a2, a3, a4, a5⟩ := runOp_tink cfg d hfn op t t1 hs.1 hfr hp h1
      obtain ⟨b1, b2, b3, b4, b5⟩ := runOps_tink cfg d hfn ops t1 t' hs.2 a4 a5 he
      simp only [opsTink]
      rw [a2, a3] at b1 b2 b3
      exact ⟨by rw [b1, a1, List.append_assoc], b2, b3, b4, b5⟩
end

/-- **C09 at the level of whole renderings** (no tables, no `<pre>`, whitespace block prefixes, footnotes off): the
    non-whitespace cells of the lines `renderTree` returns — characters *with their tag vectors* — are exactly the tagged
    cells of the program, in order: every visible character carries the annotation stack that was in force when its text
    was added (the stack of its annotating ancestors, by the bracket structure of `compile`) -/
theorem renderTree_tink (cfg : Cfg) (d : Deco) (w : Nat) (tree : RNode) (ls : List RLine) (hfn : cfg.footnotes = false)
    (hs : tagOkOps (compile cfg d tree) = true) (h : renderTree cfg d w tree = .ok ls) :
    ls.flatMap trink = (opsTink cfg d [] 0 (compile cfg d tree)).1 := by
  unfold renderTree at h
  split at h
  · simp at h
  · cases h1 : runOps SubR.widthMinus cfg d { cur := { width := w } } (compile cfg d tree) with
    | error e => simp [h1, andThen_error_eq] at h
    | ok t =>
      simp only [h1, andThen_ok_eq] at h
      obtain ⟨f1, f2⟩ := fresh_tink w []
      obtain ⟨a1, _, _, a4, _⟩ := runOps_tink cfg d hfn _ _ t hs f2 rfl h1
      have hf0 : footTexts cfg t.links = [] := by simp [footTexts, hfn]
      rw [hf0] at h
      simp only [List.isEmpty_nil, if_true] at h
      rw [intoLines_tink t.cur ls a4 h, a1, f1]
      simp

end H2T
