import H2T.Lemmas.FitsTable

/-! C02: the programs `compile` emits are well formed (`wfOps`): every sub-renderer's prefixes are no wider than
    the width reserved for them, and the cells of a table row occupy disjoint, increasing column ranges. -/

namespace H2T

theorem wfOps_append (a b : List Op) : wfOps (a ++ b) = (wfOps a && wfOps b) := by
  induction a with
  | nil => simp [wfOps]
  | cons x a ih => simp [wfOps, ih, Bool.and_assoc]

theorem styleOpen_wf (d : Deco) (st : Style) : wfOps (styleOpen d st) = true := by
  unfold styleOpen
  simp only [wfOps_append, Bool.and_eq_true]
  refine ⟨⟨⟨?_, ?_⟩, ?_⟩, ?_⟩ <;> (repeat' split) <;> simp [wfOps, wfOp]

theorem styleClose_wf (d : Deco) (st : Style) : wfOps (styleClose d st) = true := by
  unfold styleClose
  simp only [wfOps_append, Bool.and_eq_true]
  refine ⟨⟨⟨?_, ?_⟩, ?_⟩, ?_⟩ <;> (repeat' split) <;> simp [wfOps, wfOp]

/-- what layout needs of a decorator: within one ordered list no marker is wider than the wider of the first and the
    last marker (the list's `prefix_size`).  True of every decorator that prints the number in decimal followed by a
    fixed string (`olDecimal_ok`); a decorator whose middle markers are wider than both ends breaks the width bound in
    the code as well. -/
def DecoOk (d : Deco) : Prop :=
  ∀ (start : Int) (n i : Nat), i < n → dispW (d.olPrefix (olItemNumber start i)) ≤ olPrefixSize d start n

theorem dispW_append (a b : List Ch) : dispW (a ++ b) = dispW a + dispW b := by simp [dispW]

theorem dispW_replicate_space (n : Nat) : dispW (List.replicate n spaceCh) = n := by
  induction n with
  | zero => rfl
  | succ n ih => simp [List.replicate_succ, dispW, spaceCh] at ih ⊢; omega

theorem dispW_padTo (s : List Ch) (n : Nat) (h : dispW s ≤ n) : dispW (padTo s n) = n := by
  simp [padTo, dispW_append, dispW_replicate_space]; omega

mutual
theorem compile_wf (cfg : Cfg) (d : Deco) (hd : DecoOk d) : (n : RNode) → wfOps (compile cfg d n) = true
  | .text st s => by simp [compile, wfOps_append, styleOpen_wf, styleClose_wf, wfOps, wfOp]
  | .img st src title => by simp [compile, wfOps_append, styleOpen_wf, styleClose_wf, wfOps, wfOp]
  | .br st => by simp [compile, wfOps_append, styleOpen_wf, styleClose_wf, wfOps, wfOp]
  | .frag n => by simp [compile, wfOps, wfOp]
  | .box st k kids => by
    have hb := compileList_wf cfg d hd kids
    cases k with
    | container => simp [compile, wfOps_append, styleOpen_wf, styleClose_wf, hb]
    | link href => simp [compile, wfOps_append, styleOpen_wf, styleClose_wf, hb, wfOps, wfOp]
    | em => simp [compile, wfOps_append, styleOpen_wf, styleClose_wf, hb, wfOps, wfOp]
    | strong => simp [compile, wfOps_append, styleOpen_wf, styleClose_wf, hb, wfOps, wfOp]
    | strike => simp [compile, wfOps_append, styleOpen_wf, styleClose_wf, hb, wfOps, wfOp]
    | code => simp [compile, wfOps_append, styleOpen_wf, styleClose_wf, hb, wfOps, wfOp]
    | block => simp [compile, wfOps_append, styleOpen_wf, styleClose_wf, hb, wfOps, wfOp]
    | li => simp [compile, wfOps_append, styleOpen_wf, styleClose_wf, hb, wfOps, wfOp]
    | header lvl => simp [compile, wfOps_append, styleOpen_wf, styleClose_wf, hb, wfOps, wfOp, sizeOf]
    | div => simp [compile, wfOps_append, styleOpen_wf, styleClose_wf, hb, wfOps, wfOp]
    | quote => simp [compile, wfOps_append, styleOpen_wf, styleClose_wf, hb, wfOps, wfOp]
    | ul =>
      simp only [compile, wfOps_append, styleOpen_wf, styleClose_wf, Bool.true_and, Bool.and_true]
      exact compileItems_wf cfg d hd _ _ _ _ 0 kids (fun _ _ _ => Nat.le_refl _) (by rw [dispW_replicate_space]; exact Nat.le_refl _)
    | ol start =>
      simp only [compile, wfOps_append, styleOpen_wf, styleClose_wf, Bool.true_and, Bool.and_true]
      refine compileItems_wf cfg d hd _ _ _ _ 0 kids (fun j _ hj => ?_) (by rw [dispW_replicate_space]; exact Nat.le_refl _)
      rw [dispW_padTo _ _ (hd start kids.length j (by omega))]; exact Nat.le_refl _
    | dl => simp [compile, wfOps_append, styleOpen_wf, styleClose_wf, hb, wfOps, wfOp]
    | dt => simp [compile, wfOps_append, styleOpen_wf, styleClose_wf, hb, wfOps, wfOp]
    | dd => simp [compile, wfOps_append, styleOpen_wf, styleClose_wf, hb, wfOps, wfOp, dispW, strCh, spaceCh]
    | sup =>
      simp only [compile]
      split <;> simp [wfOps_append, styleOpen_wf, styleClose_wf, hb, wfOps, wfOp]
  | .cell st _ kids => by simp [compile, wfOps_append, styleOpen_wf, styleClose_wf, compileList_wf cfg d hd kids]
  | .row _ _ => by simp [compile, wfOps]
  | .tbody _ _ => by simp [compile, wfOps]
  | .table st rows n => by
    simp [compile, wfOps_append, styleOpen_wf, styleClose_wf, wfOps, wfOp, compileRows_wf cfg d hd rows]
theorem compileList_wf (cfg : Cfg) (d : Deco) (hd : DecoOk d) : (ns : List RNode) → wfOps (compileList cfg d ns) = true
  | [] => by simp [compileList, wfOps]
  | n :: ns => by simp [compileList, wfOps_append, compile_wf cfg d hd n, compileList_wf cfg d hd ns]
theorem compileItems_wf (cfg : Cfg) (d : Deco) (hd : DecoOk d) (pw minW : Nat) (first : Nat → List Ch) (rest : List Ch) :
    (i : Nat) → (ns : List RNode) → (∀ j, i ≤ j → j < i + ns.length → dispW (first j) ≤ pw) → dispW rest ≤ pw →
    wfOps (compileItems cfg d pw minW first rest i ns) = true
  | _, [], _, _ => by simp [compileItems, wfOps]
  | i, n :: ns, hf, hr => by
    simp only [compileItems, wfOps, wfOp, Bool.and_eq_true, decide_eq_true_eq]
    refine ⟨⟨⟨hf i (Nat.le_refl _) (by simp), hr⟩, compile_wf cfg d hd n⟩, ?_⟩
    exact compileItems_wf cfg d hd pw minW first rest (i + 1) ns (fun j h1 h2 => hf j (by omega) (by simp; omega)) hr
theorem compileRows_wf (cfg : Cfg) (d : Deco) (hd : DecoOk d) : (rows : List RNode) → wfRows (compileRows cfg d rows) = true
  | [] => by simp [compileRows, wfRows]
  | .row st cells :: rs => by
    simp [compileRows, wfRows, styleOpen_wf, styleClose_wf, compileCells_wf cfg d hd 0 cells, compileRows_wf cfg d hd rs]
  | .text _ _ :: rs => by simp [compileRows, compileRows_wf cfg d hd rs]
  | .img _ _ _ :: rs => by simp [compileRows, compileRows_wf cfg d hd rs]
  | .br _ :: rs => by simp [compileRows, compileRows_wf cfg d hd rs]
  | .frag _ :: rs => by simp [compileRows, compileRows_wf cfg d hd rs]
  | .box _ _ _ :: rs => by simp [compileRows, compileRows_wf cfg d hd rs]
  | .cell _ _ _ :: rs => by simp [compileRows, compileRows_wf cfg d hd rs]
  | .tbody _ _ :: rs => by simp [compileRows, compileRows_wf cfg d hd rs]
  | .table _ _ _ :: rs => by simp [compileRows, compileRows_wf cfg d hd rs]
theorem compileCells_wf (cfg : Cfg) (d : Deco) (hd : DecoOk d) : (colno : Nat) → (cells : List RNode) →
    wfCells colno (compileCells cfg d colno cells) = true
  | _, [] => by simp [compileCells, wfCells]
  | colno, .cell st span kids :: cs => by
    simp [compileCells, wfCells, wfOps_append, styleOpen_wf, styleClose_wf, compileList_wf cfg d hd kids,
      compileCells_wf cfg d hd (colno + span) cs]
  | colno, .text _ _ :: cs => by simp [compileCells, compileCells_wf cfg d hd colno cs]
  | colno, .img _ _ _ :: cs => by simp [compileCells, compileCells_wf cfg d hd colno cs]
  | colno, .br _ :: cs => by simp [compileCells, compileCells_wf cfg d hd colno cs]
  | colno, .frag _ :: cs => by simp [compileCells, compileCells_wf cfg d hd colno cs]
  | colno, .box _ _ _ :: cs => by simp [compileCells, compileCells_wf cfg d hd colno cs]
  | colno, .row _ _ :: cs => by simp [compileCells, compileCells_wf cfg d hd colno cs]
  | colno, .tbody _ _ :: cs => by simp [compileCells, compileCells_wf cfg d hd colno cs]
  | colno, .table _ _ _ :: cs => by simp [compileCells, compileCells_wf cfg d hd colno cs]
end

end H2T
