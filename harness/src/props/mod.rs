//! One module per property: generator streams, independent oracle, correspondence projection.

use crate::Prop;

pub mod common;
pub mod corr;
pub mod c01;
pub mod c02;
pub mod c03;
pub mod c04;
pub mod c05;
pub mod c06;
pub mod tables;
pub mod c07;
pub mod c08;
pub mod c09;
pub mod c10;
pub mod c11;
pub mod c12;
pub mod c13;
pub mod c14;
pub mod c15;
pub mod c16;
pub mod c17;
pub mod c18;
pub mod c19;
pub mod c20;
pub mod css_common;

pub fn get(id: &str) -> Option<Box<dyn Prop>> {
    match id {
        "CORR" => Some(Box::new(corr::Corr)),
        "C01" => Some(Box::new(c01::C01)),
        "C02" => Some(Box::new(c02::C02)),
        "C03" => Some(Box::new(c03::C03)),
        "C04" => Some(Box::new(c04::C04)),
        "C05" => Some(Box::new(c05::C05)),
        "C06" => Some(Box::new(c06::C06)),
        "C07" => Some(Box::new(c07::C07)),
        "C08" => Some(Box::new(c08::C08)),
        "C09" => Some(Box::new(c09::C09)),
        "C10" => Some(Box::new(c10::C10)),
        "C11" => Some(Box::new(c11::C11)),
        "C12" => Some(Box::new(c12::C12)),
        "C13" => Some(Box::new(c13::C13)),
        "C14" => Some(Box::new(c14::C14)),
        "C15" => Some(Box::new(c15::C15)),
        "C16" => Some(Box::new(c16::C16)),
        "C17" => Some(Box::new(c17::C17)),
        "C18" => Some(Box::new(c18::C18)),
        "C19" => Some(Box::new(c19::C19)),
        "C20" => Some(Box::new(c20::C20)),
        _ => None,
    }
}
