import H2T.Lemmas.TableExact

/-! C06: the vertical bars of every row of a table stand at column boundaries — positions that depend only on the
    column widths, so they are the same in every row. -/

namespace H2T

/-- the renderer widths the cells of a row get (none skipped) -/
def cellWidths (ws : List Nat) : List Op → List Nat
  | [] => []
  | .cell colno span _ :: cs => (((ws.drop colno).take span).sum + span - 1) :: cellWidths ws cs
  | _ :: cs => cellWidths ws cs

theorem runCells_widths (cfg : Cfg) (d : Deco) (hov : cfg.overflow = false) (ws : List Nat) (hpos : ∀ x ∈ ws, 0 < x) (ann : Tag) :
    ∀ (cells : List Op) (links : List (List Ch)) (next : Nat) (l2 : List (List Ch)) (subs : List SubR),
    wfCells next cells = true → tiles ws.length next cells = true →
    runCells SubR.widthMinus cfg d ws false ann links cells = .ok (l2, subs) →
    subs.map (·.width) = cellWidths ws cells := by
  intro cells
  induction cells with
  | nil =>
    intro links next l2 subs _ _ he
    simp [runCells] at he
    obtain ⟨_, rfl⟩ := he
    rfl
  | cons op cs ih =>
    intro links next l2 subs hok ht he
    cases op with
    | cell colno span body =>
      simp only [tiles, Bool.and_eq_true, beq_iff_eq, decide_eq_true_eq] at ht
      obtain ⟨⟨rfl, hsp⟩, ht2⟩ := ht
      simp only [wfCells, Bool.and_eq_true, decide_eq_true_eq] at hok
      obtain ⟨⟨_, hbody⟩, hcs⟩ := hok
      simp only [runCells] at he
      split at he
      · simp at he
      · rename_i hidx
        simp only [cellOob, Bool.false_eq_true, if_false, decide_eq_true_eq, Nat.not_lt] at hidx
        have hin : 0 < cellInner ws false colno span := by
          simp only [cellInner, Bool.false_eq_true, if_false]
          apply sum_pos_of_pos
          · intro x hx; exact hpos x (List.mem_of_mem_drop (List.mem_of_mem_take hx))
          · intro hh
            have := congrArg List.length hh
            simp at this; omega
        rw [if_neg (by omega)] at he
        generalize hcw : cellInner ws false colno span = cw at he hin
        simp only [cellInner, Bool.false_eq_true, if_false] at hcw
        cases h1 : runOps SubR.widthMinus cfg d { links := links, cur := ({ width := cellOuter false cw span, annStack := ann } : SubR) } body with
        | error e => simp [h1, andThen] at he
        | ok r =>
          simp only [h1, andThen_ok_eq] at he
          have stb := runOps_fitsT SubR.widthMinus cfg d (widthMinus_contract cfg hov) hov body _ r hbody (fresh_fits _ ann) h1
          cases h2 : runCells SubR.widthMinus cfg d ws false ann r.links cs with
          | error e => simp [h2, andThen_error_eq] at he
          | ok v =>
            obtain ⟨l3, subs2⟩ := v
            simp only [h2, andThen_ok_eq] at he
            injection he with he
            simp only [Prod.mk.injEq] at he
            obtain ⟨_, rfl⟩ := he
            have c1 := ih r.links (colno + span) l3 subs2 hcs ht2 h2
            have hwr : r.cur.width = cellOuter false cw span := stb.2
            simp only [List.map_cons, hwr, c1, cellWidths, cellOuter, Bool.false_eq_true, if_false, hcw]
    | _ => simp [tiles] at ht

/-- `barPositions` only reads the widths -/
def barsOfWidths (pos : Nat) : List Nat → List Nat
  | [] => []
  | [_] => []
  | w :: r => (pos + w) :: barsOfWidths (pos + w + 1) r

theorem barPositions_widths : ∀ (sets : List (Nat × List RLine)) (pos : Nat),
    barPositions pos sets = barsOfWidths pos (sets.map (·.1)) := by
  intro sets
  induction sets with
  | nil => intro pos; rfl
  | cons st r ih =>
    intro pos
    cases r with
    | nil => rfl
    | cons q r2 =>
      simp only [barPositions, List.map_cons, barsOfWidths]
      rw [ih]; simp

theorem sum_take_add (ws : List Nat) (c span : Nat) :
    (ws.take c).sum + ((ws.drop c).take span).sum = (ws.take (c + span)).sum := by
  have : ws.take (c + span) = ws.take c ++ (ws.drop c).take span := by
    rw [List.take_add]
  rw [this, List.sum_append]

/-- **bars stand at column boundaries**: in a row that tiles the columns from column `c` on, starting at the x position
    where column `c` starts, every bar is the right edge of some column `k − 1` with `c < k < n` -/
theorem bars_at_edges (ws : List Nat) : ∀ (cells : List Op) (c : Nat), tiles ws.length c cells = true →
    ∀ x ∈ barsOfWidths ((ws.take c).sum + c) (cellWidths ws cells), ∃ k, c < k ∧ k < ws.length ∧ x + 1 = (ws.take k).sum + k := by
  intro cells
  induction cells with
  | nil => intro c _ x hx; simp [cellWidths, barsOfWidths] at hx
  | cons op cs ih =>
    intro c ht x hx
    cases op with
    | cell colno span body =>
      simp only [tiles, Bool.and_eq_true, beq_iff_eq, decide_eq_true_eq] at ht
      obtain ⟨⟨rfl, hsp⟩, ht2⟩ := ht
      cases cs with
      | nil => simp [cellWidths, barsOfWidths] at hx
      | cons op2 cs2 =>
        cases op2 with
        | cell colno2 span2 body2 =>
          have ht3 := ht2
          simp only [tiles, Bool.and_eq_true, beq_iff_eq, decide_eq_true_eq] at ht3
          obtain ⟨⟨hc2, hsp2⟩, ht4⟩ := ht3
          have hlt : colno + span < ws.length := by
            have : ∀ (cells : List Op) (c : Nat), tiles ws.length c cells = true → c ≤ ws.length := by
              intro cells
              induction cells with
              | nil => intro c h; simp [tiles] at h; omega
              | cons o r ihr =>
                intro c h
                cases o with
                | cell a b _ =>
                  simp only [tiles, Bool.and_eq_true, beq_iff_eq, decide_eq_true_eq] at h
                  have := ihr _ h.2
                  omega
                | _ => simp [tiles] at h
            have := this _ _ ht4
            omega
          simp only [cellWidths, barsOfWidths, List.mem_cons] at hx
          have e := sum_take_add ws colno span
          rcases hx with rfl | hx
          · exact ⟨colno + span, by omega, hlt, by omega⟩
          · have hpos' : (ws.take colno).sum + colno + (((ws.drop colno).take span).sum + span - 1) + 1 = (ws.take (colno + span)).sum + (colno + span) := by omega
            have := ih (colno + span) ht2 x (by
              rw [← hpos']
              simpa [cellWidths] using hx)
            obtain ⟨k, k1, k2, k3⟩ := this
            exact ⟨k, by omega, k2, k3⟩
        | _ => simp [tiles] at ht2
    | _ => simp [tiles] at ht

end H2T
