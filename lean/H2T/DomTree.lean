import H2T.Render

/-! The front end of the pipeline as a function of its own: style sheets, DOM → render tree, the `tableOk` check.
    `Lemmas/DomFactor.renderDom_factor` proves that `renderDom` is exactly this front end followed by `renderTree`; the
    driver prints `domTree` for the tree-level correspondence (the implementation's `RenderTree` is observable through
    `Config::dom_to_render_tree` and its `Debug` output). -/
namespace H2T

def treeOutcome : Except Err (List RLine) → Outcome
  | .ok ls => .lines ls
  | .error .tooNarrow => .narrow
  | .error (.panic s) => .panic s
  | .error (.hang s) => .hang s

def addTo (base : List Css.Rule) (css : Option (List Char)) : Except Outcome (List Css.Rule) :=
  match css with
  | none => .ok base
  | some t => match Css.doAddCss t with
    | .ok rs => .ok (base ++ rs)
    | .err => .error .cssErr
    | .hang => .error (.hang "css parser")

def docRulesOf (useDoc : Bool) (domDepth : Nat) (dom : Node) : Except Outcome (List Css.Rule) :=
  if !useDoc then .ok [] else
  (styleTexts domDepth dom).foldl (fun acc t => match acc with
    | .error o => .error o
    | .ok rs => match Css.doAddCss (t.map fun c => Char.ofNat c.cp) with
      | .ok r => .ok (rs ++ r)
      | .err => .ok rs
      | .hang => .error (.hang "css parser (document)")) (.ok [])

def buildTree (bc : BuildCfg) (dom : Node) : Except Outcome RNode :=
  match build bc [] 0 dom with
  | none => .error (.panic "computed_style")
  | some none => .error (.panic "Fail: no render tree")
  | some (some tree) =>
    if !tableOk tree then .error (.panic "tableOk: a cell lies outside its table's columns") else .ok tree

/-- the part of the pipeline before rendering: style sheets, DOM → render tree, the `tableOk` check -/
def domTree (decorate : Bool) (useDoc : Bool) (agentCss userCss : Option (List Char)) (ci : CharInfo) (domDepth : Nat) (dom : Node) :
    Except Outcome RNode :=
  match addTo (if decorate then decorateRules else []) agentCss with
  | .error o => .error o
  | .ok agent =>
  match addTo [] userCss with
  | .error o => .error o
  | .ok user =>
  match docRulesOf useDoc domDepth dom with
  | .error o => .error o
  | .ok author => buildTree { sd := { agent := agent, user := user, author := author }, useDoc := useDoc, ci := ci } dom

end H2T
