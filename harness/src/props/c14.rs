//! C14: every id with visible content yields one fragment marker at its content.

use super::common::*;
use crate::cfg::{Cfg, Deco, Route};
use crate::domwalk::{self, N};
use crate::gen::Knobs;
use crate::obs::{El, Obs};
use crate::util::R;
use crate::{run, Case, Prop, Tier, Viol};

pub struct C14;

fn knobs(tables: bool) -> Knobs {
    let mut k = Knobs::all().no_css().unique();
    k.href_digits = true;
    k.digits = false;
    k.weird_colspan = false;
    k.ids = true;
    if !tables {
        k = k.no_tables();
    }
    k
}

/// elements carrying an id (or `a name`) with at least one visible non-whitespace character in their subtree,
/// in document order: (name, index of the first token character of the subtree in the document's token stream,
/// one past the last)
fn marked(dom: &N) -> Vec<(String, usize, usize)> {
    let mut out = Vec::new();
    fn go(n: &N, pos: &mut usize, out: &mut Vec<(String, usize, usize)>) {
        match n {
            N::Text(t) => *pos += t.chars().filter(|c| super::c03::is_tok(*c)).count(),
            N::Elem { name, html, attrs, kids } => {
                let nm: &str = if *html { name } else { "" };
                if domwalk::never_rendered(nm) {
                    return;
                }
                let start = *pos;
                if nm == "img" {
                    let alt = attrs.iter().find(|a| a.0 == "alt" && !a.1.is_empty());
                    let src = attrs.iter().find(|a| a.0 == "src" && !a.1.is_empty());
                    if let (Some(a), Some(_)) = (alt, src) {
                        *pos += a.1.chars().filter(|c| super::c03::is_tok(*c)).count();
                    }
                }
                let idx = out.len();
                let id = attrs.iter().find(|a| a.0 == "id" || (nm == "a" && a.0 == "name")).map(|a| a.1.clone());
                if let Some(i) = &id {
                    out.push((i.clone(), start, start));
                }
                for k in kids {
                    go(k, pos, out);
                }
                if id.is_some() {
                    out[idx].2 = *pos;
                }
            }
            N::Doc(k) => {
                for c in k {
                    go(c, pos, out);
                }
            }
            _ => {}
        }
    }
    let mut pos = 0;
    go(dom, &mut pos, &mut out);
    out
}

impl Prop for C14 {
    fn id(&self) -> &'static str {
        "C14"
    }
    fn rule(&self) -> &'static str {
        "G-doc with unique ids (and a[name]) on random elements (p, div, span, em, a, li, ul, ol, blockquote, h*, pre, td, tr, table, dl/dt/dd), unique letter-only tokens, widths 1..100 incl. widths that hard-wrap the first word; lines route of rich and plain; markers vs ids with visible text, marker position between the neighbouring tokens (sequence-preserving layouts), string output independent of ids; non-trivial = at least two markers"
    }
    fn cases(&self, r: &mut R, tier: Tier) -> Vec<Case> {
        let n = scale(tier, 3000, 40000);
        let mut v = Vec::new();
        for _ in 0..n {
            let tables = r.p(30);
            let mut html = gen_doc(r, knobs(tables)).0;
            // an id'd element whose first content is a table (or a prefixed block) with nothing before it in its renderer:
            // the marker is pending when the first row / first sub-renderer line is added (added after the seeded change
            // C14-row-lines-spliced-past-pending-markers)
            if r.p(15) {
                let inner = *r.pick(&[&"<table><tr><td>qta</td><td>qtb</td></tr></table>", &"<table><tr><td>qta</td></tr><tr><td>qtc</td></tr></table>qtd", &"<blockquote>qta qtb</blockquote>", &"<ul><li>qta</li></ul>"]);
                let t = match r.b(6) {
                    0 => format!("<div id=\"zq1\">{inner}</div>"),
                    1 => format!("<ul><li id=\"zq1\">{inner}qte</li></ul>"),
                    2 => format!("<blockquote id=\"zq1\">{inner}</blockquote>"),
                    3 => format!("<dl><dt>qtt</dt><dd id=\"zq1\">{inner}</dd></dl>"),
                    4 => format!("<span id=\"zq1\">{inner}</span>"),
                    _ => format!("<a name=\"zq1\">{inner}</a>"),
                };
                html = if r.p(50) { format!("{t}{html}") } else { format!("{html}{t}") };
            }
            for _ in 0..(if tier == Tier::Quick { 3 } else { 5 }) {
                let mut cfg = if r.p(60) { Cfg::rich() } else { Cfg::base(Deco::Plain) };
                cfg.route = Route::Lines;
                cfg.raw = tables && r.p(60);
                cfg.pad = r.p(10);
                cfg.decorate = r.p(30);
                // width overflow: forced line breaks after characters wider than the line (markers next to them were
                // dropped before fix 1a5345d, which a proof attempt found)
                cfg.overflow = r.p(25);
                let w = if r.p(50) { 1 + r.u(8) } else { 1 + r.u(100) };
                v.push(case(html.clone(), cfg, w, if tables { "tables" } else { "blocks" }));
            }
        }
        v
    }
    fn oracle(&self, c: &Case, o: &Obs) -> Vec<Viol> {
        let mut out = vec![];
        let ls = match o.lines() {
            Some(l) => l,
            None => return out,
        };
        let dom = domwalk::tree(&c.html);
        let ids = marked(&dom);
        let with_text: Vec<&(String, usize, usize)> = ids.iter().filter(|x| x.2 > x.1).collect();
        // markers in the output with the number of token characters before them
        let mut got: Vec<(String, usize)> = Vec::new();
        let mut count = 0usize;
        for l in ls {
            for e in l {
                match e {
                    El::Frag(n) => got.push((n.clone(), count)),
                    El::Ch(ch, _) if super::c03::is_tok(*ch) => count += 1,
                    _ => {}
                }
            }
        }
        // multiset of names: every id with visible text exactly once; ids without visible text may or may not appear
        let mut want_names: Vec<&str> = with_text.iter().map(|x| x.0.as_str()).collect();
        want_names.sort();
        let mut got_names: Vec<&str> = got.iter().map(|x| x.0.as_str()).collect();
        got_names.sort();
        let all_names: Vec<&str> = ids.iter().map(|x| x.0.as_str()).collect();
        for g in &got_names {
            if !all_names.contains(g) {
                out.push(viol(format!("marker {:?} does not correspond to any id in the document", g)));
                return out;
            }
        }
        for w in &want_names {
            let n_got = got_names.iter().filter(|g| *g == w).count();
            let n_want = want_names.iter().filter(|g| *g == w).count();
            if n_got < n_want {
                // side-by-side tables can drop a cell (known finding of C03), and its marker with it
                let on_table_part = dom.any(&|n| matches!(n.name(), "table" | "thead" | "tbody" | "tr") && n.attr("id") == Some(*w));
                if on_table_part {
                    // the marker of a table/section/row is pushed into its first cell; when that cell has no text the
                    // cell's pending markers are dropped with it
                    out.push(known(format!("marker {:?} of a table part is lost when its first cell is empty", w), "C14-table-part-empty-first-cell"));
                } else if dom.has_elem("table") && !c.cfg.raw && dom.any(&|n| n.attr("colspan").is_some()) {
                    out.push(known(format!("marker {:?} lost with a dropped colspan cell", w), "C14-dropped-cell"));
                } else {
                    out.push(viol(format!("id {:?} has visible content but {} marker(s) appear (expected {})", w, n_got, n_want)));
                }
                return out;
            }
            if n_got > all_names.iter().filter(|g| *g == w).count() {
                out.push(viol(format!("id {:?}: {} markers for {} element(s)", w, n_got, n_want)));
                return out;
            }
        }
        // position: after all text preceding the element, no later than the element's first visible character
        let sequence = c.cfg.raw || !dom.has_elem("table");
        if sequence {
            for (name, start, _end) in with_text.iter().map(|x| (&x.0, x.1, x.2)) {
                if all_names.iter().filter(|g| **g == name.as_str()).count() != 1 {
                    continue;
                }
                if let Some((_, at)) = got.iter().find(|g| &g.0 == name) {
                    if *at != start {
                        out.push(viol(format!("marker {:?} appears after {} token characters; its element starts after {}", name, at, start)));
                        return out;
                    }
                }
            }
        }
        // markers never change the text: the string route gives the same text
        let mut cs = c.cfg.clone();
        cs.route = Route::Str;
        let so = run(&c.html, &cs, c.width);
        if so.text_lines() != o.text_lines() {
            out.push(viol("the lines route and the string route give different text".to_string()));
            return out;
        }
        // ... and removing the ids does not change the text either
        let no_ids = domwalk::prune(&dom, &|_| true, &|a| a != "id" && a != "name");
        let h2 = domwalk::to_html(&no_ids);
        let with_ids_canon = domwalk::to_html(&dom);
        let o_canon = run(with_ids_canon.as_bytes(), &cs, c.width);
        let o2 = run(h2.as_bytes(), &cs, c.width);
        if o_canon.text_lines() != o2.text_lines() && ids.iter().any(|x| x.2 == x.1) {
            // an id on an element without visible content turns it into a fragment-only node, which keeps an otherwise
            // empty block alive (an extra blank line)
            out.push(known("an id on an element without content changes the layout".to_string(), "C14-id-on-empty-element"));
        } else if o_canon.text_lines() != o2.text_lines() {
            out.push(viol(format!("removing ids changes the string output: {} vs {}", o_canon.short(), o2.short())));
        }
        out
    }
    fn project(&self, _c: &Case, o: &Obs) -> String {
        match o.lines() {
            Some(ls) => {
                let mut s = String::new();
                for l in ls {
                    for e in l {
                        match e {
                            El::Ch(ch, _) => s.push(*ch),
                            El::Frag(n) => {
                                s.push_str("⟦");
                                s.push_str(n);
                                s.push_str("⟧");
                            }
                        }
                    }
                    s.push('\n');
                }
                s
            }
            None => o.class().into(),
        }
    }
    fn nontrivial(&self, _c: &Case, o: &Obs) -> bool {
        o.lines().map(|ls| ls.iter().flat_map(|l| l.iter()).filter(|e| matches!(e, El::Frag(_))).count() >= 2).unwrap_or(false)
    }
}
