//! Correspondence + search harness for the Lean model H2T of rust-html2text.
//!
//!   h2t-harness run <prop> <quick|thorough> <seed> <model-exe> <out.json> [replay-dir]
//!   h2t-harness replay <prop> <replay.json> <model-exe>
//!   h2t-harness single <width> <cfg-encoding...>        (HTML on stdin; prints the outcome; used for isolation)
//!
//! Exit status of `run`: 0 always (the verdict is in out.json; ./check decides).

#![allow(dead_code)]
mod cfg;
mod domwalk;
mod gen;
mod obs;
mod props;
mod rcdom;
mod refcss;
mod refimpl;
mod tree;
mod util;

use cfg::Cfg;
use obs::Obs;
use std::collections::{BTreeMap, BTreeSet};
use std::io::Read;
use std::sync::atomic::{AtomicUsize, Ordering};
use std::sync::Mutex;
use util::{json_bytes_lossy, json_str, R};

#[derive(Clone, Copy, PartialEq, Debug)]
pub enum Tier {
    Quick,
    Thorough,
}

#[derive(Clone, Debug)]
pub struct Case {
    pub html: Vec<u8>,
    pub cfg: Cfg,
    pub width: usize,
    /// which generator stream produced it
    pub stream: &'static str,
    /// free-form data a property attaches for its oracle (e.g. the expected words)
    pub aux: String,
}
impl Case {
    pub fn new(html: impl Into<Vec<u8>>, cfg: Cfg, width: usize, stream: &'static str) -> Case {
        Case { html: html.into(), cfg, width, stream, aux: String::new() }
    }
    pub fn to_json(&self) -> String {
        format!(
            "{{\"html\":{},\"html_hex\":\"{}\",\"width\":{},\"cfg\":{},\"cfg_enc\":{},\"stream\":{},\"aux\":{}}}",
            json_bytes_lossy(&self.html),
            util::hex(&self.html),
            self.width,
            self.cfg.to_json(),
            json_str(&self.cfg.encode()),
            json_str(self.stream),
            json_str(&self.aux)
        )
    }
}

/// A violation of the property by the implementation (independent oracle), for one case.
#[derive(Clone, Debug)]
pub struct Viol {
    pub what: String,
    /// classifier name of the known finding this matches, if any
    pub known: Option<&'static str>,
}

pub trait Prop: Sync {
    fn id(&self) -> &'static str;
    /// generated cases (corpus cases are prepended by the framework)
    fn cases(&self, r: &mut R, tier: Tier) -> Vec<Case>;
    /// the property's independent oracle over the implementation; may run the implementation again
    fn oracle(&self, c: &Case, o: &Obs) -> Vec<Viol>;
    /// the part of the observation the property's theorems speak about
    fn project(&self, c: &Case, o: &Obs) -> String {
        let _ = c;
        format!("{:?}", o)
    }
    /// does this case exercise the property in a non-trivial way?
    fn nontrivial(&self, c: &Case, o: &Obs) -> bool {
        let _ = c;
        matches!(o, Obs::Ok(l) if l.len() >= 2)
    }
    fn rule(&self) -> &'static str;
    /// is a model/implementation disagreement on this case explained by a known finding?
    fn known_disagreement(&self, _c: &Case, _imp: &Obs, _model: &Obs) -> Option<&'static str> {
        None
    }
    /// seconds before the watchdog gives up on one call
    fn timeout(&self) -> u64 {
        20
    }
    /// checks that run once per invocation outside the per-case pipeline (e.g. runs isolated in child processes);
    /// returns the number of evaluations and the violations found
    fn extra_checks(&self, _r: &mut R, _tier: Tier) -> (usize, Vec<(Case, Viol)>) {
        (0, vec![])
    }
    /// compare the render trees of model and implementation on every case as well (tree-level correspondence)?
    fn tree_level(&self) -> bool {
        true
    }
    /// may a failing case be shrunk by deleting bytes / lowering the width?  (false when `aux` describes the HTML)
    fn shrinkable(&self) -> bool {
        true
    }
}

pub const IMPL_TIMEOUT: u64 = 20;

pub fn run_case(c: &Case) -> Obs {
    obs::run_impl(&c.html, &c.cfg, c.width, IMPL_TIMEOUT)
}
pub fn run(html: &[u8], cfg: &Cfg, width: usize) -> Obs {
    obs::run_impl(html, cfg, width, IMPL_TIMEOUT)
}

fn jobs() -> usize {
    std::env::var("VERIF_JOBS").ok().and_then(|s| s.parse().ok()).unwrap_or_else(|| std::thread::available_parallelism().map(|n| n.get()).unwrap_or(8))
}

fn par_map<T: Sync, U: Send>(items: &[T], f: impl Fn(&T) -> U + Sync) -> Vec<U> {
    let n = items.len();
    let next = AtomicUsize::new(0);
    let out: Mutex<Vec<Option<U>>> = Mutex::new((0..n).map(|_| None).collect());
    std::thread::scope(|s| {
        for _ in 0..jobs().min(n.max(1)) {
            s.spawn(|| loop {
                let i = next.fetch_add(1, Ordering::SeqCst);
                if i >= n {
                    break;
                }
                let u = f(&items[i]);
                out.lock().unwrap()[i] = Some(u);
            });
        }
    });
    out.into_inner().unwrap().into_iter().map(|x| x.unwrap()).collect()
}

fn model_obs(model: &str, cases: &[Case]) -> Vec<Obs> {
    let reqs: Vec<String> = par_map(cases, |c| obs::proto_line(&c.html, &c.cfg, c.width));
    obs::run_model(model, &reqs, jobs()).iter().map(|l| obs::parse_model_line(l)).collect()
}

fn model_trees(model: &str, cases: &[Case]) -> Vec<String> {
    let reqs: Vec<String> = par_map(cases, |c| format!("TREE {}", obs::proto_line(&c.html, &c.cfg, c.width)));
    obs::run_model(model, &reqs, jobs()).iter().map(|l| l.trim_end_matches('\n').to_string()).collect()
}

fn classes_agree(imp: &Obs, model: &Obs) -> bool {
    match (imp, model) {
        (Obs::Ok(_), Obs::Ok(_)) | (Obs::Narrow, Obs::Narrow) | (Obs::CssErr, Obs::CssErr) => true,
        (Obs::Panic(_), Obs::Panic(_)) | (Obs::Hang(_), Obs::Hang(_)) => true,
        _ => false,
    }
}

/// delta-debugging on the HTML bytes: keep the failure, make the input small
fn shrink(c: &Case, still_fails: &dyn Fn(&Case) -> bool, budget: usize) -> Case {
    let mut best = c.clone();
    let mut evals = 0;
    // 1. lower the width
    for w in [1usize, 2, 3, 4, 5, 8, 10, 20] {
        if w < best.width && evals < budget {
            let mut t = best.clone();
            t.width = w;
            evals += 1;
            if still_fails(&t) {
                best = t;
                break;
            }
        }
    }
    // 2. ddmin on bytes
    let mut n = 2usize;
    while best.html.len() >= 2 && evals < budget {
        let len = best.html.len();
        let chunk = (len + n - 1) / n;
        let mut reduced = false;
        let mut i = 0;
        while i < len && evals < budget {
            let j = (i + chunk).min(len);
            let mut t = best.clone();
            t.html = [&best.html[..i], &best.html[j..]].concat();
            evals += 1;
            if still_fails(&t) {
                best = t;
                reduced = true;
                n = n.saturating_sub(1).max(2);
                break;
            }
            i = j;
        }
        if !reduced {
            if chunk <= 1 {
                break;
            }
            n = (n * 2).min(len);
        }
    }
    best
}

struct Finding {
    kind: &'static str, // "oracle" | "model" | "known"
    case: Case,
    what: String,
    known: Option<&'static str>,
    imp: String,
    model: String,
}
impl Finding {
    fn to_json(&self, prop: &str) -> String {
        format!(
            "{{\"property\":{},\"kind\":{},\"known\":{},\"what\":{},\"case\":{},\"implementation\":{},\"model\":{}}}",
            json_str(prop),
            json_str(self.kind),
            self.known.map(json_str).unwrap_or("null".into()),
            json_str(&self.what),
            self.case.to_json(),
            json_str(&self.imp),
            json_str(&self.model)
        )
    }
}

fn load_corpus(prop: &str) -> Vec<Case> {
    let mut v = Vec::new();
    let dir = format!("{}/corpus/{}", verif_root(), prop);
    if let Ok(rd) = std::fs::read_dir(&dir) {
        let mut names: Vec<_> = rd.filter_map(|e| e.ok()).map(|e| e.path()).collect();
        names.sort();
        for p in names {
            if let Ok(t) = std::fs::read_to_string(&p) {
                // format: line 1 = width, line 2 = cfg encoding, line 3 = hex of html
                let mut it = t.lines();
                let w = it.next().and_then(|x| x.trim().parse::<usize>().ok());
                let c = it.next().and_then(|x| Cfg::decode(x.trim()));
                let h = it.next().map(|x| util::unhex(x.trim()));
                // optional line 4 = hex of the case's `aux` (the expectation some oracles need)
                let aux = it.next().map(|x| String::from_utf8_lossy(&util::unhex(x.trim())).to_string());
                if let (Some(w), Some(c), Some(h)) = (w, c, h) {
                    let mut case = Case::new(h, c, w, "corpus");
                    if let Some(a) = aux {
                        case.aux = a;
                    }
                    v.push(case);
                }
            }
        }
    }
    v
}

pub fn verif_root() -> String {
    std::env::var("VERIF_ROOT").unwrap_or_else(|_| "/verif".into())
}

fn cmd_run(args: &[String]) {
    let prop_id = &args[0];
    let tier = if args[1] == "thorough" { Tier::Thorough } else { Tier::Quick };
    let seed: u64 = args[2].parse().unwrap_or(1);
    let model = &args[3];
    let out_path = &args[4];
    let replay_dir = args.get(5).cloned().unwrap_or_else(|| format!("{}/replays", verif_root()));
    let t0 = std::time::Instant::now();
    let prop = props::get(prop_id).unwrap_or_else(|| {
        eprintln!("unknown property {prop_id}");
        std::process::exit(2)
    });
    let mut r = R(seed ^ util::fnv(prop_id.as_bytes()));
    let mut cases = load_corpus(prop_id);
    let n_corpus = cases.len();
    cases.extend(prop.cases(&mut r, tier));
    let n = cases.len();

    // 1. the implementation + the property's oracle
    let imp: Vec<(Obs, Vec<Viol>)> = par_map(&cases, |c| {
        let o = obs::run_impl(&c.html, &c.cfg, c.width, prop.timeout());
        let v = prop.oracle(c, &o);
        (o, v)
    });
    // 2. the model
    let mobs = model_obs(model, &cases);
    // 2b. the render trees of both sides (tree-level correspondence), in batches so that the token strings of at most one
    // batch are alive at a time (deeply nested documents have trees of several hundred kilobytes); kept per case: agreement,
    // and the texts of the first few differing pairs
    let tree_on = prop.tree_level() && std::env::var("VERIF_NOTREE").is_err();
    // per case: None = not compared (no tree: hang), Some(None) = agree, Some(Some((imp, model))) = differ
    let mut tree_cmp: Vec<Option<Option<(String, String)>>> = Vec::with_capacity(if tree_on { n } else { 0 });
    if tree_on {
        let mut kept = 0usize;
        for chunk in cases.chunks(2000) {
            let it = par_map(chunk, |c| tree::impl_tree(&c.html, &c.cfg, prop.timeout()));
            let mt = model_trees(model, chunk);
            for (a, b) in it.into_iter().zip(mt.into_iter()) {
                if a.starts_with("hang") {
                    tree_cmp.push(None);
                } else if tree::trees_agree(&a, &b) {
                    tree_cmp.push(Some(None));
                } else if kept < 8 {
                    kept += 1;
                    tree_cmp.push(Some(Some((a, b))));
                } else {
                    tree_cmp.push(Some(Some((String::new(), String::new()))));
                }
            }
        }
    }
    let mut tree_cases = 0usize;
    let mut tree_disagree = 0usize;

    // 3. compare
    let mut findings: Vec<Finding> = Vec::new();
    let mut streams: BTreeMap<&'static str, usize> = BTreeMap::new();
    let mut classes: BTreeMap<String, usize> = BTreeMap::new();
    let mut model_sites: BTreeMap<String, usize> = BTreeMap::new();
    let mut distinct: BTreeSet<u64> = BTreeSet::new();
    let mut whole_drift = 0usize;
    let mut proj_disagree = 0usize;
    let mut oracle_viol = 0usize;
    let mut known_hits: BTreeMap<&'static str, usize> = BTreeMap::new();
    let mut samples: Vec<String> = Vec::new();
    for i in 0..n {
        let c = &cases[i];
        let (io, viols) = &imp[i];
        let mo = &mobs[i];
        *streams.entry(c.stream).or_default() += 1;
        *classes.entry(io.class().to_string()).or_default() += 1;
        if let Obs::Panic(s) | Obs::Hang(s) = mo {
            *model_sites.entry(format!("{} {}", mo.class(), s)).or_default() += 1;
        }
        if prop.nontrivial(c, io) {
            let mut key = c.html.clone();
            key.extend_from_slice(c.cfg.encode().as_bytes());
            key.extend_from_slice(&c.width.to_le_bytes());
            distinct.insert(util::fnv(&key));
        }
        if samples.len() < 3 && prop.nontrivial(c, io) {
            samples.push(format!("{{\"html\":{},\"width\":{},\"cfg\":{},\"outcome\":{}}}", json_bytes_lossy(&c.html), c.width, json_str(&c.cfg.describe()), json_str(&io.short())));
        }
        // A known finding is a defect of the unchanged code that the model reproduces (that is how it was established).  An
        // oracle report that a classifier attributes to a known finding is therefore accepted as known only if model and
        // implementation render the case alike; when both render it and differ, the implementation is doing something the
        // recorded finding does not describe, and the report counts as a violation (added after the seeded change
        // C05-colspan-over-empty-columns-phantom-width: its failures fell into the region of C05-zero-width-column-in-colspan).
        let both_render_differently = matches!(io, Obs::Ok(_)) && matches!(mo, Obs::Ok(_)) && io != mo;
        for v in viols {
            match v.known {
                Some(k) if !both_render_differently => {
                    *known_hits.entry(k).or_default() += 1;
                }
                _ => {
                    oracle_viol += 1;
                    if findings.iter().filter(|f| f.kind == "oracle").count() < 5 {
                        let what = match v.known {
                            Some(k) => format!("{} [in the region of known finding {k}, but the model, which reproduces that finding, renders this input differently]", v.what),
                            None => v.what.clone(),
                        };
                        findings.push(Finding { kind: "oracle", case: c.clone(), what, known: None, imp: io.short(), model: mo.short() });
                    }
                }
            }
        }
        if tree_on {
            // a case on which the implementation does not return (a known hang) has no tree to compare
            if let Some(cmp) = &tree_cmp[i] {
                if !matches!(io, Obs::Hang(_)) {
                    tree_cases += 1;
                    if let Some((it, mt)) = cmp {
                        tree_disagree += 1;
                        proj_disagree += 1;
                        if !it.is_empty() && findings.iter().filter(|f| f.kind == "model").count() < 5 {
                            findings.push(Finding { kind: "model", case: c.clone(), what: format!("tree: model and implementation build different render trees ({})", tree::first_diff(it, mt)), known: None, imp: it.chars().take(600).collect(), model: mt.chars().take(600).collect() });
                        }
                    }
                }
            }
        }
        let whole_same = io == mo || (classes_agree(io, mo) && !matches!(io, Obs::Ok(_)));
        if !whole_same {
            whole_drift += 1;
        }
        let pi = prop.project(c, io);
        let pm = prop.project(c, mo);
        let proj_same = if matches!(io, Obs::Ok(_)) && matches!(mo, Obs::Ok(_)) { pi == pm } else { classes_agree(io, mo) };
        if !proj_same {
            if let Some(k) = prop.known_disagreement(c, io, mo) {
                *known_hits.entry(k).or_default() += 1;
            } else {
                proj_disagree += 1;
                if findings.iter().filter(|f| f.kind == "model").count() < 5 {
                    findings.push(Finding { kind: "model", case: c.clone(), what: format!("model and implementation disagree on the {} projection", prop.id()), known: None, imp: io.short(), model: mo.short() });
                }
            }
        }
    }

    // 3b. isolated extra checks
    let (extra_n, extra) = prop.extra_checks(&mut r, tier);
    let mut extra_findings: Vec<Finding> = Vec::new();
    for (c, v) in extra {
        match v.known {
            Some(k) => {
                *known_hits.entry(k).or_default() += 1;
            }
            None => {
                oracle_viol += 1;
                if extra_findings.len() < 5 {
                    extra_findings.push(Finding { kind: "oracle", case: c, what: v.what, known: None, imp: "(isolated run)".into(), model: "(not applicable)".into() });
                }
            }
        }
    }

    // 4. shrink what was found (oracle findings by the oracle, disagreements by re-running both sides)
    for f in findings.iter_mut() {
        if !prop.shrinkable() || std::env::var("VERIF_NOSHRINK").is_ok() {
            continue;
        }
        // a case on which the implementation does not return is not shrunk: every evaluation would cost the watchdog's
        // whole timeout (hundreds of evaluations: hours)
        if f.imp.starts_with("hang") {
            continue;
        }
        let before = f.case.html.len();
        if f.kind == "oracle" {
            let pred = |t: &Case| {
                let o = obs::run_impl(&t.html, &t.cfg, t.width, prop.timeout());
                prop.oracle(t, &o).iter().any(|v| v.known.is_none())
            };
            f.case = shrink(&f.case, &pred, 250);
            let o = obs::run_impl(&f.case.html, &f.case.cfg, f.case.width, prop.timeout());
            if let Some(v) = prop.oracle(&f.case, &o).into_iter().find(|v| v.known.is_none()) {
                f.what = v.what;
            }
            f.imp = o.short();
            f.model = model_obs(model, std::slice::from_ref(&f.case))[0].short();
        } else if f.what.starts_with("tree:") {
            let pred = |t: &Case| {
                let it = tree::impl_tree(&t.html, &t.cfg, prop.timeout());
                let mt = &model_trees(model, std::slice::from_ref(t))[0];
                !it.starts_with("hang") && !tree::trees_agree(&it, mt)
            };
            f.case = shrink(&f.case, &pred, 150);
            let it = tree::impl_tree(&f.case.html, &f.case.cfg, prop.timeout());
            let mt = model_trees(model, std::slice::from_ref(&f.case))[0].clone();
            f.what = format!("tree: model and implementation build different render trees ({})", tree::first_diff(&it, &mt));
            f.imp = it.chars().take(2000).collect();
            f.model = mt.chars().take(2000).collect();
        } else {
            let pred = |t: &Case| {
                let o = obs::run_impl(&t.html, &t.cfg, t.width, prop.timeout());
                let m = &model_obs(model, std::slice::from_ref(t))[0];
                let same = if matches!(o, Obs::Ok(_)) && matches!(m, Obs::Ok(_)) { prop.project(t, &o) == prop.project(t, m) } else { classes_agree(&o, m) };
                !same && prop.known_disagreement(t, &o, m).is_none()
            };
            f.case = shrink(&f.case, &pred, 120);
            let o = obs::run_impl(&f.case.html, &f.case.cfg, f.case.width, prop.timeout());
            f.imp = o.short();
            f.model = model_obs(model, std::slice::from_ref(&f.case))[0].short();
        }
        f.what = format!("{} [shrunk {} -> {} bytes]", f.what, before, f.case.html.len());
    }

    findings.extend(extra_findings);
    // 5. replay files
    let _ = std::fs::create_dir_all(&replay_dir);
    let mut replay_paths: Vec<String> = Vec::new();
    for f in &findings {
        let j = f.to_json(prop_id);
        let p = format!("{}/{}-{}-{:016x}.json", replay_dir, prop_id, f.kind, util::fnv(j.as_bytes()));
        let _ = std::fs::write(&p, &j);
        replay_paths.push(p);
    }

    let fmt_map = |m: &BTreeMap<String, usize>| format!("{{{}}}", m.iter().map(|(k, v)| format!("{}:{}", json_str(k), v)).collect::<Vec<_>>().join(","));
    let streams_s: BTreeMap<String, usize> = streams.iter().map(|(k, v)| (k.to_string(), *v)).collect();
    let known_s: BTreeMap<String, usize> = known_hits.iter().map(|(k, v)| (k.to_string(), *v)).collect();
    let out = format!(
        "{{\"property\":{},\"tier\":{},\"seed\":{},\"evaluations\":{},\"corpus_cases\":{},\"distinct_nontrivial\":{},\"rule\":{},\"streams\":{},\"outcome_classes\":{},\"model_err_sites\":{},\"whole_observation_drift\":{},\"projection_disagreements\":{},\"tree_cases\":{},\"tree_disagreements\":{},\"oracle_violations\":{},\"known_finding_hits\":{},\"findings\":[{}],\"replays\":[{}],\"samples\":[{}],\"wall_s\":{:.2}}}",
        json_str(prop_id),
        json_str(if tier == Tier::Quick { "quick" } else { "thorough" }),
        seed,
        n + extra_n,
        n_corpus,
        distinct.len(),
        json_str(prop.rule()),
        fmt_map(&streams_s),
        fmt_map(&classes),
        fmt_map(&model_sites),
        whole_drift,
        proj_disagree,
        tree_cases,
        tree_disagree,
        oracle_viol,
        fmt_map(&known_s),
        findings.iter().map(|f| f.to_json(prop_id)).collect::<Vec<_>>().join(","),
        replay_paths.iter().map(|p| json_str(p)).collect::<Vec<_>>().join(","),
        samples.join(","),
        t0.elapsed().as_secs_f64()
    );
    std::fs::write(out_path, out).expect("cannot write result");
}

/// `single <width> <cfg-enc (8 tokens)>`: HTML on stdin, outcome on stdout.  Used to isolate runs that may abort.
fn cmd_single(args: &[String]) {
    let width: usize = args[0].parse().unwrap();
    let cfg = Cfg::decode(&args[1..9].join(" ")).expect("bad cfg");
    let mut html = Vec::new();
    std::io::stdin().read_to_end(&mut html).unwrap();
    let o = obs::run_impl(&html, &cfg, width, args.get(9).and_then(|s| s.parse().ok()).unwrap_or(120));
    println!("{}", o.class());
    if let Obs::Panic(s) | Obs::Hang(s) | Obs::Other(s) = &o {
        println!("{s}");
    }
    // do not wait for an abandoned (hung) worker thread
    std::process::exit(0);
}

/// like `single`, but the library runs on the main thread with its default stack and without catch_unwind:
/// stack exhaustion and aborts show up as death by signal for the parent to see
fn cmd_single_main(args: &[String]) {
    let width: usize = args[0].parse().unwrap();
    let cfg = Cfg::decode(&args[1..9].join(" ")).expect("bad cfg");
    let mut html = Vec::new();
    std::io::stdin().read_to_end(&mut html).unwrap();
    let clone_tree = args.get(9).map(|s| s == "clone").unwrap_or(false);
    if clone_tree {
        // RenderTree::clone() + render of the clone
        let c = html2text::config::plain();
        let dom = c.parse_html(&html[..]).unwrap();
        let tree = c.dom_to_render_tree(&dom).unwrap();
        let t2 = tree.clone();
        let r = c.render_to_string(t2, width);
        println!("{}", if r.is_ok() { "ok" } else { "narrow" });
        std::process::exit(0);
    }
    let o = obs::run_impl_raw(&html, &cfg, width);
    println!("{}", o.class());
    std::process::exit(0);
}

fn cmd_replay(args: &[String]) {
    // replay <prop> <replay.json> <model>: re-run the recorded case on implementation and model
    let prop = props::get(&args[0]).expect("unknown property");
    let text = std::fs::read_to_string(&args[1]).expect("cannot read replay");
    let grab = |key: &str| -> Option<String> {
        let k = format!("\"{key}\":");
        let i = text.find(&k)? + k.len();
        let rest = &text[i..];
        if rest.starts_with('"') {
            let end = rest[1..].find('"')?;
            Some(rest[1..1 + end].to_string())
        } else {
            let end = rest.find(|c: char| c == ',' || c == '}')?;
            Some(rest[..end].to_string())
        }
    };
    let html = util::unhex(&grab("html_hex").expect("no html_hex"));
    let width: usize = grab("width").unwrap().parse().unwrap();
    let cfg = Cfg::decode(&grab("cfg_enc").unwrap()).expect("bad cfg_enc");
    let c = Case::new(html, cfg, width, "replay");
    let o = run_case(&c);
    println!("implementation: {}", o.short());
    if let Some(m) = args.get(2) {
        let mo = &model_obs(m, std::slice::from_ref(&c))[0];
        println!("model:          {}", mo.short());
        println!("projection equal: {}", prop.project(&c, &o) == prop.project(&c, mo));
    }
    let v = prop.oracle(&c, &o);
    for x in &v {
        println!("oracle: {} (known: {:?})", x.what, x.known);
    }
    std::process::exit(if v.iter().any(|x| x.known.is_none()) { 1 } else { 0 });
}

/// `witness <prop> <width> <cfg-enc> <html-hex>`: run the property's oracle on one recorded input
fn cmd_witness(args: &[String]) {
    let prop = props::get(&args[0]).expect("unknown property");
    let width: usize = args[1].parse().unwrap();
    let cfg = Cfg::decode(&args[2]).expect("bad cfg");
    let mut c = Case::new(util::unhex(&args[3]), cfg, width, "witness");
    if let Some(a) = args.get(4) {
        c.aux = String::from_utf8_lossy(&util::unhex(a)).to_string();
    }
    if let Some(s) = args.get(5) {
        // the stream label some oracles look at (leaked: lives for the process)
        c.stream = Box::leak(s.clone().into_boxed_str());
    }
    let o = obs::run_impl(&c.html, &c.cfg, c.width, prop.timeout());
    println!("OUTCOME {}", o.short());
    for v in prop.oracle(&c, &o) {
        match v.known {
            Some(k) => println!("KNOWN {k} {}", v.what),
            None => println!("VIOLATION {}", v.what),
        }
    }
    std::process::exit(0);
}

fn main() {
    obs::install_panic_hook();
    let args: Vec<String> = std::env::args().skip(1).collect();
    match args.first().map(|s| s.as_str()) {
        Some("run") => cmd_run(&args[1..]),
        Some("single") => cmd_single(&args[1..]),
        Some("single-main") => cmd_single_main(&args[1..]),
        Some("replay") => cmd_replay(&args[1..]),
        Some("witness") => cmd_witness(&args[1..]),
        Some("tree") => {
            // tree <cfg-enc (8 tokens)> [model]: HTML on stdin; prints the implementation's tree tokens and, given the
            // driver's path, the model's
            let cfg = Cfg::decode(&args[1..9].join(" ")).expect("bad cfg");
            let mut html = Vec::new();
            std::io::stdin().read_to_end(&mut html).unwrap();
            let it = tree::impl_tree(&html, &cfg, 20);
            println!("impl  {it}");
            if let Some(m) = args.get(9) {
                let c = Case::new(html, cfg, 80, "cli");
                let mt = model_trees(m, std::slice::from_ref(&c))[0].clone();
                println!("model {mt}");
                println!("{}", if tree::trees_agree(&it, &mt) { "agree".to_string() } else { tree::first_diff(&it, &mt) });
            }
        }
        Some("proto") => {
            // proto <prop> <tier> <seed>: one line per generated case: "<index>\t<stream>\t<width>\t<cfg>\t<request line>"
            let prop = props::get(&args[1]).expect("unknown property");
            let tier = if args[2] == "thorough" { Tier::Thorough } else { Tier::Quick };
            let seed: u64 = args[3].parse().unwrap_or(1);
            let mut r = R(seed ^ util::fnv(args[1].as_bytes()));
            for (i, c) in prop.cases(&mut r, tier).iter().enumerate() {
                println!("{}\t{}\t{}\t{}\t{}", i, c.stream, c.width, c.cfg.describe().replace('\n', " ").replace('\t', " "), obs::proto_line(&c.html, &c.cfg, c.width));
            }
        }
        _ => {
            eprintln!("usage: h2t-harness run|single|replay ...");
            std::process::exit(2)
        }
    }
    // abandoned watchdog threads must not keep the process alive
    std::process::exit(0);
}
