//! PRNG, small helpers.  Every random choice of the harness derives from one splitmix64 state.

#[derive(Clone)]
pub struct R(pub u64);
impl R {
    pub fn n(&mut self) -> u64 {
        self.0 = self.0.wrapping_add(0x9E3779B97F4A7C15);
        let mut z = self.0;
        z = (z ^ (z >> 30)).wrapping_mul(0xBF58476D1CE4E5B9);
        z = (z ^ (z >> 27)).wrapping_mul(0x94D049BB133111EB);
        z ^ (z >> 31)
    }
    /// uniform in 0..k (k > 0)
    pub fn b(&mut self, k: u64) -> u64 {
        self.n() % k
    }
    pub fn u(&mut self, k: usize) -> usize {
        (self.n() % (k as u64)) as usize
    }
    /// true with probability pc/100
    pub fn p(&mut self, pc: u64) -> bool {
        self.b(100) < pc
    }
    pub fn pick<'a, T: ?Sized>(&mut self, v: &[&'a T]) -> &'a T {
        v[self.b(v.len() as u64) as usize]
    }
    pub fn range(&mut self, lo: usize, hi_incl: usize) -> usize {
        lo + self.u(hi_incl - lo + 1)
    }
    /// a child generator whose stream is independent of how much the parent is used afterwards
    pub fn fork(&mut self) -> R {
        R(self.n())
    }
}

pub fn json_str(s: &str) -> String {
    let mut o = String::with_capacity(s.len() + 2);
    o.push('"');
    for c in s.chars() {
        match c {
            '"' => o.push_str("\\\""),
            '\\' => o.push_str("\\\\"),
            '\n' => o.push_str("\\n"),
            '\r' => o.push_str("\\r"),
            '\t' => o.push_str("\\t"),
            c if (c as u32) < 0x20 => o.push_str(&format!("\\u{:04x}", c as u32)),
            c => o.push(c),
        }
    }
    o.push('"');
    o
}

pub fn json_bytes_lossy(b: &[u8]) -> String {
    json_str(&String::from_utf8_lossy(b))
}

pub fn hex(b: &[u8]) -> String {
    b.iter().map(|x| format!("{:02x}", x)).collect()
}
pub fn unhex(s: &str) -> Vec<u8> {
    (0..s.len() / 2).map(|i| u8::from_str_radix(&s[2 * i..2 * i + 2], 16).unwrap()).collect()
}

pub fn fnv(b: &[u8]) -> u64 {
    let mut h: u64 = 0xcbf29ce484222325;
    for x in b {
        h ^= *x as u64;
        h = h.wrapping_mul(0x100000001b3);
    }
    h
}
