//! C13: output does not depend on source formatting of collapsible whitespace.

use super::common::*;
use crate::cfg::{Cfg, Deco};
use crate::gen::Knobs;
use crate::obs::Obs;
use crate::util::R;
use crate::{run, Case, Prop, Tier, Viol};

pub struct C13;

fn knobs() -> Knobs {
    let mut k = Knobs::all().no_css().no_tables();
    k.pre = false;
    k.ids = false;
    k.sup = false; // known finding #12: <sup><span>12</span></sup>
    k
}

const INLINE_OPEN: &[&str] = &["<em", "<strong", "<code", "<i>", "<i ", "<s>", "<del", "<a ", "<ins"];

/// source-level rewrites that must not change the output
fn rewrite(r: &mut R, html: &str) -> (String, &'static str) {
    let kind = r.b(4);
    let b: Vec<char> = html.chars().collect();
    let mut out = String::new();
    let mut i = 0;
    let mut in_tag = false;
    let name = match kind {
        0 => "whitespace-run substitution",
        1 => "comment insertion next to whitespace",
        2 => "span wrapping of inline runs",
        _ => "indentation between block tags",
    };
    while i < b.len() {
        let c = b[i];
        if c == '<' {
            in_tag = true;
        }
        if in_tag {
            out.push(c);
            if c == '>' {
                in_tag = false;
                // kind 3: newlines + indentation after a block-level tag
                if kind == 3 && r.p(50) {
                    let mut j = out.len();
                    while j > 0 && !out.is_char_boundary(j - 1) {
                        j -= 1;
                    }
                    let tag_start = out.rfind('<').unwrap_or(0);
                    let tag = &out[tag_start..];
                    let block = ["<p", "</p", "<div", "</div", "<ul", "</ul", "<ol", "</ol", "<li", "</li", "<blockquote", "</blockquote", "<h", "</h", "<dl", "</dl", "<dt", "</dt", "<dd", "</dd", "<section", "</section"];
                    // only between two block tags: the next thing must be a block tag as well
                    let next_is_block = {
                        let rest: String = b[i + 1..].iter().take(14).collect();
                        block.iter().any(|t| rest.starts_with(t))
                    };
                    if block.iter().any(|t| tag.starts_with(t)) && next_is_block {
                        out.push_str(r.pick(&["\n", "\n  ", "\n\t", "  "]));
                    }
                }
            }
            i += 1;
            continue;
        }
        if c == ' ' || c == '\n' || c == '\t' {
            let mut j = i;
            while j < b.len() && (b[j] == ' ' || b[j] == '\n' || b[j] == '\t') {
                j += 1;
            }
            let run: String = b[i..j].iter().collect();
            match kind {
                0 if r.p(60) => out.push_str(r.pick(&[" ", "  ", "\n", "\t", " \n\t ", "\n\n"])),
                1 if r.p(40) => {
                    if r.p(50) {
                        out.push_str("<!-- x -->");
                        out.push_str(&run);
                    } else {
                        out.push_str(&run);
                        out.push_str("<!--y-->");
                    }
                }
                _ => out.push_str(&run),
            }
            i = j;
            continue;
        }
        // a run of text: kind 2 wraps it in a neutral span
        if kind == 2 && r.p(25) {
            let mut j = i;
            while j < b.len() && b[j] != '<' {
                j += 1;
            }
            let run: String = b[i..j].iter().collect();
            out.push_str("<span>");
            out.push_str(&run);
            out.push_str("</span>");
            i = j;
            continue;
        }
        out.push(c);
        i += 1;
    }
    let _ = INLINE_OPEN;
    (out, name)
}

impl Prop for C13 {
    fn id(&self) -> &'static str {
        "C13"
    }
    fn rule(&self) -> &'static str {
        "table-free, pre-free G-doc x rewrites {whitespace-run substitution, comment insertion next to whitespace, span wrapping of text runs, indentation between block tags} x widths 1..100 x plain/rich; non-trivial = the rewrite changed the source and the document renders Ok with >= 2 lines"
    }
    fn cases(&self, r: &mut R, tier: Tier) -> Vec<Case> {
        let n = scale(tier, 2000, 30000);
        let mut v = Vec::new();
        for _ in 0..n {
            let html = gen_doc(r, knobs()).0;
            for _ in 0..(if tier == Tier::Quick { 3 } else { 4 }) {
                let seed = r.n();
                let (re, name) = rewrite(&mut R(seed), &html);
                if re == html {
                    continue;
                }
                let mut cfg = if r.p(50) { Cfg::plain() } else { Cfg::rich() };
                if r.p(30) {
                    cfg.footnotes = !cfg.footnotes;
                }
                if cfg.deco == Deco::Plain && r.p(20) {
                    cfg.route = crate::cfg::Route::Lines;
                }
                let w = if r.p(50) { 1 + r.u(15) } else { 1 + r.u(100) };
                let mut c = case(html.clone(), cfg, w, name);
                c.aux = seed.to_string();
                v.push(c);
            }
        }
        v
    }
    fn oracle(&self, c: &Case, o: &Obs) -> Vec<Viol> {
        let mut out = vec![];
        if c.aux.is_empty() {
            return out;
        }
        let seed: u64 = match c.aux.parse() {
            Ok(s) => s,
            Err(_) => return out,
        };
        let src = String::from_utf8_lossy(&c.html).to_string();
        let (re, _) = rewrite(&mut R(seed), &src);
        if re == src {
            return out;
        }
        let o2 = run(re.as_bytes(), &c.cfg, c.width);
        if *o != o2 {
            // known finding #12: a whitespace-only link survives when its space is wrapped in a span
            let span_in_link = c.stream.starts_with("span") && c.html.windows(2).any(|w| w == b"<a");
            if span_in_link && whitespace_only_link(&c.html) {
                out.push(known("a whitespace-only link is kept when its space is wrapped in a span".to_string(), "C13-span-ws-link"));
                return out;
            }
            // known finding: whitespace between block tags keeps an otherwise empty block container alive (it is dropped when
            // it has no child at all): the outputs differ only in blank lines and the document has such a container
            if c.stream.starts_with("indentation") {
                // (the block may sit inside an element whose closing decoration then moves to a line of its own: compare the
                // visible characters other than block prefixes, which are repeated on the extra lines)
                let strip = |o: &Obs| -> Option<String> { o.text_lines().map(|l| l.join("").chars().filter(|ch| !ch.is_whitespace() && !matches!(ch, '>' | '*' | '#')).collect()) };
                let dom = crate::domwalk::tree(&c.html);
                // a block container without any visible text in its subtree (in the original or in the rewritten source)
                let is_hollow = |d: &crate::domwalk::N| d.any(&|n| matches!(n.name(), "blockquote" | "div" | "ul" | "ol" | "dl" | "li" | "dd" | "dt" | "p" | "h1" | "h2" | "h3" | "h4" | "h5" | "h6")
                    && !crate::domwalk::flow_text(n).iter().any(|(ch, _)| !ch.is_whitespace()));
                let hollow = is_hollow(&dom) || is_hollow(&crate::domwalk::tree(re.as_bytes()));
                if hollow && strip(o).is_some() && strip(o) == strip(&o2) {
                    out.push(known(format!("whitespace next to an empty block changes the blank lines: {} vs {}", o.short(), o2.short()), "C13-ws-keeps-empty-block-alive"));
                    return out;
                }
            }
            // known finding: a span splits a text node, and the size estimate (minimum width = longest word capped by
            // min_wrap_width) is taken per text node: at very narrow widths one form is TooNarrow and the other renders
            if (c.stream.starts_with("span") || c.stream.starts_with("comment")) && (matches!(o, Obs::Narrow) != matches!(o2, Obs::Narrow)) {
                out.push(known(format!("a span or comment splits a text node and changes the minimum-width estimate: {} vs {}", o.short(), o2.short()), "C13-span-splits-min-width"));
                return out;
            }
            // known finding (same site as C03's stray list children): text directly inside ul/ol is rendered as one item per
            // text node, so a comment that splits such a text node adds a bullet
            if c.stream.starts_with("comment") {
                let dom = crate::domwalk::tree(&c.html);
                let stray = dom.any(&|n| matches!(n.name(), "ul" | "ol") && n.kids().iter().any(|k| match k { crate::domwalk::N::Text(t) => t.chars().any(|ch| !ch.is_whitespace()), _ => false }));
                if stray {
                    out.push(known(format!("a comment splits a text node that is a direct child of a list: {} vs {}", o.short(), o2.short()), "C13-stray-list-text-split"));
                    return out;
                }
            }
            out.push(viol(format!("rewrite ({}) changes the output: {} vs {} for rewritten source {:?}", c.stream, o.short(), o2.short(), re)));
        }
        out
    }
    fn project(&self, _c: &Case, o: &Obs) -> String {
        whole(o)
    }
}

/// does the document contain `<a href>` whose text content is whitespace only?
fn whitespace_only_link(html: &[u8]) -> bool {
    let dom = crate::domwalk::tree(html);
    dom.any(&|n| n.is("a") && n.attr("href").is_some() && {
        let t = crate::domwalk::flow_text(n);
        !t.is_empty() && t.iter().all(|(c, _)| c.is_whitespace())
    })
}
