//! Independent reference implementations used by the search oracles (never derived from the model).

use unicode_width::{UnicodeWidthChar, UnicodeWidthStr};

pub fn cw(c: char) -> usize {
    UnicodeWidthChar::width(c).unwrap_or(0)
}
pub fn sw(s: &str) -> usize {
    s.chars().map(cw).sum()
}
/// is the library's string width the sum of its character widths? (assumption A-width)
pub fn additive(s: &str) -> bool {
    UnicodeWidthStr::width(s) == sw(s)
}

/// The textbook greedy wrapper of C04: words (already split at whitespace) into lines of width `w`.
/// `Err(())` = a character wider than the line must be placed on an empty line.
pub fn greedy_wrap(words: &[String], w: usize) -> Result<Vec<String>, ()> {
    greedy_wrap_gen(words, w, true)
}

/// `space_by_content`: a blank separates a word from *any* word before it on the line (textbook); `false`: only from a
/// line that already has some width — the implementation's behaviour for a word without width at the start of a line
/// (known finding C04-zero-width-word-at-line-start).  For words of positive width the two coincide.
pub fn greedy_wrap_gen(words: &[String], w: usize, space_by_content: bool) -> Result<Vec<String>, ()> {
    let mut lines: Vec<String> = Vec::new();
    let mut cur = String::new();
    let mut curw = 0usize;
    for word in words {
        let ww = sw(word);
        let sep = if space_by_content { !cur.is_empty() } else { curw > 0 };
        let need = if sep { 1 + ww } else { ww };
        if curw + need <= w {
            if sep {
                cur.push(' ');
            }
            cur.push_str(word);
            curw += need;
            continue;
        }
        if !cur.is_empty() {
            lines.push(std::mem::take(&mut cur));
            curw = 0;
        }
        if ww <= w {
            cur.push_str(word);
            curw = ww;
            continue;
        }
        // over-long word: maximal pieces that never split a character
        for c in word.chars() {
            let c_w = cw(c);
            if curw + c_w > w {
                if curw == 0 {
                    return Err(());
                }
                lines.push(std::mem::take(&mut cur));
                curw = 0;
                if c_w > w {
                    return Err(());
                }
            }
            cur.push(c);
            curw += c_w;
        }
    }
    if curw > 0 || !cur.is_empty() {
        lines.push(cur);
    }
    Ok(lines)
}
