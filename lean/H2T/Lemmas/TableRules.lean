import H2T.Lemmas.ColumnEdges
import H2T.Lemmas.Links
import H2T.Lemmas.MarksTree

/-! C05: the junctions of a whole table.  In a regular side-by-side table whose cells hold no rules of their own, the rule
    between two rows is a straight rule joined from above exactly at the upper row's bar positions and from below exactly
    at the lower row's. -/

namespace H2T

theorem collapseTop_text : ∀ (sets : List (Nat × List RLine)) (prev : Option Border) (pos : Nat),
    (∀ st ∈ sets, ∀ l ∈ st.2, l.isText = true) → collapseTop prev pos sets = .ok (prev, sets) := by
  intro sets
  induction sets with
  | nil => intro prev pos _; rfl
  | cons st r ih =>
    intro prev pos h
    unfold collapseTop
    split
    · rename_i b t rest heq
      have := h st (by simp) (.rule b t) (by rw [heq]; simp)
      simp [RLine.isText] at this
    · rw [ih prev (pos + st.1 + 1) (fun x hx => h x (by simp [hx]))]
      rfl

theorem collapseBottom_text : ∀ (sets : List (Nat × List RLine)) (nb : Border) (pos : Nat),
    (∀ st ∈ sets, ∀ l ∈ st.2, l.isText = true) → collapseBottom nb pos sets = (nb, sets, sets.map fun _ => none) := by
  intro sets
  induction sets with
  | nil => intro nb pos _; rfl
  | cons st r ih =>
    intro nb pos h
    unfold collapseBottom
    split
    · rename_i b t heq
      have := h st (by simp) (.rule b t) (List.mem_of_getLast? heq)
      simp [RLine.isText] at this
    · rw [ih nb (pos + st.1 + 1) (fun x hx => h x (by simp [hx]))]
      rfl

/-- adding text lines appends text lines of the same widths -/
theorem addLines_text_shape (ls : List RLine) (hl : ∀ l ∈ ls, l.isText = true) : ∀ (s : SubR), fragsOnly s.pendingFrags →
    ∃ ls', (s.addLines ls).lines = s.lines ++ ls' ∧ ls'.map rlw = ls.map rlw ∧ (∀ l ∈ ls', l.isText = true) ∧
      fragsOnly (s.addLines ls).pendingFrags := by
  induction ls with
  | nil => intro s hf; exact ⟨[], by simp [SubR.addLines], rfl, by simp, hf⟩
  | cons l ls ih =>
    intro s hf
    have hlt := hl l (by simp)
    cases l with
    | rule b t => simp [RLine.isText] at hlt
    | text tl =>
      have h1 : ∃ l', (s.addLine (.text tl)).lines = s.lines ++ [l'] ∧ rlw l' = rlw (.text tl) ∧ l'.isText = true ∧
          fragsOnly (s.addLine (.text tl)).pendingFrags := by
        simp only [SubR.addLine]
        split
        · exact ⟨_, rfl, rfl, rfl, hf⟩
        · refine ⟨_, rfl, ?_, rfl, fun e he => by simp at he⟩
          simp only [rlw, lw_append, lw_fragsOnly _ hf, Nat.zero_add]
      obtain ⟨l', a1, a2, a3, a4⟩ := h1
      obtain ⟨ls', b1, b2, b3, b4⟩ := ih (fun x hx => hl x (by simp [hx])) (s.addLine (.text tl)) a4
      refine ⟨l' :: ls', ?_, by simp [a2, b2], ?_, b4⟩
      · show ((s.addLine (.text tl)).addLines ls).lines = _
        rw [b1, a1]; simp
      · intro x hx
        simp only [List.mem_cons] at hx
        rcases hx with rfl | hx
        · exact a3
        · exact b3 x hx


theorem colSets_allText (ann : Tag) : ∀ (cols : List SubR) (sets : List (Nat × List RLine)),
    (∀ col ∈ cols, ∀ ls, col.intoLines = .ok ls → ∀ l ∈ ls, l.isText = true) → colSets ann cols = .ok sets →
    ∀ st ∈ sets, ∀ l ∈ st.2, l.isText = true := by
  intro cols
  induction cols with
  | nil => intro sets _ h; simp [colSets] at h; subst h; simp
  | cons c cs ih =>
    intro sets hc h
    simp only [colSets] at h
    cases h1 : c.intoLines with
    | error e => simp [h1, andThen] at h
    | ok ls =>
      simp only [h1, andThen] at h
      cases h2 : colSets ann cs with
      | error e => simp [h2] at h
      | ok r =>
        simp only [h2] at h; injection h with h; subst h
        intro st hst l hl
        simp only [List.mem_cons] at hst
        rcases hst with rfl | hst
        · simp only [List.mem_map] at hl
          obtain ⟨l0, hl0, rfl⟩ := hl
          rw [padLine_isText]
          exact hc c (by simp) ls h1 l0 hl0
        · exact ih r (fun x hx => hc x (by simp [hx])) h2 st hst l hl

/-- **a row of rule-free cells below a rule of the table's width, exactly**: the rule above receives junctions from below at
    the row's bar positions and nothing else; the row adds its text lines (all of the table's width) and a bottom rule
    that is a straight rule joined from above at the same positions -/
theorem appendColumns_rules_exact (s s' : SubR) (cfg : Cfg) (cols : List SubR) (W : Nat) (hf : s.Fits) (hwn : s.wrapping = none)
    (hc : ∀ c ∈ cols, c.Fits) (hdb : cfg.drawBorders = true) (pb : Border) (t : Tag)
    (hlast : s.lines.getLast? = some (.rule pb t))
    (hW : (cols.map (·.width)).sum + (cols.length - 1) = W)
    (htext : ∀ col ∈ cols, ∀ ls, col.intoLines = .ok ls → ∀ l ∈ ls, l.isText = true)
    (he : s.appendColumns cfg cols = .ok s') :
    ∃ texts, s'.lines = setLast s.lines (.rule ((barsOfWidths 0 (cols.map (·.width))).foldl Border.joinBelow pb) t) ++ texts ++
        [.rule ((barsOfWidths 0 (cols.map (·.width))).foldl Border.joinAbove (List.replicate W Seg.straight)) s.annStack] ∧
      (∀ l ∈ texts, l.isText = true ∧ rlw l = W) ∧ s'.wrapping = none := by
  unfold SubR.appendColumns at he
  have h1 : s.flushWrapping = .ok s := by simp [SubR.flushWrapping, hwn]
  simp only [h1, andThen] at he
  cases h2 : colSets s.annStack cols with
  | error e => simp [h2] at he
  | ok sets =>
    simp only [h2] at he
    obtain ⟨hse, hwid⟩ := colSets_exact _ cols sets hc h2
    have hall := colSets_allText _ cols sets htext h2
    split at he
    · simp at he
    · rename_i hne
      have hne' : sets ≠ [] := by intro hh; simp [hh] at hne
      have hlen : sets.length = cols.length := by have := congrArg List.length hwid; simpa using this
      have htot : (sets.map (·.1)).sum + (sets.length - 1) + 1 = spanOf sets := by
        rw [spanOf_eq]
        have : 0 < sets.length := List.length_pos_iff.mpr hne'
        omega
      have htW : (sets.map (·.1)).sum + (sets.length - 1) = W := by rw [hwid, hlen]; exact hW
      rw [htW] at he htot
      have hpn : s.joinBars sets W = (some ((barPositions 0 sets).foldl Border.joinBelow pb),
          (barPositions 0 sets).foldl Border.joinAbove (List.replicate W Seg.straight)) := by
        unfold SubR.joinBars; rw [hlast]
      rw [hpn] at he
      simp only at he
      rw [collapseTop_text sets _ 0 hall] at he
      simp only at he
      rw [collapseBottom_text sets _ 0 hall] at he
      injection he with he; subst he
      have hbars : barPositions 0 sets = barsOfWidths 0 (cols.map (·.width)) := by rw [barPositions_widths, hwid]
      rw [hbars]
      have hbl : ∀ x ∈ barsOfWidths 0 (cols.map (·.width)), x < W := by
        intro x hx
        rw [← hbars] at hx
        have := barPositions_lt sets 0 x hx
        omega
      have hnext : ((barsOfWidths 0 (cols.map (·.width))).foldl Border.joinAbove (List.replicate W Seg.straight)).length = W := by
        rw [foldl_join_len Border.joinAbove joinAbove_len _ _ (by simpa using hbl)]; simp
      -- the state after the junctions were written back
      have hsl : (s.setLastRule (some ((barsOfWidths 0 (cols.map (·.width))).foldl Border.joinBelow pb))).lines =
          setLast s.lines (.rule ((barsOfWidths 0 (cols.map (·.width))).foldl Border.joinBelow pb) t) := by
        unfold SubR.setLastRule; simp only [hlast]
      have hfr : fragsOnly (s.setLastRule (some ((barsOfWidths 0 (cols.map (·.width))).foldl Border.joinBelow pb))).pendingFrags := by
        have : (s.setLastRule (some ((barsOfWidths 0 (cols.map (·.width))).foldl Border.joinBelow pb))).pendingFrags = s.pendingFrags := by
          unfold SubR.setLastRule; simp only [hlast]
        rw [this]; exact hf.frags
      generalize hs1 : s.setLastRule (some ((barsOfWidths 0 (cols.map (·.width))).foldl Border.joinBelow pb)) = s1 at hsl hfr ⊢
      -- emit
      unfold SubR.emitColumns
      simp only [hdb, if_true]
      obtain ⟨ls', a1, a2, a3, a4⟩ := addLines_text_shape ((List.range ((sets.map (·.2.length)).foldl max 0)).map fun i => RLine.text (colLine s.annStack
          (mkCh 0x2502) i (sets.zip (sets.map fun _ => none)))) (by intro l hl; simp only [List.mem_map] at hl; obtain ⟨i, _, rfl⟩ := hl; rfl) s1 hfr
      refine ⟨ls', ?_, ?_, ?_⟩
      · simp only [SubR.addLine, a1, hsl]
      · -- widths: from emitColumns_exact applied to the same state
        obtain ⟨added, e1, e2⟩ := emitColumns_exact s1 cfg s.annStack sets (sets.map fun _ => none)
          ((barsOfWidths 0 (cols.map (·.width))).foldl Border.joinAbove (List.replicate W Seg.straight)) W hfr (by simp) hne'
          (by
            intro p hp
            have hm := List.of_mem_zip hp
            refine ⟨hse p.1 hm.1, ?_⟩
            intro v hv
            simp only [List.mem_map] at hm
            obtain ⟨_, _, hq⟩ := hm.2
            rw [← hq] at hv; cases hv)
          htot hnext
        unfold SubR.emitColumns at e1
        simp only [hdb, if_true, SubR.addLine, a1, List.append_assoc] at e1
        have := List.append_cancel_left e1
        intro l hl
        exact ⟨a3 l hl, e2 l (by rw [← this]; simp [hl])⟩
      · show (s1.addLines _).wrapping = none
        rw [addLines_wrapping, ← hs1]
        unfold SubR.setLastRule; simp only [hlast]; exact hwn


/-! ## table-free programs produce no rule lines -/

theorem nr_of_lines_eq {s s' : SubR} (h : s.NR) (e : s'.lines = s.lines) : s'.NR := by unfold SubR.NR; rw [e]; exact h

theorem flushWrapping_nr (s s' : SubR) (h : s.NR) (e : s.flushWrapping = .ok s') : s'.NR := by
  unfold SubR.flushWrapping at e
  cases hw : s.wrapping with
  | none => simp only [hw] at e; injection e with e; subst e; exact h
  | some w =>
    simp only [hw] at e
    generalize (if w.word.noContent = true then { w with word := [] } else w) = w' at e
    cases hf : w'.finish with
    | error er => simp [hf, andThen] at e
    | ok ls =>
      simp only [hf, andThen] at e
      injection e with e; subst e
      have := addLines_nr (ls.map RLine.text) ({ s with wrapping := none } : SubR) h
        (by intro l hl; simp only [List.mem_map] at hl; obtain ⟨a, _, rfl⟩ := hl; rfl)
      exact nr_of_lines_eq this rfl

theorem addEmptyLine_nr (s s' : SubR) (h : s.NR) (e : s.addEmptyLine = .ok s') : s'.NR := by
  unfold SubR.addEmptyLine at e
  cases h1 : s.flushWrapping with
  | error er => simp [h1, andThen] at e
  | ok s1 =>
    simp only [h1, andThen] at e; injection e with e; subst e
    exact nr_of_lines_eq (addLine_nr s1 (.text []) (flushWrapping_nr s s1 h h1) rfl) rfl

theorem startBlock_nr (s s' : SubR) (h : s.NR) (e : s.startBlock = .ok s') : s'.NR := by
  unfold SubR.startBlock at e
  cases h1 : s.flushWrapping with
  | error er => simp [h1, andThen] at e
  | ok s1 =>
    simp only [h1, andThen] at e
    have n1 := flushWrapping_nr s s1 h h1
    by_cases hc : s1.lines.any RLine.hasContent = true
    · simp only [hc, if_true] at e
      cases h2 : s1.addEmptyLine with
      | error er => simp [h2] at e
      | ok s2 =>
        simp only [h2] at e; injection e with e; subst e
        exact nr_of_lines_eq (addEmptyLine_nr s1 s2 n1 h2) rfl
    · simp only [hc] at e
      injection e with e; subst e
      exact nr_of_lines_eq n1 rfl

theorem newLineHard_nr (s s' : SubR) (h : s.NR) (e : s.newLineHard = .ok s') : s'.NR := by
  unfold SubR.newLineHard at e
  split at e
  · exact addEmptyLine_nr s s' h e
  · split at e
    · exact addEmptyLine_nr s s' h e
    · exact flushWrapping_nr s s' h e

theorem addInlineText_nr (s s' : SubR) (cfg : Cfg) (x : List Ch) (f : Ann → Ann) (h : s.NR) (e : s.addInlineText cfg x f = .ok s') : s'.NR := by
  unfold SubR.addInlineText at e
  split at e
  · injection e with e; subst e; exact h
  · generalize h0 : (if s.atBlockEnd = true then s.startBlock else Except.ok s) = r0 at e
    cases r0 with
    | error er => simp [andThen] at e
    | ok s0 =>
      simp only [andThen] at e
      have n0 : s0.NR := by
        split at h0
        · exact startBlock_nr s s0 h h0
        · injection h0 with h0; subst h0; exact h
      generalize (if s0.preDepth > 0 then s0.annStack ++ [f (Ann.pre false)] else s0.annStack) = mt at e
      generalize (if s0.preDepth > 0 then s0.annStack ++ [f (Ann.pre true)] else s0.annStack) = ct at e
      cases h1 : (s0.getWrapping cfg).addText s0.wsMode mt ct (iterN strikeFilter s0.filterDepth x) with
      | error er => simp [h1] at e
      | ok w1 =>
        simp only [h1] at e; injection e with e; subst e
        exact nr_of_lines_eq n0 rfl

theorem appendSub_nr (s other s' : SubR) (first rest : List Ch) (h : s.NR) (e : s.appendSub other first rest = .ok s') : s'.NR := by
  unfold SubR.appendSub at e
  cases h1 : s.flushWrapping with
  | error er => simp [h1, andThen] at e
  | ok s1 =>
    simp only [h1, andThen] at e
    cases h2 : other.intoLines with
    | error er => simp [h2] at e
    | ok ls =>
      simp only [h2] at e; injection e with e; subst e
      exact addLines_nr _ s1 (flushWrapping_nr s s1 h h1) (zipPrefix_isText _ _ _ ls)

theorem onCur_nr (t : RS) (f : SubR → Except Err SubR) (t1 : RS) (h0 : t.onCur f = .ok t1)
    (hf : ∀ s1, f t.cur = .ok s1 → s1.NR) : t1.cur.NR := by
  unfold RS.onCur at h0
  cases hfc : f t.cur with
  | error e => simp [hfc, andThen] at h0
  | ok s1 => simp only [hfc, andThen] at h0; injection h0 with h0; subst h0; exact hf s1 hfc

theorem stepSimple_nr (cfg : Cfg) (d : Deco) (t t' : RS) (op : Op) (hn : t.cur.NR) (h : stepSimple cfg d t op = .ok t') : t'.cur.NR := by
  have keep0 : ∀ (s0 : SubR), s0.lines = t.cur.lines → s0.NR := fun s0 e => nr_of_lines_eq hn e
  cases op <;> simp only [stepSimple] at h
  case pushWs ws => exact onCur_nr t _ t' h fun s1 e => by injection e with e; subst e; exact keep0 _ rfl
  case popWs => exact onCur_nr t _ t' h fun s1 e => by injection e with e; subst e; exact keep0 _ rfl
  case pushAnn a => exact onCur_nr t _ t' h fun s1 e => by injection e with e; subst e; exact keep0 _ rfl
  case popAnn => exact onCur_nr t _ t' h fun s1 e => by injection e with e; subst e; exact keep0 _ rfl
  case pushPre => exact onCur_nr t _ t' h fun s1 e => by injection e with e; subst e; exact keep0 _ rfl
  case popPre =>
    exact onCur_nr t _ t' h fun s1 e => by
      split at e
      · simp at e
      · injection e with e; subst e; exact keep0 _ rfl
  case text x => exact onCur_nr t _ t' h fun s1 e => addInlineText_nr _ s1 cfg x _ hn e
  case frag n => exact onCur_nr t _ t' h fun s1 e => by injection e with e; subst e; exact keep0 _ rfl
  case startLink href =>
    exact onCur_nr { t with links := t.links ++ [href] } _ t' h fun s1 e =>
      addInlineText_nr ({ t.cur with annStack := t.cur.annStack ++ [d.annOf (Ann.link href)] } : SubR) s1 cfg _ _ (keep0 _ rfl) e
  case endLink =>
    generalize h1 : (t.onCur fun s => andThen (s.addInlineText cfg d.linkEnd d.annOf) fun s' => Except.ok { s' with annStack := s'.annStack.dropLast }) = r1 at h
    cases r1 with
    | error e => simp [andThen] at h
    | ok t1 =>
      simp only [andThen] at h
      have st1 : t1.cur.NR := onCur_nr t _ t1 h1 fun s1 e => by
        cases h2 : t.cur.addInlineText cfg d.linkEnd d.annOf with
        | error e' => simp [h2, andThen] at e
        | ok s2 =>
          simp only [h2, andThen] at e; injection e with e; subst e
          exact nr_of_lines_eq (addInlineText_nr _ s2 cfg _ _ hn h2) rfl
      split at h
      · exact onCur_nr t1 _ t' h fun s1 e => addInlineText_nr _ s1 cfg _ _ st1 e
      · injection h with h; subst h; exact st1
  case startAnn a x strike =>
    exact onCur_nr t _ t' h fun s1 e => by
      cases h2 : ({ t.cur with annStack := t.cur.annStack ++ [d.annOf a] } : SubR).addInlineText cfg x d.annOf with
      | error e' => simp [h2, andThen] at e
      | ok s2 =>
        simp only [h2, andThen] at e; injection e with e; subst e
        have a1 := addInlineText_nr ({ t.cur with annStack := t.cur.annStack ++ [d.annOf a] } : SubR) s2 cfg _ _ (keep0 _ rfl) h2
        split
        · exact nr_of_lines_eq a1 rfl
        · exact a1
  case endAnn x strike =>
    exact onCur_nr t _ t' h fun s1 e => by
      generalize hs0 : (if (strike && cfg.unicodeStrike) = true then { t.cur with filterDepth := t.cur.filterDepth - 1 } else t.cur) = s0 at e
      have e0 : s0.NR := by
        rw [← hs0]; split
        · exact keep0 _ rfl
        · exact hn
      cases h2 : s0.addInlineText cfg x d.annOf with
      | error e' => simp [h2, andThen] at e
      | ok s2 =>
        simp only [h2, andThen] at e; injection e with e; subst e
        exact nr_of_lines_eq (addInlineText_nr s0 s2 cfg _ _ e0 h2) rfl
  case image src title =>
    exact onCur_nr t _ t' h fun s1 e => by
      cases h2 : ({ t.cur with annStack := t.cur.annStack ++ [d.annOf (Ann.image src)] } : SubR).addInlineText cfg (d.imgText title) d.annOf with
      | error e' => simp [h2, andThen] at e
      | ok s2 =>
        simp only [h2, andThen] at e; injection e with e; subst e
        exact nr_of_lines_eq (addInlineText_nr ({ t.cur with annStack := t.cur.annStack ++ [d.annOf (Ann.image src)] } : SubR) s2 cfg _ _ (keep0 _ rfl) h2) rfl
  case startBlock => exact onCur_nr t _ t' h fun s1 e => startBlock_nr _ s1 hn e
  case endBlock => exact onCur_nr t _ t' h fun s1 e => by injection e with e; subst e; exact keep0 _ rfl
  case newLine => exact onCur_nr t _ t' h fun s1 e => flushWrapping_nr _ s1 hn e
  case newLineHard => exact onCur_nr t _ t' h fun s1 e => newLineHard_nr _ s1 hn e
  all_goals (injection h with h; subst h; exact hn)

/-- **table-free programs never produce a rule line** (sub-renderers included: their lines arrive prefixed, as text) -/
theorem runOps_nr (cfg : Cfg) (d : Deco) : ∀ (ops : List Op) (t t' : RS), tableFreeOps ops = true → t.cur.NR →
    runOps SubR.widthMinus cfg d t ops = .ok t' → t'.cur.NR := by
  intro ops
  induction ops with
  | nil => intro t t' _ hn h; simp [runOps] at h; subst h; exact hn
  | cons op ops ih =>
    intro t t' hs hn h
    simp only [tableFreeOps, Bool.and_eq_true] at hs
    simp only [runOps] at h
    cases h1 : runOp SubR.widthMinus cfg d t op with
    | error e => simp [h1, andThen_error_eq] at h
    | ok t1 =>
      simp only [h1, andThen_ok_eq] at h
      refine ih t1 t' hs.2 ?_ h
      cases op with
      | sub p m first rest asBlock body =>
        simp only [runOp] at h1
        cases e1 : t.cur.widthMinus cfg p m with
        | error e => simp [e1, andThen_error_eq] at h1
        | ok w =>
          simp only [e1, andThen_ok_eq] at h1
          cases e2 : runOps SubR.widthMinus cfg d { links := t.links, cur := ({ width := w, annStack := t.cur.annStack } : SubR) } body with
          | error e => simp [e2, andThen_error_eq] at h1
          | ok r =>
            simp only [e2, andThen_ok_eq] at h1
            generalize e3 : (if asBlock = true then t.cur.startBlock else Except.ok t.cur) = r3 at h1
            cases r3 with
            | error e => simp [andThen_error_eq] at h1
            | ok s1 =>
              simp only [andThen_ok_eq] at h1
              have n1 : s1.NR := by
                split at e3
                · exact startBlock_nr _ s1 hn e3
                · injection e3 with e3; subst e3; exact hn
              cases e4 : s1.appendSub r.cur first rest with
              | error e => simp [e4, andThen_error_eq] at h1
              | ok s2 =>
                simp only [e4, andThen_ok_eq] at h1; injection h1 with h1; subst h1
                have n2 := appendSub_nr s1 r.cur s2 first rest n1 e4
                show (if asBlock = true then ({ s2 with atBlockEnd := true } : SubR) else s2).NR
                split
                · exact nr_of_lines_eq n2 rfl
                · exact n2
      | table _ _ => simp [tableFreeOp] at hs
      | row _ _ _ => simp [tableFreeOp] at hs
      | cell _ _ _ => simp [tableFreeOp] at hs
      | _ => exact stepSimple_nr cfg d t t1 _ hn (by simpa [runOp] using h1)

theorem intoLines_text_of_nr (s : SubR) (ls : List RLine) (h : s.NR) (e : s.intoLines = .ok ls) : ∀ l ∈ ls, l.isText = true := by
  unfold SubR.intoLines at e
  cases h1 : s.flushWrapping with
  | error er => simp [h1, andThen] at e
  | ok s1 =>
    simp only [h1, andThen] at e; injection e with e; subst e
    have := flushWrapping_nr s s1 h h1
    intro l hl
    cases l with
    | text tl => rfl
    | rule b t => exact absurd rfl (this _ hl b t)


/-! ## the layout of a whole table -/

/-- forget the tag of a rule (it is the annotation stack at the moment the rule was drawn) -/
def untag : RLine → RLine
  | .rule b _ => .rule b []
  | l => l

/-- the rule between a row with bars at `above` and a row with bars at `below` -/
def ruleBetween (W : Nat) (above below : List Nat) : Border :=
  below.foldl Border.joinBelow (above.foldl Border.joinAbove (List.replicate W Seg.straight))

/-- the lines of a table given, for every rendered row, its bar positions and its text lines: rule, row, rule, …, rule -/
def tableLayout (W : Nat) : List (List Nat × List RLine) → List Nat → List RLine
  | [], prev => [.rule (ruleBetween W prev []) []]
  | (bars, texts) :: rest, prev => .rule (ruleBetween W prev bars) [] :: (texts ++ tableLayout W rest bars)

/-- …without the last rule, which the next row may still join from below -/
def closedRows (W : Nat) : List (List Nat × List RLine) → List Nat → List RLine
  | [], _ => []
  | (bars, texts) :: rest, prev => .rule (ruleBetween W prev bars) [] :: (texts ++ closedRows W rest bars)

def lastBarsFrom (p : List Nat) : List (List Nat × List RLine) → List Nat
  | [] => p
  | (bars, _) :: rest => lastBarsFrom bars rest

theorem closedRows_snoc (W : Nat) (x : List Nat × List RLine) : ∀ (D : List (List Nat × List RLine)) (p : List Nat),
    closedRows W (D ++ [x]) p = closedRows W D p ++ (.rule (ruleBetween W (lastBarsFrom p D) x.1) [] :: x.2) := by
  intro D
  induction D with
  | nil => intro p; obtain ⟨b, T⟩ := x; simp [closedRows, lastBarsFrom]
  | cons y D ih =>
    intro p
    obtain ⟨b, T⟩ := y
    simp only [List.cons_append, closedRows, lastBarsFrom, ih, List.append_assoc]

theorem tableLayout_eq (W : Nat) : ∀ (D : List (List Nat × List RLine)) (p : List Nat),
    tableLayout W D p = closedRows W D p ++ [.rule (ruleBetween W (lastBarsFrom p D) []) []] := by
  intro D
  induction D with
  | nil => intro p; rfl
  | cons y D ih =>
    intro p
    obtain ⟨b, T⟩ := y
    simp only [tableLayout, closedRows, lastBarsFrom, ih, List.cons_append, List.append_assoc]

theorem lastBarsFrom_snoc (p : List Nat) (x : List Nat × List RLine) : ∀ (D : List (List Nat × List RLine)),
    lastBarsFrom p (D ++ [x]) = x.1 := by
  intro D
  induction D generalizing p with
  | nil => obtain ⟨b, T⟩ := x; rfl
  | cons y D ih => obtain ⟨b, T⟩ := y; simp only [List.cons_append, lastBarsFrom]; exact ih b

theorem untag_text (l : RLine) (h : l.isText = true) : untag l = l := by
  cases l with
  | text tl => rfl
  | rule b t => simp [RLine.isText] at h

theorem map_untag_text (ls : List RLine) (h : ∀ l ∈ ls, l.isText = true) : ls.map untag = ls := by
  induction ls with
  | nil => rfl
  | cons a r ih => simp only [List.map_cons, untag_text a (h a (by simp)), ih (fun x hx => h x (by simp [hx]))]

/-- the table so far: `pre`, the closed rows, and the last rule — straight, joined from above at the last row's bars -/
def TblRules (W : Nat) (pre : List RLine) (s : SubR) (D : List (List Nat × List RLine)) : Prop :=
  s.Fits ∧ s.wrapping = none ∧
    s.lines.map untag = pre ++ closedRows W D [] ++ [.rule ((lastBarsFrom [] D).foldl Border.joinAbove (List.replicate W Seg.straight)) []]

theorem getLast_of_map_untag (ls : List RLine) (front : List RLine) (b : Border)
    (h : ls.map untag = front ++ [.rule b []]) : ∃ t init, ls = init ++ [.rule b t] ∧ init.map untag = front := by
  have hne : ls ≠ [] := by intro hh; subst hh; simp at h
  have hsplit : ls = ls.dropLast ++ [ls.getLast hne] := (List.dropLast_concat_getLast hne).symm
  rw [hsplit, List.map_append, List.map_singleton] at h
  have h1 := List.append_inj' h (by simp)
  obtain ⟨e1, e2⟩ := h1
  simp only [List.cons.injEq, and_true] at e2
  cases hl : ls.getLast hne with
  | text tl => rw [hl] at e2; simp [untag] at e2
  | rule b' t =>
    rw [hl] at e2
    simp only [untag, RLine.rule.injEq, and_true] at e2
    subst e2
    exact ⟨t, ls.dropLast, by rw [← hl]; exact hsplit, e1⟩

theorem appendRow_rules (s s' : SubR) (cfg : Cfg) (subs : List SubR) (W : Nat) (pre : List RLine) (D : List (List Nat × List RLine))
    (hdb : cfg.drawBorders = true) (hi : TblRules W pre s D) (hW : W ≤ s.width) (hc : ∀ c ∈ subs, c.Fits)
    (hsum : (subs.map fun c => c.width + 1).sum = W + 1)
    (htext : ∀ col ∈ subs, ∀ ls, col.intoLines = .ok ls → ∀ l ∈ ls, l.isText = true)
    (he : s.appendRow cfg false subs = .ok s') :
    s'.width = s.width ∧
    (TblRules W pre s' D ∨ ∃ T, (∀ l ∈ T, l.isText = true ∧ rlw l = W) ∧
      TblRules W pre s' (D ++ [(barsOfWidths 0 (subs.map (·.width)), T)])) := by
  obtain ⟨hf, hwn, hl⟩ := hi
  unfold SubR.appendRow at he
  simp only [Bool.false_eq_true, if_false] at he
  split at he
  · have hne : subs ≠ [] := by intro hh; subst hh; simp at hsum
    have hlen := List.length_pos_iff.mpr hne
    have hsw : (subs.map (·.width)).sum + (subs.length - 1) = W := by
      have := sum_map_succ subs; omega
    have st := appendColumns_step s s' cfg subs hf hc (by omega) he
    rw [List.append_assoc] at hl
    obtain ⟨t, init, e0, e1⟩ := getLast_of_map_untag s.lines _ _ (by rw [hl, List.append_assoc])
    have hlast : s.lines.getLast? = some (.rule ((lastBarsFrom [] D).foldl Border.joinAbove (List.replicate W Seg.straight)) t) := by
      rw [e0]; simp
    obtain ⟨T, r1, r2, r3⟩ := appendColumns_rules_exact s s' cfg subs W hf hwn hc hdb _ t hlast hsw htext he
    refine ⟨st.2, Or.inr ⟨T, r2, st.1, r3, ?_⟩⟩
    rw [r1, e0, setLast_append_singleton]
    simp only [List.map_append, List.map_cons, List.map_nil, untag, e1, map_untag_text T (fun l hl => (r2 l hl).1)]
    rw [closedRows_snoc, lastBarsFrom_snoc]
    simp only [ruleBetween, List.append_assoc, List.cons_append, List.nil_append]
  · injection he with he; subst he
    exact ⟨rfl, Or.inl ⟨hf, hwn, hl⟩⟩


/-- the bodies of the cells hold no tables -/
def cellsTableFree : List Op → Bool
  | [] => true
  | .cell _ _ body :: cs => tableFreeOps body && cellsTableFree cs
  | _ :: cs => cellsTableFree cs
def rowsTableFree : List Op → Bool
  | [] => true
  | .row _ _ cells :: rs => cellsTableFree cells && rowsTableFree rs
  | _ :: rs => rowsTableFree rs

theorem runCells_nr (cfg : Cfg) (d : Deco) (ws : List Nat) (ann : Tag) :
    ∀ (cells : List Op) (links : List (List Ch)) (l2 : List (List Ch)) (subs : List SubR), cellsTableFree cells = true →
    runCells SubR.widthMinus cfg d ws false ann links cells = .ok (l2, subs) → ∀ col ∈ subs, col.NR := by
  intro cells
  induction cells with
  | nil => intro links l2 subs _ he; simp [runCells] at he; obtain ⟨_, rfl⟩ := he; simp
  | cons op cs ih =>
    intro links l2 subs hs he
    cases op with
    | cell colno span body =>
      simp only [cellsTableFree, Bool.and_eq_true] at hs
      simp only [runCells] at he
      split at he
      · simp at he
      · split at he
        · exact ih links l2 subs hs.2 he
        · cases h1 : runOps SubR.widthMinus cfg d { links := links, cur := ({ width := cellOuter false (cellInner ws false colno span) span, annStack := ann } : SubR) } body with
          | error e => simp [h1, andThen] at he
          | ok r =>
            simp only [h1, andThen_ok_eq] at he
            cases h2 : runCells SubR.widthMinus cfg d ws false ann r.links cs with
            | error e => simp [h2, andThen_error_eq] at he
            | ok v =>
              obtain ⟨l3, subs2⟩ := v
              simp only [h2, andThen_ok_eq] at he
              injection he with he
              simp only [Prod.mk.injEq] at he
              obtain ⟨_, rfl⟩ := he
              have n1 := runOps_nr cfg d body _ r hs.1 (by intro l hl; simp at hl) h1
              intro col hcol
              simp only [List.mem_cons] at hcol
              rcases hcol with rfl | hcol
              · exact n1
              · exact ih r.links l3 subs2 hs.2 h2 col hcol
    | _ =>
      simp only [runCells] at he
      exact ih links l2 subs (by simpa [cellsTableFree] using hs) he

/-- what is known of every rendered row of a regular table: its text lines have the table's width, its bars stand at
    column boundaries -/
def RowOk (ws : List Nat) (W : Nat) (e : List Nat × List RLine) : Prop :=
  (∀ l ∈ e.2, l.isText = true ∧ rlw l = W) ∧ ∀ x ∈ e.1, ∃ k, 0 < k ∧ k < ws.length ∧ x + 1 = (ws.take k).sum + k

theorem runRows_rules (cfg : Cfg) (d : Deco) (hov : cfg.overflow = false) (hdb : cfg.drawBorders = true)
    (ws : List Nat) (hpos : ∀ x ∈ ws, 0 < x) (hne : 0 < ws.length) (pre : List RLine) :
    ∀ (rows : List Op) (t t' : RS) (D : List (List Nat × List RLine)), wfRows rows = true → regRows ws.length rows = true →
    rowsTableFree rows = true → TblRules (ws.sum + (ws.length - 1)) pre t.cur D → ws.sum + ws.length ≤ t.cur.width + 1 →
    runRows SubR.widthMinus cfg d ws false t rows = .ok t' →
    ∃ E, TblRules (ws.sum + (ws.length - 1)) pre t'.cur (D ++ E) ∧ (∀ e ∈ E, RowOk ws (ws.sum + (ws.length - 1)) e) ∧
      t'.cur.width = t.cur.width := by
  have hwm := widthMinus_contract cfg hov
  intro rows
  induction rows with
  | nil => intro t t' D _ _ _ hi _ he; simp [runRows] at he; subst he; exact ⟨[], by simpa using hi, by simp, rfl⟩
  | cons op rs ih =>
    intro t t' D hok hreg htf hi hwid he
    cases op with
    | row rpre rpost cells =>
      simp only [regRows, Bool.and_eq_true, List.all_eq_true] at hreg
      obtain ⟨⟨⟨hpre, hpost⟩, htile⟩, hrs⟩ := hreg
      simp only [wfRows, Bool.and_eq_true] at hok
      obtain ⟨⟨⟨wpre, wpost⟩, wcells⟩, wrs⟩ := hok
      simp only [rowsTableFree, Bool.and_eq_true] at htf
      simp only [runRows] at he
      cases h1 : runOps SubR.widthMinus cfg d t rpre with
      | error e => simp [h1, andThen] at he
      | ok t1 =>
        simp only [h1, andThen_ok_eq] at he
        have st1 := runOps_fitsT SubR.widthMinus cfg d hwm hov rpre t t1 wpre hi.1 h1
        obtain ⟨q1, q2⟩ := styleOps_quiet rpre hpre t t1 h1
        have i1 : TblRules (ws.sum + (ws.length - 1)) pre t1.cur D := ⟨st1.1, q2.trans hi.2.1, by rw [q1]; exact hi.2.2⟩
        cases h2 : runCells SubR.widthMinus cfg d ws false t1.cur.annStack t1.links cells with
        | error e => simp [h2, andThen_error_eq] at he
        | ok v =>
          obtain ⟨links, subs⟩ := v
          simp only [h2, andThen_ok_eq] at he
          obtain ⟨c1, _, _⟩ := runCells_fitsT SubR.widthMinus cfg d hwm hov cells ws false t1.cur.annStack t1.links 0 links subs wcells h2
          obtain ⟨x1, _⟩ := runCells_exact cfg d hov ws hpos t1.cur.annStack cells t1.links 0 links subs wcells htile h2
          simp only [List.drop_zero, Nat.sub_zero] at x1
          have hwd := runCells_widths cfg d hov ws hpos t1.cur.annStack cells t1.links 0 links subs wcells htile h2
          have hnr := runCells_nr cfg d ws t1.cur.annStack cells t1.links links subs htf.1 h2
          cases h3 : t1.cur.appendRow cfg false subs with
          | error e => simp [h3, andThen_error_eq] at he
          | ok s2 =>
            simp only [h3, andThen_ok_eq] at he
            obtain ⟨w2, alt⟩ := appendRow_rules t1.cur s2 cfg subs _ pre D hdb i1 (by rw [st1.2]; omega) c1 (by rw [x1]; omega)
              (fun col hcol ls hl => intoLines_text_of_nr col ls (hnr col hcol) hl) h3
            -- the data of this row (if it was rendered)
            obtain ⟨E1, i2, hE1⟩ : ∃ E1, TblRules (ws.sum + (ws.length - 1)) pre s2 (D ++ E1) ∧ ∀ e ∈ E1, RowOk ws (ws.sum + (ws.length - 1)) e := by
              rcases alt with i2 | ⟨T, hT, i2⟩
              · exact ⟨[], by simpa using i2, by simp⟩
              · refine ⟨[(barsOfWidths 0 (subs.map (·.width)), T)], i2, ?_⟩
                intro e he'
                simp only [List.mem_singleton] at he'
                subst he'
                refine ⟨hT, ?_⟩
                intro x hx
                rw [hwd] at hx
                have := bars_at_edges ws cells 0 htile x (by simpa using hx)
                obtain ⟨k, k1, k2, k3⟩ := this
                exact ⟨k, k1, k2, k3⟩
            cases h4 : runOps SubR.widthMinus cfg d { links := links, cur := s2 } rpost with
            | error e => simp [h4, andThen_error_eq] at he
            | ok t3 =>
              simp only [h4, andThen_ok_eq] at he
              have st3 := runOps_fitsT SubR.widthMinus cfg d hwm hov rpost _ t3 wpost i2.1 h4
              obtain ⟨q3, q4⟩ := styleOps_quiet rpost hpost _ t3 h4
              have i3 : TblRules (ws.sum + (ws.length - 1)) pre t3.cur (D ++ E1) := ⟨st3.1, q4.trans i2.2.1, by rw [q3]; exact i2.2.2⟩
              have hw3 : t3.cur.width = t.cur.width := (st3.2.trans w2).trans st1.2
              obtain ⟨E2, i4, hE2, w4⟩ := ih t3 t' (D ++ E1) wrs hrs htf.2 i3 (by rw [hw3]; exact hwid) he
              refine ⟨E1 ++ E2, by rw [← List.append_assoc]; exact i4, ?_, w4.trans hw3⟩
              intro e he'
              simp only [List.mem_append] at he'
              rcases he' with h | h
              · exact hE1 e h
              · exact hE2 e h
    | _ => simp [regRows] at hreg

/-- **the junctions of a regular table**: for a side-by-side table with borders whose columns all have width, whose rows tile
    the columns and whose cells hold no tables, the lines of the table are — up to the tags of the rules — exactly
    `tableLayout`: a rule, a row's text lines, a rule, …, a rule, where the rule between two rows is a straight rule joined
    from above at the upper row's bar positions and from below at the lower row's, the first rule is joined only from below
    and the last only from above; every text line has the table's width and every bar stands at a column boundary -/
theorem table_rules (cfg : Cfg) (d : Deco) (hov : cfg.overflow = false) (hdb : cfg.drawBorders = true)
    (cols : List SizeEst) (rows : List Op) (t t' : RS) (ws : List Nat) (tw : Nat)
    (ha : allocCols cfg t.cur.width cols = .ok (ws, false, tw)) (hpos : ∀ x ∈ ws, 0 < x) (hne : 0 < ws.length)
    (hwf : wfRows rows = true) (hreg : regRows ws.length rows = true) (htf : rowsTableFree rows = true) (hf : t.cur.Fits)
    (he : runOp SubR.widthMinus cfg d t (.table cols rows) = .ok t') :
    ∃ s1 D, t.cur.startBlock = .ok s1 ∧
      t'.cur.lines.map untag = s1.lines.map untag ++ tableLayout (ws.sum + (ws.length - 1)) D [] ∧
      ∀ e ∈ D, RowOk ws (ws.sum + (ws.length - 1)) e := by
  simp only [runOp] at he
  simp only [ha, andThen_ok_eq] at he
  obtain ⟨a1, _, a3⟩ := allocCols_ok cfg _ cols ws false tw ha
  have htw := allocCols_tw cfg _ cols ws tw ha
  rw [filter_pos_all ws hpos] at htw
  cases h2 : t.cur.startBlock with
  | error e => simp [h2, andThen_error_eq] at he
  | ok s1 =>
    simp only [h2, andThen_ok_eq] at he
    have st1 := startBlock_step _ s1 hf h2
    have wn1 := startBlock_wnone _ s1 hf h2
    cases h3 : s1.tableTop cfg tw with
    | error e => simp [h3, andThen_error_eq] at he
    | ok s3 =>
      simp only [h3, andThen_ok_eq] at he
      have st3 : Step s1 s3 := tableTop_step s1 s3 cfg tw st1.1 (by rw [st1.2]; exact a1) h3
      have hw3 : s3.width = t.cur.width := st3.2.trans st1.2
      have i3 : TblRules (ws.sum + (ws.length - 1)) (s1.lines.map untag) s3 [] := by
        unfold SubR.tableTop at h3
        have hne0 : tw ≠ 0 := by
          have : 0 < ws.sum := sum_pos_of_pos ws hpos (by intro hh; subst hh; simp at hne)
          omega
        have hfl : s1.flushWrapping = .ok s1 := by simp [SubR.flushWrapping, wn1]
        simp only [hne0, hdb, ne_eq, not_false_eq_true, decide_true, Bool.and_self, if_true, hfl, andThen] at h3
        injection h3 with h3; subst h3
        refine ⟨st3.1, by simp [SubR.addLine, wn1], ?_⟩
        simp [SubR.addLine, closedRows, lastBarsFrom, untag, htw]
      obtain ⟨E, i4, hE, _⟩ := runRows_rules cfg d hov hdb ws hpos hne (s1.lines.map untag) rows { t with cur := s3 } t' [] hwf hreg htf i3
        (by show ws.sum + ws.length ≤ s3.width + 1; rw [hw3]; exact a3 rfl) he
      refine ⟨s1, E, rfl, ?_, hE⟩
      have := i4.2.2
      simp only [List.nil_append] at this
      rw [this, tableLayout_eq]
      simp only [ruleBetween, List.foldl_nil, List.append_assoc]


/-! ## regular tables of render trees -/

/-- the cells of the rows hold no tables -/
def cellsNoTable : List RNode → Bool
  | [] => true
  | .cell _ _ kids :: cs => noTableL kids && cellsNoTable cs
  | _ :: cs => cellsNoTable cs
def rowsNoTable : List RNode → Bool
  | [] => true
  | .row _ cells :: rs => cellsNoTable cells && rowsNoTable rs
  | _ :: rs => rowsNoTable rs

theorem compileCells_tableFree (cfg : Cfg) (d : Deco) : ∀ (cells : List RNode) (c : Nat), cellsNoTable cells = true →
    cellsTableFree (compileCells cfg d c cells) = true := by
  intro cells
  induction cells with
  | nil => intro c _; rfl
  | cons x cs ih =>
    intro c h
    cases x with
    | cell st span kids =>
      simp only [cellsNoTable, Bool.and_eq_true] at h
      simp only [compileCells, cellsTableFree, Bool.and_eq_true]
      refine ⟨?_, ih _ h.2⟩
      exact (FragSpec.wrap (compileList_frags cfg d kids h.1)).2
    | _ => simpa [compileCells, cellsNoTable] using ih c (by simpa [cellsNoTable] using h)

theorem compileRows_tableFree (cfg : Cfg) (d : Deco) : ∀ (rows : List RNode), rowsNoTable rows = true →
    rowsTableFree (compileRows cfg d rows) = true := by
  intro rows
  induction rows with
  | nil => intro _; rfl
  | cons x rs ih =>
    intro h
    cases x with
    | row st cells =>
      simp only [rowsNoTable, Bool.and_eq_true] at h
      simp only [compileRows, rowsTableFree, Bool.and_eq_true]
      exact ⟨compileCells_tableFree cfg d cells 0 h.1, ih h.2⟩
    | _ => simpa [compileRows, rowsNoTable] using ih (by simpa [rowsNoTable] using h)

end H2T
