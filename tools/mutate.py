#!/usr/bin/env python3
"""Mechanical mutation run (advisory, not a registered check): how many small syntactic changes to /repo/src that still
compile and pass both unedited test suites do the property streams detect?

usage: tools/mutate.py <n_mutants> <seed> [workers]   — writes work/mutation_<seed>.json and prints a summary.
Every worker owns a scratch git worktree of /repo's HEAD and a copy of the harness whose path dependency points at it
(all under /tmp/h2t-mut, removed at the end); /repo itself is never touched.  A mutant is
  - invalid    if it does not compile,
  - killed_by_tests if `cargo test` (default features) or `cargo test --features css` fails,
  - detected   if some property's quick stream (tried in the order CORR, C01..C20; the first report ends the search) reports whole-observation drift, a projection disagreement or an oracle
               violation that is not a known finding (the baseline reports none),
  - survived   otherwise (listed with its diff: an equivalent mutant, or a gap)."""
import json, os, random, re, shutil, subprocess, sys, time
from multiprocessing import Pool

ROOT = os.path.dirname(os.path.dirname(os.path.abspath(__file__)))
SCR = "/tmp/h2t-mut"
FILES = [f for f in os.environ.get("MUT_FILES", "").split(",") if f] or ["src/render/text_renderer.rs", "src/lib.rs", "src/css.rs", "src/css/parser.rs"]   # MUT_FILES=a,b restricts the run
PROPS = ["CORR"] + ["C%02d" % i for i in range(1, 21)]   # CORR first: the general correspondence stream catches most
ENV = dict(os.environ, CARGO_NET_OFFLINE="true")

OPS = [  # (regex, replacement) applied to one match on one line
    (r" < ", " <= "), (r" <= ", " < "), (r" > ", " >= "), (r" >= ", " > "), (r" == ", " != "), (r" != ", " == "),
    (r" && ", " || "), (r" \|\| ", " && "), (r" \+ 1\b", " + 0"), (r" - 1\b", " - 0"), (r" \+ 1\b", " + 2"), (r" \+ ", " - "), (r" - ", " + "),
    (r"\btrue\b", "false"), (r"\bfalse\b", "true"), (r"if !", "if "), (r"\.saturating_sub\(", ".wrapping_sub("), (r"\b0\b", "1"), (r"\b1\b", "0"),
    (r"\.max\(", ".min("), (r"\.min\(", ".max("), (r"\.is_empty\(\)", ".is_empty() == false"), (r"\.first\(\)", ".last()"), (r"\.last\(\)", ".first()"),
]


def candidate_sites():
    sites = []
    for f in FILES:
        lines = open(os.path.join("/repo", f), encoding="utf-8").read().split("\n")
        in_skip = 0
        for i, l in enumerate(lines):
            s = l.strip()
            # skip comments, attributes, tracing, Debug/Display code, signatures and generics-heavy lines
            if not s or s.startswith("//") or s.startswith("#[") or "html_trace" in s or "writeln!" in s or "write!" in s or "fmt::" in s or s.startswith("fn ") or s.startswith("pub fn ") or s.startswith("impl") or s.startswith("use ") or "unreachable!" in s or "panic!" in s or "todo!" in s:
                continue
            for k, (rx, rep) in enumerate(OPS):
                for m in re.finditer(rx, l):
                    # avoid generics / arrows / lifetimes
                    ctx = l[max(0, m.start() - 2):m.end() + 2]
                    if "->" in ctx or "=>" in ctx or "<'" in ctx or "::<" in ctx:
                        continue
                    sites.append((f, i, m.start(), m.end(), k))
            if s.endswith(";") and re.match(r"^(self|builders|builder|renderer|sub_builder)\.[a-z_]+\(.*\)\??;$", s):
                sites.append((f, i, -1, -1, -1))  # statement deletion
    return sites


def apply_site(wt, site):
    f, i, a, b, k = site
    p = os.path.join(wt, f)
    lines = open(p, encoding="utf-8").read().split("\n")
    old = lines[i]
    if k == -1:
        lines[i] = re.sub(r"\S.*$", "();", old) if False else old[:len(old) - len(old.lstrip())] + "// (statement deleted)"
    else:
        lines[i] = old[:a] + re.sub(OPS[k][0], OPS[k][1], old[a:b], count=1) + old[b:]
    open(p, "w", encoding="utf-8").write("\n".join(lines))
    return old.strip(), lines[i].strip()


def sh(cmd, cwd, timeout):
    try:
        p = subprocess.run(cmd, cwd=cwd, stdout=subprocess.PIPE, stderr=subprocess.STDOUT, text=True, timeout=timeout, env=ENV)
        return p.returncode, p.stdout
    except subprocess.TimeoutExpired:
        return 124, "timeout"


def setup_worker(w):
    wt, hz = "%s/wt%d" % (SCR, w), "%s/h%d" % (SCR, w)
    if not os.path.exists(wt):
        subprocess.run(["git", "-C", "/repo", "worktree", "add", "--detach", wt, "HEAD"], stdout=subprocess.DEVNULL, stderr=subprocess.DEVNULL)
    if not os.path.exists(hz):
        shutil.copytree(os.path.join(ROOT, "harness"), hz, ignore=shutil.ignore_patterns("target"))
        t = open(hz + "/Cargo.toml").read().replace('path = "/repo"', 'path = "%s"' % wt)
        open(hz + "/Cargo.toml", "w").write(t)
    return wt, hz


def run_one(args):
    idx, site, w = args
    wt, hz = setup_worker(w)
    subprocess.run(["git", "-C", wt, "checkout", "--", "."], stdout=subprocess.DEVNULL)
    if isinstance(site, dict):
        # re-check of a recorded mutant (usage: tools/mutate.py --recheck work/mutation_<seed>.json [workers]): the line is
        # replaced by its recorded mutated text
        p = os.path.join(wt, site["file"])
        lines = open(p, encoding="utf-8").read().split("\n")
        cur = lines[site["line"] - 1]
        old, new = site["old"], site["new"]
        if cur.strip() == old:
            lines[site["line"] - 1] = cur[:len(cur) - len(cur.lstrip())] + new
            open(p, "w", encoding="utf-8").write("\n".join(lines))
        else:
            new = old
        res = {"idx": idx, "file": site["file"], "line": site["line"], "old": old, "new": new}
    else:
        old, new = apply_site(wt, site)
        res = {"idx": idx, "file": site[0], "line": site[1] + 1, "old": old, "new": new}
    if old == new:
        res["status"] = "invalid"
        return res
    rc, out = sh(["cargo", "test", "--offline"], wt, 900)
    if rc != 0:
        res["status"] = "invalid" if ("error[" in out or "error:" in out and "test result" not in out) else "killed_by_tests"
        return res
    rc, out = sh(["cargo", "test", "--offline", "--features", "css"], wt, 900)
    if rc != 0:
        res["status"] = "invalid" if ("error[" in out and "test result" not in out) else "killed_by_tests"
        return res
    rc, out = sh(["cargo", "build", "--offline"], hz, 900)
    if rc != 0:
        res["status"] = "invalid"
        return res
    model = os.path.join(ROOT, "lean/.lake/build/bin/h2t_model")
    hits = {}
    os.makedirs("%s/rep%d" % (SCR, w), exist_ok=True)
    for p in PROPS:
        rp = "%s/res%d_%s.json" % (SCR, w, p)
        if os.path.exists(rp):
            os.remove(rp)
        rc, _ = sh([hz + "/target/debug/h2t-harness", "run", p, "quick", "1", model, rp, "%s/rep%d" % (SCR, w)], ROOT, 240)
        if rc == 124:
            # the stream did not finish in 4 minutes (the unchanged tree needs seconds): the mutant hangs or crawls
            subprocess.run(["pkill", "-9", "-f", hz + "/target/debug/h2t-harness"])
            hits[p] = "timeout"
            break
        try:
            d = json.load(open(rp))
            n = (d["whole_observation_drift"], d["projection_disagreements"], d["oracle_violations"])
            if sum(n) > 0:
                hits[p] = n
                break   # one report is enough: detected
        except Exception:
            hits[p] = "no-result"
            break
    shutil.rmtree("%s/rep%d" % (SCR, w), ignore_errors=True)
    res["status"] = "detected" if hits else "survived"
    res["detected_by"] = hits
    return res


def recheck():
    prev = json.load(open(sys.argv[2]))
    workers = int(sys.argv[3]) if len(sys.argv) > 3 else 4
    os.makedirs(SCR, exist_ok=True)
    only = set(os.environ.get("MUT_ONLY", "").split(",")) - {""}   # optional: source line numbers to re-check
    todo = [r for r in prev["results"] if r["status"] == "survived" and (not only or str(r["line"]) in only)]
    jobs = [(r["idx"], r, i % workers) for i, r in enumerate(todo)]
    with Pool(workers) as pool:
        parts = pool.map(run_part, [[j for j in jobs if j[2] == w] for w in range(workers)])
    for r in sorted([r for part in parts for r in part], key=lambda r: r["idx"]):
        print("%s %s:%d  %s  ->  %s  %s" % (r["status"].upper(), r["file"], r["line"], r["old"], r["new"], r.get("detected_by", "")))
        for q in prev["results"]:
            if q["idx"] == r["idx"] and r["status"] == "detected":
                q["status"], q["detected_by"], q["detected_after_strengthening"] = "detected", r["detected_by"], True
    prev["summary"] = {}
    for q in prev["results"]:
        prev["summary"][q["status"]] = prev["summary"].get(q["status"], 0) + 1
    json.dump(prev, open(sys.argv[2], "w"), indent=1, ensure_ascii=False)
    print(json.dumps(prev["summary"]))
    for w in range(workers):
        subprocess.run(["git", "-C", "/repo", "worktree", "remove", "--force", "%s/wt%d" % (SCR, w)], stdout=subprocess.DEVNULL, stderr=subprocess.DEVNULL)
    shutil.rmtree(SCR, ignore_errors=True)


def main():
    if sys.argv[1] == "--recheck":
        return recheck()
    n, seed = int(sys.argv[1]), int(sys.argv[2])
    workers = int(sys.argv[3]) if len(sys.argv) > 3 else 6
    os.makedirs(SCR, exist_ok=True)
    rnd = random.Random(seed)
    sites = candidate_sites()
    rnd.shuffle(sites)
    # spread over files and operators: at most 3 mutants per source line
    seen, chosen = {}, []
    for s in sites:
        key = (s[0], s[1])
        if seen.get(key, 0) >= 1:
            continue
        seen[key] = seen.get(key, 0) + 1
        chosen.append(s)
        if len(chosen) >= n:
            break
    t0 = time.time()
    jobs = [(i, s, i % workers) for i, s in enumerate(chosen)]
    # each worker id must be used by one process at a time: partition the jobs by worker id
    with Pool(workers) as pool:
        parts = pool.map(run_part, [[j for j in jobs if j[2] == w] for w in range(workers)])
    results = sorted([r for part in parts for r in part], key=lambda r: r["idx"])
    summary = {}
    for r in results:
        summary[r["status"]] = summary.get(r["status"], 0) + 1
    out = {"seed": seed, "requested": n, "candidate_sites": len(sites), "wall_s": round(time.time() - t0, 1), "summary": summary, "results": results}
    os.makedirs(os.path.join(ROOT, "work"), exist_ok=True)
    json.dump(out, open(os.path.join(ROOT, "work", "mutation_%d.json" % seed), "w"), indent=1, ensure_ascii=False)
    print(json.dumps(summary), "in %.0fs" % (time.time() - t0))
    for r in results:
        if r["status"] == "survived":
            print("SURVIVED %s:%d  %s  ->  %s" % (r["file"], r["line"], r["old"], r["new"]))
    for w in range(workers):
        subprocess.run(["git", "-C", "/repo", "worktree", "remove", "--force", "%s/wt%d" % (SCR, w)], stdout=subprocess.DEVNULL, stderr=subprocess.DEVNULL)
    shutil.rmtree(SCR, ignore_errors=True)


def run_part(jobs):
    return [run_one(j) for j in jobs]


if __name__ == "__main__":
    main()
