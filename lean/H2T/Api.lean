import H2T.Render

/-! The public routes of the crate as compositions of the one pipeline `renderTree`
    (`Config::{string_from_read, lines_from_read, coloured, render_to_string, render_to_lines}`). -/

namespace H2T

/-- `RenderLine::into_tagged_line` followed by `TaggedLine::into_tagged_strings`: the characters of a line
    (fragment markers carry no text; a rule prints its glyphs) -/
def lineChars : RLine → List Ch
  | .text tl => tl.filterMap fun e => match e with | .cell c => some c.ch | .frag _ => none
  | .rule b _ => b.chars

/-- `lines_from_read` / `render_to_lines` -/
def routeLines (cfg : Cfg) (d : Deco) (w : Nat) (tree : RNode) : Except Err (List RLine) := renderTree cfg d w tree

/-- `string_from_read` / `render_to_string`: each line's characters followed by a newline -/
def routeString (cfg : Cfg) (d : Deco) (w : Nat) (tree : RNode) : Except Err (List Ch) :=
  andThen (renderTree cfg d w tree) fun ls => .ok (ls.flatMap fun l => lineChars l ++ [⟨10, 0, true, true⟩])

/-- `coloured` with a colour map: every run of characters is passed through `cmap` with its tag vector -/
def routeColoured (cfg : Cfg) (d : Deco) (w : Nat) (tree : RNode) (cmap : Tag → List Ch → List Ch) : Except Err (List Ch) :=
  andThen (renderTree cfg d w tree) fun ls =>
    .ok (ls.flatMap fun l =>
      (match l with
       | .text tl => tl.flatMap fun e => match e with | .cell c => cmap c.tag [c.ch] | .frag _ => []
       | .rule b t => b.chars.flatMap fun c => cmap t [c]) ++ [⟨10, 0, true, true⟩])

/-- the staged route: one render tree, rendered at each width of a history in turn (on clones) -/
def routeStaged (cfg : Cfg) (d : Deco) (tree : RNode) (ws : List Nat) : List (Except Err (List Ch)) :=
  ws.map fun w => routeString cfg d w tree

end H2T
