import H2T.Lemmas.ConserveTagTableRun
import H2T.Lemmas.TagTreePre

/-! C09, tree level, tables included: the specification `nodeTT` walks tables too — the table's, the row's and the cell's
    colours are on the stack of every text in the cell; each cell starts a fresh strikeout count and `pre` depth. -/

namespace H2T

mutual
/-- **the specification, `<pre>` included** -/
def nodeTT (ν : Tag → Tag) (cfg : Cfg) (d : Deco) (st : Tag) (dep pre : Nat) : RNode → List Cell
  | .text sty s => tcellsN ν d (st ++ styleTags d sty) dep (preIn sty pre) s
  | .img sty src title => tcellsN ν d (st ++ styleTags d sty ++ [d.annOf (Ann.image src)]) dep (preIn sty pre) (d.imgText title)
  | .br _ => []
  | .frag _ => []
  | .box sty k kids =>
    let s1 := st ++ styleTags d sty
    let p1 := preIn sty pre
    match k with
    | .container => listTT ν cfg d s1 dep p1 kids
    | .block => listTT ν cfg d s1 dep p1 kids
    | .li => listTT ν cfg d s1 dep p1 kids
    | .div => listTT ν cfg d s1 dep p1 kids
    | .dl => listTT ν cfg d s1 dep p1 kids
    | .link href =>
      let a := s1 ++ [d.annOf (Ann.link href)]
      tcellsN ν d a dep p1 d.linkStart ++ listTT ν cfg d a dep p1 kids ++ tcellsN ν d a dep p1 d.linkEnd
    | .em =>
      let a := s1 ++ [d.annOf Ann.em]
      tcellsN ν d a dep p1 d.emStart ++ listTT ν cfg d a dep p1 kids ++ tcellsN ν d a dep p1 d.emEnd
    | .strong =>
      let a := s1 ++ [d.annOf Ann.strong]
      tcellsN ν d a dep p1 d.strongStart ++ listTT ν cfg d a dep p1 kids ++ tcellsN ν d a dep p1 d.strongEnd
    | .strike =>
      let a := s1 ++ [d.annOf Ann.strike]
      tcellsN ν d a dep p1 d.strikeStart ++ listTT ν cfg d a (if cfg.unicodeStrike then dep + 1 else dep) p1 kids ++ tcellsN ν d a dep p1 d.strikeEnd
    | .code =>
      let a := s1 ++ [d.annOf Ann.code]
      tcellsN ν d a dep p1 d.codeStart ++ listTT ν cfg d a dep p1 kids ++ tcellsN ν d a dep p1 d.codeEnd
    | .dt =>
      let a := s1 ++ [d.annOf Ann.em]
      tcellsN ν d a dep p1 d.emStart ++ listTT ν cfg d a dep p1 kids ++ tcellsN ν d a dep p1 d.emEnd
    | .header _ => listTT ν cfg d s1 0 0 kids
    | .quote => listTT ν cfg d s1 0 0 kids
    | .dd => listTT ν cfg d s1 0 0 kids
    | .ul => itemsTT ν cfg d s1 kids
    | .ol _ => itemsTT ν cfg d s1 kids
    | .sup =>
      match supDigits kids with
      | some ds => tcellsN ν d s1 dep p1 ds
      | none =>
        let a := s1 ++ [d.annOf Ann.dflt]
        tcellsN ν d a dep p1 d.supStart ++ listTT ν cfg d a dep p1 kids ++ tcellsN ν d a dep p1 d.supEnd
  | .cell sty _ kids => listTT ν cfg d (st ++ styleTags d sty) dep (preIn sty pre) kids
  | .row _ _ => []
  | .tbody _ _ => []
  | .table sty rows _ => rowsTT ν cfg d (st ++ styleTags d sty) rows
def listTT (ν : Tag → Tag) (cfg : Cfg) (d : Deco) (st : Tag) (dep pre : Nat) : List RNode → List Cell
  | [] => []
  | n :: ns => nodeTT ν cfg d st dep pre n ++ listTT ν cfg d st dep pre ns
/-- list items: each is rendered by its own sub-renderer (fresh strikeout count, `pre` depth 0) -/
def itemsTT (ν : Tag → Tag) (cfg : Cfg) (d : Deco) (st : Tag) : List RNode → List Cell
  | [] => []
  | n :: ns => nodeTT ν cfg d st 0 0 n ++ itemsTT ν cfg d st ns
/-- the rows of a table: the row's colours are in force for its cells -/
def rowsTT (ν : Tag → Tag) (cfg : Cfg) (d : Deco) (st : Tag) : List RNode → List Cell
  | [] => []
  | .row sty cells :: rs => cellsTT ν cfg d (st ++ styleTags d sty) cells ++ rowsTT ν cfg d st rs
  | _ :: rs => rowsTT ν cfg d st rs
/-- the cells of a row: each is rendered by its own sub-renderer -/
def cellsTT (ν : Tag → Tag) (cfg : Cfg) (d : Deco) (st : Tag) : List RNode → List Cell
  | [] => []
  | .cell sty _ kids :: cs => listTT ν cfg d (st ++ styleTags d sty) 0 (preIn sty 0) kids ++ cellsTT ν cfg d st cs
  | _ :: cs => cellsTT ν cfg d st cs
end

theorem opsTinkT_append (ν : Tag → Tag) (cfg : Cfg) (d : Deco) : ∀ (a b : List Op) (st : Tag) (dep pre : Nat),
    opsTinkT ν cfg d st dep pre (a ++ b) =
      ((opsTinkT ν cfg d st dep pre a).1 ++
          (opsTinkT ν cfg d (opsTinkT ν cfg d st dep pre a).2.1 (opsTinkT ν cfg d st dep pre a).2.2.1 (opsTinkT ν cfg d st dep pre a).2.2.2 b).1,
       (opsTinkT ν cfg d (opsTinkT ν cfg d st dep pre a).2.1 (opsTinkT ν cfg d st dep pre a).2.2.1 (opsTinkT ν cfg d st dep pre a).2.2.2 b).2) := by
  intro a
  induction a with
  | nil => intro b st dep pre; simp [opsTinkT]
  | cons x a ih =>
    intro b st dep pre
    simp only [List.cons_append, opsTinkT, ih, List.append_assoc]

theorem opsTinkT_styleOpen (ν : Tag → Tag) (cfg : Cfg) (d : Deco) (sty : Style) (st : Tag) (dep pre : Nat) :
    opsTinkT ν cfg d st dep pre (styleOpen d sty) = ([], st ++ styleTags d sty, dep, preIn sty pre) := by
  unfold styleOpen styleTags preIn
  cases sty.fg <;> cases sty.bg <;> cases d.colours <;> cases sty.pre <;> (cases sty.ws with | none => simp [opsTinkT, opTinkT, opTinkN] | some m => cases m <;> simp [opsTinkT, opTinkT, opTinkN])

theorem opsTinkT_styleClose (ν : Tag → Tag) (cfg : Cfg) (d : Deco) (sty : Style) (st : Tag) (dep pre : Nat) :
    opsTinkT ν cfg d (st ++ styleTags d sty) dep (preIn sty pre) (styleClose d sty) = ([], st, dep, pre) := by
  unfold styleClose styleTags preIn
  cases sty.fg <;> cases sty.bg <;> cases d.colours <;> cases sty.pre <;> (cases sty.ws with | none => simp [opsTinkT, opTinkT, opTinkN] | some m => cases m <;> simp [opsTinkT, opTinkT, opTinkN])

theorem opsTinkT_styled (ν : Tag → Tag) (cfg : Cfg) (d : Deco) (sty : Style) (st : Tag) (dep pre : Nat) (inner : List Op) (cells : List Cell)
    (h : opsTinkT ν cfg d (st ++ styleTags d sty) dep (preIn sty pre) inner = (cells, st ++ styleTags d sty, dep, preIn sty pre)) :
    opsTinkT ν cfg d st dep pre (styleOpen d sty ++ inner ++ styleClose d sty) = (cells, st, dep, pre) := by
  rw [List.append_assoc, opsTinkT_append, opsTinkT_styleOpen]
  simp only [opsTinkT_append, h, opsTinkT_styleClose, List.nil_append, List.append_nil]

theorem opsTinkT_bracket (ν : Tag → Tag) (cfg : Cfg) (d : Deco) (a : Ann) (x y : List Ch) (strike : Bool) (st : Tag) (dep pre : Nat) (body : List Op)
    (cells : List Cell)
    (h : opsTinkT ν cfg d (st ++ [d.annOf a]) (if (strike && cfg.unicodeStrike) = true then dep + 1 else dep) pre body =
      (cells, st ++ [d.annOf a], (if (strike && cfg.unicodeStrike) = true then dep + 1 else dep), pre)) :
    opsTinkT ν cfg d st dep pre ([.startAnn a x strike] ++ body ++ [.endAnn y strike]) =
      (tcellsN ν d (st ++ [d.annOf a]) dep pre x ++ cells ++ tcellsN ν d (st ++ [d.annOf a]) dep pre y, st, dep, pre) := by
  simp only [List.singleton_append, opsTinkT, opTinkT, opTinkN, opsTinkT_append, h, tcellsN]
  by_cases hs : (strike && cfg.unicodeStrike) = true
  · simp [hs]
  · simp [hs]

theorem opsTinkT_link (ν : Tag → Tag) (cfg : Cfg) (d : Deco) (href : List Ch) (st : Tag) (dep pre : Nat) (body : List Op) (cells : List Cell)
    (h : opsTinkT ν cfg d (st ++ [d.annOf (Ann.link href)]) dep pre body = (cells, st ++ [d.annOf (Ann.link href)], dep, pre)) :
    opsTinkT ν cfg d st dep pre ([.startLink href] ++ body ++ [.endLink]) =
      (tcellsN ν d (st ++ [d.annOf (Ann.link href)]) dep pre d.linkStart ++ cells ++ tcellsN ν d (st ++ [d.annOf (Ann.link href)]) dep pre d.linkEnd, st, dep, pre) := by
  simp [opsTinkT, opTinkT, opTinkN, opsTinkT_append, h, tcellsN]

mutual
theorem opsTinkT_compile (ν : Tag → Tag) (cfg : Cfg) (d : Deco) : (n : RNode) → (st : Tag) → (dep pre : Nat) →
    opsTinkT ν cfg d st dep pre (compile cfg d n) = (nodeTT ν cfg d st dep pre n, st, dep, pre)
  | .text sty s, st, dep, pre => by
    simp only [compile, nodeTT]
    exact opsTinkT_styled ν cfg d sty st dep pre _ _ (by simp [opsTinkT, opTinkT, opTinkN, tcellsN])
  | .img sty src title, st, dep, pre => by
    simp only [compile, nodeTT]
    exact opsTinkT_styled ν cfg d sty st dep pre _ _ (by simp [opsTinkT, opTinkT, opTinkN, tcellsN])
  | .br sty, st, dep, pre => by
    simp only [compile, nodeTT]
    exact opsTinkT_styled ν cfg d sty st dep pre _ _ (by simp [opsTinkT, opTinkT, opTinkN])
  | .frag n, st, dep, pre => by simp [compile, nodeTT, opsTinkT, opTinkT, opTinkN]
  | .row _ _, st, dep, pre => by simp [compile, nodeTT, opsTinkT]
  | .tbody _ _, st, dep, pre => by simp [compile, nodeTT, opsTinkT]
  | .table sty rows n, st, dep, pre => by
    simp only [compile, nodeTT]
    exact opsTinkT_styled ν cfg d sty st dep pre _ _ (by
      simp only [opsTinkT, opTinkT, List.append_nil]
      rw [rowsTinkT_compileRows ν cfg d rows])
  | .cell sty _ kids, st, dep, pre => by
    simp only [compile, nodeTT]
    exact opsTinkT_styled ν cfg d sty st dep pre _ _ (opsTinkT_compileList ν cfg d kids _ _ _)
  | .box sty k kids, st, dep, pre => by
    have hb := fun s e p => opsTinkT_compileList ν cfg d kids s e p
    cases k with
    | container => simp only [compile, nodeTT]; exact opsTinkT_styled ν cfg d sty st dep pre _ _ (hb _ _ _)
    | link href => simp only [compile, nodeTT]; exact opsTinkT_styled ν cfg d sty st dep pre _ _ (opsTinkT_link ν cfg d href _ dep _ _ _ (hb _ _ _))
    | em =>
      simp only [compile, nodeTT]
      exact opsTinkT_styled ν cfg d sty st dep pre _ _ (by
        have := opsTinkT_bracket ν cfg d .em d.emStart d.emEnd false (st ++ styleTags d sty) dep (preIn sty pre) (compileList cfg d kids) _ (by simpa using hb _ _ _)
        simpa using this)
    | strong =>
      simp only [compile, nodeTT]
      exact opsTinkT_styled ν cfg d sty st dep pre _ _ (by
        have := opsTinkT_bracket ν cfg d .strong d.strongStart d.strongEnd false (st ++ styleTags d sty) dep (preIn sty pre) (compileList cfg d kids) _ (by simpa using hb _ _ _)
        simpa using this)
    | strike =>
      simp only [compile, nodeTT]
      exact opsTinkT_styled ν cfg d sty st dep pre _ _ (by
        have := opsTinkT_bracket ν cfg d .strike d.strikeStart d.strikeEnd true (st ++ styleTags d sty) dep (preIn sty pre) (compileList cfg d kids) _ (by simpa using hb _ _ _)
        simpa using this)
    | code =>
      simp only [compile, nodeTT]
      exact opsTinkT_styled ν cfg d sty st dep pre _ _ (by
        have := opsTinkT_bracket ν cfg d .code d.codeStart d.codeEnd false (st ++ styleTags d sty) dep (preIn sty pre) (compileList cfg d kids) _ (by simpa using hb _ _ _)
        simpa using this)
    | block => simp only [compile, nodeTT]; exact opsTinkT_styled ν cfg d sty st dep pre _ _ (by simp [opsTinkT, opTinkT, opTinkN, opsTinkT_append, hb])
    | li => simp only [compile, nodeTT]; exact opsTinkT_styled ν cfg d sty st dep pre _ _ (by simp [opsTinkT, opTinkT, opTinkN, opsTinkT_append, hb])
    | header lvl => simp only [compile, nodeTT]; exact opsTinkT_styled ν cfg d sty st dep pre _ _ (by simp [opsTinkT, opTinkT, opTinkN, hb])
    | div => simp only [compile, nodeTT]; exact opsTinkT_styled ν cfg d sty st dep pre _ _ (by simp [opsTinkT, opTinkT, opTinkN, opsTinkT_append, hb])
    | quote => simp only [compile, nodeTT]; exact opsTinkT_styled ν cfg d sty st dep pre _ _ (by simp [opsTinkT, opTinkT, opTinkN, hb])
    | ul => simp only [compile, nodeTT]; exact opsTinkT_styled ν cfg d sty st dep pre _ _ (opsTinkT_compileItems ν cfg d _ _ _ _ 0 kids _ dep _)
    | ol start => simp only [compile, nodeTT]; exact opsTinkT_styled ν cfg d sty st dep pre _ _ (opsTinkT_compileItems ν cfg d _ _ _ _ 0 kids _ dep _)
    | dl => simp only [compile, nodeTT]; exact opsTinkT_styled ν cfg d sty st dep pre _ _ (by simp [opsTinkT, opTinkT, opTinkN, hb])
    | dt =>
      simp only [compile, nodeTT]
      exact opsTinkT_styled ν cfg d sty st dep pre _ _ (by
        have := opsTinkT_bracket ν cfg d .em d.emStart d.emEnd false (st ++ styleTags d sty) dep (preIn sty pre) _ _ (by simpa using hb _ _ _)
        simpa [opsTinkT, opTinkT, opTinkN] using this)
    | dd => simp only [compile, nodeTT]; exact opsTinkT_styled ν cfg d sty st dep pre _ _ (by simp [opsTinkT, opTinkT, opTinkN, hb])
    | sup =>
      simp only [compile, nodeTT]
      cases hsd : supDigits kids with
      | some ds => exact opsTinkT_styled ν cfg d sty st dep pre _ _ (by simp [opsTinkT, opTinkT, opTinkN, tcellsN])
      | none =>
        exact opsTinkT_styled ν cfg d sty st dep pre _ _ (by
          have := opsTinkT_bracket ν cfg d .dflt d.supStart d.supEnd false (st ++ styleTags d sty) dep (preIn sty pre) (compileList cfg d kids) _ (by simpa using hb _ _ _)
          simpa using this)
theorem opsTinkT_compileList (ν : Tag → Tag) (cfg : Cfg) (d : Deco) : (ns : List RNode) → (st : Tag) → (dep pre : Nat) →
    opsTinkT ν cfg d st dep pre (compileList cfg d ns) = (listTT ν cfg d st dep pre ns, st, dep, pre)
  | [], st, dep, pre => by simp [compileList, opsTinkT, listTT]
  | n :: ns, st, dep, pre => by
    simp [compileList, opsTinkT_append, listTT, opsTinkT_compile ν cfg d n, opsTinkT_compileList ν cfg d ns]
theorem opsTinkT_compileItems (ν : Tag → Tag) (cfg : Cfg) (d : Deco) (pw minW : Nat) (first : Nat → List Ch) (rest : List Ch) :
    (i : Nat) → (ns : List RNode) → (st : Tag) → (dep pre : Nat) →
    opsTinkT ν cfg d st dep pre (compileItems cfg d pw minW first rest i ns) = (itemsTT ν cfg d st ns, st, dep, pre)
  | _, [], st, dep, pre => by simp [compileItems, opsTinkT, itemsTT]
  | i, n :: ns, st, dep, pre => by
    simp [compileItems, opsTinkT, opTinkT, opTinkN, itemsTT, opsTinkT_compile ν cfg d n, opsTinkT_compileItems ν cfg d pw minW first rest (i + 1) ns]
theorem rowsTinkT_compileRows (ν : Tag → Tag) (cfg : Cfg) (d : Deco) : (rows : List RNode) → (st : Tag) → (dep pre : Nat) →
    rowsTinkT ν cfg d st dep pre (compileRows cfg d rows) = (rowsTT ν cfg d st rows, st, dep, pre)
  | [], st, dep, pre => by simp [compileRows, rowsTinkT, rowsTT]
  | .row sty cells :: rs, st, dep, pre => by
    simp only [compileRows, rowsTinkT, rowsTT, opsTinkT_styleOpen, opsTinkT_styleClose, List.nil_append,
      cellsTinkT_compileCells ν cfg d 0 cells, rowsTinkT_compileRows ν cfg d rs st dep pre]
  | .text .. :: rs, st, dep, pre => by simp only [compileRows, rowsTT]; exact rowsTinkT_compileRows ν cfg d rs st dep pre
  | .img .. :: rs, st, dep, pre => by simp only [compileRows, rowsTT]; exact rowsTinkT_compileRows ν cfg d rs st dep pre
  | .br .. :: rs, st, dep, pre => by simp only [compileRows, rowsTT]; exact rowsTinkT_compileRows ν cfg d rs st dep pre
  | .frag .. :: rs, st, dep, pre => by simp only [compileRows, rowsTT]; exact rowsTinkT_compileRows ν cfg d rs st dep pre
  | .box .. :: rs, st, dep, pre => by simp only [compileRows, rowsTT]; exact rowsTinkT_compileRows ν cfg d rs st dep pre
  | .cell .. :: rs, st, dep, pre => by simp only [compileRows, rowsTT]; exact rowsTinkT_compileRows ν cfg d rs st dep pre
  | .tbody .. :: rs, st, dep, pre => by simp only [compileRows, rowsTT]; exact rowsTinkT_compileRows ν cfg d rs st dep pre
  | .table .. :: rs, st, dep, pre => by simp only [compileRows, rowsTT]; exact rowsTinkT_compileRows ν cfg d rs st dep pre
theorem cellsTinkT_compileCells (ν : Tag → Tag) (cfg : Cfg) (d : Deco) : (colno : Nat) → (cells : List RNode) → (st : Tag) →
    cellsTinkT ν cfg d st (compileCells cfg d colno cells) = cellsTT ν cfg d st cells
  | _, [], st => by simp [compileCells, cellsTinkT, cellsTT]
  | colno, .cell sty span kids :: cs, st => by
    simp only [compileCells, cellsTinkT, cellsTT, cellsTinkT_compileCells ν cfg d (colno + span) cs st]
    rw [opsTinkT_styled ν cfg d sty st 0 0 _ _ (opsTinkT_compileList ν cfg d kids _ _ _)]
  | colno, .text .. :: cs, st => by simp only [compileCells, cellsTT]; exact cellsTinkT_compileCells ν cfg d colno cs st
  | colno, .img .. :: cs, st => by simp only [compileCells, cellsTT]; exact cellsTinkT_compileCells ν cfg d colno cs st
  | colno, .br .. :: cs, st => by simp only [compileCells, cellsTT]; exact cellsTinkT_compileCells ν cfg d colno cs st
  | colno, .frag .. :: cs, st => by simp only [compileCells, cellsTT]; exact cellsTinkT_compileCells ν cfg d colno cs st
  | colno, .box .. :: cs, st => by simp only [compileCells, cellsTT]; exact cellsTinkT_compileCells ν cfg d colno cs st
  | colno, .row .. :: cs, st => by simp only [compileCells, cellsTT]; exact cellsTinkT_compileCells ν cfg d colno cs st
  | colno, .tbody .. :: cs, st => by simp only [compileCells, cellsTT]; exact cellsTinkT_compileCells ν cfg d colno cs st
  | colno, .table .. :: cs, st => by simp only [compileCells, cellsTT]; exact cellsTinkT_compileCells ν cfg d colno cs st
end


/-! ## every tree compiles to a covered program -/

theorem tOkOps_append (P : Ch → Bool) (a b : List Op) : tOkOps P (a ++ b) = (tOkOps P a && tOkOps P b) := by
  induction a with
  | nil => simp [tOkOps]
  | cons x a ih => simp [tOkOps, ih, Bool.and_assoc]

theorem tOk_styleOpen (P : Ch → Bool) (d : Deco) (sty : Style) : tOkOps P (styleOpen d sty) = true := by
  unfold styleOpen
  cases sty.fg <;> cases sty.bg <;> cases d.colours <;> cases sty.pre <;> (cases sty.ws with | none => simp [tOkOps, tOkOp] | some m => cases m <;> simp [tOkOps, tOkOp])

theorem tOk_styleClose (P : Ch → Bool) (d : Deco) (sty : Style) : tOkOps P (styleClose d sty) = true := by
  unfold styleClose
  cases sty.fg <;> cases sty.bg <;> cases d.colours <;> cases sty.pre <;> (cases sty.ws with | none => simp [tOkOps, tOkOp] | some m => cases m <;> simp [tOkOps, tOkOp])

mutual
theorem tOk_compile (P : Ch → Bool) (cfg : Cfg) (d : Deco) (hd : DecoAvoids P d) : (n : RNode) →
    tOkOps P (compile cfg d n) = true
  | .text sty s => by simp [compile, tOkOps_append, tOk_styleOpen, tOk_styleClose, tOkOps, tOkOp]
  | .img sty _ _ => by simp [compile, tOkOps_append, tOk_styleOpen, tOk_styleClose, tOkOps, tOkOp]
  | .br sty => by simp [compile, tOkOps_append, tOk_styleOpen, tOk_styleClose, tOkOps, tOkOp]
  | .frag _ => by simp [compile, tOkOps, tOkOp]
  | .row _ _ => by simp [compile, tOkOps]
  | .tbody _ _ => by simp [compile, tOkOps]
  | .table sty rows _ => by
    simp [compile, tOkOps_append, tOk_styleOpen, tOk_styleClose, tOkOps, tOkOp, tOk_compileRows P cfg d hd rows]
  | .cell sty _ kids => by
    simp [compile, tOkOps_append, tOk_styleOpen, tOk_styleClose, tOk_compileList P cfg d hd kids]
  | .box sty k kids => by
    have hb := tOk_compileList P cfg d hd kids
    have ho := tOk_styleOpen P d sty
    have hc := tOk_styleClose P d sty
    cases k with
    | container => simp [compile, tOkOps_append, ho, hc, hb]
    | link href => simp [compile, tOkOps_append, ho, hc, hb, tOkOps, tOkOp]
    | em => simp [compile, tOkOps_append, ho, hc, hb, tOkOps, tOkOp]
    | strong => simp [compile, tOkOps_append, ho, hc, hb, tOkOps, tOkOp]
    | strike => simp [compile, tOkOps_append, ho, hc, hb, tOkOps, tOkOp]
    | code => simp [compile, tOkOps_append, ho, hc, hb, tOkOps, tOkOp]
    | block => simp [compile, tOkOps_append, ho, hc, hb, tOkOps, tOkOp]
    | li => simp [compile, tOkOps_append, ho, hc, hb, tOkOps, tOkOp]
    | header lvl => simp [compile, tOkOps_append, ho, hc, hb, tOkOps, tOkOp, hd.header]
    | div => simp [compile, tOkOps_append, ho, hc, hb, tOkOps, tOkOp]
    | quote => simp [compile, tOkOps_append, ho, hc, hb, tOkOps, tOkOp, hd.quote]
    | ul =>
      simp only [compile, tOkOps_append, ho, hc, Bool.true_and, Bool.and_true]
      exact tOk_compileItems P cfg d hd _ _ _ _ (fun _ => hd.ul) (avoids_spaces P _) 0 kids
    | ol start =>
      simp only [compile, tOkOps_append, ho, hc, Bool.true_and, Bool.and_true]
      exact tOk_compileItems P cfg d hd _ _ _ _ (fun i => avoids_padTo P _ _ (hd.ol _)) (avoids_spaces P _) 0 kids
    | dl => simp [compile, tOkOps_append, ho, hc, hb, tOkOps, tOkOp]
    | dt => simp [compile, tOkOps_append, ho, hc, hb, tOkOps, tOkOp]
    | dd =>
      have : avoids P (strCh "  ") = true := by simp [avoids, strCh, spaceCh]
      simp [compile, tOkOps_append, ho, hc, hb, tOkOps, tOkOp, this]
    | sup =>
      simp only [compile]
      cases hsd : supDigits kids with
      | some ds => simp [tOkOps_append, ho, hc, tOkOps, tOkOp]
      | none => simp [tOkOps_append, ho, hc, hb, tOkOps, tOkOp]
theorem tOk_compileList (P : Ch → Bool) (cfg : Cfg) (d : Deco) (hd : DecoAvoids P d) : (ns : List RNode) →
    tOkOps P (compileList cfg d ns) = true
  | [] => by simp [compileList, tOkOps]
  | n :: ns => by
    simp [compileList, tOkOps_append, tOk_compile P cfg d hd n, tOk_compileList P cfg d hd ns]
theorem tOk_compileItems (P : Ch → Bool) (cfg : Cfg) (d : Deco) (hd : DecoAvoids P d) (pw minW : Nat) (first : Nat → List Ch) (rest : List Ch)
    (hf : ∀ i, avoids P (first i) = true) (hr : avoids P rest = true) :
    (i : Nat) → (ns : List RNode) → tOkOps P (compileItems cfg d pw minW first rest i ns) = true
  | _, [] => by simp [compileItems, tOkOps]
  | i, n :: ns => by
    simp [compileItems, tOkOps, tOkOp, hf i, hr, tOk_compile P cfg d hd n,
      tOk_compileItems P cfg d hd pw minW first rest hf hr (i + 1) ns]
theorem tOk_compileRows (P : Ch → Bool) (cfg : Cfg) (d : Deco) (hd : DecoAvoids P d) : (rows : List RNode) →
    tOkOps P (compileRows cfg d rows) = true
  | [] => by simp [compileRows, tOkOps]
  | .row sty cells :: rs => by
    simp [compileRows, tOkOps, tOkOp, tOk_styleOpen, tOk_styleClose, tOk_compileCells P cfg d hd 0 cells, tOk_compileRows P cfg d hd rs]
  | .text .. :: rs => by simp only [compileRows]; exact tOk_compileRows P cfg d hd rs
  | .img .. :: rs => by simp only [compileRows]; exact tOk_compileRows P cfg d hd rs
  | .br .. :: rs => by simp only [compileRows]; exact tOk_compileRows P cfg d hd rs
  | .frag .. :: rs => by simp only [compileRows]; exact tOk_compileRows P cfg d hd rs
  | .box .. :: rs => by simp only [compileRows]; exact tOk_compileRows P cfg d hd rs
  | .cell .. :: rs => by simp only [compileRows]; exact tOk_compileRows P cfg d hd rs
  | .tbody .. :: rs => by simp only [compileRows]; exact tOk_compileRows P cfg d hd rs
  | .table .. :: rs => by simp only [compileRows]; exact tOk_compileRows P cfg d hd rs
theorem tOk_compileCells (P : Ch → Bool) (cfg : Cfg) (d : Deco) (hd : DecoAvoids P d) : (colno : Nat) → (cells : List RNode) →
    tOkOps P (compileCells cfg d colno cells) = true
  | _, [] => by simp [compileCells, tOkOps]
  | colno, .cell sty span kids :: cs => by
    simp [compileCells, tOkOps, tOkOp, tOkOps_append, tOk_styleOpen, tOk_styleClose, tOk_compileList P cfg d hd kids,
      tOk_compileCells P cfg d hd (colno + span) cs]
  | colno, .text .. :: cs => by simp only [compileCells]; exact tOk_compileCells P cfg d hd colno cs
  | colno, .img .. :: cs => by simp only [compileCells]; exact tOk_compileCells P cfg d hd colno cs
  | colno, .br .. :: cs => by simp only [compileCells]; exact tOk_compileCells P cfg d hd colno cs
  | colno, .frag .. :: cs => by simp only [compileCells]; exact tOk_compileCells P cfg d hd colno cs
  | colno, .box .. :: cs => by simp only [compileCells]; exact tOk_compileCells P cfg d hd colno cs
  | colno, .row .. :: cs => by simp only [compileCells]; exact tOk_compileCells P cfg d hd colno cs
  | colno, .tbody .. :: cs => by simp only [compileCells]; exact tOk_compileCells P cfg d hd colno cs
  | colno, .table .. :: cs => by simp only [compileCells]; exact tOk_compileCells P cfg d hd colno cs
end

/-- **C09 for every render tree, tables included — no tagged character is invented**: for every viewed cell `y` (character
    outside the block prefixes' characters and not box-drawing, with its tag vector) the rendered lines hold `y` at most
    as often as the specification `nodeTT` — each character of a text node tagged with the annotations of its annotating
    ancestors (table, row and cell colours included), outermost first -/
theorem renderTree_tagsT (ν : Tag → Tag) (P : Ch → Bool) (y : Cell) (hyb : isBox y.ch = false) (hyP : P y.ch = true) (cfg : Cfg) (d : Deco)
    (hν : PreView ν d) (w : Nat) (tree : RNode) (ls : List RLine) (hfn : cfg.footnotes = false) (hd : DecoAvoids P d)
    (h : renderTree cfg d w tree = .ok ls) :
    ((ls.flatMap trink).map (retag ν)).count y ≤ (nodeTT ν cfg d [] 0 0 tree).count y := by
  have := renderTree_T ν P y hyb hyP cfg d hν w tree ls hfn (tOk_compile P cfg d hd tree) h
  rw [opsTinkT_compile] at this
  exact this

end H2T
