//! Helpers shared by the property modules.

use crate::cfg::{gen_cfg, Cfg, Deco};
use crate::gen::{Gen, Knobs};
use crate::obs::{El, Obs};
use crate::util::R;
use crate::{Case, Tier, Viol};

pub fn viol(what: impl Into<String>) -> Viol {
    Viol { what: what.into(), known: None }
}
pub fn known(what: impl Into<String>, k: &'static str) -> Viol {
    Viol { what: what.into(), known: Some(k) }
}

pub fn scale(tier: Tier, quick: usize, thorough: usize) -> usize {
    let m: usize = std::env::var("VERIF_SCALE").ok().and_then(|s| s.parse().ok()).unwrap_or(1);
    m * if tier == Tier::Quick { quick } else { thorough }
}

pub fn rand_deco(r: &mut R) -> Deco {
    match r.b(3) {
        0 => Deco::Plain,
        1 => Deco::Rich,
        _ => Deco::Trivial,
    }
}

pub fn gen_doc(r: &mut R, k: Knobs) -> (String, usize) {
    let mut g = Gen::new(r, k);
    let s = g.doc();
    let kinds = g.kinds.len();
    (s, kinds)
}

pub fn rand_width(r: &mut R, max: usize) -> usize {
    if r.p(50) {
        1 + r.u(12.min(max))
    } else {
        1 + r.u(max)
    }
}

/// whole observation as text (used as the default projection)
pub fn whole(o: &Obs) -> String {
    match o {
        Obs::Ok(ls) => {
            let mut s = String::new();
            for l in ls {
                for e in l {
                    match e {
                        El::Ch(c, t) => {
                            s.push(*c);
                            if !t.is_empty() {
                                s.push('{');
                                s.push_str(t);
                                s.push('}');
                            }
                        }
                        El::Frag(n) => {
                            s.push_str("⟦#");
                            s.push_str(n);
                            s.push('⟧');
                        }
                    }
                }
                s.push('\n');
            }
            s
        }
        o => o.class().to_string(),
    }
}

/// text only (no tags, no markers)
pub fn text_only(o: &Obs) -> String {
    match o.text_lines() {
        Some(ls) => ls.join("\n"),
        None => o.class().to_string(),
    }
}

pub fn mk_cfg(r: &mut R, css: bool) -> Cfg {
    let d = rand_deco(r);
    gen_cfg(r, d, css)
}

pub fn case(html: impl Into<Vec<u8>>, cfg: Cfg, width: usize, stream: &'static str) -> Case {
    Case::new(html, cfg, width, stream)
}

/// the first line at which two observations differ, for reports
pub fn first_diff(a: &Obs, b: &Obs) -> String {
    match (a.lines(), b.lines()) {
        (Some(x), Some(y)) => {
            let n = x.len().max(y.len());
            for i in 0..n {
                let l = x.get(i).map(|l| crate::obs::line_text_frags(l));
                let r = y.get(i).map(|l| crate::obs::line_text_frags(l));
                if l != r {
                    return format!("first difference at line {i} of {}/{}: {:?} vs {:?}", x.len(), y.len(), l, r);
                }
            }
            "no difference".into()
        }
        _ => format!("{} vs {}", a.class(), b.class()),
    }
}
