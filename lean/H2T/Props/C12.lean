import H2T.Lemmas.WrapInv
import H2T.Lemmas.TagTextPre
import H2T.Lemmas.PreVerbatim
import H2T.Lemmas.PreElement

/-! # C12 — preformatted text keeps its lines and spacing

Status: **partial** — proved on the wrap machine in `pre` mode: a newline always ends the current line (even an
empty one, so interior blank lines are kept) and clears pending spaces (line-trailing spaces are removed); a
non-whitespace character is never dropped — it is appended to the pending word with the main tag, or with the
continuation tag exactly from the point where the line would overflow; every emitted piece fits the width (the
C02 wrap-layer theorem applies to all three white-space modes).  **The fits-case is proved for the wrap machine**
(`pre_block_reproduced`, `Lemmas/PreVerbatim`): a block of source lines each of whose expansion — tabs to 8-column stops
from the current column, a whitespace character of width `w` as `w` blanks, characters without width dropped — fits the
width is emitted line for line, each output line being the expansion minus trailing blanks, tagged with the main tag
only.  (The proof attempt found a genuine defect, repaired by `fix:` 33c7307: a word consisting only of zero-width
characters was not flushed at the whitespace after it, so the invariant "line ++ pending blanks ++ word = expansion"
failed; two related corners — such a word at the start of a line in normal mode, and a `<br>` after a line holding
only such characters — are known findings.)  **End to end** (`Lemmas/PreElement`): the render tree of a `<pre>` element
holding one text (`pre_element_reproduced`), and the whole pipeline on the DOM html5ever builds for `<pre>text</pre>` without
style sheets (`pre_document_reproduced`: style computation, tree building, the sub-renderer's `add_inline_text`, `into_lines`),
return exactly one text line per source line — the expansion minus trailing blanks, every cell tagged `Preformat(false)`.
Texts with other inline structure inside `<pre>` (`<br>`, nested elements) are decided by correspondence and an independent
reference in the harness.
The property's claim about continuation tags is *refuted* for the unchanged code (a known finding): the
continuation tag starts at the character where a word first exceeds the line, not at the start of the
continuation piece. -/

namespace H2T.C12

/-- In `pre` mode a newline with no pending word flushes the line unconditionally: the finished-line list grows
    by exactly one line — an empty source line becomes an empty output line — and pending spaces are dropped. -/
theorem newline_ends_line (b : WB) (mt wt : Tag) (cur : Bool) (hw : b.word.noContent = true) :
    let nl : Ch := ⟨10, 0, true, true⟩
    ∃ b', b.addChar .pre mt wt cur nl = .ok (b', false) ∧ b'.text.length = b.text.length + 1 ∧
      b'.line = [] ∧ b'.wslen = 0 ∧ b'.spacetag = none ∧ b'.preWrapped = false := by
  refine ⟨{ b.forceFlush with wslen := 0, spacetag := none, preWrapped := false }, ?_, ?_, rfl, rfl, rfl, rfl⟩
  · simp [WB.addChar, hw, WS.preserve]
  · simp [WB.forceFlush]

/-- A non-whitespace character with a width is never dropped: it is appended to the pending word, tagged with
    the main tag or the continuation tag; the line and the finished text are untouched. -/
theorem nonspace_kept (b : WB) (m : WS) (mt wt : Tag) (cur : Bool) (c : Ch) (hc : c.ws = false) (hk : c.ctrl = false) :
    ∃ b' cur' tag, b.addChar m mt wt cur c = .ok (b', cur') ∧ b'.word = b.word ++ [Elt.cell ⟨c, tag⟩] ∧
      (tag = mt ∨ tag = wt) ∧ b'.line = b.line ∧ b'.text = b.text := by
  simp only [WB.addChar, hc, hk, Bool.false_and, Bool.false_eq_true, if_false]
  by_cases hsw : (decide (m = WS.pre) && decide (b.linelen + b.wslen + (b.wordlen + c.w) > b.width)) = true
  · simp only [hsw, if_true]
    exact ⟨_, _, wt, rfl, rfl, Or.inr rfl, rfl, rfl⟩
  · simp only [hsw, Bool.false_eq_true, if_false]
    cases cur
    · exact ⟨_, _, mt, rfl, by simp, Or.inl rfl, rfl, rfl⟩
    · exact ⟨_, _, wt, rfl, by simp, Or.inr rfl, rfl, rfl⟩

/-- The continuation tag is used from the point where the line would overflow (`pre` mode only). -/
theorem continuation_tag_on_overflow (b : WB) (mt wt : Tag) (c : Ch) (hc : c.ws = false) (hk : c.ctrl = false)
    (hov : b.linelen + b.wslen + (b.wordlen + c.w) > b.width) :
    b.addChar .pre mt wt false c =
      .ok ({ b with wordlen := b.wordlen + c.w, preWrapped := true, word := b.word ++ [Elt.cell ⟨c, wt⟩] }, true) := by
  simp [WB.addChar, hc, hk, hov]

/-- every piece a preformatted block emits fits the available width (instance of the C02 wrap-layer theorem) -/
theorem pieces_fit (b : WB) (ls : List TLine) (hi : b.Inv) (ho : b.overflow = false) (h : b.finish = .ok ls) :
    ∀ l ∈ ls, lw l ≤ b.width :=
  finish_lines_fit b ls hi ho h

/-! non-vacuity: "ab\n\n cd  \nef" in pre mode at width 10 keeps the blank line and the leading space, drops trailing ones -/
example :
    let nl : Ch := ⟨10, 0, true, true⟩
    ((({ width := 10 } : WB).addText .pre [] [] ([mkCh 97, mkCh 98, nl, nl, spaceCh, mkCh 99, mkCh 100, spaceCh, spaceCh, nl, mkCh 101, mkCh 102])).toOption.bind
      fun b => b.finish.toOption.map fun ls => ls.map fun l => l.filterMap fun e => match e with | .cell c => some c.ch.cp | _ => none)
      = some [[97, 98], [], [32, 99, 100], [101, 102]] := by decide +kernel

/-- **a preformatted block whose lines fit is reproduced line for line** (wrap machine, `pre` mode, no block padding):
    the lines `ls`, each followed by a newline, fed to a block standing at the start of a line, give exactly one output
    line per source line; output line `i` is the expansion of source line `i` (tabs to 8-column stops, other whitespace
    as blanks of the character's width, characters without width dropped) minus some trailing blanks; nothing is wrapped
    and every cell carries the main tag -/
theorem pre_block_reproduced (tag wt : Tag) (nl : Ch) (hnl : nl.cp = 10) (hws : nl.ws = true) (ls : List (List Ch)) (b : WB)
    (h : PreInv tag b []) (hp : b.padBlocks = false)
    (hfit : ∀ l ∈ ls, (∀ c ∈ l, c.cp ≠ 10) ∧ lw (expandGo tag [] l) ≤ b.width) :
    ∃ b' Ls, b.addTextGo .pre tag wt false (ls.flatMap (· ++ [nl])) = .ok b' ∧ b'.text = b.text ++ Ls ∧ Ls.length = ls.length ∧
      (∀ i (_ : i < ls.length) (_ : i < Ls.length), ∃ k, expandGo tag [] ls[i] = Ls[i] ++ List.replicate k (spc tag)) ∧
      PreInv tag b' [] :=
  pre_block_verbatim tag wt nl hnl hws ls b h hp hfit

/-- a freshly created block satisfies the theorem's invariant -/
theorem fresh_block_preinv (tag : Tag) (w : Nat) (ov : Bool) : PreInv tag ({ width := w, overflow := ov } : WB) [] :=
  ⟨new_inv w false ov, rfl, fun h => by simp at h, rfl, fun x hx => by simp at hx⟩

/-- tab stops: from column 3 a tab adds 5 blanks, from column 8 it adds 8 -/
example : tabN 3 = 5 ∧ tabN 8 = 8 ∧ tabN 0 = 8 := by decide
/-- non-vacuity: "a<TAB>b" expands to `a`, seven blanks, `b` -/
example : (expandGo [] [] [mkCh 97, ⟨9, 0, true, true⟩, mkCh 98]).length = 9 := by decide

/-! ## end to end -/

/-- **a `<pre>` element whose lines fit is reproduced line for line by the renderer** (render-tree level: sub-renderer,
    block start, `add_inline_text` in `pre` mode with the `Preformat` tag, `into_lines`) -/
theorem pre_element_reproduced (cfg : Cfg) (d : Deco) (w : Nat) (hw : 0 < w) (hww : cfg.wrapWidth = none) (hpad : cfg.padBlocks = false)
    (nl : Ch) (hnl : nl.cp = 10) (hws : nl.ws = true) (ls : List (List Ch))
    (hfit : ∀ l ∈ ls, (∀ c ∈ l, c.cp ≠ 10) ∧ lw (expandGo [d.annOf (Ann.pre false)] [] l) ≤ w) :
    ∃ Ls : List TLine,
      renderTree cfg d w (.box { ws := some .pre, pre := true } .block [.text {} (ls.flatMap (· ++ [nl]))]) = .ok (Ls.map RLine.text) ∧
      Ls.length = ls.length ∧
      ∀ i (_ : i < ls.length) (_ : i < Ls.length), ∃ k,
        expandGo [d.annOf (Ann.pre false)] [] ls[i] = Ls[i] ++ List.replicate k (spc [d.annOf (Ann.pre false)]) :=
  renderTree_pre_text cfg d w hw hww hpad nl hnl hws ls hfit

/-- **…and by the whole pipeline** on the document `<pre>text</pre>` as parsed (no style sheets, `decorate` off) -/
theorem pre_document_reproduced (cfg : Cfg) (d : Deco) (w : Nat) (hw : 0 < w) (hdec : cfg.decorate = false) (hww : cfg.wrapWidth = none)
    (hpad : cfg.padBlocks = false) (ci : CharInfo) (depth : Nat)
    (nl : Ch) (hnl : nl.cp = 10) (hws : nl.ws = true) (ls : List (List Ch))
    (hfit : ∀ l ∈ ls, (∀ c ∈ l, c.cp ≠ 10) ∧ lw (expandGo [d.annOf (Ann.pre false)] [] l) ≤ w) :
    ∃ Ls : List TLine,
      renderDom cfg d w false none none ci depth (preDoc (ls.flatMap (· ++ [nl]))) = .lines (Ls.map RLine.text) ∧
      Ls.length = ls.length ∧
      ∀ i (_ : i < ls.length) (_ : i < Ls.length), ∃ k,
        expandGo [d.annOf (Ann.pre false)] [] ls[i] = Ls[i] ++ List.replicate k (spc [d.annOf (Ann.pre false)]) :=
  renderDom_preDoc cfg d w hw hdec hww hpad ci depth nl hnl hws ls hfit

/-! ## no non-space character lost, duplicated or reordered — fits or not -/

/-- **the characters of a preformatted block survive any cutting**: for every render tree without tables — `<pre>` blocks
    at any depth, with inline elements, nested in list items and quotes — every width, configuration (footnotes off, no
    Unicode strikeout) and decorator: the visible characters of the rendered lines (on an alphabet the block prefixes
    avoid) are exactly the tree's visible characters, each once, in document order.  Whether a source line fits or is cut
    into pieces, no non-space character is lost, duplicated or reordered. -/
theorem pre_characters_survive_cutting (P : Ch → Bool) (cfg : Cfg) (d : Deco) (w : Nat) (tree : RNode) (ls : List RLine)
    (hfn : cfg.footnotes = false) (hu : cfg.unicodeStrike = false) (hd : DecoAvoids P d) (ht : noTable tree = true)
    (h : renderTree cfg d w tree = .ok ls) : (ls.flatMap rink).filter P = (nodeRaw d tree).filter P :=
  renderTree_chars_pre_raw P cfg d w tree ls hfn hu hd ht h

/-- non-vacuity: a `<pre>` block with a word of eight characters, a blank and an emphasised word at width 5 (four hard cuts),
    then a quoted paragraph, plain decorator -/
example :
    let tree : RNode := .box {} .container [
      .box {pre := true, ws := some .pre} .block [.text {} (strCh "abcdefgh ij"), .box {} .em [.text {} (strCh "klmnopq")]],
      .box {} .quote [.box {} .block [.text {} (strCh "rs")]]]
    noTable tree = true ∧
    ((renderTree { footnotes := false } Deco.plain 5 tree).toOption.map fun ls => ((ls.flatMap rink).filter richAlpha).map (·.cp)) =
      some (((nodeRaw Deco.plain tree).filter richAlpha).map (·.cp)) ∧
    ((renderTree { footnotes := false } Deco.plain 5 tree).toOption.map (·.length)) = some 6 := by decide +kernel

end H2T.C12
