import H2T.Wrap
import H2T.Css.Parse
import H2T.Css.Style
import H2T.Css.Cascade
import H2T.Tree
import H2T.Render
