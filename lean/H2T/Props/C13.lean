import H2T.Lemmas.WrapInv
import H2T.Lemmas.WsCollapseBlock
import H2T.Lemmas.CommentsDom
import H2T.Lemmas.Transparent

/-! # C13 — output does not depend on source formatting of collapsible whitespace

The core mechanism is the wrap machine's treatment of whitespace in normal (non-preformatted) mode: a
whitespace character never enters the text, it only sets "one space is pending" — and only if something is on
the line already.  Status: **partial** — proved for the wrap machine: in normal mode every whitespace character
acts like a plain space, and a whitespace character that directly follows another one is a no-op, so any two
non-empty whitespace runs have the same effect; and splitting a text node at any point into two `add_text`
calls with the same tag — which is all a comment or a neutral `span` inside text does to the renderer's input —
leaves the block in the same state, in every white-space mode (`addText_split`).  **For whole texts**: replacing any
non-empty whitespace run inside a text by any other non-empty whitespace run leaves the wrap machine
(`ws_runs_do_not_matter`) and the sub-renderer's `add_inline_text` (`inline_text_ws_runs_do_not_matter`, with the
strikeout filter and the block-start logic) in the same state.  **Comments never matter, for the whole pipeline**:
deleting every comment node of a document, at any depth, gives the same render tree (`comments_never_reach_the_tree`:
`:nth-child` positions count elements only) and therefore the same outcome of `renderDom` under every configuration,
decorator, width and style sheet (`comments_do_not_matter`).  That a neutral `span` is handed to the renderer as a
split text is decided by correspondence and the metamorphic oracle (with the two named exceptions of DESIGN §8 #12).
**Neutral wrappers are transparent**: an element that becomes an unstyled container (`span`, an unknown element, `a`
without `href`) renders exactly as its children spliced into the parent's child list — at any depth, in table cells too,
size estimates included (`unstyled_container_is_transparent`); the exceptions are structural and stated in `unwrapN`:
directly under `ul`/`ol` every child is an item, and `sup` tests for a single text child (`sup_reads_its_child_list`). -/

namespace H2T.C13

/-- In normal mode, a whitespace character met when no word is pending only records a pending space (if the
    line is non-empty and none is pending yet); which whitespace character it is does not matter. -/
theorem ws_char_normal (b : WB) (mt wt : Tag) (cur : Bool) (c : Ch) (hc : c.ws = true) (hw : b.word.noContent = true) :
    b.addChar .normal mt wt cur c =
      .ok (if b.linelen > 0 && b.wslen = 0 then { b with spacetag := some (if cur then wt else mt), wslen := 1 } else b, cur) := by
  simp [WB.addChar, hc, hw, WS.preserve]
  split <;> rfl

/-- **Runs collapse.**  Directly after a whitespace character (in normal mode, no word pending) a second
    whitespace character changes nothing: the state after `c₁ c₂` is the state after `c₁`. -/
theorem second_ws_noop (b b1 : WB) (mt wt : Tag) (cur cur1 : Bool) (c1 c2 : Ch)
    (h1 : c1.ws = true) (h2 : c2.ws = true) (hw : b.word.noContent = true)
    (hstep : b.addChar .normal mt wt cur c1 = .ok (b1, cur1)) :
    b1.addChar .normal mt wt cur1 c2 = .ok (b1, cur1) := by
  rw [ws_char_normal b mt wt cur c1 h1 hw] at hstep
  injection hstep with hstep
  simp only [Prod.mk.injEq] at hstep
  obtain ⟨hb, hcur⟩ := hstep
  subst hcur
  have hw1 : b1.word.noContent = true := by rw [← hb]; split <;> exact hw
  rw [ws_char_normal b1 mt wt cur c2 h2 hw1]
  -- after the first whitespace either a space is pending (wslen = 1) or the line is empty: no further change
  have hcond : (decide (b1.linelen > 0) && decide (b1.wslen = 0)) = false := by
    rw [← hb]
    split
    · simp
    · rename_i hn; simpa using hn
  simp [hcond]

/-- which whitespace character is used does not matter: space, tab, newline, any Unicode space -/
theorem ws_chars_interchangeable (b : WB) (mt wt : Tag) (cur : Bool) (c1 c2 : Ch)
    (h1 : c1.ws = true) (h2 : c2.ws = true) (hw : b.word.noContent = true) :
    b.addChar .normal mt wt cur c1 = b.addChar .normal mt wt cur c2 := by
  rw [ws_char_normal b mt wt cur c1 h1 hw, ws_char_normal b mt wt cur c2 h2 hw]

/-- whitespace at the start of a line is dropped: nothing is pending afterwards -/
theorem leading_ws_dropped (b : WB) (mt wt : Tag) (cur : Bool) (c : Ch) (hc : c.ws = true) (hw : b.word.noContent = true)
    (hl : b.linelen = 0) : b.addChar .normal mt wt cur c = .ok (b, cur) := by
  rw [ws_char_normal b mt wt cur c hc hw]; simp [hl]

/-! ## splitting a text node is neutral

A comment, or an element that adds no annotation (a plain `span`), in the middle of a text splits one `add_text`
call into two with the same tags.  The wrap machine's state after the two calls is the state after the one call —
in every white-space mode, for every text, at every split point. -/

/-- with equal main and wrap tags the loop-local tag choice cannot influence the block -/
theorem addChar_cur_irrelevant (b : WB) (m : WS) (t : Tag) (cur cur' : Bool) (c : Ch) :
    (b.addChar m t t cur c).map Prod.fst = (b.addChar m t t cur' c).map Prod.fst := by
  unfold WB.addChar
  simp only [ite_self]
  cases (if (c.ws && !b.word.noContent) = true then b.flushWord m else Except.ok b) with
  | error e => rfl
  | ok b1 =>
    simp only
    by_cases hws : c.ws = true
    · simp only [hws, if_true]
      by_cases hp : m.preserve = true
      · simp only [hp, if_true]
        by_cases h10 : c.cp = 10
        · simp [h10, Except.map]
        · simp only [h10, if_false]
          by_cases h9 : c.cp = 9
          · simp only [h9, if_true]
            cases b1.tabLoop t (b1.linelen + b1.wslen) false (2 * b1.width + 20) <;> simp [Except.map]
          · simp only [h9, if_false]
            split
            · simp [Except.map]
            · split
              · split <;> simp [Except.map]
              · simp [Except.map]
      · have hp' : m.preserve = false := by simpa using hp
        simp only [hp', Bool.false_eq_true, if_false]
        split <;> simp [Except.map]
    · have hws' : c.ws = false := by simpa using hws
      simp only [hws', Bool.false_eq_true, if_false]
      split
      · simp [Except.map]
      · simp [Except.map]

theorem addTextGo_cur_irrelevant (m : WS) (t : Tag) (cs : List Ch) : ∀ (b : WB) (cur cur' : Bool),
    b.addTextGo m t t cur cs = b.addTextGo m t t cur' cs := by
  induction cs with
  | nil => intro b cur cur'; rfl
  | cons c cs ih =>
    intro b cur cur'
    have h := addChar_cur_irrelevant b m t cur cur' c
    simp only [WB.addTextGo]
    cases h1 : b.addChar m t t cur c with
    | error e =>
      cases h2 : b.addChar m t t cur' c with
      | error e' => simp [h1, h2, Except.map] at h; simp [h]
      | ok r => simp [h1, h2, Except.map] at h
    | ok r =>
      cases h2 : b.addChar m t t cur' c with
      | error e' => simp [h1, h2, Except.map] at h
      | ok r' =>
        simp [h1, h2, Except.map] at h
        obtain ⟨b1, c1⟩ := r
        obtain ⟨b2, c2⟩ := r'
        simp only at h ⊢
        subst h
        exact ih b1 c1 c2

theorem addTextGo_append (m : WS) (t : Tag) (a b2 : List Ch) : ∀ (b : WB) (cur cur2 : Bool),
    b.addTextGo m t t cur (a ++ b2) = andThen (b.addTextGo m t t cur a) (fun b' => b'.addTextGo m t t cur2 b2) := by
  induction a with
  | nil => intro b cur cur2; simp only [List.nil_append, WB.addTextGo, andThen]; exact addTextGo_cur_irrelevant m t b2 b cur cur2
  | cons c cs ih =>
    intro b cur cur2
    simp only [List.cons_append, WB.addTextGo]
    cases b.addChar m t t cur c with
    | error e => rfl
    | ok r => exact ih r.1 r.2 cur2

/-- **Splitting a text node is neutral**: feeding `a ++ b₂` in one `add_text` call, or `a` and then `b₂` in two
    calls with the same tag, leaves the block in the same state (or fails with the same error). -/
theorem addText_split (b : WB) (hi : b.Inv) (m : WS) (t : Tag) (a b2 : List Ch) :
    b.addText m t t (a ++ b2) = andThen (b.addText m t t a) (fun b' => b'.addText m t t b2) := by
  unfold WB.addText
  by_cases hw : b.width = 0
  · by_cases ho : b.overflow = true
    · -- the guard widens the block to one column, once
      have hg : ∀ cs, b.zeroGuard cs = .ok { b with width := 1 } := by intro cs; simp [WB.zeroGuard, hw, ho]
      rw [hg, hg]
      simp only [andThen]
      have hi1 : ({ b with width := 1 } : WB).Inv :=
        ⟨hi.linelen_eq, hi.wordlen_eq, by have := hi.line_fit; show b.linelen ≤ 1; omega,
         by intro h; simp [ho] at h, hi.tag_ok⟩
      rw [addTextGo_append m t a b2 _ _ b.preWrapped]
      cases h1 : ({ b with width := 1 } : WB).addTextGo m t t b.preWrapped a with
      | error e => rfl
      | ok b' =>
        simp only [andThen]
        obtain ⟨_, hs⟩ := addTextGo_inv m t t a _ b' _ hi1 h1
        have hw' : ¬ b'.width = 0 := by rw [hs.width]; simp
        simp only [WB.zeroGuard, hw', if_false]
        exact addTextGo_cur_irrelevant m t b2 b' _ _
    · have ho' : b.overflow = false := by simpa using ho
      cases a with
      | nil =>
        simp only [List.nil_append, WB.zeroGuard, hw, ho', if_true, Bool.false_eq_true, if_false, List.isEmpty_nil,
          Bool.not_true, andThen, WB.addTextGo]
      | cons c cs => simp [WB.zeroGuard, hw, ho', andThen]
  · have hg : ∀ cs, b.zeroGuard cs = .ok b := by intro cs; simp [WB.zeroGuard, hw]
    rw [hg, hg]
    simp only [andThen]
    rw [addTextGo_append m t a b2 b _ b.preWrapped]
    cases h1 : b.addTextGo m t t b.preWrapped a with
    | error e => rfl
    | ok b' =>
      simp only [andThen]
      obtain ⟨_, hs⟩ := addTextGo_inv m t t a b b' _ hi h1
      have hw' : ¬ b'.width = 0 := by rw [hs.width]; exact hw
      simp only [WB.zeroGuard, hw', if_false]
      exact addTextGo_cur_irrelevant m t b2 b' _ _

/-- the hypothesis of `addText_split` holds for every fresh block (and is preserved by every operation: WrapInv) -/
example : ({ width := 5, padBlocks := true } : WB).Inv := new_inv 5 true false

/-! non-vacuity: "a  b", "a\n\tb" and "a b" give the same block -/
example :
    let nl : Ch := ⟨10, 0, true, true⟩
    let tab : Ch := ⟨9, 0, true, true⟩
    let run (s : List Ch) := (({ width := 10 } : WB).addText .normal [] [] s).toOption.bind fun b => b.finish.toOption
    run [mkCh 97, spaceCh, spaceCh, mkCh 98] = run [mkCh 97, spaceCh, mkCh 98] ∧
    run [mkCh 97, nl, tab, mkCh 98] = run [mkCh 97, spaceCh, mkCh 98] := by decide +kernel

/-! ## whole texts, whole documents -/

/-- **whitespace runs do not matter** (wrap machine, normal mode, any tags, any state): a text with a non-empty
    whitespace run replaced by any other non-empty whitespace run — more or fewer blanks, tabs, newlines, Unicode spaces —
    gives the same block or the same error -/
theorem ws_runs_do_not_matter (b : WB) (mt wt : Tag) (pre w1 w2 rest : List Ch) (h1 : w1 ≠ []) (h2 : w2 ≠ [])
    (a1 : w1.all Ch.ws = true) (a2 : w2.all Ch.ws = true) :
    b.addText .normal mt wt (pre ++ w1 ++ rest) = b.addText .normal mt wt (pre ++ w2 ++ rest) :=
  addText_ws_runs b mt wt pre w1 w2 rest h1 h2 a1 a2

/-- the same for `add_inline_text` of a sub-renderer in normal mode: block-start logic, strikeout filter, annotations -/
theorem inline_text_ws_runs_do_not_matter (s : SubR) (cfg : Cfg) (f : Ann → Ann) (pre w1 w2 rest : List Ch) (hm : s.wsMode = .normal)
    (h1 : w1 ≠ []) (h2 : w2 ≠ []) (a1 : w1.all chIsWs = true) (a2 : w2.all chIsWs = true) :
    s.addInlineText cfg (pre ++ w1 ++ rest) f = s.addInlineText cfg (pre ++ w2 ++ rest) f :=
  addInlineText_ws_runs s cfg f pre w1 w2 rest hm h1 h2 a1 a2

/-- **comments never reach the render tree**: building the tree of a DOM and of the DOM with every comment node deleted
    (at any depth) gives the same result -/
theorem comments_never_reach_the_tree (bc : BuildCfg) (n : Node) (up : List Css.Frame) (idx : Nat) :
    build bc up idx (stripNode n) = build bc up idx n := build_strip bc n up idx

/-- **comments do not matter**: the whole pipeline — style sheets, tree building, rendering — gives the same outcome on a
    document and on the document without its comments -/
theorem comments_do_not_matter (cfg : Cfg) (d : Deco) (w : Nat) (useDoc : Bool) (agentCss userCss : Option (List Char))
    (ci : CharInfo) (depth : Nat) (dom : Node) :
    renderDom cfg d w useDoc agentCss userCss ci depth (stripNode dom) = renderDom cfg d w useDoc agentCss userCss ci depth dom :=
  renderDom_strip cfg d w useDoc agentCss userCss ci depth dom

/-! non-vacuity: "a b" and "a \t\n b" -/
example : ({ width := 10 } : WB).addText .normal [] [] (strCh "a" ++ [spaceCh] ++ strCh "b") =
    ({ width := 10 } : WB).addText .normal [] [] (strCh "a" ++ [spaceCh, ⟨9, 1, true, false⟩, ⟨10, 1, true, false⟩, spaceCh] ++ strCh "b") :=
  ws_runs_do_not_matter _ _ _ _ _ _ _ (by simp) (by simp) (by decide) (by decide)
example : stripList [.comment, .text (strCh "a"), .comment, .elem "p" true [] [.comment, .text (strCh "b")]] =
    [.text (strCh "a"), .elem "p" true [] [.text (strCh "b")]] := by simp [stripList]

/-! ## neutral wrappers -/

/-- a `span` (like every unknown element) with content becomes a container carrying only its computed style -/
theorem span_becomes_container (computed : Css.Computed) (attrs : List (String × List Ch)) (cs : List RNode) (h : cs ≠ []) :
    elemBase computed true "span" attrs cs = some (.box (styleOf computed) .container cs) := by
  cases cs with
  | nil => exact absurd rfl h
  | cons c cs => simp [elemBase]

/-- **an unstyled container is transparent**: the rendering of a tree equals the rendering of the tree with every unstyled
    container replaced by its children (`unwrapN`: everywhere except directly under `ul`/`ol`/`sup`), for every
    configuration, decorator and width — inside table cells too, where the size estimates are unchanged as well -/
theorem unstyled_container_is_transparent (cfg : Cfg) (d : Deco) (w : Nat) (tree : RNode) :
    renderTree cfg d w (unwrapN tree) = renderTree cfg d w tree := renderTree_unwrap cfg d w tree

/-- the same for the size estimate a table uses to allocate its columns -/
theorem unstyled_container_keeps_estimates (d : Deco) (m : Nat) (tree : RNode) :
    sizeOf d m (unwrapN tree) = sizeOf d m tree := sizeOf_unwrapN d m tree

/-- instance: `a<span>b</span>` inside a paragraph is the paragraph with the two texts side by side -/
example (cfg : Cfg) (d : Deco) (w : Nat) (a b : List Ch) :
    renderTree cfg d w (.box {} .block [.text {} a, .box {} .container [.text {} b]]) =
    renderTree cfg d w (.box {} .block [.text {} a, .text {} b]) := by
  have := unstyled_container_is_transparent cfg d w (.box {} .block [.text {} a, .box {} .container [.text {} b]])
  simpa [unwrapN, unwrapL] using this.symm

/-- why `sup` is excluded: it tests its child list for a single text of digits -/
theorem sup_reads_its_child_list :
    supDigits [.box {} .container [.text {} [mkCh 50]]] = none ∧ supDigits [.text {} [mkCh 50]] = some [mkCh 0xb2] := by
  constructor <;> decide

end H2T.C13
