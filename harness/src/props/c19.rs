//! C19: competing declarations are resolved by the CSS cascade.

use super::common::*;
use super::css_common::*;
use crate::cfg::Cfg;
use crate::domwalk;
use crate::gen::Knobs;
use crate::obs::Obs;
use crate::refcss::{self, Decl, Origin, Sel, Simple};
use crate::util::R;
use crate::{Case, Prop, Tier, Viol};

pub struct C19;

/// one colour declaration of the exhaustive enumeration, applied to `<p id=x class=c>`
#[derive(Clone, Copy, Debug, PartialEq)]
struct D {
    /// 0 agent, 1 user, 2 author (style element), 3 inline, 4 the legacy `color` attribute (a normal declaration with
    /// inline specificity at its position among the attributes; added after a mutation of its `important` argument survived)
    src: u8,
    important: bool,
    /// 0 element, 1 class, 2 id, 3 element+class, 4 nth-child
    speccls: u8,
}

fn sel_text(s: u8) -> &'static str {
    match s {
        0 => "p",
        1 => ".c",
        2 => "#x",
        3 => "p.c",
        _ => "p:nth-child(1)",
    }
}
fn sel_spec(s: u8) -> (u32, u32, u32) {
    match s {
        0 => (0, 0, 1),
        1 => (0, 1, 0),
        2 => (1, 0, 0),
        3 => (0, 1, 1),
        _ => (0, 1, 1),
    }
}

fn all_decls() -> Vec<D> {
    let mut v = Vec::new();
    for src in 0..4u8 {
        for important in [false, true] {
            if src == 3 {
                v.push(D { src, important, speccls: 0 });
                if !important {
                    v.push(D { src: 4, important: false, speccls: 0 });
                }
            } else {
                for speccls in 0..5u8 {
                    v.push(D { src, important, speccls });
                }
            }
        }
    }
    v
}

/// build the case for an ordered tuple of declarations; colour k = (10k+10, 0, k)
fn tuple_case(ds: &[D], r: &mut R, bg: bool) -> Case {
    let mut agent = String::new();
    let mut user = String::new();
    let mut author = String::new();
    let mut inline = String::new();
    let mut legacy = String::new();
    let mut aux = Vec::new();
    let colour_first = colour_attr_first(&ds.iter().map(|d| d.src).collect::<Vec<_>>());
    for (k, d) in ds.iter().enumerate() {
        let colour = ((10 * k + 10) as u8, 0u8, k as u8);
        let imp = if d.important { r.pick(&[" !important", "!important"]) } else { "" };
        let decl = format!("{}:{}{}", if bg { "background-color" } else { "color" }, hexcol(colour), imp);
        match d.src {
            0 => agent.push_str(&format!("{}{{{}}}\n", sel_text(d.speccls), decl)),
            1 => user.push_str(&format!("{}{{{}}}\n", sel_text(d.speccls), decl)),
            2 => author.push_str(&format!("{}{{{}}}\n", sel_text(d.speccls), decl)),
            3 => {
                inline.push_str(&decl);
                inline.push(';');
            }
            _ => {
                // a second `color` attribute would be dropped by the HTML parser: only the first is written, the others
                // are recorded as source 9 (no declaration)
                if legacy.is_empty() {
                    legacy = format!(" {}=\"{}\"", if bg { "bgcolor" } else { "color" }, hexcol(colour));
                } else {
                    aux.push(format!("9,0,0,{k}"));
                    continue;
                }
            }
        }
        aux.push(format!("{},{},{},{}", d.src, d.important as u8, d.speccls, k));
    }
    let mut cfg = Cfg::rich();
    cfg.use_doc_css = true;
    if !agent.is_empty() {
        cfg.agent_css = Some(agent);
    }
    if !user.is_empty() {
        cfg.user_css = Some(user);
    }
    let style_el = if author.is_empty() { String::new() } else { format!("<style>{author}</style>") };
    let style_at = if inline.is_empty() { String::new() } else { format!(" style=\"{inline}\"") };
    let html = if colour_first { format!("{style_el}<p id=x class=c{legacy}{style_at}>qb</p>") } else { format!("{style_el}<p id=x class=c{style_at}{legacy}>qb</p>") };
    let mut c = case(html, cfg, 20, "g-enum");
    c.aux = format!("{}{}", if bg { 'U' } else { 'T' }, aux.join(";"));
    c
}

/// does the `color` attribute stand in front of the `style` attribute?  (it does when its declaration precedes every
/// inline declaration of the tuple)
fn colour_attr_first(srcs: &[u8]) -> bool {
    match (srcs.iter().position(|s| *s == 4), srcs.iter().position(|s| *s == 3)) {
        (Some(a), Some(b)) => a < b,
        _ => false,
    }
}

/// reference answer for a tuple: index of the winning declaration
fn tuple_winner(ds: &[(u8, bool, u8, usize)]) -> usize {
    let colour_first = colour_attr_first(&ds.iter().map(|d| d.0).collect::<Vec<_>>());
    // visiting order: agent sheet, user sheet, author sheet (each in sheet order), then the style attribute
    let mut decls = Vec::new();
    for (pos, (src, imp, sc, k)) in ds.iter().enumerate() {
        let origin = match src {
            0 => Origin::Agent,
            1 => Origin::User,
            _ => Origin::Author,
        };
        if *src == 9 {
            continue;
        }
        let inline = *src >= 3;
        // attributes are visited in document order: the style attribute's declarations in their order, the colour
        // attribute before or after all of them
        let order = match *src {
            3 => 2000 + pos,
            4 => if colour_first { 1000 + pos } else { 3000 + pos },
            _ => pos,
        };
        decls.push(Decl { origin, important: *imp, inline, spec: if inline { (0, 0, 0) } else { sel_spec(*sc) }, order, colour: (*k as u8, 0, 0) });
    }
    // within one origin, tuple order = sheet order; across origins the layer decides, so `pos` is a valid order key
    refcss::cascade(&decls).map(|d| d.colour.0 as usize).unwrap()
}

const ELEMS: &[&str] = &["p", "div", "li", "strong", "em", "span", "ul", "blockquote", "body", "i", "code"];

fn knobs() -> Knobs {
    let mut k = Knobs::all().unique().no_tables();
    k.classes_only = true;
    k.href_digits = true;
    k.digits = false;
    k.pre = false;
    k
}

struct Rule {
    sel: Sel,
    origin: Origin,
    important: bool,
    colour: (u8, u8, u8),
}

impl Prop for C19 {
    fn id(&self) -> &'static str {
        "C19"
    }
    fn rule(&self) -> &'static str {
        "exhaustive: all ordered pairs (thorough: and triples) of colour declarations over {agent,user,author,inline,legacy color attribute} x {normal,!important} x {p, .c, #x, p.c, p:nth-child(1)} on one element, the pairs also as background declarations (background-color, bgcolor attribute); random: nested documents with up to 12 colour rules over three origins plus inline styles, each token's innermost Colour annotation against the reference cascade; non-trivial = some token coloured"
    }
    fn cases(&self, r: &mut R, tier: Tier) -> Vec<Case> {
        let mut v = Vec::new();
        let ds = all_decls();
        for a in &ds {
            for b in &ds {
                v.push(tuple_case(&[*a, *b], r, false));
                // the same pair as background declarations (`background-color`, the legacy `bgcolor` attribute)
                v.push(tuple_case(&[*a, *b], r, true));
            }
        }
        if tier == Tier::Thorough {
            for a in &ds {
                for b in &ds {
                    for c in &ds {
                        v.push(tuple_case(&[*a, *b, *c], r, false));
                    }
                }
            }
        } else {
            for _ in 0..1500 {
                let t = [ds[r.u(ds.len())], ds[r.u(ds.len())], ds[r.u(ds.len())]];
                { let bg = r.p(30); v.push(tuple_case(&t, r, bg)); }
            }
        }
        // random sheets over nested documents
        let n = scale(tier, 2000, 40000);
        for _ in 0..n {
            // one document in five has tables, rendered in raw mode (cells one after the other, so the text keeps document
            // order): colours on table, row and cell elements nest through the cells' sub-renderers (added after the seeded
            // change C19-cell-style-unwound-after-pop was reported by C09 only)
            let with_tables = r.p(20);
            let mut html = if with_tables {
                let mut k = Knobs::all().unique();
                k.classes_only = true;
                k.href_digits = true;
                k.digits = false;
                k.pre = false;
                k.weird_colspan = false;
                gen_doc(r, k).0
            } else {
                gen_doc(r, knobs()).0
            };
            // sprinkle inline colour declarations
            let dom = domwalk::tree(html.as_bytes());
            let fl = flat_of(&dom);
            let nrules = 1 + r.u(12);
            let mut rules: Vec<Rule> = Vec::new();
            // rules with selector lists: (index of the first member, number of members) — printed as `A, B{...}`
            let mut groups: Vec<(usize, usize)> = Vec::new();
            for _ in 0..nrules {
                let origin = *r.pick(&[&Origin::Agent, &Origin::User, &Origin::Author]);
                let important = r.p(25);
                if r.p(30) && !fl.elems.is_empty() {
                    // a selector list two of whose members match the same element with different specificities, and a
                    // competing rule of the same origin and importance whose specificity lies between them (added after
                    // the seeded change C19-selector-list-first-match-specificity was missed: a list's declarations
                    // must compete with the specificity of the member that matches, not of the first one)
                    let e = &fl.elems[r.u(fl.elems.len())];
                    let name = e.node.name().to_string();
                    if !name.is_empty() {
                        let weak = Sel { compounds: vec![Simple { elem: Some(name.clone()), ..Default::default() }], combs: vec![] };
                        let mut strong_s = Simple { elem: Some(name.clone()), ..Default::default() };
                        let mut mid = Simple::default();
                        if let Some(w) = e.node.attr("class").and_then(|c| c.split_whitespace().next().map(|x| x.to_string())) {
                            strong_s.classes.push(w.clone());
                            mid.classes.push(w);
                        } else {
                            strong_s.nth = Some((0, e.idx));
                            mid.nth = Some((0, e.idx));
                        }
                        let strong = Sel { compounds: vec![strong_s], combs: vec![] };
                        let mid = Sel { compounds: vec![mid], combs: vec![] };
                        let k = rules.len();
                        rules.push(Rule { sel: mid, origin, important, colour: ((k + 1) as u8, 100, 0) });
                        let k = rules.len();
                        let members = if r.p(75) { vec![weak, strong] } else { vec![strong, weak] };
                        groups.push((k, members.len()));
                        for m in members {
                            rules.push(Rule { sel: m, origin, important, colour: ((k + 1) as u8, 100, 0) });
                        }
                        continue;
                    }
                }
                let sel = if r.p(75) && !fl.elems.is_empty() { super::c20::targeted_pub(r, &fl) } else { refcss::gen_sel(r, ELEMS, 3) };
                let k = rules.len();
                rules.push(Rule { sel, origin, important, colour: ((k + 1) as u8, 100, 0) });
            }
            let mut cfg = Cfg::rich();
            cfg.use_doc_css = true;
            cfg.raw = with_tables;
            let mut sheets = [String::new(), String::new(), String::new()];
            let mut aux = Vec::new();
            let mut ri = 0;
            while ri < rules.len() {
                let n = groups.iter().find(|g| g.0 == ri).map(|g| g.1).unwrap_or(1);
                let rl = &rules[ri];
                let i = match rl.origin {
                    Origin::Agent => 0,
                    Origin::User => 1,
                    Origin::Author => 2,
                };
                let printed: Vec<String> = rules[ri..ri + n].iter().map(|x| x.sel.print(r)).collect();
                sheets[i].push_str(&format!("{}{{color:{}{}}}\n", printed.join(", "), hexcol(rl.colour), if rl.important { " !important" } else { "" }));
                for m in &rules[ri..ri + n] {
                    aux.push(format!("{}~{}~{}~{}", i, m.important as u8, m.colour.0, super::c20::enc_sel_pub(&m.sel)));
                }
                ri += n;
            }
            if !sheets[0].is_empty() {
                cfg.agent_css = Some(sheets[0].clone());
            }
            if !sheets[1].is_empty() {
                cfg.user_css = Some(sheets[1].clone());
            }
            if !sheets[2].is_empty() {
                html = format!("<style>{}</style>{}", sheets[2], html);
            }
            // inline styles: rewrite some `class="a"` attributes into class + style
            if r.p(50) {
                let imp = r.p(30);
                html = html.replacen("class=\"a\"", &format!("class=\"a\" style=\"color:#c80000{}\"", if imp { " !important" } else { "" }), 1);
                aux.push(format!("I~{}", imp as u8));
            }
            // the legacy colour attribute: a normal declaration with inline specificity
            if r.p(40) {
                html = html.replacen("class=\"b\"", "class=\"b\" color=\"#00c800\"", 1 + r.u(2));
                aux.push("L~0".to_string());
            }
            let mut c = case(html, cfg, 10 + r.u(60), "random");
            c.aux = format!("R{}", aux.join("\n"));
            v.push(c);
        }
        v
    }
    fn oracle(&self, c: &Case, o: &Obs) -> Vec<Viol> {
        let mut out = vec![];
        let bg = c.aux.starts_with('U');
        let got = match out_colours(o, bg) {
            Some(g) => g,
            None => {
                if !c.aux.is_empty() && !matches!(o, Obs::Narrow) {
                    out.push(viol(format!("valid sheets gave outcome {}", o.short())));
                }
                return out;
            }
        };
        if let Some(t) = c.aux.strip_prefix('T').or(c.aux.strip_prefix('U')) {
            let ds: Vec<(u8, bool, u8, usize)> = t.split(';').filter_map(|x| { let f: Vec<&str> = x.split(',').collect(); Some((f.first()?.parse().ok()?, *f.get(1)? == "1", f.get(2)?.parse().ok()?, f.get(3)?.parse().ok()?)) }).collect();
            let k = tuple_winner(&ds);
            let want = col(((10 * k + 10) as u8, 0, k as u8));
            for (ch, cols) in &got {
                if cols.last().map(|s| s.as_str()) != Some(want.as_str()) {
                    out.push(viol(format!("declarations {:?}: token {:?} has colour {:?}, the cascade's winner is declaration #{k} ({want})", ds, ch, cols)));
                    break;
                }
            }
        } else if let Some(t) = c.aux.strip_prefix('R') {
            let dom = domwalk::tree(&c.html);
            let f = flat_of(&dom);
            let toks = doc_tokens(&f);
            if toks.len() != got.len() || toks.iter().zip(&got).any(|(a, b)| a.0 != b.0) {
                return out;
            }
            let mut rules: Vec<(usize, bool, u8, Sel)> = Vec::new();
            let mut inline_imp: Option<bool> = None;
            let mut legacy = false;
            for l in t.lines() {
                let p: Vec<&str> = l.splitn(4, '~').collect();
                if p[0] == "I" {
                    inline_imp = Some(p[1] == "1");
                } else if p[0] == "L" {
                    legacy = true;
                } else if p.len() == 4 {
                    if let Some(s) = super::c20::dec_sel_pub(p[3]) {
                        rules.push((p[0].parse().unwrap_or(0), p[1] == "1", p[2].parse().unwrap_or(0), s));
                    }
                }
            }
            // winner per element
            let winners: Vec<Option<String>> = (0..f.elems.len())
                .map(|e| {
                    let path = f.path(e);
                    let mut ds: Vec<Decl> = Vec::new();
                    // visiting order: agent, user, author rules in sheet order
                    for origin_i in 0..3 {
                        for (pos, (oi, imp, k, s)) in rules.iter().enumerate() {
                            if *oi == origin_i && refcss::sel_matches(s, &path) {
                                let origin = [Origin::Agent, Origin::User, Origin::Author][origin_i];
                                ds.push(Decl { origin, important: *imp, inline: false, spec: s.spec(), order: pos, colour: (*k, 100, 0) });
                            }
                        }
                    }
                    if let (Some(imp), Some(st)) = (inline_imp, f.elems[e].node.attr("style")) {
                        if st.starts_with("color:#c80000") {
                            ds.push(Decl { origin: Origin::Author, important: imp, inline: true, spec: (0, 0, 0), order: 1000, colour: (200, 0, 0) });
                        }
                    }
                    if legacy && f.elems[e].node.attr("color") == Some("#00c800") {
                        ds.push(Decl { origin: Origin::Author, important: false, inline: true, spec: (0, 0, 0), order: 1001, colour: (0, 200, 0) });
                    }
                    refcss::cascade(&ds).map(|d| col(d.colour))
                })
                .collect();
            for (i, ((ch, e), (_, cols))) in toks.iter().zip(&got).enumerate() {
                let expected: Option<String> = if *e == usize::MAX { None } else { f.chain(*e).iter().rev().find_map(|x| winners[*x].clone()) };
                let observed = cols.last().cloned();
                if expected != observed {
                    let via_section = *e != usize::MAX && f.chain(*e).iter().any(|x| matches!(f.elems[*x].node.name(), "thead" | "tbody" | "tfoot"));
                    if via_section {
                        continue;
                    }
                    out.push(viol(format!("token character #{i} {:?}: innermost colour {:?}, reference cascade says {:?}", ch, observed, expected)));
                    break;
                }
            }
        }
        out
    }
    fn project(&self, _c: &Case, o: &Obs) -> String {
        match (out_colours(o, false), out_colours(o, true)) {
            (Some(v), Some(b)) => v.iter().zip(b.iter()).map(|((c, cols), (_, bcols))| format!("{c}[{}|{}]", cols.join(","), bcols.join(","))).collect(),
            _ => o.class().into(),
        }
    }
    fn nontrivial(&self, _c: &Case, o: &Obs) -> bool {
        out_colours(o, false).map(|v| v.iter().any(|x| !x.1.is_empty())).unwrap_or(false) || out_colours(o, true).map(|v| v.iter().any(|x| !x.1.is_empty())).unwrap_or(false)
    }
}
