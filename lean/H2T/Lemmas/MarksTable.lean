import H2T.Lemmas.MarksTree
import H2T.Lemmas.ConserveTable

/-! C14 with tables: no fragment marker is invented or duplicated.  For every marker name `n`, the number of its occurrences
    in the rendered lines is at most the number of `frag n` operations of the program — tables, nested tables, stacked
    rows and border collapsing included.  (Counting argument, parallel to `ConserveTable`.) -/

namespace H2T

section
variable (n : List Ch)

theorem rmarks_padLine (tag : Tag) (w : Nat) (l : RLine) : rmarks (padLine tag w l) = rmarks l := by
  cases l with
  | text tl => simp [padLine, rmarks, marks_append, marks_spaces]
  | rule b t => rfl

/-- occurrences of `n` in the line sets of a row's cells -/
def setsMarks (sets : List (Nat × List RLine)) : Nat := (sets.map fun st => (st.2.flatMap rmarks).count n).sum

theorem colSets_marks (ann : Tag) : ∀ (cols : List SubR) (sets : List (Nat × List RLine)), (∀ col ∈ cols, col.MOk) →
    colSets ann cols = .ok sets → setsMarks n sets ≤ (cols.map fun col => col.marks.count n).sum := by
  intro cols
  induction cols with
  | nil => intro sets _ h; simp [colSets] at h; subst h; simp [setsMarks]
  | cons col cols ih =>
    intro sets hf h
    simp only [colSets] at h
    cases h1 : col.intoLines with
    | error e => simp [h1, andThen] at h
    | ok ls =>
      simp only [h1, andThen] at h
      cases h2 : colSets ann cols with
      | error e => simp [h2] at h
      | ok r =>
        simp only [h2] at h; injection h with h; subst h
        have i1 := intoLines_marks col ls (hf col (by simp)) h1
        have i2 := ih r (fun x hx => hf x (by simp [hx])) h2
        simp only [setsMarks, List.map_cons, List.sum_cons] at i2 ⊢
        have e1 : ((ls.map (padLine ann col.width)).flatMap rmarks) = ls.flatMap rmarks := by
          rw [List.flatMap_map]
          congr 1
          funext l
          exact rmarks_padLine ann col.width l
        rw [e1]
        have : (ls.flatMap rmarks).count n ≤ col.marks.count n := by
          rw [← i1, List.count_append]; omega
        omega

theorem collapseTop_marks : ∀ (sets : List (Nat × List RLine)) (prev : Option Border) (pos : Nat)
    (p2 : Option Border) (out : List (Nat × List RLine)),
    collapseTop prev pos sets = .ok (p2, out) → setsMarks n out = setsMarks n sets ∧ out.length = sets.length := by
  intro sets
  induction sets with
  | nil =>
    intro prev pos p2 out h
    simp [collapseTop] at h
    obtain ⟨_, rfl⟩ := h
    exact ⟨rfl, rfl⟩
  | cons st r ih =>
    intro prev pos p2 out h
    unfold collapseTop at h
    split at h
    · rename_i b t restLines heq
      cases prev with
      | none => simp at h
      | some pb =>
        simp only at h
        cases h1 : collapseTop (some (pb.mergeFromBelow b pos)) (pos + st.1 + 1) r with
        | error e => simp [h1, andThen] at h
        | ok v =>
          obtain ⟨p', out'⟩ := v
          simp only [h1, andThen] at h
          injection h with h
          simp only [Prod.mk.injEq] at h
          obtain ⟨_, rfl⟩ := h
          obtain ⟨a1, a2⟩ := ih _ _ p' out' h1
          refine ⟨?_, by simp [a2]⟩
          simp only [setsMarks, List.map_cons, List.sum_cons] at a1 ⊢
          rw [a1, heq]
          simp [List.flatMap_cons, rmarks]
    · cases h1 : collapseTop prev (pos + st.1 + 1) r with
      | error e => simp [h1, andThen] at h
      | ok v =>
        obtain ⟨p', out'⟩ := v
        simp only [h1, andThen] at h
        injection h with h
        simp only [Prod.mk.injEq] at h
        obtain ⟨_, rfl⟩ := h
        obtain ⟨a1, a2⟩ := ih _ _ p' out' h1
        refine ⟨?_, by simp [a2]⟩
        simp only [setsMarks, List.map_cons, List.sum_cons] at a1 ⊢
        rw [a1]

theorem dropLast_snoc_last {α : Type} (l : List α) (a : α) (h : l.getLast? = some a) : l.dropLast ++ [a] = l := by
  induction l with
  | nil => simp at h
  | cons x r ih =>
    cases r with
    | nil => simp at h; simp [h]
    | cons y r2 =>
      simp only [List.getLast?_cons_cons] at h
      simp [ih h]

theorem marks_dropLast_rule (ls : List RLine) (b : Border) (t : Tag) (h : ls.getLast? = some (.rule b t)) :
    ls.dropLast.flatMap rmarks = ls.flatMap rmarks := by
  have : ls = ls.dropLast ++ [.rule b t] := (dropLast_snoc_last ls _ h).symm
  conv => rhs; rw [this]
  simp [List.flatMap_append, rmarks]

theorem collapseBottom_marks : ∀ (sets : List (Nat × List RLine)) (nb : Border) (pos : Nat),
    setsMarks n (collapseBottom nb pos sets).2.1 = setsMarks n sets := by
  intro sets
  induction sets with
  | nil => intro nb pos; simp [collapseBottom, setsMarks]
  | cons st r ih =>
    intro nb pos
    unfold collapseBottom
    split
    · rename_i b t heq
      have a1 := ih (nb.mergeFromAbove b pos) (pos + st.1 + 1)
      simp only [setsMarks, List.map_cons, List.sum_cons] at a1 ⊢
      rw [a1, marks_dropLast_rule st.2 b t heq]
    · have a1 := ih nb (pos + st.1 + 1)
      simp only [setsMarks, List.map_cons, List.sum_cons] at a1 ⊢
      rw [a1]

/-- what a cell contributes to line `i` of its row -/
def lineMarks (st : Nat × List RLine) (i : Nat) : Nat := (st.2[i]?.map fun l => (rmarks l).count n).getD 0

theorem marks_colLineBody (ann : Tag) (i : Nat) (st : Nat × List RLine) (pad : Option (List Ch)) :
    (marks (colLineBody ann i st pad)).count n = lineMarks n st i := by
  unfold colLineBody lineMarks
  cases h : st.2[i]? with
  | none => simp [marks_cellsOf]
  | some l =>
    cases l with
    | text tl => rfl
    | rule b t => simp [rmarks, marks_cellsOf]

theorem marks_colLine (ann : Tag) (sep : Ch) (i : Nat) :
    ∀ (zs : List ((Nat × List RLine) × Option (List Ch))),
    (marks (colLine ann sep i zs)).count n = (zs.map fun z => lineMarks n z.1 i).sum := by
  intro zs
  induction zs with
  | nil => rfl
  | cons z r ih =>
    obtain ⟨st, pad⟩ := z
    have h0 := marks_colLineBody n ann i st pad
    cases r with
    | nil => simp [colLine, h0]
    | cons q r2 =>
      simp only [colLine, marks_append, List.count_append, h0, ih, List.map_cons, List.sum_cons]
      have : (marks [Elt.cell ⟨sep, ann⟩]).count n = 0 := by simp [marks]
      omega

theorem rowLines_marks (ann : Tag) (sep : Ch) (H : Nat) :
    ∀ (zs : List ((Nat × List RLine) × Option (List Ch))), (∀ z ∈ zs, z.1.2.length ≤ H) →
    ((List.range H).map fun i => (marks (colLine ann sep i zs)).count n).sum = (zs.map fun z => (z.1.2.flatMap rmarks).count n).sum := by
  intro zs hl
  have h1 : ((List.range H).map fun i => (marks (colLine ann sep i zs)).count n) =
      (List.range H).map fun i => (zs.map fun z => lineMarks n z.1 i).sum := by
    apply List.map_congr_left; intro i _; exact marks_colLine n ann sep i zs
  rw [h1]
  clear h1
  induction zs with
  | nil => simp only [List.map_nil, List.sum_nil]; exact sum_zeros _
  | cons z r ih =>
    simp only [List.map_cons, List.sum_cons]
    rw [sum_map_add, ih (fun x hx => hl x (by simp [hx]))]
    congr 1
    have := sum_range_opt (fun l => (rmarks l).count n) z.1.2 H (hl z (by simp))
    rw [count_flatMap]
    show ((List.range H).map fun i => lineMarks n z.1 i).sum = _
    unfold lineMarks; exact this

theorem setLastRule_marks (s : SubR) (prev : Option Border) :
    (s.setLastRule prev).marks = s.marks ∧ (s.setLastRule prev).wrapping = s.wrapping := by
  unfold SubR.setLastRule
  cases prev with
  | none => exact ⟨rfl, rfl⟩
  | some pb =>
    simp only
    split
    · rename_i b t heq
      refine ⟨?_, rfl⟩
      simp only [SubR.marks, setLast, List.flatMap_append, List.flatMap_cons, List.flatMap_nil, List.append_nil, rmarks]
      rw [marks_dropLast_rule s.lines b t heq]
    · exact ⟨rfl, rfl⟩

theorem emitColumns_marks (s : SubR) (cfg : Cfg) (ann : Tag) (sets3 : List (Nat × List RLine)) (pads : List (Option (List Ch)))
    (nb : Border) (hw : s.wrapping = none) (hl : sets3.length = pads.length) :
    (s.emitColumns cfg ann sets3 pads nb).marks.count n = s.marks.count n + setsMarks n sets3 ∧
    (s.emitColumns cfg ann sets3 pads nb).wrapping = none := by
  unfold SubR.emitColumns
  simp only []
  generalize (if cfg.drawBorders = true then mkCh 0x2502 else spaceCh) = sep
  obtain ⟨a1, a2⟩ := addLines_marks ((List.range ((sets3.map (·.2.length)).foldl max 0)).map fun i => RLine.text (colLine ann sep i (sets3.zip pads))) s hw
  have hH : ∀ z ∈ sets3.zip pads, z.1.2.length ≤ (sets3.map (·.2.length)).foldl max 0 := by
    intro z hz
    have hm := (List.of_mem_zip hz).1
    exact (foldl_max_ge (sets3.map (·.2.length)) 0).2 _ (List.mem_map_of_mem hm)
  have hrow := rowLines_marks n ann sep _ (sets3.zip pads) hH
  have hzip : ((sets3.zip pads).map fun z => (z.1.2.flatMap rmarks).count n).sum = setsMarks n sets3 := by
    unfold setsMarks
    have : (sets3.zip pads).map (·.1) = sets3 := by
      rw [List.map_fst_zip]; omega
    conv => rhs; rw [← this]
    rw [List.map_map]; rfl
  have hadd : (((List.range ((sets3.map (·.2.length)).foldl max 0)).map fun i => RLine.text (colLine ann sep i (sets3.zip pads))).flatMap rmarks).count n =
      setsMarks n sets3 := by
    rw [count_flatMap, List.map_map, ← hzip, ← hrow]; rfl
  split
  · obtain ⟨b1, b2⟩ := addLine_marks _ (.rule nb ann) a2
    refine ⟨?_, b2⟩
    rw [b1, a1]
    simp only [List.count_append, rmarks, hadd, List.count_nil]
    omega
  · exact ⟨by rw [a1, List.count_append, hadd], a2⟩

theorem appendColumns_marks (s s' : SubR) (cfg : Cfg) (cols : List SubR) (hm : s.MOk) (hcm : ∀ col ∈ cols, col.MOk)
    (h : s.appendColumns cfg cols = .ok s') :
    s'.marks.count n ≤ s.marks.count n + (cols.map fun col => col.marks.count n).sum ∧ s'.wrapping = none := by
  unfold SubR.appendColumns at h
  cases h1 : s.flushWrapping with
  | error e => simp [h1, andThen] at h
  | ok s0 =>
    simp only [h1, andThen] at h
    obtain ⟨f1, f3⟩ := flushWrapping_marks s s0 hm h1
    cases h2 : colSets s0.annStack cols with
    | error e => simp [h2] at h
    | ok sets =>
      simp only [h2] at h
      have hs := colSets_marks n _ cols sets hcm h2
      split at h
      · simp at h
      · generalize s0.joinBars sets ((sets.map (·.1)).sum + (sets.length - 1)) = pn at h
        cases h3 : collapseTop pn.1 0 sets with
        | error e => simp [h3] at h
        | ok v =>
          obtain ⟨prev2, sets2⟩ := v
          simp only [h3] at h
          injection h with h; subst h
          obtain ⟨t1, t2⟩ := collapseTop_marks n sets pn.1 0 prev2 sets2 h3
          have b1 := collapseBottom_marks n sets2 pn.2 0
          obtain ⟨_, b2, b3, _⟩ := collapseBottom_cnt (mkCh 97) rfl sets2 pn.2 0
          obtain ⟨l1, l3⟩ := setLastRule_marks s0 prev2
          obtain ⟨e1, e2⟩ := emitColumns_marks n (s0.setLastRule prev2) cfg s0.annStack _ _ (collapseBottom pn.2 0 sets2).1 (l3.trans f3)
            (by rw [b2, b3])
          exact ⟨by rw [e1, l1, f1, b1, t1]; omega, e2⟩

theorem addRule_marks (s s' : SubR) (b : Border) (hm : s.MOk) (h : s.flushWrapping = .ok s') :
    (s'.addLine (.rule b s'.annStack)).marks = s.marks ∧ (s'.addLine (.rule b s'.annStack)).wrapping = none := by
  obtain ⟨f1, f3⟩ := flushWrapping_marks s s' hm h
  obtain ⟨b1, b2⟩ := addLine_marks s' (.rule b s'.annStack) f3
  exact ⟨by rw [b1, f1]; simp [rmarks], b2⟩

theorem vertCells_marks (cfg : Cfg) : ∀ (cols : List SubR) (first : Bool) (s s' : SubR), s.MOk → (∀ col ∈ cols, col.MOk) →
    vertCells cfg first s cols = .ok s' →
    s'.marks.count n ≤ s.marks.count n + (cols.map fun col => col.marks.count n).sum ∧ s'.MOk := by
  intro cols
  induction cols with
  | nil => intro first s s' hm _ h; simp [vertCells] at h; subst h; exact ⟨by simp, hm⟩
  | cons col cols ih =>
    intro first s s' hm hcm h
    simp only [vertCells] at h
    generalize h0 : (if (!first && cfg.drawBorders) = true then
        andThen s.flushWrapping fun s' => Except.ok (s'.addLine (.rule (List.replicate s.width Seg.vert) s'.annStack))
      else Except.ok s) = r0 at h
    cases r0 with
    | error e => simp [andThen] at h
    | ok s1 =>
      simp only [andThen] at h
      have st1 : s1.marks = s.marks ∧ s1.MOk := by
        split at h0
        · cases hfl : s.flushWrapping with
          | error e => simp [hfl, andThen] at h0
          | ok s0 =>
            simp only [hfl, andThen] at h0; injection h0 with h0; subst h0
            obtain ⟨a, b⟩ := addRule_marks s s0 _ hm hfl
            exact ⟨a, mOk_of_none b⟩
        · injection h0 with h0; subst h0; exact ⟨rfl, hm⟩
      cases h2 : s1.appendSub col [] [] with
      | error e => simp [h2] at h
      | ok s2 =>
        simp only [h2] at h
        obtain ⟨⟨kept, k1, k2⟩, k3⟩ := appendSub_marks s1 col s2 [] [] st1.2 (hcm col (by simp)) h2
        obtain ⟨i1, i2⟩ := ih false s2 s' (mOk_of_none k3) (fun x hx => hcm x (by simp [hx])) h
        refine ⟨?_, i2⟩
        have hk : kept.count n ≤ col.marks.count n := by rw [k1, List.count_append]; omega
        rw [k2, List.count_append, st1.1] at i1
        simp only [List.map_cons, List.sum_cons]; omega

theorem appendVertRow_marks (s s' : SubR) (cfg : Cfg) (cols : List SubR) (hm : s.MOk) (hcm : ∀ col ∈ cols, col.MOk)
    (h : s.appendVertRow cfg cols = .ok s') :
    s'.marks.count n ≤ s.marks.count n + (cols.map fun col => col.marks.count n).sum ∧ s'.MOk := by
  unfold SubR.appendVertRow at h
  cases h1 : s.flushWrapping with
  | error e => simp [h1, andThen] at h
  | ok s0 =>
    simp only [h1, andThen] at h
    obtain ⟨f1, f3⟩ := flushWrapping_marks s s0 hm h1
    cases h2 : vertCells cfg true s0 cols with
    | error e => simp [h2] at h
    | ok s1 =>
      simp only [h2] at h
      obtain ⟨v1, v2⟩ := vertCells_marks n cfg cols true s0 s1 (mOk_of_none f3) hcm h2
      split at h
      · cases h3 : s1.flushWrapping with
        | error e => simp [h3] at h
        | ok s2 =>
          simp only [h3] at h; injection h with h; subst h
          obtain ⟨r1, r2⟩ := addRule_marks s1 s2 (List.replicate s2.width Seg.straight) v2 h3
          exact ⟨by rw [r1]; rw [f1] at v1; exact v1, mOk_of_none r2⟩
      · injection h with h; subst h; exact ⟨by rw [f1] at v1; exact v1, v2⟩

theorem tableTop_marks (s s' : SubR) (cfg : Cfg) (tw : Nat) (hm : s.MOk) (h : s.tableTop cfg tw = .ok s') :
    s'.marks = s.marks ∧ s'.MOk := by
  unfold SubR.tableTop at h
  split at h
  · cases h1 : s.flushWrapping with
    | error e => simp [h1, andThen] at h
    | ok s2 =>
      simp only [h1, andThen] at h; injection h with h; subst h
      obtain ⟨a, b⟩ := addRule_marks s s2 _ hm h1
      exact ⟨a, mOk_of_none b⟩
  · injection h with h; subst h; exact ⟨rfl, hm⟩

theorem appendRow_marks (s s' : SubR) (cfg : Cfg) (vert : Bool) (subs : List SubR) (hm : s.MOk) (hcm : ∀ col ∈ subs, col.MOk)
    (h : s.appendRow cfg vert subs = .ok s') :
    s'.marks.count n ≤ s.marks.count n + (subs.map fun col => col.marks.count n).sum ∧ s'.MOk := by
  unfold SubR.appendRow at h
  split at h
  · exact appendVertRow_marks n s s' cfg subs hm hcm h
  · split at h
    · obtain ⟨a, b⟩ := appendColumns_marks n s s' cfg subs hm hcm h; exact ⟨a, mOk_of_none b⟩
    · injection h with h; subst h; exact ⟨by omega, hm⟩

end


/-! ## programs -/

mutual
/-- every marker a program records, tables included, in program order -/
def allFrags : Op → List (List Ch)
  | .frag n => [n]
  | .sub _ _ _ _ _ body => allFragsL body
  | .table _ rows => allFragsL rows
  | .row pre post cells => allFragsL pre ++ (allFragsL cells ++ allFragsL post)
  | .cell _ _ body => allFragsL body
  | _ => []
def allFragsL : List Op → List (List Ch)
  | [] => []
  | op :: r => allFrags op ++ allFragsL r
end

theorem simple_fragcnt (n : List Ch) (cfg : Cfg) (d : Deco) (t t' : RS) (op : Op) (hm : t.cur.MOk)
    (hsub : ∀ p m f r a b, op ≠ .sub p m f r a b) (htf : tableFreeOp op = true) (h : stepSimple cfg d t op = .ok t') :
    t'.cur.marks.count n ≤ t.cur.marks.count n + (allFrags op).count n ∧ t'.cur.MOk := by
  obtain ⟨⟨kept, k1, _, k3⟩, m1⟩ := stepSimple_marks cfg d t t' op hm hsub htf h
  refine ⟨?_, m1⟩
  rw [k1, List.count_append, k3 rfl]
  apply Nat.add_le_add_left
  cases op <;> simp only [opFrags, allFrags] <;> first | exact Nat.le_refl _ | skip
  all_goals (first | exact absurd rfl (hsub _ _ _ _ _ _) | simp [tableFreeOp] at htf)

mutual
theorem runOp_fragcnt (n : List Ch) (cfg : Cfg) (d : Deco) :
    (op : Op) → (t t' : RS) → t.cur.MOk → runOp SubR.widthMinus cfg d t op = .ok t' →
    t'.cur.marks.count n ≤ t.cur.marks.count n + (allFrags op).count n ∧ t'.cur.MOk
  | .sub p m first rest asBlock body, t, t', hm, he => by
    simp only [runOp] at he
    cases e1 : t.cur.widthMinus cfg p m with
    | error e => simp [e1, andThen_error_eq] at he
    | ok w =>
      simp only [e1, andThen_ok_eq] at he
      cases e2 : runOps SubR.widthMinus cfg d { links := t.links, cur := ({ width := w, annStack := t.cur.annStack } : SubR) } body with
      | error e => simp [e2, andThen_error_eq] at he
      | ok r =>
        simp only [e2, andThen_ok_eq] at he
        obtain ⟨f1, f2⟩ := fresh_marks w t.cur.annStack
        obtain ⟨hb1, hb2⟩ := runOps_fragcnt n cfg d body _ r f2 e2
        rw [f1] at hb1
        generalize e3 : (if asBlock = true then t.cur.startBlock else Except.ok t.cur) = r3 at he
        cases r3 with
        | error e => simp [andThen_error_eq] at he
        | ok s1 =>
          simp only [andThen_ok_eq] at he
          have st1 : s1.marks = t.cur.marks ∧ s1.MOk := by
            split at e3
            · obtain ⟨q1, q2⟩ := startBlock_marks _ s1 hm e3; exact ⟨q1, mOk_of_none q2⟩
            · injection e3 with e3; subst e3; exact ⟨rfl, hm⟩
          cases e4 : s1.appendSub r.cur first rest with
          | error e => simp [e4, andThen_error_eq] at he
          | ok s2 =>
            simp only [e4, andThen_ok_eq] at he; injection he with he; subst he
            obtain ⟨⟨kept, k1, k2⟩, k3⟩ := appendSub_marks s1 r.cur s2 first rest st1.2 hb2 e4
            have hmk : (if asBlock = true then ({ s2 with atBlockEnd := true } : SubR) else s2).marks = s2.marks := by split <;> rfl
            have hmo : (if asBlock = true then ({ s2 with atBlockEnd := true } : SubR) else s2).MOk := by
              split
              · exact mOk_of_none (by exact k3)
              · exact mOk_of_none k3
            refine ⟨?_, hmo⟩
            show (if asBlock = true then ({ s2 with atBlockEnd := true } : SubR) else s2).marks.count n ≤ _
            rw [hmk, k2, st1.1, List.count_append]
            have hk : kept.count n ≤ r.cur.marks.count n := by rw [k1, List.count_append]; omega
            simp only [allFrags, List.count_nil, Nat.zero_add] at hb1 ⊢
            omega
  | .table cols rows, t, t', hm, he => by
    simp only [runOp] at he
    cases h1 : allocCols cfg t.cur.width cols with
    | error e => simp [h1, andThen] at he
    | ok v =>
      obtain ⟨ws, vert, tw⟩ := v
      simp only [h1, andThen_ok_eq] at he
      cases h2 : t.cur.startBlock with
      | error e => simp [h2, andThen_error_eq] at he
      | ok s1 =>
        simp only [h2, andThen_ok_eq] at he
        obtain ⟨b1, b2⟩ := startBlock_marks _ s1 hm h2
        cases h3 : s1.tableTop cfg tw with
        | error e => simp [h3, andThen_error_eq] at he
        | ok s3 =>
          simp only [h3, andThen_ok_eq] at he
          obtain ⟨c1, c2⟩ := tableTop_marks s1 s3 cfg tw (mOk_of_none b2) h3
          obtain ⟨r1, r2⟩ := runRows_fragcnt n cfg d rows ws vert { t with cur := s3 } t' c2 he
          refine ⟨?_, r2⟩
          simp only [allFrags]
          have : ({ t with cur := s3 } : RS).cur.marks.count n = t.cur.marks.count n := by show s3.marks.count n = _; rw [c1, b1]
          omega
  | .row _ _ _, t, t', hm, he => by simp [runOp] at he; subst he; exact ⟨Nat.le_add_right _ _, hm⟩
  | .cell _ _ _, t, t', hm, he => by simp [runOp] at he; subst he; exact ⟨Nat.le_add_right _ _, hm⟩
  | .pushWs ws, t, t', hm, he => simple_fragcnt n cfg d t t' _ hm (by simp) (by simp [tableFreeOp]) (by simpa [runOp] using he)
  | .popWs, t, t', hm, he => simple_fragcnt n cfg d t t' _ hm (by simp) (by simp [tableFreeOp]) (by simpa [runOp] using he)
  | .pushPre, t, t', hm, he => simple_fragcnt n cfg d t t' _ hm (by simp) (by simp [tableFreeOp]) (by simpa [runOp] using he)
  | .popPre, t, t', hm, he => simple_fragcnt n cfg d t t' _ hm (by simp) (by simp [tableFreeOp]) (by simpa [runOp] using he)
  | .pushAnn a, t, t', hm, he => simple_fragcnt n cfg d t t' _ hm (by simp) (by simp [tableFreeOp]) (by simpa [runOp] using he)
  | .popAnn, t, t', hm, he => simple_fragcnt n cfg d t t' _ hm (by simp) (by simp [tableFreeOp]) (by simpa [runOp] using he)
  | .text x, t, t', hm, he => simple_fragcnt n cfg d t t' _ hm (by simp) (by simp [tableFreeOp]) (by simpa [runOp] using he)
  | .frag nm, t, t', hm, he => simple_fragcnt n cfg d t t' _ hm (by simp) (by simp [tableFreeOp]) (by simpa [runOp] using he)
  | .startLink h, t, t', hm, he => simple_fragcnt n cfg d t t' _ hm (by simp) (by simp [tableFreeOp]) (by simpa [runOp] using he)
  | .endLink, t, t', hm, he => simple_fragcnt n cfg d t t' _ hm (by simp) (by simp [tableFreeOp]) (by simpa [runOp] using he)
  | .startAnn a x s, t, t', hm, he => simple_fragcnt n cfg d t t' _ hm (by simp) (by simp [tableFreeOp]) (by simpa [runOp] using he)
  | .endAnn x s, t, t', hm, he => simple_fragcnt n cfg d t t' _ hm (by simp) (by simp [tableFreeOp]) (by simpa [runOp] using he)
  | .image a b, t, t', hm, he => simple_fragcnt n cfg d t t' _ hm (by simp) (by simp [tableFreeOp]) (by simpa [runOp] using he)
  | .startBlock, t, t', hm, he => simple_fragcnt n cfg d t t' _ hm (by simp) (by simp [tableFreeOp]) (by simpa [runOp] using he)
  | .endBlock, t, t', hm, he => simple_fragcnt n cfg d t t' _ hm (by simp) (by simp [tableFreeOp]) (by simpa [runOp] using he)
  | .newLine, t, t', hm, he => simple_fragcnt n cfg d t t' _ hm (by simp) (by simp [tableFreeOp]) (by simpa [runOp] using he)
  | .newLineHard, t, t', hm, he => simple_fragcnt n cfg d t t' _ hm (by simp) (by simp [tableFreeOp]) (by simpa [runOp] using he)
theorem runOps_fragcnt (n : List Ch) (cfg : Cfg) (d : Deco) :
    (ops : List Op) → (t t' : RS) → t.cur.MOk → runOps SubR.widthMinus cfg d t ops = .ok t' →
    t'.cur.marks.count n ≤ t.cur.marks.count n + (allFragsL ops).count n ∧ t'.cur.MOk
  | [], t, t', hm, he => by simp [runOps] at he; subst he; exact ⟨Nat.le_add_right _ _, hm⟩
  | op :: ops, t, t', hm, he => by
    simp only [runOps] at he
    cases h1 : runOp SubR.widthMinus cfg d t op with
    | error e => simp [h1, andThen_error_eq] at he
    | ok t1 =>
      simp only [h1, andThen_ok_eq] at he
      obtain ⟨a1, a2⟩ := runOp_fragcnt n cfg d op t t1 hm h1
      obtain ⟨b1, b2⟩ := runOps_fragcnt n cfg d ops t1 t' a2 he
      refine ⟨?_, b2⟩
      simp only [allFragsL, List.count_append]; omega
theorem runRows_fragcnt (n : List Ch) (cfg : Cfg) (d : Deco) :
    (rows : List Op) → (ws : List Nat) → (vert : Bool) → (t t' : RS) → t.cur.MOk →
    runRows SubR.widthMinus cfg d ws vert t rows = .ok t' →
    t'.cur.marks.count n ≤ t.cur.marks.count n + (allFragsL rows).count n ∧ t'.cur.MOk
  | [], ws, vert, t, t', hm, he => by simp [runRows] at he; subst he; exact ⟨Nat.le_add_right _ _, hm⟩
  | .row pre post cells :: rs, ws, vert, t, t', hm, he => by
    simp only [runRows] at he
    cases h1 : runOps SubR.widthMinus cfg d t pre with
    | error e => simp [h1, andThen] at he
    | ok t1 =>
      simp only [h1, andThen_ok_eq] at he
      obtain ⟨p1, p2⟩ := runOps_fragcnt n cfg d pre t t1 hm h1
      cases h2 : runCells SubR.widthMinus cfg d ws vert t1.cur.annStack t1.links cells with
      | error e => simp [h2, andThen_error_eq] at he
      | ok v =>
        obtain ⟨links, subs⟩ := v
        simp only [h2, andThen_ok_eq] at he
        obtain ⟨q1, q2⟩ := runCells_fragcnt n cfg d cells ws vert t1.cur.annStack t1.links links subs h2
        cases h3 : t1.cur.appendRow cfg vert subs with
        | error e => simp [h3, andThen_error_eq] at he
        | ok s2 =>
          simp only [h3, andThen_ok_eq] at he
          obtain ⟨r1, r2⟩ := appendRow_marks n t1.cur s2 cfg vert subs p2 q2 h3
          cases h4 : runOps SubR.widthMinus cfg d { links := links, cur := s2 } post with
          | error e => simp [h4, andThen_error_eq] at he
          | ok t3 =>
            simp only [h4, andThen_ok_eq] at he
            obtain ⟨u1, u2⟩ := runOps_fragcnt n cfg d post _ t3 r2 h4
            obtain ⟨v1, v2⟩ := runRows_fragcnt n cfg d rs ws vert t3 t' u2 he
            refine ⟨?_, v2⟩
            simp only [allFragsL, allFrags, List.count_append]
            have : ({ links := links, cur := s2 } : RS).cur.marks.count n = s2.marks.count n := rfl
            omega
  | .sub _ _ _ _ _ _ :: rs, ws, vert, t, t', hm, he => by
    simp only [runRows] at he
    obtain ⟨a, b⟩ := runRows_fragcnt n cfg d rs ws vert t t' hm he
    exact ⟨by simp only [allFragsL, List.count_append]; omega, b⟩
  | .table _ _ :: rs, ws, vert, t, t', hm, he => by
    simp only [runRows] at he
    obtain ⟨a, b⟩ := runRows_fragcnt n cfg d rs ws vert t t' hm he
    exact ⟨by simp only [allFragsL, List.count_append]; omega, b⟩
  | .cell _ _ _ :: rs, ws, vert, t, t', hm, he => by
    simp only [runRows] at he
    obtain ⟨a, b⟩ := runRows_fragcnt n cfg d rs ws vert t t' hm he
    exact ⟨by simp only [allFragsL, List.count_append]; omega, b⟩
  | .pushWs _ :: rs, ws, vert, t, t', hm, he => by
    simp only [runRows] at he
    obtain ⟨a, b⟩ := runRows_fragcnt n cfg d rs ws vert t t' hm he
    exact ⟨by simp only [allFragsL, List.count_append]; omega, b⟩
  | .popWs :: rs, ws, vert, t, t', hm, he => by
    simp only [runRows] at he
    obtain ⟨a, b⟩ := runRows_fragcnt n cfg d rs ws vert t t' hm he
    exact ⟨by simp only [allFragsL, List.count_append]; omega, b⟩
  | .pushPre :: rs, ws, vert, t, t', hm, he => by
    simp only [runRows] at he
    obtain ⟨a, b⟩ := runRows_fragcnt n cfg d rs ws vert t t' hm he
    exact ⟨by simp only [allFragsL, List.count_append]; omega, b⟩
  | .popPre :: rs, ws, vert, t, t', hm, he => by
    simp only [runRows] at he
    obtain ⟨a, b⟩ := runRows_fragcnt n cfg d rs ws vert t t' hm he
    exact ⟨by simp only [allFragsL, List.count_append]; omega, b⟩
  | .pushAnn _ :: rs, ws, vert, t, t', hm, he => by
    simp only [runRows] at he
    obtain ⟨a, b⟩ := runRows_fragcnt n cfg d rs ws vert t t' hm he
    exact ⟨by simp only [allFragsL, List.count_append]; omega, b⟩
  | .popAnn :: rs, ws, vert, t, t', hm, he => by
    simp only [runRows] at he
    obtain ⟨a, b⟩ := runRows_fragcnt n cfg d rs ws vert t t' hm he
    exact ⟨by simp only [allFragsL, List.count_append]; omega, b⟩
  | .text _ :: rs, ws, vert, t, t', hm, he => by
    simp only [runRows] at he
    obtain ⟨a, b⟩ := runRows_fragcnt n cfg d rs ws vert t t' hm he
    exact ⟨by simp only [allFragsL, List.count_append]; omega, b⟩
  | .frag _ :: rs, ws, vert, t, t', hm, he => by
    simp only [runRows] at he
    obtain ⟨a, b⟩ := runRows_fragcnt n cfg d rs ws vert t t' hm he
    exact ⟨by simp only [allFragsL, List.count_append]; omega, b⟩
  | .startLink _ :: rs, ws, vert, t, t', hm, he => by
    simp only [runRows] at he
    obtain ⟨a, b⟩ := runRows_fragcnt n cfg d rs ws vert t t' hm he
    exact ⟨by simp only [allFragsL, List.count_append]; omega, b⟩
  | .endLink :: rs, ws, vert, t, t', hm, he => by
    simp only [runRows] at he
    obtain ⟨a, b⟩ := runRows_fragcnt n cfg d rs ws vert t t' hm he
    exact ⟨by simp only [allFragsL, List.count_append]; omega, b⟩
  | .startAnn _ _ _ :: rs, ws, vert, t, t', hm, he => by
    simp only [runRows] at he
    obtain ⟨a, b⟩ := runRows_fragcnt n cfg d rs ws vert t t' hm he
    exact ⟨by simp only [allFragsL, List.count_append]; omega, b⟩
  | .endAnn _ _ :: rs, ws, vert, t, t', hm, he => by
    simp only [runRows] at he
    obtain ⟨a, b⟩ := runRows_fragcnt n cfg d rs ws vert t t' hm he
    exact ⟨by simp only [allFragsL, List.count_append]; omega, b⟩
  | .image _ _ :: rs, ws, vert, t, t', hm, he => by
    simp only [runRows] at he
    obtain ⟨a, b⟩ := runRows_fragcnt n cfg d rs ws vert t t' hm he
    exact ⟨by simp only [allFragsL, List.count_append]; omega, b⟩
  | .startBlock :: rs, ws, vert, t, t', hm, he => by
    simp only [runRows] at he
    obtain ⟨a, b⟩ := runRows_fragcnt n cfg d rs ws vert t t' hm he
    exact ⟨by simp only [allFragsL, List.count_append]; omega, b⟩
  | .endBlock :: rs, ws, vert, t, t', hm, he => by
    simp only [runRows] at he
    obtain ⟨a, b⟩ := runRows_fragcnt n cfg d rs ws vert t t' hm he
    exact ⟨by simp only [allFragsL, List.count_append]; omega, b⟩
  | .newLine :: rs, ws, vert, t, t', hm, he => by
    simp only [runRows] at he
    obtain ⟨a, b⟩ := runRows_fragcnt n cfg d rs ws vert t t' hm he
    exact ⟨by simp only [allFragsL, List.count_append]; omega, b⟩
  | .newLineHard :: rs, ws, vert, t, t', hm, he => by
    simp only [runRows] at he
    obtain ⟨a, b⟩ := runRows_fragcnt n cfg d rs ws vert t t' hm he
    exact ⟨by simp only [allFragsL, List.count_append]; omega, b⟩
theorem runCells_fragcnt (n : List Ch) (cfg : Cfg) (d : Deco) :
    (cells : List Op) → (ws : List Nat) → (vert : Bool) → (ann : Tag) → (links : List (List Ch)) →
    (l2 : List (List Ch)) → (subs : List SubR) →
    runCells SubR.widthMinus cfg d ws vert ann links cells = .ok (l2, subs) →
    (subs.map fun col => col.marks.count n).sum ≤ (allFragsL cells).count n ∧ ∀ col ∈ subs, col.MOk
  | [], ws, vert, ann, links, l2, subs, he => by
    simp [runCells] at he; obtain ⟨_, rfl⟩ := he; simp
  | .cell colno span body :: cs, ws, vert, ann, links, l2, subs, he => by
    simp only [runCells] at he
    split at he
    · simp at he
    · split at he
      · obtain ⟨a, b⟩ := runCells_fragcnt n cfg d cs ws vert ann links l2 subs he
        exact ⟨by simp only [allFragsL, List.count_append]; omega, b⟩
      · cases h1 : runOps SubR.widthMinus cfg d { links := links, cur := ({ width := cellOuter vert (cellInner ws vert colno span) span, annStack := ann } : SubR) } body with
        | error e => simp [h1, andThen] at he
        | ok r =>
          simp only [h1, andThen_ok_eq] at he
          obtain ⟨f1, f2⟩ := fresh_marks (cellOuter vert (cellInner ws vert colno span) span) ann
          obtain ⟨b1, b2⟩ := runOps_fragcnt n cfg d body _ r f2 h1
          rw [f1] at b1
          cases h2 : runCells SubR.widthMinus cfg d ws vert ann r.links cs with
          | error e => simp [h2, andThen_error_eq] at he
          | ok v =>
            obtain ⟨l3, subs2⟩ := v
            simp only [h2, andThen_ok_eq] at he
            injection he with he
            simp only [Prod.mk.injEq] at he
            obtain ⟨_, rfl⟩ := he
            obtain ⟨q1, q2⟩ := runCells_fragcnt n cfg d cs ws vert ann r.links l3 subs2 h2
            refine ⟨?_, ?_⟩
            · simp only [List.map_cons, List.sum_cons, allFragsL, allFrags, List.count_append, List.count_nil, Nat.zero_add] at b1 ⊢
              omega
            · intro col hcol
              simp only [List.mem_cons] at hcol
              rcases hcol with rfl | hcol
              · exact b2
              · exact q2 col hcol
  | .sub _ _ _ _ _ _ :: cs, ws, vert, ann, links, l2, subs, he => by
    simp only [runCells] at he
    obtain ⟨a, b⟩ := runCells_fragcnt n cfg d cs ws vert ann links l2 subs he
    exact ⟨by simp only [allFragsL, List.count_append]; omega, b⟩
  | .table _ _ :: cs, ws, vert, ann, links, l2, subs, he => by
    simp only [runCells] at he
    obtain ⟨a, b⟩ := runCells_fragcnt n cfg d cs ws vert ann links l2 subs he
    exact ⟨by simp only [allFragsL, List.count_append]; omega, b⟩
  | .row _ _ _ :: cs, ws, vert, ann, links, l2, subs, he => by
    simp only [runCells] at he
    obtain ⟨a, b⟩ := runCells_fragcnt n cfg d cs ws vert ann links l2 subs he
    exact ⟨by simp only [allFragsL, List.count_append]; omega, b⟩
  | .pushWs _ :: cs, ws, vert, ann, links, l2, subs, he => by
    simp only [runCells] at he
    obtain ⟨a, b⟩ := runCells_fragcnt n cfg d cs ws vert ann links l2 subs he
    exact ⟨by simp only [allFragsL, List.count_append]; omega, b⟩
  | .popWs :: cs, ws, vert, ann, links, l2, subs, he => by
    simp only [runCells] at he
    obtain ⟨a, b⟩ := runCells_fragcnt n cfg d cs ws vert ann links l2 subs he
    exact ⟨by simp only [allFragsL, List.count_append]; omega, b⟩
  | .pushPre :: cs, ws, vert, ann, links, l2, subs, he => by
    simp only [runCells] at he
    obtain ⟨a, b⟩ := runCells_fragcnt n cfg d cs ws vert ann links l2 subs he
    exact ⟨by simp only [allFragsL, List.count_append]; omega, b⟩
  | .popPre :: cs, ws, vert, ann, links, l2, subs, he => by
    simp only [runCells] at he
    obtain ⟨a, b⟩ := runCells_fragcnt n cfg d cs ws vert ann links l2 subs he
    exact ⟨by simp only [allFragsL, List.count_append]; omega, b⟩
  | .pushAnn _ :: cs, ws, vert, ann, links, l2, subs, he => by
    simp only [runCells] at he
    obtain ⟨a, b⟩ := runCells_fragcnt n cfg d cs ws vert ann links l2 subs he
    exact ⟨by simp only [allFragsL, List.count_append]; omega, b⟩
  | .popAnn :: cs, ws, vert, ann, links, l2, subs, he => by
    simp only [runCells] at he
    obtain ⟨a, b⟩ := runCells_fragcnt n cfg d cs ws vert ann links l2 subs he
    exact ⟨by simp only [allFragsL, List.count_append]; omega, b⟩
  | .text _ :: cs, ws, vert, ann, links, l2, subs, he => by
    simp only [runCells] at he
    obtain ⟨a, b⟩ := runCells_fragcnt n cfg d cs ws vert ann links l2 subs he
    exact ⟨by simp only [allFragsL, List.count_append]; omega, b⟩
  | .frag _ :: cs, ws, vert, ann, links, l2, subs, he => by
    simp only [runCells] at he
    obtain ⟨a, b⟩ := runCells_fragcnt n cfg d cs ws vert ann links l2 subs he
    exact ⟨by simp only [allFragsL, List.count_append]; omega, b⟩
  | .startLink _ :: cs, ws, vert, ann, links, l2, subs, he => by
    simp only [runCells] at he
    obtain ⟨a, b⟩ := runCells_fragcnt n cfg d cs ws vert ann links l2 subs he
    exact ⟨by simp only [allFragsL, List.count_append]; omega, b⟩
  | .endLink :: cs, ws, vert, ann, links, l2, subs, he => by
    simp only [runCells] at he
    obtain ⟨a, b⟩ := runCells_fragcnt n cfg d cs ws vert ann links l2 subs he
    exact ⟨by simp only [allFragsL, List.count_append]; omega, b⟩
  | .startAnn _ _ _ :: cs, ws, vert, ann, links, l2, subs, he => by
    simp only [runCells] at he
    obtain ⟨a, b⟩ := runCells_fragcnt n cfg d cs ws vert ann links l2 subs he
    exact ⟨by simp only [allFragsL, List.count_append]; omega, b⟩
  | .endAnn _ _ :: cs, ws, vert, ann, links, l2, subs, he => by
    simp only [runCells] at he
    obtain ⟨a, b⟩ := runCells_fragcnt n cfg d cs ws vert ann links l2 subs he
    exact ⟨by simp only [allFragsL, List.count_append]; omega, b⟩
  | .image _ _ :: cs, ws, vert, ann, links, l2, subs, he => by
    simp only [runCells] at he
    obtain ⟨a, b⟩ := runCells_fragcnt n cfg d cs ws vert ann links l2 subs he
    exact ⟨by simp only [allFragsL, List.count_append]; omega, b⟩
  | .startBlock :: cs, ws, vert, ann, links, l2, subs, he => by
    simp only [runCells] at he
    obtain ⟨a, b⟩ := runCells_fragcnt n cfg d cs ws vert ann links l2 subs he
    exact ⟨by simp only [allFragsL, List.count_append]; omega, b⟩
  | .endBlock :: cs, ws, vert, ann, links, l2, subs, he => by
    simp only [runCells] at he
    obtain ⟨a, b⟩ := runCells_fragcnt n cfg d cs ws vert ann links l2 subs he
    exact ⟨by simp only [allFragsL, List.count_append]; omega, b⟩
  | .newLine :: cs, ws, vert, ann, links, l2, subs, he => by
    simp only [runCells] at he
    obtain ⟨a, b⟩ := runCells_fragcnt n cfg d cs ws vert ann links l2 subs he
    exact ⟨by simp only [allFragsL, List.count_append]; omega, b⟩
  | .newLineHard :: cs, ws, vert, ann, links, l2, subs, he => by
    simp only [runCells] at he
    obtain ⟨a, b⟩ := runCells_fragcnt n cfg d cs ws vert ann links l2 subs he
    exact ⟨by simp only [allFragsL, List.count_append]; omega, b⟩
end

/-- **no marker is invented or duplicated, tables included**: every marker name occurs in the lines `renderTree` returns at
    most as often as the program records it -/
theorem renderTree_fragcnt (n : List Ch) (cfg : Cfg) (d : Deco) (w : Nat) (tree : RNode) (ls : List RLine)
    (h : renderTree cfg d w tree = .ok ls) : (ls.flatMap rmarks).count n ≤ (allFragsL (compile cfg d tree)).count n := by
  unfold renderTree at h
  split at h
  · simp at h
  · cases h1 : runOps SubR.widthMinus cfg d { cur := { width := w } } (compile cfg d tree) with
    | error e => simp [h1, andThen_error_eq] at h
    | ok t =>
      simp only [h1, andThen_ok_eq] at h
      obtain ⟨f1, f2⟩ := fresh_marks w []
      obtain ⟨a1, mt⟩ := runOps_fragcnt n cfg d _ _ t f2 h1
      rw [f1] at a1
      have fin : ∀ (s : SubR), s.MOk → s.marks.count n ≤ t.cur.marks.count n → s.intoLines = .ok ls →
          (ls.flatMap rmarks).count n ≤ t.cur.marks.count n := by
        intro s hs hle hl
        have := intoLines_marks s ls hs hl
        have : (ls.flatMap rmarks).count n ≤ s.marks.count n := by rw [← this, List.count_append]; omega
        omega
      have key : (ls.flatMap rmarks).count n ≤ t.cur.marks.count n := by
        split at h
        · exact fin _ mt (Nat.le_refl _) h
        · cases h2 : t.cur.startBlock with
          | error e => simp [h2, andThen_error_eq] at h
          | ok s1 =>
            simp only [h2, andThen_ok_eq] at h
            obtain ⟨q1, q2⟩ := startBlock_marks _ s1 mt h2
            obtain ⟨b1, b2⟩ := addLines_marks ((List.flatMap (fmtLinkLine cfg (d.annOf Ann.dflt) s1.width) (footTexts cfg t.links)).map RLine.text) s1 q2
            have hfoot : ((List.flatMap (fmtLinkLine cfg (d.annOf Ann.dflt) s1.width) (footTexts cfg t.links)).map RLine.text).flatMap rmarks = [] := by
              rw [List.flatMap_map]
              apply List.flatMap_eq_nil_iff.mpr
              intro tl htl
              simp only [List.mem_flatMap] at htl
              obtain ⟨f, _, hf⟩ := htl
              exact fmtLinkLine_marks cfg _ _ f tl hf
            exact fin _ (mOk_of_none b2) (by rw [b1, hfoot, List.append_nil, q1]; exact Nat.le_refl _) h
      simp only [List.count_nil, Nat.zero_add] at a1
      omega


/-! ## the program's markers are the tree's -/

mutual
/-- the fragment nodes of a render tree, tables included (cells in row order) -/
def treeFrags : RNode → List (List Ch)
  | .frag n => [n]
  | .box _ _ kids => treeFragsL kids
  | .cell _ _ kids => treeFragsL kids
  | .table _ rows _ => rowsFragsT rows
  | _ => []
def treeFragsL : List RNode → List (List Ch)
  | [] => []
  | n :: ns => treeFrags n ++ treeFragsL ns
def rowsFragsT : List RNode → List (List Ch)
  | [] => []
  | .row _ cells :: rs => cellsFragsT cells ++ rowsFragsT rs
  | _ :: rs => rowsFragsT rs
def cellsFragsT : List RNode → List (List Ch)
  | [] => []
  | .cell _ _ kids :: cs => treeFragsL kids ++ cellsFragsT cs
  | _ :: cs => cellsFragsT cs
end

theorem supDigits_treeFrags (kids : List RNode) (ds : List Ch) (h : supDigits kids = some ds) : treeFragsL kids = [] := by
  unfold supDigits at h
  split at h
  · simp [treeFragsL, treeFrags]
  · simp at h

theorem allFragsL_append (a b : List Op) : allFragsL (a ++ b) = allFragsL a ++ allFragsL b := by
  induction a with
  | nil => rfl
  | cons x a ih => simp [allFragsL, ih]

theorem styleOps_allFrags (ops : List Op) (h : ∀ op ∈ ops, isStyleOp op = true) : allFragsL ops = [] := by
  induction ops with
  | nil => rfl
  | cons op ops ih =>
    have := h op (by simp)
    simp only [allFragsL, ih (fun o ho => h o (by simp [ho])), List.append_nil]
    cases op <;> simp [isStyleOp] at this <;> rfl

theorem styleOpen_allFrags (d : Deco) (st : Style) : allFragsL (styleOpen d st) = [] := styleOps_allFrags _ (styleOpen_style d st)
theorem styleClose_allFrags (d : Deco) (st : Style) : allFragsL (styleClose d st) = [] := styleOps_allFrags _ (styleClose_style d st)

mutual
theorem allFrags_compile (cfg : Cfg) (d : Deco) : (n : RNode) → allFragsL (compile cfg d n) = treeFrags n
  | .text st s => by simp [compile, allFragsL_append, styleOpen_allFrags, styleClose_allFrags, allFragsL, allFrags, treeFrags]
  | .img st a b => by simp [compile, allFragsL_append, styleOpen_allFrags, styleClose_allFrags, allFragsL, allFrags, treeFrags]
  | .br st => by simp [compile, allFragsL_append, styleOpen_allFrags, styleClose_allFrags, allFragsL, allFrags, treeFrags]
  | .frag n => by simp [compile, allFragsL, allFrags, treeFrags]
  | .row _ _ => by simp [compile, allFragsL, treeFrags]
  | .tbody _ _ => by simp [compile, allFragsL, treeFrags]
  | .table st rows n => by
    simp [compile, allFragsL_append, styleOpen_allFrags, styleClose_allFrags, allFragsL, allFrags, treeFrags, allFrags_compileRows cfg d rows]
  | .cell st _ kids => by
    simp [compile, allFragsL_append, styleOpen_allFrags, styleClose_allFrags, treeFrags, allFrags_compileList cfg d kids]
  | .box st k kids => by
    have hb := allFrags_compileList cfg d kids
    cases k with
    | container => simp [compile, allFragsL_append, styleOpen_allFrags, styleClose_allFrags, hb, treeFrags]
    | link href => simp [compile, allFragsL_append, styleOpen_allFrags, styleClose_allFrags, hb, treeFrags, allFragsL, allFrags]
    | em => simp [compile, allFragsL_append, styleOpen_allFrags, styleClose_allFrags, hb, treeFrags, allFragsL, allFrags]
    | strong => simp [compile, allFragsL_append, styleOpen_allFrags, styleClose_allFrags, hb, treeFrags, allFragsL, allFrags]
    | strike => simp [compile, allFragsL_append, styleOpen_allFrags, styleClose_allFrags, hb, treeFrags, allFragsL, allFrags]
    | code => simp [compile, allFragsL_append, styleOpen_allFrags, styleClose_allFrags, hb, treeFrags, allFragsL, allFrags]
    | block => simp [compile, allFragsL_append, styleOpen_allFrags, styleClose_allFrags, hb, treeFrags, allFragsL, allFrags]
    | li => simp [compile, allFragsL_append, styleOpen_allFrags, styleClose_allFrags, hb, treeFrags, allFragsL, allFrags]
    | header lvl => simp [compile, allFragsL_append, styleOpen_allFrags, styleClose_allFrags, hb, treeFrags, allFragsL, allFrags]
    | div => simp [compile, allFragsL_append, styleOpen_allFrags, styleClose_allFrags, hb, treeFrags, allFragsL, allFrags]
    | quote => simp [compile, allFragsL_append, styleOpen_allFrags, styleClose_allFrags, hb, treeFrags, allFragsL, allFrags]
    | ul =>
      simp only [compile, allFragsL_append, styleOpen_allFrags, styleClose_allFrags, List.nil_append, List.append_nil, treeFrags]
      exact allFrags_compileItems cfg d _ _ _ _ 0 kids
    | ol start =>
      simp only [compile, allFragsL_append, styleOpen_allFrags, styleClose_allFrags, List.nil_append, List.append_nil, treeFrags]
      exact allFrags_compileItems cfg d _ _ _ _ 0 kids
    | dl => simp [compile, allFragsL_append, styleOpen_allFrags, styleClose_allFrags, hb, treeFrags, allFragsL, allFrags]
    | dt => simp [compile, allFragsL_append, styleOpen_allFrags, styleClose_allFrags, hb, treeFrags, allFragsL, allFrags]
    | dd => simp [compile, allFragsL_append, styleOpen_allFrags, styleClose_allFrags, hb, treeFrags, allFragsL, allFrags]
    | sup =>
      simp only [compile, treeFrags]
      cases hsd : supDigits kids with
      | some ds => simp [allFragsL_append, styleOpen_allFrags, styleClose_allFrags, allFragsL, allFrags, supDigits_treeFrags kids ds hsd]
      | none => simp [allFragsL_append, styleOpen_allFrags, styleClose_allFrags, hb, allFragsL, allFrags]
theorem allFrags_compileList (cfg : Cfg) (d : Deco) : (ns : List RNode) → allFragsL (compileList cfg d ns) = treeFragsL ns
  | [] => by simp [compileList, allFragsL, treeFragsL]
  | n :: ns => by simp [compileList, allFragsL_append, treeFragsL, allFrags_compile cfg d n, allFrags_compileList cfg d ns]
theorem allFrags_compileItems (cfg : Cfg) (d : Deco) (pw minW : Nat) (first : Nat → List Ch) (rest : List Ch) :
    (i : Nat) → (ns : List RNode) → allFragsL (compileItems cfg d pw minW first rest i ns) = treeFragsL ns
  | _, [] => by simp [compileItems, allFragsL, treeFragsL]
  | i, n :: ns => by
    simp [compileItems, allFragsL, allFrags, treeFragsL, allFrags_compile cfg d n, allFrags_compileItems cfg d pw minW first rest (i + 1) ns]
theorem allFrags_compileRows (cfg : Cfg) (d : Deco) : (rows : List RNode) → allFragsL (compileRows cfg d rows) = rowsFragsT rows
  | [] => by simp [compileRows, allFragsL, rowsFragsT]
  | .row st cells :: rs => by
    simp [compileRows, allFragsL, allFrags, rowsFragsT, styleOpen_allFrags, styleClose_allFrags, allFrags_compileCells cfg d 0 cells, allFrags_compileRows cfg d rs]
  | .text .. :: rs => by simp [compileRows, rowsFragsT, allFrags_compileRows cfg d rs]
  | .img .. :: rs => by simp [compileRows, rowsFragsT, allFrags_compileRows cfg d rs]
  | .br .. :: rs => by simp [compileRows, rowsFragsT, allFrags_compileRows cfg d rs]
  | .frag .. :: rs => by simp [compileRows, rowsFragsT, allFrags_compileRows cfg d rs]
  | .box .. :: rs => by simp [compileRows, rowsFragsT, allFrags_compileRows cfg d rs]
  | .cell .. :: rs => by simp [compileRows, rowsFragsT, allFrags_compileRows cfg d rs]
  | .tbody .. :: rs => by simp [compileRows, rowsFragsT, allFrags_compileRows cfg d rs]
  | .table .. :: rs => by simp [compileRows, rowsFragsT, allFrags_compileRows cfg d rs]
theorem allFrags_compileCells (cfg : Cfg) (d : Deco) : (colno : Nat) → (cells : List RNode) →
    allFragsL (compileCells cfg d colno cells) = cellsFragsT cells
  | _, [] => by simp [compileCells, allFragsL, cellsFragsT]
  | colno, .cell st span kids :: cs => by
    simp [compileCells, allFragsL, allFrags, cellsFragsT, allFragsL_append, styleOpen_allFrags, styleClose_allFrags, allFrags_compileList cfg d kids,
      allFrags_compileCells cfg d (colno + span) cs]
  | colno, .text .. :: cs => by simp [compileCells, cellsFragsT, allFrags_compileCells cfg d colno cs]
  | colno, .img .. :: cs => by simp [compileCells, cellsFragsT, allFrags_compileCells cfg d colno cs]
  | colno, .br .. :: cs => by simp [compileCells, cellsFragsT, allFrags_compileCells cfg d colno cs]
  | colno, .frag .. :: cs => by simp [compileCells, cellsFragsT, allFrags_compileCells cfg d colno cs]
  | colno, .box .. :: cs => by simp [compileCells, cellsFragsT, allFrags_compileCells cfg d colno cs]
  | colno, .row .. :: cs => by simp [compileCells, cellsFragsT, allFrags_compileCells cfg d colno cs]
  | colno, .tbody .. :: cs => by simp [compileCells, cellsFragsT, allFrags_compileCells cfg d colno cs]
  | colno, .table .. :: cs => by simp [compileCells, cellsFragsT, allFrags_compileCells cfg d colno cs]
end


/-- **no marker invented or duplicated, in terms of the tree** -/
theorem renderTree_fragcnt_tree (n : List Ch) (cfg : Cfg) (d : Deco) (w : Nat) (tree : RNode) (ls : List RLine)
    (h : renderTree cfg d w tree = .ok ls) : (ls.flatMap rmarks).count n ≤ (treeFrags tree).count n := by
  rw [← allFrags_compile cfg d tree]
  exact renderTree_fragcnt n cfg d w tree ls h

end H2T
