import H2T.Lemmas.CfgCongr
import H2T.Lemmas.TableTotal
import H2T.Lemmas.RenderFits

/-! C15 at the level of render trees: `renderTree` gives the same result under two configurations that agree on what the
    tree can observe. -/

namespace H2T

variable {c1 c2 : Cfg}

/-! ## `compile` only reads `min_wrap_width` -/

theorem rowColsMax_congr (hmw : c1.minWrap = c2.minWrap) (d : Deco) : (cs : List RNode) → (colno : Nat) → (acc : List SizeEst) →
    rowColsMax c1 d cs colno acc = rowColsMax c2 d cs colno acc
  | [], _, _ => by simp only [rowColsMax]
  | .cell _ span kids :: cs, colno, acc => by simp only [rowColsMax, hmw]; exact rowColsMax_congr hmw d cs _ _
  | .text .. :: cs, colno, acc => by simp only [rowColsMax]; exact rowColsMax_congr hmw d cs _ _
  | .img .. :: cs, colno, acc => by simp only [rowColsMax]; exact rowColsMax_congr hmw d cs _ _
  | .br .. :: cs, colno, acc => by simp only [rowColsMax]; exact rowColsMax_congr hmw d cs _ _
  | .frag .. :: cs, colno, acc => by simp only [rowColsMax]; exact rowColsMax_congr hmw d cs _ _
  | .box .. :: cs, colno, acc => by simp only [rowColsMax]; exact rowColsMax_congr hmw d cs _ _
  | .row .. :: cs, colno, acc => by simp only [rowColsMax]; exact rowColsMax_congr hmw d cs _ _
  | .tbody .. :: cs, colno, acc => by simp only [rowColsMax]; exact rowColsMax_congr hmw d cs _ _
  | .table .. :: cs, colno, acc => by simp only [rowColsMax]; exact rowColsMax_congr hmw d cs _ _

theorem tableColsMax_congr (hmw : c1.minWrap = c2.minWrap) (d : Deco) : (rs : List RNode) → (acc : List SizeEst) →
    tableColsMax c1 d rs acc = tableColsMax c2 d rs acc
  | [], _ => by simp only [tableColsMax]
  | .row _ cells :: rs, acc => by simp only [tableColsMax, rowColsMax_congr hmw d cells]; exact tableColsMax_congr hmw d rs _
  | .text .. :: rs, acc => by simp only [tableColsMax]; exact tableColsMax_congr hmw d rs _
  | .img .. :: rs, acc => by simp only [tableColsMax]; exact tableColsMax_congr hmw d rs _
  | .br .. :: rs, acc => by simp only [tableColsMax]; exact tableColsMax_congr hmw d rs _
  | .frag .. :: rs, acc => by simp only [tableColsMax]; exact tableColsMax_congr hmw d rs _
  | .box .. :: rs, acc => by simp only [tableColsMax]; exact tableColsMax_congr hmw d rs _
  | .cell .. :: rs, acc => by simp only [tableColsMax]; exact tableColsMax_congr hmw d rs _
  | .tbody .. :: rs, acc => by simp only [tableColsMax]; exact tableColsMax_congr hmw d rs _
  | .table .. :: rs, acc => by simp only [tableColsMax]; exact tableColsMax_congr hmw d rs _

mutual
theorem compile_congr (hmw : c1.minWrap = c2.minWrap) (d : Deco) : (n : RNode) → compile c1 d n = compile c2 d n
  | .text .. => by simp only [compile]
  | .img .. => by simp only [compile]
  | .br .. => by simp only [compile]
  | .frag .. => by simp only [compile]
  | .box st k kids => by
    have hl := compileList_congr hmw d kids
    have hi := fun pw mw f r => compileItems_congr hmw d pw mw f r 0 kids
    cases k <;> simp only [compile, hmw, hl, hi]
  | .cell st _ kids => by simp only [compile, compileList_congr hmw d kids]
  | .row .. => by simp only [compile]
  | .tbody .. => by simp only [compile]
  | .table st rows n => by simp only [compile, tableColsMax_congr hmw d rows, compileRows_congr hmw d rows]
theorem compileList_congr (hmw : c1.minWrap = c2.minWrap) (d : Deco) : (ns : List RNode) → compileList c1 d ns = compileList c2 d ns
  | [] => by simp only [compileList]
  | n :: ns => by simp only [compileList, compile_congr hmw d n, compileList_congr hmw d ns]
theorem compileItems_congr (hmw : c1.minWrap = c2.minWrap) (d : Deco) (pw minW : Nat) (first : Nat → List Ch) (rest : List Ch) :
    (i : Nat) → (ns : List RNode) → compileItems c1 d pw minW first rest i ns = compileItems c2 d pw minW first rest i ns
  | _, [] => by simp only [compileItems]
  | i, n :: ns => by simp only [compileItems, compile_congr hmw d n, compileItems_congr hmw d pw minW first rest (i + 1) ns]
theorem compileRows_congr (hmw : c1.minWrap = c2.minWrap) (d : Deco) : (rows : List RNode) → compileRows c1 d rows = compileRows c2 d rows
  | [] => by simp only [compileRows]
  | .row st cells :: rs => by simp only [compileRows, compileCells_congr hmw d 0 cells, compileRows_congr hmw d rs]
  | .text .. :: rs => by simp only [compileRows, compileRows_congr hmw d rs]
  | .img .. :: rs => by simp only [compileRows, compileRows_congr hmw d rs]
  | .br .. :: rs => by simp only [compileRows, compileRows_congr hmw d rs]
  | .frag .. :: rs => by simp only [compileRows, compileRows_congr hmw d rs]
  | .box .. :: rs => by simp only [compileRows, compileRows_congr hmw d rs]
  | .cell .. :: rs => by simp only [compileRows, compileRows_congr hmw d rs]
  | .tbody .. :: rs => by simp only [compileRows, compileRows_congr hmw d rs]
  | .table .. :: rs => by simp only [compileRows, compileRows_congr hmw d rs]
theorem compileCells_congr (hmw : c1.minWrap = c2.minWrap) (d : Deco) : (colno : Nat) → (cells : List RNode) →
    compileCells c1 d colno cells = compileCells c2 d colno cells
  | _, [] => by simp only [compileCells]
  | colno, .cell st span kids :: cs => by simp only [compileCells, compileList_congr hmw d kids, compileCells_congr hmw d (colno + span) cs]
  | colno, .text .. :: cs => by simp only [compileCells, compileCells_congr hmw d colno cs]
  | colno, .img .. :: cs => by simp only [compileCells, compileCells_congr hmw d colno cs]
  | colno, .br .. :: cs => by simp only [compileCells, compileCells_congr hmw d colno cs]
  | colno, .frag .. :: cs => by simp only [compileCells, compileCells_congr hmw d colno cs]
  | colno, .box .. :: cs => by simp only [compileCells, compileCells_congr hmw d colno cs]
  | colno, .row .. :: cs => by simp only [compileCells, compileCells_congr hmw d colno cs]
  | colno, .tbody .. :: cs => by simp only [compileCells, compileCells_congr hmw d colno cs]
  | colno, .table .. :: cs => by simp only [compileCells, compileCells_congr hmw d colno cs]
end

/-! ## what a tree can observe -/

/-- the options consulted only by particular elements -/
inductive Feature | links | strike | tables
deriving DecidableEq

def kindUses (f : Feature) : Kind → Bool
  | .link _ => f = .links
  | .strike => f = .strike
  | _ => false

mutual
/-- does the tree contain an element that consults the feature's options? -/
def uses (f : Feature) : RNode → Bool
  | .box _ k kids => kindUses f k || usesL f kids
  | .cell _ _ kids => usesL f kids
  | .row _ cells => usesL f cells
  | .tbody _ rows => usesL f rows
  | .table _ rows _ => decide (f = .tables) || usesL f rows
  | _ => false
def usesL (f : Feature) : List RNode → Bool
  | [] => false
  | n :: ns => uses f n || usesL f ns
end

/-- the options a feature consults agree: footnote references for links, the strikeout filter for `<s>`/`<del>`, raw mode
    and border drawing for tables -/
def featAgree (c1 c2 : Cfg) : Feature → Prop
  | .links => c1.footnotes = c2.footnotes
  | .strike => c1.unicodeStrike = c2.unicodeStrike
  | .tables => c1.raw = c2.raw ∧ c1.drawBorders = c2.drawBorders

def TreeAgree (c1 c2 : Cfg) (n : RNode) : Prop := ∀ f, uses f n = true → featAgree c1 c2 f
def ListAgree (c1 c2 : Cfg) (ns : List RNode) : Prop := ∀ f, usesL f ns = true → featAgree c1 c2 f

theorem opsAgree_append (a b : List Op) (ha : opsAgree c1 c2 a) (hb : opsAgree c1 c2 b) : opsAgree c1 c2 (a ++ b) := by
  induction a with
  | nil => exact hb
  | cons x a ih => simp only [List.cons_append, opsAgree] at ha ⊢; exact ⟨ha.1, ih ha.2⟩

theorem styleOps_agree (ops : List Op) (h : ∀ op ∈ ops, isStyleOp op = true) : opsAgree c1 c2 ops := by
  induction ops with
  | nil => simp [opsAgree]
  | cons op ops ih =>
    have := h op (by simp)
    simp only [opsAgree]
    refine ⟨?_, ih (fun o ho => h o (by simp [ho]))⟩
    cases op <;> simp [isStyleOp] at this <;> simp [opAgree]

theorem opsAgree_wrap {d : Deco} {st : Style} {inner : List Op} (h : opsAgree c1 c2 inner) :
    opsAgree c1 c2 (styleOpen d st ++ inner ++ styleClose d st) :=
  opsAgree_append _ _ (opsAgree_append _ _ (styleOps_agree _ (styleOpen_style d st)) h) (styleOps_agree _ (styleClose_style d st))

theorem opsAgree_one {op : Op} (h : opAgree c1 c2 op) : opsAgree c1 c2 [op] := by simp [opsAgree, h]

theorem opsAgree_bracket {o c : Op} {body : List Op} (ho : opAgree c1 c2 o) (hb : opsAgree c1 c2 body) (hc : opAgree c1 c2 c) :
    opsAgree c1 c2 ([o] ++ body ++ [c]) :=
  opsAgree_append _ _ (opsAgree_append _ _ (opsAgree_one ho) hb) (opsAgree_one hc)

mutual
theorem compile_agree (cfg : Cfg) (d : Deco) : (n : RNode) → TreeAgree c1 c2 n → opsAgree c1 c2 (compile cfg d n)
  | .text st s, _ => by simp only [compile]; exact opsAgree_wrap (opsAgree_one (by simp [opAgree]))
  | .img st src title, _ => by simp only [compile]; exact opsAgree_wrap (opsAgree_one (by simp [opAgree]))
  | .br st, _ => by simp only [compile]; exact opsAgree_wrap (opsAgree_one (by simp [opAgree]))
  | .frag n, _ => by simp only [compile]; exact opsAgree_one (by simp [opAgree])
  | .box st k kids, h => by
    have hk : ListAgree c1 c2 kids := fun f hf => h f (by simp [uses, hf])
    have hb := compileList_agree cfg d kids hk
    have hi := fun pw mw fi r => compileItems_agree cfg d pw mw fi r 0 kids hk
    have sub1 : ∀ p m f r a, opsAgree c1 c2 [Op.sub p m f r a (compileList cfg d kids)] := by
      intro p m f r a; exact opsAgree_one (by simp only [opAgree]; exact hb)
    simp only [compile]
    apply opsAgree_wrap
    cases k with
    | container => exact hb
    | link href =>
      have : c1.footnotes = c2.footnotes := h .links (by simp [uses, kindUses])
      exact opsAgree_bracket (by simp [opAgree]) hb (by simp only [opAgree]; exact this)
    | em => exact opsAgree_bracket (by simp [opAgree]) hb (by simp [opAgree])
    | strong => exact opsAgree_bracket (by simp [opAgree]) hb (by simp [opAgree])
    | strike =>
      have : c1.unicodeStrike = c2.unicodeStrike := h .strike (by simp [uses, kindUses])
      exact opsAgree_bracket (by simp only [opAgree]; exact fun _ => this) hb (by simp only [opAgree]; exact fun _ => this)
    | code => exact opsAgree_bracket (by simp [opAgree]) hb (by simp [opAgree])
    | block => exact opsAgree_bracket (by simp [opAgree]) hb (by simp [opAgree])
    | li => exact opsAgree_bracket (by simp [opAgree]) hb (by simp [opAgree])
    | header lvl => exact sub1 _ _ _ _ _
    | div => exact opsAgree_bracket (by simp [opAgree]) hb (by simp [opAgree])
    | quote => exact sub1 _ _ _ _ _
    | ul => exact hi _ _ _ _
    | ol start => exact hi _ _ _ _
    | dl => exact opsAgree_append _ _ (opsAgree_one (by simp [opAgree])) hb
    | dt =>
      exact opsAgree_append _ _ (opsAgree_append [.newLine, .startAnn .em d.emStart false] _ (by simp [opsAgree, opAgree]) hb) (opsAgree_one (by simp [opAgree]))
    | dd => exact sub1 _ _ _ _ _
    | sup =>
      simp only
      split
      · exact opsAgree_one (by simp [opAgree])
      · exact opsAgree_bracket (by simp [opAgree]) hb (by simp [opAgree])
  | .cell st _ kids, h => by
    simp only [compile]
    exact opsAgree_wrap (compileList_agree cfg d kids (fun f hf => h f (by simp [uses, hf])))
  | .row _ _, _ => by simp [compile, opsAgree]
  | .tbody _ _, _ => by simp [compile, opsAgree]
  | .table st rows n, h => by
    simp only [compile]
    have ht := h .tables (by simp [uses])
    apply opsAgree_wrap
    apply opsAgree_one
    simp only [opAgree]
    exact ⟨ht.1, ht.2, compileRows_agree cfg d rows (fun f hf => h f (by simp [uses, hf]))⟩
theorem compileList_agree (cfg : Cfg) (d : Deco) : (ns : List RNode) → ListAgree c1 c2 ns → opsAgree c1 c2 (compileList cfg d ns)
  | [], _ => by simp [compileList, opsAgree]
  | n :: ns, h => by
    simp only [compileList]
    exact opsAgree_append _ _ (compile_agree cfg d n (fun f hf => h f (by simp [usesL, hf])))
      (compileList_agree cfg d ns (fun f hf => h f (by simp [usesL, hf])))
theorem compileItems_agree (cfg : Cfg) (d : Deco) (pw minW : Nat) (first : Nat → List Ch) (rest : List Ch) :
    (i : Nat) → (ns : List RNode) → ListAgree c1 c2 ns → opsAgree c1 c2 (compileItems cfg d pw minW first rest i ns)
  | _, [], _ => by simp [compileItems, opsAgree]
  | i, n :: ns, h => by
    simp only [compileItems, opsAgree, opAgree]
    exact ⟨compile_agree cfg d n (fun f hf => h f (by simp [usesL, hf])),
      compileItems_agree cfg d pw minW first rest (i + 1) ns (fun f hf => h f (by simp [usesL, hf]))⟩
theorem compileRows_agree (cfg : Cfg) (d : Deco) : (rows : List RNode) → ListAgree c1 c2 rows → rowsAgree c1 c2 (compileRows cfg d rows)
  | [], _ => by simp [compileRows, rowsAgree]
  | .row st cells :: rs, h => by
    simp only [compileRows, rowsAgree]
    exact ⟨styleOps_agree _ (styleOpen_style d st), styleOps_agree _ (styleClose_style d st),
      compileCells_agree cfg d 0 cells (fun f hf => h f (by simp [usesL, uses, hf])),
      compileRows_agree cfg d rs (fun f hf => h f (by simp [usesL, hf]))⟩
  | .text .. :: rs, h => by simp only [compileRows]; exact compileRows_agree cfg d rs (fun f hf => h f (by simp [usesL, hf]))
  | .img .. :: rs, h => by simp only [compileRows]; exact compileRows_agree cfg d rs (fun f hf => h f (by simp [usesL, hf]))
  | .br .. :: rs, h => by simp only [compileRows]; exact compileRows_agree cfg d rs (fun f hf => h f (by simp [usesL, hf]))
  | .frag .. :: rs, h => by simp only [compileRows]; exact compileRows_agree cfg d rs (fun f hf => h f (by simp [usesL, hf]))
  | .box .. :: rs, h => by simp only [compileRows]; exact compileRows_agree cfg d rs (fun f hf => h f (by simp [usesL, hf]))
  | .cell .. :: rs, h => by simp only [compileRows]; exact compileRows_agree cfg d rs (fun f hf => h f (by simp [usesL, hf]))
  | .tbody .. :: rs, h => by simp only [compileRows]; exact compileRows_agree cfg d rs (fun f hf => h f (by simp [usesL, hf]))
  | .table .. :: rs, h => by simp only [compileRows]; exact compileRows_agree cfg d rs (fun f hf => h f (by simp [usesL, hf]))
theorem compileCells_agree (cfg : Cfg) (d : Deco) : (colno : Nat) → (cells : List RNode) → ListAgree c1 c2 cells →
    cellsAgree c1 c2 (compileCells cfg d colno cells)
  | _, [], _ => by simp [compileCells, cellsAgree]
  | colno, .cell st span kids :: cs, h => by
    simp only [compileCells, cellsAgree]
    exact ⟨opsAgree_wrap (compileList_agree cfg d kids (fun f hf => h f (by simp [usesL, uses, hf]))),
      compileCells_agree cfg d (colno + span) cs (fun f hf => h f (by simp [usesL, hf]))⟩
  | colno, .text .. :: cs, h => by simp only [compileCells]; exact compileCells_agree cfg d colno cs (fun f hf => h f (by simp [usesL, hf]))
  | colno, .img .. :: cs, h => by simp only [compileCells]; exact compileCells_agree cfg d colno cs (fun f hf => h f (by simp [usesL, hf]))
  | colno, .br .. :: cs, h => by simp only [compileCells]; exact compileCells_agree cfg d colno cs (fun f hf => h f (by simp [usesL, hf]))
  | colno, .frag .. :: cs, h => by simp only [compileCells]; exact compileCells_agree cfg d colno cs (fun f hf => h f (by simp [usesL, hf]))
  | colno, .box .. :: cs, h => by simp only [compileCells]; exact compileCells_agree cfg d colno cs (fun f hf => h f (by simp [usesL, hf]))
  | colno, .row .. :: cs, h => by simp only [compileCells]; exact compileCells_agree cfg d colno cs (fun f hf => h f (by simp [usesL, hf]))
  | colno, .tbody .. :: cs, h => by simp only [compileCells]; exact compileCells_agree cfg d colno cs (fun f hf => h f (by simp [usesL, hf]))
  | colno, .table .. :: cs, h => by simp only [compileCells]; exact compileCells_agree cfg d colno cs (fun f hf => h f (by simp [usesL, hf]))
end

mutual
/-- a tree without link elements has no link targets -/
theorem nodeHrefs_nil : (n : RNode) → uses .links n = false → nodeHrefs n = []
  | .text .., _ => rfl
  | .img .., _ => rfl
  | .br .., _ => rfl
  | .frag .., _ => rfl
  | .box _ k kids, h => by
    simp only [uses, Bool.or_eq_false_iff] at h
    simp only [nodeHrefs, listHrefs_nil kids h.2, List.append_nil]
    cases k <;> simp [kindUses] at h ⊢
  | .cell _ _ kids, h => by simp only [uses] at h; simp only [nodeHrefs, listHrefs_nil kids h]
  | .row .., _ => rfl
  | .tbody .., _ => rfl
  | .table _ rows _, h => by
    simp only [uses, Bool.or_eq_false_iff] at h
    simp only [nodeHrefs, rowsHrefs_nil rows h.2]
theorem listHrefs_nil : (ns : List RNode) → usesL .links ns = false → listHrefs ns = []
  | [], _ => rfl
  | n :: ns, h => by
    simp only [usesL, Bool.or_eq_false_iff] at h
    simp only [listHrefs, nodeHrefs_nil n h.1, listHrefs_nil ns h.2, List.append_nil]
theorem rowsHrefs_nil : (rs : List RNode) → usesL .links rs = false → rowsHrefs rs = []
  | [], _ => rfl
  | .row _ cells :: rs, h => by
    simp only [usesL, uses, Bool.or_eq_false_iff] at h
    simp only [rowsHrefs, cellsHrefs_nil cells h.1, rowsHrefs_nil rs h.2, List.append_nil]
  | .text .. :: rs, h => by simp only [usesL, Bool.or_eq_false_iff] at h; simp only [rowsHrefs]; exact rowsHrefs_nil rs h.2
  | .img .. :: rs, h => by simp only [usesL, Bool.or_eq_false_iff] at h; simp only [rowsHrefs]; exact rowsHrefs_nil rs h.2
  | .br .. :: rs, h => by simp only [usesL, Bool.or_eq_false_iff] at h; simp only [rowsHrefs]; exact rowsHrefs_nil rs h.2
  | .frag .. :: rs, h => by simp only [usesL, Bool.or_eq_false_iff] at h; simp only [rowsHrefs]; exact rowsHrefs_nil rs h.2
  | .box .. :: rs, h => by simp only [usesL, Bool.or_eq_false_iff] at h; simp only [rowsHrefs]; exact rowsHrefs_nil rs h.2
  | .cell .. :: rs, h => by simp only [usesL, Bool.or_eq_false_iff] at h; simp only [rowsHrefs]; exact rowsHrefs_nil rs h.2
  | .tbody .. :: rs, h => by simp only [usesL, Bool.or_eq_false_iff] at h; simp only [rowsHrefs]; exact rowsHrefs_nil rs h.2
  | .table .. :: rs, h => by simp only [usesL, Bool.or_eq_false_iff] at h; simp only [rowsHrefs]; exact rowsHrefs_nil rs h.2
theorem cellsHrefs_nil : (cs : List RNode) → usesL .links cs = false → cellsHrefs cs = []
  | [], _ => rfl
  | .cell _ _ kids :: cs, h => by
    simp only [usesL, uses, Bool.or_eq_false_iff] at h
    simp only [cellsHrefs, listHrefs_nil kids h.1, cellsHrefs_nil cs h.2, List.append_nil]
  | .text .. :: cs, h => by simp only [usesL, Bool.or_eq_false_iff] at h; simp only [cellsHrefs]; exact cellsHrefs_nil cs h.2
  | .img .. :: cs, h => by simp only [usesL, Bool.or_eq_false_iff] at h; simp only [cellsHrefs]; exact cellsHrefs_nil cs h.2
  | .br .. :: cs, h => by simp only [usesL, Bool.or_eq_false_iff] at h; simp only [cellsHrefs]; exact cellsHrefs_nil cs h.2
  | .frag .. :: cs, h => by simp only [usesL, Bool.or_eq_false_iff] at h; simp only [cellsHrefs]; exact cellsHrefs_nil cs h.2
  | .box .. :: cs, h => by simp only [usesL, Bool.or_eq_false_iff] at h; simp only [cellsHrefs]; exact cellsHrefs_nil cs h.2
  | .row .. :: cs, h => by simp only [usesL, Bool.or_eq_false_iff] at h; simp only [cellsHrefs]; exact cellsHrefs_nil cs h.2
  | .tbody .. :: cs, h => by simp only [usesL, Bool.or_eq_false_iff] at h; simp only [cellsHrefs]; exact cellsHrefs_nil cs h.2
  | .table .. :: cs, h => by simp only [usesL, Bool.or_eq_false_iff] at h; simp only [cellsHrefs]; exact cellsHrefs_nil cs h.2
end

/-- **two configurations the tree cannot tell apart give the same rendering**: they agree on block padding, overflow and
    the wrap width of every admissible sub-renderer (`CfgSim`), on `min_wrap_width`, on the options of every feature the
    tree uses (`TreeAgree`), and — when the tree has links — on footnotes and link wrapping -/
theorem renderTree_sim {ok : Nat → Prop} (h : CfgSim ok c1 c2) (d : Deco) (w : Nat) (tree : RNode) (hw : ok w)
    (hmw : c1.minWrap = c2.minWrap) (ha : TreeAgree c1 c2 tree)
    (hl : uses .links tree = true → (c1.footnotes = true → c1.wrapLinks = c2.wrapLinks)) :
    renderTree c1 d w tree = renderTree c2 d w tree := by
  unfold renderTree
  by_cases hw0 : w = 0
  · rw [if_pos hw0, if_pos hw0]
  · rw [if_neg hw0, if_neg hw0]
    rw [compile_congr hmw d tree, runOps_sim h d (compile c2 d tree) _ (compile_agree c2 d tree ha) hw]
    cases e1 : runOps SubR.widthMinus c2 d { cur := { width := w } } (compile c2 d tree) with
    | error e => simp only [andThen_error_eq]
    | ok t =>
      simp only [andThen_ok_eq]
      cases hu : uses .links tree with
      | false =>
        -- no links: the link list is empty, so there is no footnote block under either configuration
        obtain ⟨added, a1, a2⟩ := runOps_links SubR.widthMinus c2 d _ _ t e1
        rw [compile_hrefs, nodeHrefs_nil tree hu] at a2
        have : t.links = [] := by rw [a1, List.sublist_nil.mp a2]; rfl
        have f1 : footTexts c1 t.links = [] := by rw [this]; unfold footTexts; split <;> rfl
        have f2 : footTexts c2 t.links = [] := by rw [this]; unfold footTexts; split <;> rfl
        rw [f1, f2]
        simp only [List.isEmpty_nil, if_true]
      | true =>
        have hfn : c1.footnotes = c2.footnotes := ha .links hu
        have hft : footTexts c1 t.links = footTexts c2 t.links := by unfold footTexts; rw [hfn]
        rw [hft]
        split
        · rfl
        · rename_i hne
          cases e2 : t.cur.startBlock with
          | error e => simp only [andThen_error_eq]
          | ok s1 =>
            simp only [andThen_ok_eq]
            have hfon : c1.footnotes = true := by
              cases hc : c1.footnotes with
              | true => rfl
              | false =>
                exfalso; apply hne
                have : footTexts c2 t.links = [] := by rw [← hft]; unfold footTexts; rw [hc]; rfl
                rw [this]; rfl
            have hwl := hl hu hfon
            have : fmtLinkLine c1 (d.annOf Ann.dflt) s1.width = fmtLinkLine c2 (d.annOf Ann.dflt) s1.width := by
              funext f; unfold fmtLinkLine; rw [hwl]
            rw [this]

end H2T
