import H2T.Lemmas.SubCompose
/-! # Unstyled containers are transparent

`<span>`, unknown elements, `<a>` without `href`, `<html>`/`<body>` become `.box st .container kids`.  When the
computed style adds nothing (`st = {}`), such a node renders exactly as its children spliced into the parent's child
list — at any depth, inside tables too (size estimates included) — *except* where the parent reads its child list as
items: directly under `ul`/`ol` (every child is an item), and `sup`'s single-text test. -/
namespace H2T

mutual
/-- splice unstyled containers into the surrounding child list, everywhere that child lists are sequences of content -/
def unwrapN : RNode → RNode
  | .box st k kids =>
    match k with
    | .ul => .box st .ul (unwrapEach kids)
    | .ol s => .box st (.ol s) (unwrapEach kids)
    | .sup => .box st .sup (unwrapEach kids)
    | k => .box st k (unwrapL kids)
  | .cell st sp kids => .cell st sp (unwrapL kids)
  | .row st cells => .row st (unwrapEach cells)
  | .tbody st rows => .tbody st (unwrapEach rows)
  | .table st rows n => .table st (unwrapEach rows) n
  | n => n
def unwrapL : List RNode → List RNode
  | [] => []
  | .box st .container kids :: ns =>
    if st = {} then unwrapL kids ++ unwrapL ns else .box st .container (unwrapL kids) :: unwrapL ns
  | n :: ns => unwrapN n :: unwrapL ns
def unwrapEach : List RNode → List RNode
  | [] => []
  | n :: ns => unwrapN n :: unwrapEach ns
end

/-! ## size estimates -/

theorem SizeEst.add_assoc (a b c : SizeEst) : (a.add b).add c = a.add (b.add c) := by
  simp [SizeEst.add, Nat.add_assoc, Nat.max_assoc]

theorem sizeSum_prefix (d : Deco) (m : Nat) : (l : List RNode) → (sizeSum d m l).prefixSize = 0
  | [] => by simp [sizeSum]
  | n :: ns => by simp [sizeSum, SizeEst.add]

theorem empty_add (x : SizeEst) (h : x.prefixSize = 0) : ({} : SizeEst).add x = x := by
  cases x; simp_all [SizeEst.add]

theorem sizeSum_append (d : Deco) (m : Nat) (a b : List RNode) : sizeSum d m (a ++ b) = (sizeSum d m a).add (sizeSum d m b) := by
  induction a with
  | nil => simp only [List.nil_append, sizeSum]; exact (empty_add _ (sizeSum_prefix d m b)).symm
  | cons x a ih => simp only [List.cons_append, sizeSum, ih, SizeEst.add_assoc]

theorem unwrapEach_length : (l : List RNode) → (unwrapEach l).length = l.length
  | [] => by simp [unwrapEach]
  | n :: ns => by simp [unwrapEach, unwrapEach_length ns]

mutual
theorem sizeOf_unwrapN (d : Deco) (m : Nat) : (n : RNode) → sizeOf d m (unwrapN n) = sizeOf d m n
  | .text .. => by simp only [unwrapN]
  | .img .. => by simp only [unwrapN]
  | .br .. => by simp only [unwrapN]
  | .frag .. => by simp only [unwrapN]
  | .box st k kids => by
    have hl := sizeSum_unwrapL d m kids
    have he := sizeSum_unwrapEach d m kids
    cases k <;> simp only [unwrapN, sizeOf, hl, he, unwrapEach_length]
  | .cell st sp kids => by simp only [unwrapN, sizeOf, sizeSum_unwrapL d m kids]
  | .row .. => by simp only [unwrapN, sizeOf]
  | .tbody .. => by simp only [unwrapN, sizeOf]
  | .table st rows n => by simp only [unwrapN, sizeOf, colsAdd_unwrapEach d m rows]
theorem sizeSum_unwrapL (d : Deco) (m : Nat) : (l : List RNode) → sizeSum d m (unwrapL l) = sizeSum d m l
  | [] => by simp only [unwrapL]
  | .box st k kids :: ns => by
    have hn := sizeSum_unwrapL d m ns
    have hk := sizeSum_unwrapL d m kids
    have h0 := sizeOf_unwrapN d m (.box st k kids)
    cases k
    case container =>
      simp only [unwrapL]
      split
      · rw [sizeSum_append, hk, hn]; simp only [sizeSum, sizeOf]
      · simp only [sizeSum, sizeOf, hk, hn]
    all_goals simp only [unwrapL, sizeSum, h0, hn]
  | .text .. :: ns => by simp only [unwrapL, unwrapN, sizeSum, sizeSum_unwrapL d m ns]
  | .img .. :: ns => by simp only [unwrapL, unwrapN, sizeSum, sizeSum_unwrapL d m ns]
  | .br .. :: ns => by simp only [unwrapL, unwrapN, sizeSum, sizeSum_unwrapL d m ns]
  | .frag .. :: ns => by simp only [unwrapL, unwrapN, sizeSum, sizeSum_unwrapL d m ns]
  | .cell st sp kids :: ns => by simp only [unwrapL, sizeSum, sizeOf_unwrapN d m (.cell st sp kids), sizeSum_unwrapL d m ns]
  | .row st c :: ns => by simp only [unwrapL, sizeSum, sizeOf_unwrapN d m (.row st c), sizeSum_unwrapL d m ns]
  | .tbody st c :: ns => by simp only [unwrapL, sizeSum, sizeOf_unwrapN d m (.tbody st c), sizeSum_unwrapL d m ns]
  | .table st r n :: ns => by simp only [unwrapL, sizeSum, sizeOf_unwrapN d m (.table st r n), sizeSum_unwrapL d m ns]
theorem sizeSum_unwrapEach (d : Deco) (m : Nat) : (l : List RNode) → sizeSum d m (unwrapEach l) = sizeSum d m l
  | [] => by simp only [unwrapEach]
  | n :: ns => by simp only [unwrapEach, sizeSum, sizeOf_unwrapN d m n, sizeSum_unwrapEach d m ns]
theorem colsAdd_unwrapEach (d : Deco) (m : Nat) : (rows : List RNode) → (acc : List SizeEst) →
    tableColsAdd d m (unwrapEach rows) acc = tableColsAdd d m rows acc
  | [], _ => by simp only [unwrapEach]
  | .row st cells :: rs, acc => by
    simp only [unwrapEach, unwrapN, tableColsAdd, rowColsAdd_unwrapEach d m cells 0 acc, colsAdd_unwrapEach d m rs]
  | .text .. :: rs, acc => by simp only [unwrapEach, unwrapN, tableColsAdd, colsAdd_unwrapEach d m rs]
  | .img .. :: rs, acc => by simp only [unwrapEach, unwrapN, tableColsAdd, colsAdd_unwrapEach d m rs]
  | .br .. :: rs, acc => by simp only [unwrapEach, unwrapN, tableColsAdd, colsAdd_unwrapEach d m rs]
  | .frag .. :: rs, acc => by simp only [unwrapEach, unwrapN, tableColsAdd, colsAdd_unwrapEach d m rs]
  | .box st k kids :: rs, acc => by
    cases k <;> simp only [unwrapEach, unwrapN, tableColsAdd, colsAdd_unwrapEach d m rs]
  | .cell .. :: rs, acc => by simp only [unwrapEach, unwrapN, tableColsAdd, colsAdd_unwrapEach d m rs]
  | .tbody .. :: rs, acc => by simp only [unwrapEach, unwrapN, tableColsAdd, colsAdd_unwrapEach d m rs]
  | .table .. :: rs, acc => by simp only [unwrapEach, unwrapN, tableColsAdd, colsAdd_unwrapEach d m rs]
theorem rowColsAdd_unwrapEach (d : Deco) (m : Nat) : (cells : List RNode) → (c : Nat) → (acc : List SizeEst) →
    rowColsAdd d m (unwrapEach cells) c acc = rowColsAdd d m cells c acc
  | [], _, _ => by simp only [unwrapEach]
  | .cell st sp kids :: cs, c, acc => by
    simp only [unwrapEach, unwrapN, rowColsAdd, sizeSum_unwrapL d m kids, rowColsAdd_unwrapEach d m cs]
  | .text .. :: rs, c, acc => by simp only [unwrapEach, unwrapN, rowColsAdd, rowColsAdd_unwrapEach d m rs]
  | .img .. :: rs, c, acc => by simp only [unwrapEach, unwrapN, rowColsAdd, rowColsAdd_unwrapEach d m rs]
  | .br .. :: rs, c, acc => by simp only [unwrapEach, unwrapN, rowColsAdd, rowColsAdd_unwrapEach d m rs]
  | .frag .. :: rs, c, acc => by simp only [unwrapEach, unwrapN, rowColsAdd, rowColsAdd_unwrapEach d m rs]
  | .box st k kids :: rs, c, acc => by
    cases k <;> simp only [unwrapEach, unwrapN, rowColsAdd, rowColsAdd_unwrapEach d m rs]
  | .row .. :: rs, c, acc => by simp only [unwrapEach, unwrapN, rowColsAdd, rowColsAdd_unwrapEach d m rs]
  | .tbody .. :: rs, c, acc => by simp only [unwrapEach, unwrapN, rowColsAdd, rowColsAdd_unwrapEach d m rs]
  | .table .. :: rs, c, acc => by simp only [unwrapEach, unwrapN, rowColsAdd, rowColsAdd_unwrapEach d m rs]
end


/-! ## programs -/

theorem compileList_append (cfg : Cfg) (d : Deco) (a b : List RNode) :
    compileList cfg d (a ++ b) = compileList cfg d a ++ compileList cfg d b := by
  induction a with
  | nil => simp [compileList]
  | cons x a ih => simp [compileList, ih]

theorem supDigits_unwrapEach (kids : List RNode) : supDigits (unwrapEach kids) = supDigits kids := by
  match kids with
  | [] => rfl
  | [n] =>
    cases n with
    | box st k kids => cases k <;> rfl
    | _ => rfl
  | n :: m :: rest => simp [unwrapEach, supDigits]

mutual
theorem compile_unwrapN (cfg : Cfg) (d : Deco) : (n : RNode) → compile cfg d (unwrapN n) = compile cfg d n
  | .text .. => by simp only [unwrapN]
  | .img .. => by simp only [unwrapN]
  | .br .. => by simp only [unwrapN]
  | .frag .. => by simp only [unwrapN]
  | .box st k kids => by
    have hl := compileList_unwrapL cfg d kids
    have he := compileList_unwrapEach cfg d kids
    have hi := fun pw mw f r => compileItems_unwrapEach cfg d pw mw f r 0 kids
    have hs := sizeOf_unwrapN d cfg.minWrap (.box st k kids)
    cases k <;> simp only [unwrapN] at hs <;>
      simp only [unwrapN, compile, hs, hl, he, hi, unwrapEach_length, supDigits_unwrapEach]
  | .cell st sp kids => by simp only [unwrapN, compile, compileList_unwrapL cfg d kids]
  | .row .. => by simp only [unwrapN, compile]
  | .tbody .. => by simp only [unwrapN, compile]
  | .table st rows n => by
    simp only [unwrapN, compile, tableColsMax_unwrapEach cfg d rows, compileRows_unwrapEach cfg d rows]
theorem compileList_unwrapL (cfg : Cfg) (d : Deco) : (l : List RNode) → compileList cfg d (unwrapL l) = compileList cfg d l
  | [] => by simp only [unwrapL]
  | .box st k kids :: ns => by
    have hn := compileList_unwrapL cfg d ns
    have hk := compileList_unwrapL cfg d kids
    have h0 := compile_unwrapN cfg d (.box st k kids)
    cases k
    case container =>
      simp only [unwrapL]
      split
      · next h => subst h; rw [compileList_append, hk, hn]; simp only [compileList, compile_container]
      · simp only [unwrapN] at h0; simp only [compileList, h0, hn]
    all_goals simp only [unwrapL, compileList, h0, hn]
  | .text .. :: ns => by simp only [unwrapL, unwrapN, compileList, compileList_unwrapL cfg d ns]
  | .img .. :: ns => by simp only [unwrapL, unwrapN, compileList, compileList_unwrapL cfg d ns]
  | .br .. :: ns => by simp only [unwrapL, unwrapN, compileList, compileList_unwrapL cfg d ns]
  | .frag .. :: ns => by simp only [unwrapL, unwrapN, compileList, compileList_unwrapL cfg d ns]
  | .cell st sp kids :: ns => by simp only [unwrapL, compileList, compile_unwrapN cfg d (.cell st sp kids), compileList_unwrapL cfg d ns]
  | .row st c :: ns => by simp only [unwrapL, compileList, compile_unwrapN cfg d (.row st c), compileList_unwrapL cfg d ns]
  | .tbody st c :: ns => by simp only [unwrapL, compileList, compile_unwrapN cfg d (.tbody st c), compileList_unwrapL cfg d ns]
  | .table st r n :: ns => by simp only [unwrapL, compileList, compile_unwrapN cfg d (.table st r n), compileList_unwrapL cfg d ns]
theorem compileList_unwrapEach (cfg : Cfg) (d : Deco) : (l : List RNode) → compileList cfg d (unwrapEach l) = compileList cfg d l
  | [] => by simp only [unwrapEach]
  | n :: ns => by simp only [unwrapEach, compileList, compile_unwrapN cfg d n, compileList_unwrapEach cfg d ns]
theorem compileItems_unwrapEach (cfg : Cfg) (d : Deco) (pw mw : Nat) (f : Nat → List Ch) (r : List Ch) : (i : Nat) → (l : List RNode) →
    compileItems cfg d pw mw f r i (unwrapEach l) = compileItems cfg d pw mw f r i l
  | _, [] => by simp only [unwrapEach]
  | i, n :: ns => by simp only [unwrapEach, compileItems, compile_unwrapN cfg d n, compileItems_unwrapEach cfg d pw mw f r (i + 1) ns]
theorem compileRows_unwrapEach (cfg : Cfg) (d : Deco) : (rows : List RNode) → compileRows cfg d (unwrapEach rows) = compileRows cfg d rows
  | [] => by simp only [unwrapEach]
  | .row st cells :: rs => by
    simp only [unwrapEach, unwrapN, compileRows, compileCells_unwrapEach cfg d 0 cells, compileRows_unwrapEach cfg d rs]
  | .text .. :: rs => by simp only [unwrapEach, unwrapN, compileRows, compileRows_unwrapEach cfg d rs]
  | .img .. :: rs => by simp only [unwrapEach, unwrapN, compileRows, compileRows_unwrapEach cfg d rs]
  | .br .. :: rs => by simp only [unwrapEach, unwrapN, compileRows, compileRows_unwrapEach cfg d rs]
  | .frag .. :: rs => by simp only [unwrapEach, unwrapN, compileRows, compileRows_unwrapEach cfg d rs]
  | .cell .. :: rs => by simp only [unwrapEach, unwrapN, compileRows, compileRows_unwrapEach cfg d rs]
  | .tbody .. :: rs => by simp only [unwrapEach, unwrapN, compileRows, compileRows_unwrapEach cfg d rs]
  | .table .. :: rs => by simp only [unwrapEach, unwrapN, compileRows, compileRows_unwrapEach cfg d rs]
  | .box st k kids :: rs => by
    cases k <;> simp only [unwrapEach, unwrapN, compileRows, compileRows_unwrapEach cfg d rs]
theorem compileCells_unwrapEach (cfg : Cfg) (d : Deco) : (c : Nat) → (cells : List RNode) →
    compileCells cfg d c (unwrapEach cells) = compileCells cfg d c cells
  | _, [] => by simp only [unwrapEach]
  | c, .cell st sp kids :: cs => by
    simp only [unwrapEach, unwrapN, compileCells, compileList_unwrapL cfg d kids, compileCells_unwrapEach cfg d (c + sp) cs]
  | c, .text .. :: rs => by simp only [unwrapEach, unwrapN, compileCells, compileCells_unwrapEach cfg d c rs]
  | c, .img .. :: rs => by simp only [unwrapEach, unwrapN, compileCells, compileCells_unwrapEach cfg d c rs]
  | c, .br .. :: rs => by simp only [unwrapEach, unwrapN, compileCells, compileCells_unwrapEach cfg d c rs]
  | c, .frag .. :: rs => by simp only [unwrapEach, unwrapN, compileCells, compileCells_unwrapEach cfg d c rs]
  | c, .row .. :: rs => by simp only [unwrapEach, unwrapN, compileCells, compileCells_unwrapEach cfg d c rs]
  | c, .tbody .. :: rs => by simp only [unwrapEach, unwrapN, compileCells, compileCells_unwrapEach cfg d c rs]
  | c, .table .. :: rs => by simp only [unwrapEach, unwrapN, compileCells, compileCells_unwrapEach cfg d c rs]
  | c, .box st k kids :: rs => by
    cases k <;> simp only [unwrapEach, unwrapN, compileCells, compileCells_unwrapEach cfg d c rs]
theorem tableColsMax_unwrapEach (cfg : Cfg) (d : Deco) : (rows : List RNode) → (acc : List SizeEst) →
    tableColsMax cfg d (unwrapEach rows) acc = tableColsMax cfg d rows acc
  | [], _ => by simp only [unwrapEach]
  | .row st cells :: rs, acc => by
    simp only [unwrapEach, unwrapN, tableColsMax, rowColsMax_unwrapEach cfg d cells 0 acc, tableColsMax_unwrapEach cfg d rs]
  | .text .. :: rs, acc => by simp only [unwrapEach, unwrapN, tableColsMax, tableColsMax_unwrapEach cfg d rs]
  | .img .. :: rs, acc => by simp only [unwrapEach, unwrapN, tableColsMax, tableColsMax_unwrapEach cfg d rs]
  | .br .. :: rs, acc => by simp only [unwrapEach, unwrapN, tableColsMax, tableColsMax_unwrapEach cfg d rs]
  | .frag .. :: rs, acc => by simp only [unwrapEach, unwrapN, tableColsMax, tableColsMax_unwrapEach cfg d rs]
  | .cell .. :: rs, acc => by simp only [unwrapEach, unwrapN, tableColsMax, tableColsMax_unwrapEach cfg d rs]
  | .tbody .. :: rs, acc => by simp only [unwrapEach, unwrapN, tableColsMax, tableColsMax_unwrapEach cfg d rs]
  | .table .. :: rs, acc => by simp only [unwrapEach, unwrapN, tableColsMax, tableColsMax_unwrapEach cfg d rs]
  | .box st k kids :: rs, acc => by
    cases k <;> simp only [unwrapEach, unwrapN, tableColsMax, tableColsMax_unwrapEach cfg d rs]
theorem rowColsMax_unwrapEach (cfg : Cfg) (d : Deco) : (cells : List RNode) → (c : Nat) → (acc : List SizeEst) →
    rowColsMax cfg d (unwrapEach cells) c acc = rowColsMax cfg d cells c acc
  | [], _, _ => by simp only [unwrapEach]
  | .cell st sp kids :: cs, c, acc => by
    simp only [unwrapEach, unwrapN, rowColsMax, sizeSum_unwrapL d cfg.minWrap kids, rowColsMax_unwrapEach cfg d cs]
  | .text .. :: rs, c, acc => by simp only [unwrapEach, unwrapN, rowColsMax, rowColsMax_unwrapEach cfg d rs]
  | .img .. :: rs, c, acc => by simp only [unwrapEach, unwrapN, rowColsMax, rowColsMax_unwrapEach cfg d rs]
  | .br .. :: rs, c, acc => by simp only [unwrapEach, unwrapN, rowColsMax, rowColsMax_unwrapEach cfg d rs]
  | .frag .. :: rs, c, acc => by simp only [unwrapEach, unwrapN, rowColsMax, rowColsMax_unwrapEach cfg d rs]
  | .row .. :: rs, c, acc => by simp only [unwrapEach, unwrapN, rowColsMax, rowColsMax_unwrapEach cfg d rs]
  | .tbody .. :: rs, c, acc => by simp only [unwrapEach, unwrapN, rowColsMax, rowColsMax_unwrapEach cfg d rs]
  | .table .. :: rs, c, acc => by simp only [unwrapEach, unwrapN, rowColsMax, rowColsMax_unwrapEach cfg d rs]
  | .box st k kids :: rs, c, acc => by
    cases k <;> simp only [unwrapEach, unwrapN, rowColsMax, rowColsMax_unwrapEach cfg d rs]
end

/-- **an unstyled container renders as its children** — at any depth, in tables too, except where the parent reads its
    children as items (`ul`, `ol`) or tests for a single text (`sup`) -/
theorem renderTree_unwrap (cfg : Cfg) (d : Deco) (w : Nat) (tree : RNode) :
    renderTree cfg d w (unwrapN tree) = renderTree cfg d w tree := by
  unfold renderTree
  rw [compile_unwrapN]

end H2T
