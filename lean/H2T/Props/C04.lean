import H2T.Spec.Greedy
import H2T.Lemmas.PreElement
import H2T.Spec.Parts
import H2T.Props.C13
import H2T.Lemmas.WrapInv
import H2T.Lemmas.GreedyMain
import H2T.Lemmas.GreedySpec

/-! # C04 — paragraph wrapping is exactly greedy word filling with whitespace collapsed

`Spec.greedy` (H2T/Spec/Greedy.lean) is the reference: words are placed on the current line behind one space
when they fit, otherwise on a new line; a word wider than a line is cut into maximal pieces that never split a
character; `TooNarrow` exactly when a character is wider than a whole line.

Status: **proved in full** for the wrap machine in normal white-space mode with the default options (no width
overflow, no block padding): `wrap_eq_greedy_full`.  The paragraph may be fed to the machine in any number of
`add_text` calls with arbitrary tags (inline elements starting and ending anywhere, also in the middle of a word)
and with fragment markers anywhere between them; the lines are those of the reference applied to the words of the
concatenated text, and the error is the reference's error.  The proof is a refinement in three layers
(H2T/Lemmas/Greedy.lean: the piece loop of `flush_word_hard_wrap` against character-by-character filling;
GreedyWord.lean: pieces, fragment markers and word placement; GreedyMain.lean: characters, parts, paragraph).
The hypothesis that every word has positive display width is the property's own domain.  It used to be necessary for a
bad reason — the machine did not flush a word of width 0 at the following space; that was a genuine defect, repaired by
`fix:` 33c7307 (`zero_width_word_kept_apart`).  It is still needed at the start of a line, where the machine does not
separate a word without width from the next word (known finding `C04-zero-width-word-at-line-start`).
Width 0 is covered by `wrap_zero_width`.
**End to end**: the render tree of a paragraph holding one text (`paragraph_is_greedy`: sub-renderer, block start,
`add_inline_text`, `into_lines`) and the whole pipeline on the parsed document `<p>text</p>` without style sheets
(`paragraph_document_is_greedy`: style computation and tree building reduce in the kernel) return exactly the reference's
lines — or its error — under the default wrapping options.

Also proved: every emitted line fits the width (all inputs, all tags, all modes); whitespace runs collapse and any
whitespace character acts as a space; whitespace at the start of a line is dropped; a word that fits is placed
whole behind exactly the pending space; and sanity theorems about the reference itself (`spec_*`).
Independently of the theorems, the check's search oracle compares the real library with an independent greedy
wrapper written in Rust on exhaustive small and random large inputs, and the correspondence run ties the machine
of this model to the library. -/

namespace H2T.C04
open H2T.Spec

/-- the text of the lines a block returns (tags and fragment markers forgotten) -/
def linesText (ls : List TLine) : List (List Ch) :=
  ls.map fun l => l.filterMap fun e => match e with | .cell c => some c.ch | .frag _ => none

/-- running the wrap machine on a paragraph given as parts, then finishing -/
def wrapParts (w : Nat) (parts : List Part) : Except Err (List (List Ch)) :=
  andThen (({ width := w } : WB).runParts parts) fun b => andThen b.finish fun ls => .ok (linesText ls)

/-- **C04, full statement**: for every split of a text over `add_text` calls with arbitrary tags and fragment
    markers, every width ≥ 1, and words of positive display width, the machine's result (lines or error) is the
    reference's. -/
theorem wrap_eq_greedy_full (w : Nat) (parts : List Part) (hw : 1 ≤ w)
    (hpos : ∀ wd ∈ words (partsText parts), 0 < lwc wd) :
    wrapParts w parts = greedy w (words (partsText parts)) := by
  have hrel : Rel ({ width := w } : WB) ⟨[], []⟩ [] :=
    ⟨⟨rfl, rfl, rfl, rfl, rfl, by simp⟩, rfl, rfl, by simp, by simp, by simp⟩
  have h := runParts_refines w hw parts _ _ [] hrel rfl hpos
  have he := ExRel_SameLines_eq h
  unfold wrapParts
  rw [andThen_assoc]
  have hg : greedy w (words (partsText parts)) = andThen ((⟨[], []⟩ : G).places w (words (partsText parts))) specEnd := by
    unfold greedy specEnd
    cases (⟨[], []⟩ : G).places w (words (partsText parts)) <;> rfl
  rw [hg]
  exact he

/-- the hypotheses of `wrap_eq_greedy_full` are satisfiable on a non-trivial paragraph: three parts with
    different tags, an element boundary inside a word, a fragment marker, an over-long word -/
example : (1 ≤ 3) ∧ (∀ wd ∈ words (partsText [.text [] [] (strCh "aaa b"), .frag (strCh "id"),
    .text [Ann.em] [Ann.em] (strCh "b  ccc"), .text [] [] (strCh "ccc d")]), 0 < lwc wd) := by decide +kernel

/-- a word consisting of a zero-width character is a word like any other: it is flushed at the space that follows it and
    does not run into the next word (before fix "flush a pending word that has no width" it did: the flush was guarded by
    `wordlen > 0`, and this statement was false — the machine gave `a ​b` with the second space lost) -/
theorem zero_width_word_kept_apart :
    let zw : Ch := ⟨0x200b, 0, false, false⟩
    let text := [mkCh 97, spaceCh, zw, spaceCh, mkCh 98]
    (wrapParts 10 [.text [] [] text]).toOption = some [[mkCh 97, spaceCh, zw, spaceCh, mkCh 98]] ∧
    (greedy 10 (words text)).toOption = some [[mkCh 97, spaceCh, zw, spaceCh, mkCh 98]] := by decide +kernel

/-! ## width 0 -/

theorem fill_zero (word : List Ch) : ∀ (g : G), lwc g.cur = 0 → 0 < lwc word → g.fill 0 word = .error .tooNarrow := by
  induction word with
  | nil => intro g _ h; simp at h
  | cons c cs ih =>
    intro g h0 hpos
    simp only [G.fill, G.fillCh]
    by_cases hc : c.w = 0
    · have : lwc g.cur + c.w ≤ 0 := by omega
      simp only [this, if_true]
      exact ih _ (by simp; omega) (by simp at hpos; omega)
    · have h2 : ¬ (0 + c.w ≤ 0) := by omega
      simp only [h0, h2, if_false, if_true]

theorem runParts_zero : ∀ (parts : List Part) (b : WB), b.width = 0 → b.overflow = false → partsText parts ≠ [] →
    b.runParts parts = .error .tooNarrow
  | [], b, _, _, h => by simp [partsText] at h
  | .frag n :: ps, b, hw, ho, h => by
    simp only [WB.runParts, WB.addPart, andThen_ok]
    exact runParts_zero ps _ hw ho (by simpa [partsText, Part.chars] using h)
  | .text mt wt cs :: ps, b, hw, ho, h => by
    simp only [WB.runParts, WB.addPart, WB.addText, WB.zeroGuard, hw, ho, if_true, Bool.false_eq_true, if_false]
    cases cs with
    | nil =>
      simp only [List.isEmpty_nil, Bool.not_true, Bool.false_eq_true, if_false, andThen_ok, WB.addTextGo]
      exact runParts_zero ps b hw ho (by simpa [partsText, Part.chars] using h)
    | cons c cs => simp

/-- at width 0 a paragraph with at least one word is `TooNarrow`, in the machine and in the reference -/
theorem wrap_zero_width (parts : List Part) (hne : words (partsText parts) ≠ [])
    (hpos : ∀ wd ∈ words (partsText parts), 0 < lwc wd) :
    wrapParts 0 parts = .error .tooNarrow ∧ greedy 0 (words (partsText parts)) = .error .tooNarrow := by
  constructor
  · have : partsText parts ≠ [] := by
      intro h; apply hne; rw [h]; rfl
    have hr := runParts_zero parts ({ width := 0 } : WB) rfl rfl this
    simp only [wrapParts, hr, andThen_err]
  · cases hws : words (partsText parts) with
    | nil => exact absurd hws hne
    | cons w ws =>
      have hw := hpos w (by rw [hws]; simp)
      simp [greedy, G.places, G.place, fill_zero w ⟨[], []⟩ rfl hw]

/-! ## consequences of the refinement: what the reference guarantees, the machine guarantees -/

/-- the reference's lines fit the width -/
theorem spec_lines_fit (W : Nat) (ws : List (List Ch)) (ls : List (List Ch)) (h : greedy W ws = .ok ls) :
    ∀ l ∈ ls, lwc l ≤ W := greedy_fits W ws ls h

/-- the reference lays out exactly the characters of the words, in order; everything else it emits is a space -/
theorem spec_conserves (W : Nat) (ws : List (List Ch)) (ls : List (List Ch)) (h : greedy W ws = .ok ls) :
    nonWs ls.flatten = nonWs ws.flatten := greedy_conserves W ws ls h

/-- **text conservation for a paragraph** (the wrap-layer core of C03): the non-whitespace characters of the
    machine's lines are exactly the word characters of the text, in order — nothing lost, duplicated, reordered
    or invented, for every split, tagging and width -/
theorem wrap_conserves_text (w : Nat) (parts : List Part) (ls : List (List Ch)) (hw : 1 ≤ w)
    (hpos : ∀ wd ∈ words (partsText parts), 0 < lwc wd) (h : wrapParts w parts = .ok ls) :
    nonWs ls.flatten = wordChars (partsText parts) := by
  rw [wrap_eq_greedy_full w parts hw hpos] at h
  rw [greedy_conserves w _ ls h, words_flatten, wordChars_nonWs]

/-- the machine's paragraph lines fit, as a corollary of the refinement (independent of the C02 invariant) -/
theorem wrap_lines_fit (w : Nat) (parts : List Part) (ls : List (List Ch)) (hw : 1 ≤ w)
    (hpos : ∀ wd ∈ words (partsText parts), 0 < lwc wd) (h : wrapParts w parts = .ok ls) :
    ∀ l ∈ ls, lwc l ≤ w := by
  rw [wrap_eq_greedy_full w parts hw hpos] at h
  exact greedy_fits w _ ls h

/-- every line fits (all tags, all splits): from the C02 wrap-layer invariant -/
theorem lines_fit (b : WB) (ls : List TLine) (hi : b.Inv) (ho : b.overflow = false) (h : b.finish = .ok ls) :
    ∀ l ∈ ls, lw l ≤ b.width :=
  finish_lines_fit b ls hi ho h

/-- whitespace runs collapse to one pending space, whichever whitespace characters they consist of -/
theorem ws_run_collapses (b b1 : WB) (mt wt : Tag) (cur cur1 : Bool) (c1 c2 : Ch) (h1 : c1.ws = true) (h2 : c2.ws = true)
    (hw : b.word.noContent = true) (hstep : b.addChar .normal mt wt cur c1 = .ok (b1, cur1)) :
    b1.addChar .normal mt wt cur1 c2 = .ok (b1, cur1) :=
  C13.second_ws_noop b b1 mt wt cur cur1 c1 c2 h1 h2 hw hstep

/-- no line begins with a space: whitespace met at the start of a line is dropped -/
theorem no_leading_space (b : WB) (mt wt : Tag) (cur : Bool) (c : Ch) (hc : c.ws = true) (hw : b.word.noContent = true)
    (hl : b.linelen = 0) : b.addChar .normal mt wt cur c = .ok (b, cur) :=
  C13.leading_ws_dropped b mt wt cur c hc hw hl

/-- a word that fits behind the pending space is placed whole, behind exactly `wslen` spaces (0 or 1 in normal
    mode); nothing else on the line or in the finished text changes -/
theorem fitting_word_placed (b b' : WB) (h : b.placeFits = .ok b') :
    lw b'.line = lw b.line + b.wslen + lw b.word ∧ b'.text = b.text ∧ b'.word = [] := by
  unfold WB.placeFits at h
  split at h
  · cases hs : b.spacetag with
    | none => simp [hs] at h
    | some t =>
      simp only [hs] at h; injection h with h; subst h
      simp [WB.pushWs, lw_replicate_spc]; omega
  · rename_i hz
    injection h with h; subst h
    have : b.wslen = 0 := by omega
    simp [this]

/-- the reference wrapper itself never makes a line wider than `W` when it places a word that fits -/
theorem spec_place_fits (W : Nat) (g : G) (word : List Ch) (hne : g.cur ≠ [])
    (hfit : lwc g.cur + 1 + lwc word ≤ W) :
    g.place W word = .ok { g with cur := g.cur ++ [spaceCh] ++ word } := by
  simp [G.place, hne, hfit]

/-! ## tests (not proofs): machine = reference on concrete inputs, checked by kernel evaluation -/

/-- "aaa bb  cccccc d" split over three tagged parts, widths 1..8 -/
example : ∀ w ∈ [1, 2, 3, 4, 5, 6, 7, 8],
    (wrapParts w [.text [] [] (strCh "aaa b"), .frag (strCh "id"), .text [Ann.em] [Ann.em] (strCh "b  ccc"), .text [] [] (strCh "ccc d")]).toOption
      = (greedy w (words (strCh "aaa bb  cccccc d"))).toOption := by decide +kernel

/-- a width-2 character at width 1 is TooNarrow in both -/
example :
    let wide : Ch := ⟨0x5b57, 2, false, false⟩
    (match wrapParts 1 [.text [] [] [mkCh 97, spaceCh, wide]] with | .error .tooNarrow => true | _ => false) = true ∧
    (match greedy 1 (words [mkCh 97, spaceCh, wide]) with | .error .tooNarrow => true | _ => false) = true := by decide +kernel

/-! ## end to end: a paragraph through the whole renderer and the whole pipeline -/

/-- the characters of a rendered line -/
def rlineChars : RLine → List Ch
  | .text tl => tl.filterMap fun e => match e with | .cell c => some c.ch | .frag _ => none
  | .rule b _ => b.chars

theorem compile_p_text (cfg : Cfg) (d : Deco) (s : List Ch) :
    compile cfg d (.box {} .block [.text {} s]) = [.startBlock, .text s, .endBlock] := by
  simp [compile, compileList, styleOpen, styleClose]

theorem noContent_no_marks (l : TLine) (h1 : l.noContent = true) (h2 : marks l = []) : l = [] := by
  cases l with
  | nil => rfl
  | cons e r =>
    cases e with
    | cell c => simp [TLine.noContent, Elt.isCell] at h1
    | frag n => simp [marks] at h2

/-- **a paragraph is wrapped greedily by the whole renderer** (default wrapping options): the lines `renderTree` returns
    for the tree `p[text]` — or its error — are those of the reference `greedy` on the words of the text -/
theorem paragraph_is_greedy (cfg : Cfg) (d : Deco) (w : Nat) (hw : 1 ≤ w) (hww : cfg.wrapWidth = none) (hpad : cfg.padBlocks = false)
    (hov : cfg.overflow = false) (s : List Ch) (hpos : ∀ wd ∈ words s, 0 < lwc wd) :
    (renderTree cfg d w (.box {} .block [.text {} s])).map (fun ls => ls.map rlineChars) = greedy w (words s) := by
  have hg := wrap_eq_greedy_full w [.text [] [] s] hw (by simpa [partsText, Part.chars] using hpos)
  simp only [partsText, Part.chars, List.append_nil] at hg
  rw [← hg]
  unfold wrapParts
  simp only [WB.runParts, WB.addPart, andThen]
  unfold renderTree
  rw [if_neg (by omega), compile_p_text]
  have hsb : ({ width := w } : SubR).startBlock = .ok { width := w } := by
    simp [SubR.startBlock, SubR.flushWrapping, andThen]
  have hadd : ({ width := w } : SubR).addInlineText cfg s d.annOf =
      (match ({ width := w } : WB).addText .normal [] [] s with
       | .ok w1 => .ok { width := w, wrapping := some w1 }
       | .error e => .error e) := by
    unfold SubR.addInlineText
    simp only [SubR.wsMode, List.getLast?_nil, Option.getD_none, WS.preserve, Bool.not_false, Bool.true_and, Bool.false_and,
      Bool.false_eq_true, if_false, andThen, iterN, SubR.getWrapping, hww, hpad, hov, List.nil_append, Nat.lt_irrefl]
    cases ({ width := w } : WB).addText .normal [] [] s <;> rfl
  simp only [runOps, runOp, stepSimple, RS.onCur, andThen, hsb, hadd]
  cases h1 : ({ width := w } : WB).addText .normal [] [] s with
  | error e => rfl
  | ok w1 =>
    simp only [footTexts, List.zipIdx_nil, List.map_nil, ite_self, List.isEmpty_nil, if_true]
    obtain ⟨m1, _⟩ := addText_marks _ w1 _ _ _ _ (fun _ => Or.inl rfl) h1
    have hwm : marks w1.word = [] := by
      have : w1.marks = [] := by rw [m1]; rfl
      simp only [WB.marks, List.append_eq_nil_iff] at this
      exact this.2
    have hb : (if w1.word.noContent = true then { w1 with word := [] } else w1) = w1 := by
      split
      · rename_i hn
        have := noContent_no_marks w1.word hn hwm
        cases w1; simp_all
      · rfl
    have hfr : (if w1.word.noContent = true then w1.word else []) = [] := by
      split
      · rename_i hn; exact noContent_no_marks w1.word hn hwm
      · rfl
    unfold SubR.intoLines SubR.flushWrapping
    simp only [hb, hfr, andThen]
    cases h2 : w1.finish with
    | error e => rfl
    | ok ls =>
      have := (addLines_plain (ls.map RLine.text) ({ width := w, atBlockEnd := true } : SubR) rfl).1
      simp only [List.nil_append] at this
      simp only [this, Except.map, List.map_map, linesText]
      congr 1


/-- **…and under `max_wrap_width(m)` at the effective width `min m w`** -/
theorem paragraph_is_greedy_maxwrap (cfg : Cfg) (d : Deco) (w m : Nat) (hw : 1 ≤ w) (hm : 1 ≤ m) (hww : cfg.wrapWidth = some m) (hpad : cfg.padBlocks = false)
    (hov : cfg.overflow = false) (s : List Ch) (hpos : ∀ wd ∈ words s, 0 < lwc wd) :
    (renderTree cfg d w (.box {} .block [.text {} s])).map (fun ls => ls.map rlineChars) = greedy (min m w) (words s) := by
  have hg := wrap_eq_greedy_full (min m w) [.text [] [] s] (by omega) (by simpa [partsText, Part.chars] using hpos)
  simp only [partsText, Part.chars, List.append_nil] at hg
  rw [← hg]
  unfold wrapParts
  simp only [WB.runParts, WB.addPart, andThen]
  unfold renderTree
  rw [if_neg (by omega), compile_p_text]
  have hsb : ({ width := w } : SubR).startBlock = .ok { width := w } := by
    simp [SubR.startBlock, SubR.flushWrapping, andThen]
  have hadd : ({ width := w } : SubR).addInlineText cfg s d.annOf =
      (match ({ width := min m w } : WB).addText .normal [] [] s with
       | .ok w1 => .ok { width := w, wrapping := some w1 }
       | .error e => .error e) := by
    unfold SubR.addInlineText
    simp only [SubR.wsMode, List.getLast?_nil, Option.getD_none, WS.preserve, Bool.not_false, Bool.true_and, Bool.false_and,
      Bool.false_eq_true, if_false, andThen, iterN, SubR.getWrapping, hww, hpad, hov, List.nil_append, Nat.lt_irrefl]
    cases ({ width := min m w } : WB).addText .normal [] [] s <;> rfl
  simp only [runOps, runOp, stepSimple, RS.onCur, andThen, hsb, hadd]
  cases h1 : ({ width := min m w } : WB).addText .normal [] [] s with
  | error e => rfl
  | ok w1 =>
    simp only [footTexts, List.zipIdx_nil, List.map_nil, ite_self, List.isEmpty_nil, if_true]
    obtain ⟨m1, _⟩ := addText_marks _ w1 _ _ _ _ (fun _ => Or.inl rfl) h1
    have hwm : marks w1.word = [] := by
      have : w1.marks = [] := by rw [m1]; rfl
      simp only [WB.marks, List.append_eq_nil_iff] at this
      exact this.2
    have hb : (if w1.word.noContent = true then { w1 with word := [] } else w1) = w1 := by
      split
      · rename_i hn
        have := noContent_no_marks w1.word hn hwm
        cases w1; simp_all
      · rfl
    have hfr : (if w1.word.noContent = true then w1.word else []) = [] := by
      split
      · rename_i hn; exact noContent_no_marks w1.word hn hwm
      · rfl
    unfold SubR.intoLines SubR.flushWrapping
    simp only [hb, hfr, andThen]
    cases h2 : w1.finish with
    | error e => rfl
    | ok ls =>
      have := (addLines_plain (ls.map RLine.text) ({ width := w, atBlockEnd := true } : SubR) rfl).1
      simp only [List.nil_append] at this
      simp only [this, Except.map, List.map_map, linesText]
      congr 1


/-- the DOM html5ever builds for `<p>text</p>` -/
def pDoc (s : List Ch) : Node :=
  .doc [.elem "html" true [] [.elem "head" true [] [], .elem "body" true [] [.elem "p" true [] [.text s]]]]

theorem domTree_pDoc (ci : CharInfo) (depth : Nat) (s : List Ch) :
    domTree false false none none ci depth (pDoc s) =
      .ok (.box {} .container [.box {} .container [.box {} .container [.box {} .block [.text {} s]]]]) := by
  rfl

/-- **`<p>text</p>`, the whole pipeline** (no style sheets, default wrapping options): the outcome is the reference's -/
theorem paragraph_document_is_greedy (cfg : Cfg) (d : Deco) (w : Nat) (hw : 1 ≤ w) (hdec : cfg.decorate = false) (hww : cfg.wrapWidth = none)
    (hpad : cfg.padBlocks = false) (hov : cfg.overflow = false) (ci : CharInfo) (depth : Nat) (s : List Ch)
    (hpos : ∀ wd ∈ words s, 0 < lwc wd) :
    (match renderDom cfg d w false none none ci depth (pDoc s) with
     | .lines ls => Except.ok (ls.map rlineChars)
     | .narrow => .error .tooNarrow
     | .panic m => .error (.panic m)
     | .hang m => .error (.hang m)
     | .cssErr => .error (.panic "css")) = greedy w (words s) := by
  rw [renderDom_factor, hdec, domTree_pDoc]
  simp only [renderTree_wrapped]
  rw [← paragraph_is_greedy cfg d w hw hww hpad hov s hpos]
  cases renderTree cfg d w (.box {} .block [.text {} s]) with
  | ok ls => rfl
  | error e => cases e <;> rfl


/-! ## across inline markup boundaries, for the whole renderer

`wrap_eq_greedy_full` is about the wrap machine fed with parts.  This section shows that the renderer feeds it exactly that
way: the inline operations a paragraph's children compile to — texts, images, links, emphasis/strong/code brackets with
their decorator strings, colour pushes — are one `add_text` call each with the annotation stack as tag, on one wrap block
per paragraph. -/

/-- inline operations (everything the children of a paragraph compile to, except strikeout brackets, line breaks and
    fragment markers) -/
def inlineOp : Op → Bool
  | .text _ => true
  | .startAnn _ _ strike => !strike
  | .endAnn _ strike => !strike
  | .startLink _ => true
  | .endLink => true
  | .image _ _ => true
  | .pushAnn _ => true
  | .popAnn => true
  | _ => false

/-- the part an inline operation feeds to the wrap machine under annotation stack `st`, and the stack afterwards -/
def opPart (d : Deco) (st : Tag) : Op → List Part × Tag
  | .text x => ([.text st st x], st)
  | .startAnn a x _ => ([.text (st ++ [d.annOf a]) (st ++ [d.annOf a]) x], st ++ [d.annOf a])
  | .endAnn x _ => ([.text st st x], st.dropLast)
  | .startLink h => ([.text (st ++ [d.annOf (Ann.link h)]) (st ++ [d.annOf (Ann.link h)]) d.linkStart], st ++ [d.annOf (Ann.link h)])
  | .endLink => ([.text st st d.linkEnd], st.dropLast)
  | .image src t => ([.text (st ++ [d.annOf (Ann.image src)]) (st ++ [d.annOf (Ann.image src)]) (d.imgText t)], st)
  | .pushAnn a => ([], st ++ [a])
  | .popAnn => ([], st.dropLast)
  | _ => ([], st)

def opsParts (d : Deco) : Tag → List Op → List Part
  | _, [] => []
  | st, op :: r => (opPart d st op).1 ++ opsParts d (opPart d st op).2 r

/-- the sub-renderer in the middle of a paragraph: nothing finished yet, normal flow, its wrap block is `b` -/
structure PInv (cfg : Cfg) (s : SubR) (b : WB) : Prop where
  lines : s.lines = []
  abe : s.atBlockEnd = false
  pre : s.preDepth = 0
  ws : s.wsStack = []
  fd : s.filterDepth = 0
  pf : s.pendingFrags = []
  wb : s.getWrapping cfg = b
  mks : b.marks = []
  lo : b.LineOk

theorem getWrapping_some (s : SubR) (cfg : Cfg) (b : WB) : ({ s with wrapping := some b } : SubR).getWrapping cfg = b := rfl

theorem inl_text_step (cfg : Cfg) (s : SubR) (b : WB) (x : List Ch) (f : Ann → Ann) (h : PInv cfg s b) :
    s.addInlineText cfg x f =
      (match b.addText .normal s.annStack s.annStack x with
       | .ok b' => .ok { s with wrapping := some b' }
       | .error e => .error e) := by
  unfold SubR.addInlineText
  simp only [SubR.wsMode, h.ws, List.getLast?_nil, Option.getD_none, WS.preserve, Bool.not_false, Bool.true_and, h.abe, Bool.false_and,
    Bool.false_eq_true, if_false, andThen, h.fd, iterN, h.pre, Nat.lt_irrefl, h.wb]
  cases b.addText .normal s.annStack s.annStack x <;> rfl

theorem PInv.after_text {cfg : Cfg} {s : SubR} {b b' : WB} {x : List Ch} (h : PInv cfg s b) (st : Tag)
    (e : b.addText .normal st st x = .ok b') : PInv cfg { s with wrapping := some b' } b' :=
  ⟨h.lines, h.abe, h.pre, h.ws, h.fd, h.pf, rfl, by rw [(addText_marks b b' _ _ _ _ h.lo e).1]; exact h.mks, (addText_marks b b' _ _ _ _ h.lo e).2⟩

theorem PInv.stack {cfg : Cfg} {s : SubR} {b : WB} (h : PInv cfg s b) (st : Tag) : PInv cfg { s with annStack := st } b :=
  ⟨h.lines, h.abe, h.pre, h.ws, h.fd, h.pf, h.wb, h.mks, h.lo⟩

/-- one inline operation is one step of the wrap machine -/
theorem inline_step (cfg : Cfg) (d : Deco) (hfn : cfg.footnotes = false) (op : Op) (t : RS) (b : WB) (hop : inlineOp op = true)
    (h : PInv cfg t.cur b) :
    match b.runParts (opPart d t.cur.annStack op).1 with
    | .ok b' => ∃ t', runOp SubR.widthMinus cfg d t op = .ok t' ∧ PInv cfg t'.cur b' ∧ t'.cur.annStack = (opPart d t.cur.annStack op).2
    | .error e => runOp SubR.widthMinus cfg d t op = .error e := by
  cases op <;> simp only [inlineOp, Bool.not_eq_true', Bool.false_eq_true] at hop
  case text x =>
    simp only [opPart, WB.runParts, WB.addPart, andThen, runOp, stepSimple, RS.onCur, inl_text_step cfg t.cur b x _ h]
    cases e : b.addText .normal t.cur.annStack t.cur.annStack x with
    | error err => rfl
    | ok b' => exact ⟨_, rfl, h.after_text _ e, rfl⟩
  case startAnn a x strike =>
    subst hop
    have h1 := (h.stack (t.cur.annStack ++ [d.annOf a]))
    simp only [opPart, WB.runParts, WB.addPart, andThen, runOp, stepSimple, RS.onCur, inl_text_step cfg _ b x _ h1]
    cases e : b.addText .normal (t.cur.annStack ++ [d.annOf a]) (t.cur.annStack ++ [d.annOf a]) x with
    | error err => rfl
    | ok b' => exact ⟨_, rfl, by simpa using h1.after_text _ e, rfl⟩
  case endAnn x strike =>
    subst hop
    simp only [opPart, WB.runParts, WB.addPart, andThen, runOp, stepSimple, RS.onCur, Bool.false_and, Bool.false_eq_true, if_false,
      inl_text_step cfg t.cur b x _ h]
    cases e : b.addText .normal t.cur.annStack t.cur.annStack x with
    | error err => rfl
    | ok b' => exact ⟨_, rfl, (h.after_text _ e).stack _, rfl⟩
  case startLink href =>
    have h1 := (h.stack (t.cur.annStack ++ [d.annOf (Ann.link href)]))
    simp only [opPart, WB.runParts, WB.addPart, andThen, runOp, stepSimple, RS.onCur, inl_text_step cfg _ b d.linkStart _ h1]
    cases e : b.addText .normal (t.cur.annStack ++ [d.annOf (Ann.link href)]) (t.cur.annStack ++ [d.annOf (Ann.link href)]) d.linkStart with
    | error err => rfl
    | ok b' => exact ⟨_, rfl, by simpa using h1.after_text _ e, rfl⟩
  case endLink =>
    simp only [opPart, WB.runParts, WB.addPart, andThen, runOp, stepSimple, RS.onCur, hfn, Bool.false_eq_true, if_false,
      inl_text_step cfg t.cur b d.linkEnd _ h]
    cases e : b.addText .normal t.cur.annStack t.cur.annStack d.linkEnd with
    | error err => rfl
    | ok b' => exact ⟨_, rfl, (h.after_text _ e).stack _, rfl⟩
  case image src title =>
    have h1 := (h.stack (t.cur.annStack ++ [d.annOf (Ann.image src)]))
    simp only [opPart, WB.runParts, WB.addPart, andThen, runOp, stepSimple, RS.onCur, inl_text_step cfg _ b (d.imgText title) _ h1]
    cases e : b.addText .normal (t.cur.annStack ++ [d.annOf (Ann.image src)]) (t.cur.annStack ++ [d.annOf (Ann.image src)]) (d.imgText title) with
    | error err => rfl
    | ok b' => exact ⟨_, rfl, by simpa using (h1.after_text _ e).stack _, by simp⟩
  case pushAnn a =>
    simp only [opPart, WB.runParts, runOp, stepSimple, RS.onCur, andThen]
    exact ⟨_, rfl, h.stack _, rfl⟩
  case popAnn =>
    simp only [opPart, WB.runParts, runOp, stepSimple, RS.onCur, andThen]
    exact ⟨_, rfl, h.stack _, rfl⟩

def inlineOps : List Op → Bool
  | [] => true
  | op :: r => inlineOp op && inlineOps r

theorem runParts_append (ps qs : List Part) : ∀ b : WB, b.runParts (ps ++ qs) = andThen (b.runParts ps) fun b' => b'.runParts qs := by
  induction ps with
  | nil => intro b; rfl
  | cons p ps ih =>
    intro b
    simp only [List.cons_append, WB.runParts]
    cases b.addPart p with
    | error e => rfl
    | ok b1 => simp only [andThen]; exact ih b1

/-- a run of inline operations is a run of the wrap machine on their parts — same block, or the same error -/
theorem inline_sim (cfg : Cfg) (d : Deco) (hfn : cfg.footnotes = false) : ∀ (ops : List Op) (t : RS) (b : WB), inlineOps ops = true →
    PInv cfg t.cur b →
    match b.runParts (opsParts d t.cur.annStack ops) with
    | .ok b' => ∃ t', runOps SubR.widthMinus cfg d t ops = .ok t' ∧ PInv cfg t'.cur b'
    | .error e => runOps SubR.widthMinus cfg d t ops = .error e := by
  intro ops
  induction ops with
  | nil => intro t b _ h; simp only [opsParts, WB.runParts, runOps]; exact ⟨t, rfl, h⟩
  | cons op r ih =>
    intro t b hops h
    simp only [inlineOps, Bool.and_eq_true] at hops
    have hs := inline_step cfg d hfn op t b hops.1 h
    simp only [opsParts, runParts_append, runOps]
    cases e1 : b.runParts (opPart d t.cur.annStack op).1 with
    | error err =>
      rw [e1] at hs
      simp only [andThen, hs]
    | ok b1 =>
      rw [e1] at hs
      obtain ⟨t1, r1, i1, a1⟩ := hs
      simp only [andThen, r1]
      have := ih t1 b1 hops.2 i1
      rw [a1] at this
      exact this

theorem fresh_finish (n : Nat) (p o : Bool) : ({ width := n, padBlocks := p, overflow := o } : WB).finish = .ok [] := by
  simp [WB.finish, WB.flushWord, WB.flushLine, rescueMarks, andThen, TLine.noContent]

theorem runOps_cons_eq (wm : SubR → Cfg → Nat → Nat → Except Err Nat) (cfg : Cfg) (d : Deco) (t : RS) (op : Op) (ops : List Op) :
    runOps wm cfg d t (op :: ops) = andThen (runOp wm cfg d t op) fun t' => runOps wm cfg d t' ops := by
  simp [runOps]

/-- **a paragraph with inline markup is wrapped greedily by the whole renderer** (default wrapping options, footnotes off):
    for the tree `p[kids]` whose children compile to inline operations — texts, images, links, emphasis, strong, code, their
    nestings, coloured or not — the lines `renderTree` returns, or its error, are those of the reference `greedy` on the
    words of the children's text (decorator strings included), whatever the element boundaries: a word may begin in one
    element and end in another -/
theorem inline_paragraph_is_greedy (cfg : Cfg) (d : Deco) (w : Nat) (hw : 1 ≤ w) (hfn : cfg.footnotes = false) (hww : cfg.wrapWidth = none)
    (hpad : cfg.padBlocks = false) (hov : cfg.overflow = false) (kids : List RNode) (hin : inlineOps (compileList cfg d kids) = true)
    (hpos : ∀ wd ∈ words (partsText (opsParts d [] (compileList cfg d kids))), 0 < lwc wd) :
    (renderTree cfg d w (.box {} .block kids)).map (fun ls => ls.map rlineChars) =
      greedy w (words (partsText (opsParts d [] (compileList cfg d kids)))) := by
  have hg := wrap_eq_greedy_full w (opsParts d [] (compileList cfg d kids)) hw hpos
  rw [← hg]
  unfold wrapParts renderTree
  rw [if_neg (by omega)]
  have hc : compile cfg d (.box {} .block kids) = .startBlock :: (compileList cfg d kids ++ [.endBlock]) := by
    simp [compile, styleOpen, styleClose]
  rw [hc, runOps_cons_eq]
  have hsb : runOp SubR.widthMinus cfg d ({ cur := { width := w } } : RS) .startBlock = .ok { cur := { width := w } } := by
    simp [runOp, stepSimple, RS.onCur, SubR.startBlock, SubR.flushWrapping, andThen]
  have hinv : PInv cfg ({ cur := { width := w } } : RS).cur ({ width := w } : WB) :=
    ⟨rfl, rfl, rfl, rfl, rfl, rfl, by simp [SubR.getWrapping, hww, hpad, hov], rfl, fun _ => Or.inl rfl⟩
  have hsim := inline_sim cfg d hfn (compileList cfg d kids) { cur := { width := w } } { width := w } hin hinv
  rw [hsb]
  simp only [andThen]
  rw [runOps_append]
  cases e1 : ({ width := w } : WB).runParts (opsParts d [] (compileList cfg d kids)) with
  | error err =>
    rw [e1] at hsim
    have hsim' : runOps SubR.widthMinus cfg d { cur := { width := w } } (compileList cfg d kids) = .error err := hsim
    simp only [hsim', andThen]
    rfl
  | ok b1 =>
    rw [e1] at hsim
    obtain ⟨t1, r1, i1⟩ := hsim
    simp only [r1, andThen, runOps, runOp, stepSimple, RS.onCur, footTexts, hfn, Bool.false_eq_true, if_false, List.isEmpty_nil, if_true]
    unfold SubR.intoLines SubR.flushWrapping
    have hwb := i1.wb
    unfold SubR.getWrapping at hwb
    cases hwr : t1.cur.wrapping with
    | none =>
      simp only [hwr] at hwb
      rw [← hwb, fresh_finish]
      simp only [andThen, i1.lines, Except.map, linesText, List.map_nil]
    | some w1 =>
      simp only [hwr] at hwb
      subst hwb
      have hwm : marks w1.word = [] := by
        have := i1.mks
        simp only [WB.marks, List.append_eq_nil_iff] at this
        exact this.2
      have hb : (if w1.word.noContent = true then { w1 with word := [] } else w1) = w1 := by
        split
        · rename_i hn
          have := noContent_no_marks w1.word hn hwm
          cases w1; simp_all
        · rfl
      have hfr : (if w1.word.noContent = true then w1.word else []) = [] := by
        split
        · rename_i hn; exact noContent_no_marks w1.word hn hwm
        · rfl
      simp only [hb, hfr, andThen]
      cases h2 : w1.finish with
      | error e => rfl
      | ok ls =>
        have := (addLines_plain (ls.map RLine.text) ({ t1.cur with atBlockEnd := true, wrapping := none } : SubR) i1.pf).1
        simp only [Except.map]
        rw [this]
        simp only [i1.lines, List.nil_append, List.map_map, linesText]
        congr 1

/-- the width a paragraph is wrapped at: `max_wrap_width`, if set, clamped to the width available -/
def wrapEff (cfg : Cfg) (w : Nat) : Nat := match cfg.wrapWidth with | some m => min m w | none => w

/-- the same under any `max_wrap_width`: the effective width is `wrapEff cfg w` -/
theorem inline_paragraph_is_greedy_eff (cfg : Cfg) (d : Deco) (w : Nat) (hw : 1 ≤ w) (hfn : cfg.footnotes = false) (hm : 1 ≤ wrapEff cfg w)
    (hpad : cfg.padBlocks = false) (hov : cfg.overflow = false) (kids : List RNode) (hin : inlineOps (compileList cfg d kids) = true)
    (hpos : ∀ wd ∈ words (partsText (opsParts d [] (compileList cfg d kids))), 0 < lwc wd) :
    (renderTree cfg d w (.box {} .block kids)).map (fun ls => ls.map rlineChars) =
      greedy (wrapEff cfg w) (words (partsText (opsParts d [] (compileList cfg d kids)))) := by
  have hg := wrap_eq_greedy_full (wrapEff cfg w) (opsParts d [] (compileList cfg d kids)) hm hpos
  rw [← hg]
  unfold wrapParts renderTree
  rw [if_neg (by omega)]
  have hc : compile cfg d (.box {} .block kids) = .startBlock :: (compileList cfg d kids ++ [.endBlock]) := by
    simp [compile, styleOpen, styleClose]
  rw [hc, runOps_cons_eq]
  have hsb : runOp SubR.widthMinus cfg d ({ cur := { width := w } } : RS) .startBlock = .ok { cur := { width := w } } := by
    simp [runOp, stepSimple, RS.onCur, SubR.startBlock, SubR.flushWrapping, andThen]
  have hinv : PInv cfg ({ cur := { width := w } } : RS).cur ({ width := wrapEff cfg w } : WB) :=
    ⟨rfl, rfl, rfl, rfl, rfl, rfl, by simp only [SubR.getWrapping, wrapEff, hpad, hov]; cases cfg.wrapWidth <;> rfl, rfl, fun _ => Or.inl rfl⟩
  have hsim := inline_sim cfg d hfn (compileList cfg d kids) { cur := { width := w } } { width := wrapEff cfg w } hin hinv
  rw [hsb]
  simp only [andThen]
  rw [runOps_append]
  cases e1 : ({ width := wrapEff cfg w } : WB).runParts (opsParts d [] (compileList cfg d kids)) with
  | error err =>
    rw [e1] at hsim
    have hsim' : runOps SubR.widthMinus cfg d { cur := { width := w } } (compileList cfg d kids) = .error err := hsim
    simp only [hsim', andThen]
    rfl
  | ok b1 =>
    rw [e1] at hsim
    obtain ⟨t1, r1, i1⟩ := hsim
    simp only [r1, andThen, runOps, runOp, stepSimple, RS.onCur, footTexts, hfn, Bool.false_eq_true, if_false, List.isEmpty_nil, if_true]
    unfold SubR.intoLines SubR.flushWrapping
    have hwb := i1.wb
    unfold SubR.getWrapping at hwb
    cases hwr : t1.cur.wrapping with
    | none =>
      simp only [hwr] at hwb
      rw [← hwb, fresh_finish]
      simp only [andThen, i1.lines, Except.map, linesText, List.map_nil]
    | some w1 =>
      simp only [hwr] at hwb
      subst hwb
      have hwm : marks w1.word = [] := by
        have := i1.mks
        simp only [WB.marks, List.append_eq_nil_iff] at this
        exact this.2
      have hb : (if w1.word.noContent = true then { w1 with word := [] } else w1) = w1 := by
        split
        · rename_i hn
          have := noContent_no_marks w1.word hn hwm
          cases w1; simp_all
        · rfl
      have hfr : (if w1.word.noContent = true then w1.word else []) = [] := by
        split
        · rename_i hn; exact noContent_no_marks w1.word hn hwm
        · rfl
      simp only [hb, hfr, andThen]
      cases h2 : w1.finish with
      | error e => rfl
      | ok ls =>
        have := (addLines_plain (ls.map RLine.text) ({ t1.cur with atBlockEnd := true, wrapping := none } : SubR) i1.pf).1
        simp only [Except.map]
        rw [this]
        simp only [i1.lines, List.nil_append, List.map_map, linesText]
        congr 1

/-! …stated on the render tree -/

/-- a style that only colours -/
def colourOnly (sty : Style) : Bool := sty.ws.isNone && !sty.pre

mutual
/-- inline content: texts, images and the annotating inline elements other than strikeout, coloured or not -/
def inlineNode : RNode → Bool
  | .text sty _ => colourOnly sty
  | .img sty _ _ => colourOnly sty
  | .box sty k kids =>
    colourOnly sty && (match k with | .container | .em | .strong | .code | .link _ => true | _ => false) && inlineNodes kids
  | _ => false
def inlineNodes : List RNode → Bool
  | [] => true
  | n :: ns => inlineNode n && inlineNodes ns
end

mutual
/-- the text of inline content as the wrap machine receives it: the texts in document order with the decorator's strings
    around the decorated elements -/
def inlFlat (d : Deco) : RNode → List Ch
  | .text _ s => s
  | .img _ _ title => d.imgText title
  | .box _ k kids =>
    match k with
    | .em => d.emStart ++ inlFlats d kids ++ d.emEnd
    | .strong => d.strongStart ++ inlFlats d kids ++ d.strongEnd
    | .code => d.codeStart ++ inlFlats d kids ++ d.codeEnd
    | .link _ => d.linkStart ++ inlFlats d kids ++ d.linkEnd
    | _ => inlFlats d kids
  | _ => []
def inlFlats (d : Deco) : List RNode → List Ch
  | [] => []
  | n :: ns => inlFlat d n ++ inlFlats d ns
end

theorem inlineOps_append (a b : List Op) : inlineOps (a ++ b) = (inlineOps a && inlineOps b) := by
  induction a with
  | nil => simp [inlineOps]
  | cons x a ih => simp [inlineOps, ih, Bool.and_assoc]

theorem inline_styleOpen (d : Deco) (sty : Style) (h : colourOnly sty = true) : inlineOps (styleOpen d sty) = true := by
  simp only [colourOnly, Bool.and_eq_true, Option.isNone_iff_eq_none, Bool.not_eq_true'] at h
  unfold styleOpen
  rw [h.1, h.2]
  cases sty.fg <;> cases sty.bg <;> cases d.colours <;> simp [inlineOps, inlineOp]

theorem inline_styleClose (d : Deco) (sty : Style) (h : colourOnly sty = true) : inlineOps (styleClose d sty) = true := by
  simp only [colourOnly, Bool.and_eq_true, Option.isNone_iff_eq_none, Bool.not_eq_true'] at h
  unfold styleClose
  rw [h.1, h.2]
  cases sty.fg <;> cases sty.bg <;> cases d.colours <;> simp [inlineOps, inlineOp]

mutual
theorem compile_inline (cfg : Cfg) (d : Deco) : (n : RNode) → inlineNode n = true → inlineOps (compile cfg d n) = true
  | .text sty s, h => by
    simp only [inlineNode] at h
    simp [compile, inlineOps_append, inline_styleOpen d sty h, inline_styleClose d sty h, inlineOps, inlineOp]
  | .img sty a b, h => by
    simp only [inlineNode] at h
    simp [compile, inlineOps_append, inline_styleOpen d sty h, inline_styleClose d sty h, inlineOps, inlineOp]
  | .box sty k kids, h => by
    simp only [inlineNode, Bool.and_eq_true] at h
    have ho := inline_styleOpen d sty h.1.1
    have hc := inline_styleClose d sty h.1.1
    have hb := compileList_inline cfg d kids h.2
    cases k <;> simp at h <;> simp [compile, inlineOps_append, ho, hc, hb, inlineOps, inlineOp]
  | .br _, h => by simp [inlineNode] at h
  | .frag _, h => by simp [inlineNode] at h
  | .cell _ _ _, h => by simp [inlineNode] at h
  | .row _ _, h => by simp [inlineNode] at h
  | .tbody _ _, h => by simp [inlineNode] at h
  | .table _ _ _, h => by simp [inlineNode] at h
theorem compileList_inline (cfg : Cfg) (d : Deco) : (ns : List RNode) → inlineNodes ns = true → inlineOps (compileList cfg d ns) = true
  | [], _ => by simp [compileList, inlineOps]
  | n :: ns, h => by
    simp only [inlineNodes, Bool.and_eq_true] at h
    simp [compileList, inlineOps_append, compile_inline cfg d n h.1, compileList_inline cfg d ns h.2]
end

/-- the annotation stack after a run of inline operations -/
def opsEnd (d : Deco) : Tag → List Op → Tag
  | st, [] => st
  | st, op :: r => opsEnd d (opPart d st op).2 r

theorem opsParts_append (d : Deco) (a b : List Op) : ∀ st, opsParts d st (a ++ b) = opsParts d st a ++ opsParts d (opsEnd d st a) b := by
  induction a with
  | nil => intro st; rfl
  | cons x a ih => intro st; simp only [List.cons_append, opsParts, opsEnd, ih, List.append_assoc]

theorem opsEnd_append (d : Deco) (a b : List Op) : ∀ st, opsEnd d st (a ++ b) = opsEnd d (opsEnd d st a) b := by
  induction a with
  | nil => intro st; rfl
  | cons x a ih => intro st; simp only [List.cons_append, opsEnd, ih]

theorem partsText_append (a b : List Part) : partsText (a ++ b) = partsText a ++ partsText b := by
  induction a with
  | nil => rfl
  | cons p a ih => simp [partsText, ih]

/-- the colour annotations of a style -/
def colTags (d : Deco) (sty : Style) : Tag :=
  (match sty.fg with | some c => if d.colours then [Ann.fg c.r c.g c.b] else [] | none => []) ++
  (match sty.bg with | some c => if d.colours then [Ann.bg c.r c.g c.b] else [] | none => [])

theorem parts_styleOpen (d : Deco) (sty : Style) (h : colourOnly sty = true) (st : Tag) :
    opsParts d st (styleOpen d sty) = [] ∧ opsEnd d st (styleOpen d sty) = st ++ colTags d sty := by
  simp only [colourOnly, Bool.and_eq_true, Option.isNone_iff_eq_none, Bool.not_eq_true'] at h
  unfold styleOpen colTags
  rw [h.1, h.2]
  cases sty.fg <;> cases sty.bg <;> cases d.colours <;> simp [opsParts, opsEnd, opPart]

theorem parts_styleClose (d : Deco) (sty : Style) (h : colourOnly sty = true) (st : Tag) :
    opsParts d (st ++ colTags d sty) (styleClose d sty) = [] ∧ opsEnd d (st ++ colTags d sty) (styleClose d sty) = st := by
  simp only [colourOnly, Bool.and_eq_true, Option.isNone_iff_eq_none, Bool.not_eq_true'] at h
  unfold styleClose colTags
  rw [h.1, h.2]
  cases sty.fg <;> cases sty.bg <;> cases d.colours <;> simp [opsParts, opsEnd, opPart]

/-- style brackets around a balanced inner program add no part and restore the stack -/
theorem parts_styled (d : Deco) (sty : Style) (h : colourOnly sty = true) (st : Tag) (inner : List Op) (txt : List Ch)
    (hi : partsText (opsParts d (st ++ colTags d sty) inner) = txt ∧ opsEnd d (st ++ colTags d sty) inner = st ++ colTags d sty) :
    partsText (opsParts d st (styleOpen d sty ++ inner ++ styleClose d sty)) = txt ∧
      opsEnd d st (styleOpen d sty ++ inner ++ styleClose d sty) = st := by
  obtain ⟨o1, o2⟩ := parts_styleOpen d sty h st
  obtain ⟨c1, c2⟩ := parts_styleClose d sty h st
  simp only [opsParts_append, opsEnd_append, partsText_append, o1, o2, hi.1, hi.2, c1, c2, partsText, List.nil_append, List.append_nil]
  exact ⟨trivial, trivial⟩

mutual
theorem parts_compile (cfg : Cfg) (d : Deco) : (n : RNode) → inlineNode n = true → (st : Tag) →
    partsText (opsParts d st (compile cfg d n)) = inlFlat d n ∧ opsEnd d st (compile cfg d n) = st
  | .text sty s, h, st => by
    simp only [inlineNode] at h
    simp only [compile, inlFlat]
    exact parts_styled d sty h st _ _ (by simp [opsParts, opsEnd, opPart, partsText, Part.chars])
  | .img sty a b, h, st => by
    simp only [inlineNode] at h
    simp only [compile, inlFlat]
    exact parts_styled d sty h st _ _ (by simp [opsParts, opsEnd, opPart, partsText, Part.chars])
  | .box sty k kids, h, st => by
    simp only [inlineNode, Bool.and_eq_true] at h
    have hb := fun s => parts_compileList cfg d kids h.2 s
    cases k <;> simp at h <;> simp only [compile, inlFlat] <;> apply parts_styled d sty h.1 st
    · exact hb _
    · simp only [List.singleton_append, opsParts, opsEnd, opPart, opsParts_append, opsEnd_append, partsText_append, partsText, Part.chars,
        (hb _).1, (hb _).2, List.append_nil, List.append_assoc]
      simp
    · simp only [List.singleton_append, opsParts, opsEnd, opPart, opsParts_append, opsEnd_append, partsText_append, partsText, Part.chars,
        (hb _).1, (hb _).2, List.append_nil, List.append_assoc]
      simp
    · simp only [List.singleton_append, opsParts, opsEnd, opPart, opsParts_append, opsEnd_append, partsText_append, partsText, Part.chars,
        (hb _).1, (hb _).2, List.append_nil, List.append_assoc]
      simp
    · simp only [List.singleton_append, opsParts, opsEnd, opPart, opsParts_append, opsEnd_append, partsText_append, partsText, Part.chars,
        (hb _).1, (hb _).2, List.append_nil, List.append_assoc]
      simp
  | .br _, h, _ => by simp [inlineNode] at h
  | .frag _, h, _ => by simp [inlineNode] at h
  | .cell _ _ _, h, _ => by simp [inlineNode] at h
  | .row _ _, h, _ => by simp [inlineNode] at h
  | .tbody _ _, h, _ => by simp [inlineNode] at h
  | .table _ _ _, h, _ => by simp [inlineNode] at h
theorem parts_compileList (cfg : Cfg) (d : Deco) : (ns : List RNode) → inlineNodes ns = true → (st : Tag) →
    partsText (opsParts d st (compileList cfg d ns)) = inlFlats d ns ∧ opsEnd d st (compileList cfg d ns) = st
  | [], _, st => by simp [compileList, opsParts, opsEnd, partsText, inlFlats]
  | n :: ns, h, st => by
    simp only [inlineNodes, Bool.and_eq_true] at h
    obtain ⟨a1, a2⟩ := parts_compile cfg d n h.1 st
    obtain ⟨b1, b2⟩ := parts_compileList cfg d ns h.2 st
    simp only [compileList, opsParts_append, opsEnd_append, partsText_append, a1, a2, b1, b2, inlFlats]
    exact ⟨trivial, trivial⟩
end

/-- **C04 across inline markup, on the render tree**: a paragraph whose children are inline content — texts, images,
    emphasis, strong, code, links, neutral wrappers, nested at will, coloured or not — is laid out as the greedy filling of
    the words of its flat text, for every decorator, width ≥ 1 and default wrapping options -/
theorem inline_markup_paragraph_is_greedy (cfg : Cfg) (d : Deco) (w : Nat) (hw : 1 ≤ w) (hfn : cfg.footnotes = false)
    (hww : cfg.wrapWidth = none) (hpad : cfg.padBlocks = false) (hov : cfg.overflow = false) (kids : List RNode)
    (hin : inlineNodes kids = true) (hpos : ∀ wd ∈ words (inlFlats d kids), 0 < lwc wd) :
    (renderTree cfg d w (.box {} .block kids)).map (fun ls => ls.map rlineChars) = greedy w (words (inlFlats d kids)) := by
  have ht := (parts_compileList cfg d kids hin []).1
  have := inline_paragraph_is_greedy cfg d w hw hfn hww hpad hov kids (compileList_inline cfg d kids hin) (by rw [ht]; exact hpos)
  rw [ht] at this
  exact this

/-- …and under `max_wrap_width`: the effective width is `min m w` -/
theorem inline_markup_paragraph_is_greedy_eff (cfg : Cfg) (d : Deco) (w : Nat) (hw : 1 ≤ w) (hfn : cfg.footnotes = false)
    (hm : 1 ≤ wrapEff cfg w) (hpad : cfg.padBlocks = false) (hov : cfg.overflow = false) (kids : List RNode)
    (hin : inlineNodes kids = true) (hpos : ∀ wd ∈ words (inlFlats d kids), 0 < lwc wd) :
    (renderTree cfg d w (.box {} .block kids)).map (fun ls => ls.map rlineChars) = greedy (wrapEff cfg w) (words (inlFlats d kids)) := by
  have ht := (parts_compileList cfg d kids hin []).1
  have := inline_paragraph_is_greedy_eff cfg d w hw hfn hm hpad hov kids (compileList_inline cfg d kids hin) (by rw [ht]; exact hpos)
  rw [ht] at this
  exact this

/-! non-vacuity: `<p>ab <em>cd e</em>f <strong>gh<a href=u>i</a></strong> jk</p>` in rich mode at width 6: the word `ef`
    begins inside the emphasis and ends after it, `ghi` runs through three elements; `ef ghi` fills the line exactly -/
example :
    let kids : List RNode := [.text {} (strCh "ab "), .box {} .em [.text {} (strCh "cd e")], .text {} (strCh "f "),
      .box {} .strong [.text {} (strCh "gh"), .box {} (.link (strCh "u")) [.text {} (strCh "i")]], .text {} (strCh " jk")]
    inlineNodes kids = true ∧ (∀ wd ∈ words (inlFlats Deco.rich kids), 0 < lwc wd) ∧
    (greedy 6 (words (inlFlats Deco.rich kids))).toOption.map (fun ls => ls.map fun l => l.map (·.cp)) =
      some [[97, 98, 32, 99, 100], [101, 102, 32, 103, 104, 105], [106, 107]] ∧
    ((renderTree {} Deco.rich 6 (.box {} .block kids)).toOption.map fun ls => ls.map fun l => (rlineChars l).map (·.cp)) =
      some [[97, 98, 32, 99, 100], [101, 102, 32, 103, 104, 105], [106, 107]] := by decide +kernel

/-! ## …with strikeout

The same development with the strikeout depth tracked: inside `<s>`/`<del>` (with the Unicode strikeout on) every text
passes through `strikeFilter` once per enclosing strikeout before it reaches the wrap machine; the paragraph is then the
greedy filling of the words of the *filtered* flat text. -/

def inlineOpS : Op → Bool
  | .text _ => true
  | .startAnn _ _ _ => true
  | .endAnn _ _ => true
  | .startLink _ => true
  | .endLink => true
  | .image _ _ => true
  | .pushAnn _ => true
  | .popAnn => true
  | _ => false

def inlineOpsS : List Op → Bool
  | [] => true
  | op :: r => inlineOpS op && inlineOpsS r

/-- the part an inline operation feeds to the wrap machine under stack `st` and strikeout depth `dep`; stack and depth
    afterwards -/
def opPartS (cfg : Cfg) (d : Deco) (st : Tag) (dep : Nat) : Op → List Part × Tag × Nat
  | .text x => ([.text st st (iterN strikeFilter dep x)], st, dep)
  | .startAnn a x strike =>
    ([.text (st ++ [d.annOf a]) (st ++ [d.annOf a]) (iterN strikeFilter dep x)], st ++ [d.annOf a],
      if strike && cfg.unicodeStrike then dep + 1 else dep)
  | .endAnn x strike =>
    ([.text st st (iterN strikeFilter (if strike && cfg.unicodeStrike then dep - 1 else dep) x)], st.dropLast,
      if strike && cfg.unicodeStrike then dep - 1 else dep)
  | .startLink h =>
    ([.text (st ++ [d.annOf (Ann.link h)]) (st ++ [d.annOf (Ann.link h)]) (iterN strikeFilter dep d.linkStart)], st ++ [d.annOf (Ann.link h)], dep)
  | .endLink => ([.text st st (iterN strikeFilter dep d.linkEnd)], st.dropLast, dep)
  | .image src t =>
    ([.text (st ++ [d.annOf (Ann.image src)]) (st ++ [d.annOf (Ann.image src)]) (iterN strikeFilter dep (d.imgText t))], st, dep)
  | .pushAnn a => ([], st ++ [a], dep)
  | .popAnn => ([], st.dropLast, dep)
  | _ => ([], st, dep)

def opsPartsS (cfg : Cfg) (d : Deco) : Tag → Nat → List Op → List Part
  | _, _, [] => []
  | st, dep, op :: r => (opPartS cfg d st dep op).1 ++ opsPartsS cfg d (opPartS cfg d st dep op).2.1 (opPartS cfg d st dep op).2.2 r

structure PInvS (cfg : Cfg) (dep : Nat) (s : SubR) (b : WB) : Prop where
  lines : s.lines = []
  abe : s.atBlockEnd = false
  pre : s.preDepth = 0
  ws : s.wsStack = []
  fd : s.filterDepth = dep
  pf : s.pendingFrags = []
  wb : s.getWrapping cfg = b
  mks : b.marks = []
  lo : b.LineOk

theorem inl_text_stepS (cfg : Cfg) (dep : Nat) (s : SubR) (b : WB) (x : List Ch) (f : Ann → Ann) (h : PInvS cfg dep s b) :
    s.addInlineText cfg x f =
      (match b.addText .normal s.annStack s.annStack (iterN strikeFilter dep x) with
       | .ok b' => .ok { s with wrapping := some b' }
       | .error e => .error e) := by
  unfold SubR.addInlineText
  simp only [SubR.wsMode, h.ws, List.getLast?_nil, Option.getD_none, WS.preserve, Bool.not_false, Bool.true_and, h.abe, Bool.false_and,
    Bool.false_eq_true, if_false, andThen, h.fd, h.pre, Nat.lt_irrefl, h.wb]
  cases b.addText .normal s.annStack s.annStack (iterN strikeFilter dep x) <;> rfl

theorem PInvS.after_text {cfg : Cfg} {dep : Nat} {s : SubR} {b b' : WB} {x : List Ch} (h : PInvS cfg dep s b) (st : Tag)
    (e : b.addText .normal st st x = .ok b') : PInvS cfg dep { s with wrapping := some b' } b' :=
  ⟨h.lines, h.abe, h.pre, h.ws, h.fd, h.pf, rfl, by rw [(addText_marks b b' _ _ _ _ h.lo e).1]; exact h.mks, (addText_marks b b' _ _ _ _ h.lo e).2⟩

theorem PInvS.stack {cfg : Cfg} {dep : Nat} {s : SubR} {b : WB} (h : PInvS cfg dep s b) (st : Tag) : PInvS cfg dep { s with annStack := st } b :=
  ⟨h.lines, h.abe, h.pre, h.ws, h.fd, h.pf, h.wb, h.mks, h.lo⟩

theorem PInvS.depth {cfg : Cfg} {dep : Nat} {s : SubR} {b : WB} (h : PInvS cfg dep s b) (dep' : Nat) :
    PInvS cfg dep' { s with filterDepth := dep' } b :=
  ⟨h.lines, h.abe, h.pre, h.ws, rfl, h.pf, h.wb, h.mks, h.lo⟩

theorem inline_stepS (cfg : Cfg) (d : Deco) (hfn : cfg.footnotes = false) (op : Op) (t : RS) (b : WB) (dep : Nat) (hop : inlineOpS op = true)
    (h : PInvS cfg dep t.cur b) :
    match b.runParts (opPartS cfg d t.cur.annStack dep op).1 with
    | .ok b' => ∃ t', runOp SubR.widthMinus cfg d t op = .ok t' ∧ PInvS cfg (opPartS cfg d t.cur.annStack dep op).2.2 t'.cur b' ∧
        t'.cur.annStack = (opPartS cfg d t.cur.annStack dep op).2.1
    | .error e => runOp SubR.widthMinus cfg d t op = .error e := by
  cases op <;> simp only [inlineOpS, Bool.false_eq_true] at hop
  case text x =>
    simp only [opPartS, WB.runParts, WB.addPart, andThen, runOp, stepSimple, RS.onCur, inl_text_stepS cfg dep t.cur b x _ h]
    cases e : b.addText .normal t.cur.annStack t.cur.annStack (iterN strikeFilter dep x) with
    | error err => rfl
    | ok b' => exact ⟨_, rfl, h.after_text _ e, rfl⟩
  case startAnn a x strike =>
    have h1 := (h.stack (t.cur.annStack ++ [d.annOf a]))
    simp only [opPartS, WB.runParts, WB.addPart, andThen, runOp, stepSimple, RS.onCur, inl_text_stepS cfg dep _ b x _ h1]
    cases e : b.addText .normal (t.cur.annStack ++ [d.annOf a]) (t.cur.annStack ++ [d.annOf a]) (iterN strikeFilter dep x) with
    | error err => rfl
    | ok b' =>
      have h2 := h1.after_text _ e
      by_cases hs : (strike && cfg.unicodeStrike) = true
      · simp only [hs, if_true]
        refine ⟨_, rfl, ?_, rfl⟩
        have := h2.depth (dep + 1)
        simpa [h.fd] using this
      · simp only [hs, if_false, Bool.false_eq_true]
        exact ⟨_, rfl, by simpa using h2, rfl⟩
  case endAnn x strike =>
    by_cases hs : (strike && cfg.unicodeStrike) = true
    · have h0 := h.depth (dep - 1)
      simp only [opPartS, WB.runParts, WB.addPart, andThen, runOp, stepSimple, RS.onCur, hs, if_true, h.fd] at h0 ⊢
      rw [inl_text_stepS cfg (dep - 1) _ b x _ h0]
      cases e : b.addText .normal t.cur.annStack t.cur.annStack (iterN strikeFilter (dep - 1) x) with
      | error err => rfl
      | ok b' => exact ⟨_, rfl, (h0.after_text _ e).stack _, rfl⟩
    · simp only [opPartS, WB.runParts, WB.addPart, andThen, runOp, stepSimple, RS.onCur, hs, if_false, Bool.false_eq_true,
        inl_text_stepS cfg dep t.cur b x _ h]
      cases e : b.addText .normal t.cur.annStack t.cur.annStack (iterN strikeFilter dep x) with
      | error err => rfl
      | ok b' => exact ⟨_, rfl, (h.after_text _ e).stack _, rfl⟩
  case startLink href =>
    have h1 := (h.stack (t.cur.annStack ++ [d.annOf (Ann.link href)]))
    simp only [opPartS, WB.runParts, WB.addPart, andThen, runOp, stepSimple, RS.onCur, inl_text_stepS cfg dep _ b d.linkStart _ h1]
    cases e : b.addText .normal (t.cur.annStack ++ [d.annOf (Ann.link href)]) (t.cur.annStack ++ [d.annOf (Ann.link href)]) (iterN strikeFilter dep d.linkStart) with
    | error err => rfl
    | ok b' => exact ⟨_, rfl, by simpa using h1.after_text _ e, rfl⟩
  case endLink =>
    simp only [opPartS, WB.runParts, WB.addPart, andThen, runOp, stepSimple, RS.onCur, hfn, Bool.false_eq_true, if_false,
      inl_text_stepS cfg dep t.cur b d.linkEnd _ h]
    cases e : b.addText .normal t.cur.annStack t.cur.annStack (iterN strikeFilter dep d.linkEnd) with
    | error err => rfl
    | ok b' => exact ⟨_, rfl, (h.after_text _ e).stack _, rfl⟩
  case image src title =>
    have h1 := (h.stack (t.cur.annStack ++ [d.annOf (Ann.image src)]))
    simp only [opPartS, WB.runParts, WB.addPart, andThen, runOp, stepSimple, RS.onCur, inl_text_stepS cfg dep _ b (d.imgText title) _ h1]
    cases e : b.addText .normal (t.cur.annStack ++ [d.annOf (Ann.image src)]) (t.cur.annStack ++ [d.annOf (Ann.image src)]) (iterN strikeFilter dep (d.imgText title)) with
    | error err => rfl
    | ok b' => exact ⟨_, rfl, by simpa using (h1.after_text _ e).stack _, by simp⟩
  case pushAnn a =>
    simp only [opPartS, WB.runParts, runOp, stepSimple, RS.onCur, andThen]
    exact ⟨_, rfl, h.stack _, rfl⟩
  case popAnn =>
    simp only [opPartS, WB.runParts, runOp, stepSimple, RS.onCur, andThen]
    exact ⟨_, rfl, h.stack _, rfl⟩

theorem inline_simS (cfg : Cfg) (d : Deco) (hfn : cfg.footnotes = false) : ∀ (ops : List Op) (t : RS) (b : WB) (dep : Nat), inlineOpsS ops = true →
    PInvS cfg dep t.cur b →
    match b.runParts (opsPartsS cfg d t.cur.annStack dep ops) with
    | .ok b' => ∃ t' dep', runOps SubR.widthMinus cfg d t ops = .ok t' ∧ PInvS cfg dep' t'.cur b'
    | .error e => runOps SubR.widthMinus cfg d t ops = .error e := by
  intro ops
  induction ops with
  | nil => intro t b dep _ h; simp only [opsPartsS, WB.runParts, runOps]; exact ⟨t, dep, rfl, h⟩
  | cons op r ih =>
    intro t b dep hops h
    simp only [inlineOpsS, Bool.and_eq_true] at hops
    have hs := inline_stepS cfg d hfn op t b dep hops.1 h
    simp only [opsPartsS, runParts_append, runOps]
    cases e1 : b.runParts (opPartS cfg d t.cur.annStack dep op).1 with
    | error err =>
      rw [e1] at hs
      simp only [andThen, hs]
    | ok b1 =>
      rw [e1] at hs
      obtain ⟨t1, r1, i1, a1⟩ := hs
      simp only [andThen, r1]
      have := ih t1 b1 _ hops.2 i1
      rw [a1] at this
      exact this

/-- **a paragraph with inline markup, strikeout included, is wrapped greedily** (any `max_wrap_width`, footnotes off): the
    lines are the reference `greedy`'s on the words of the parts' text — every text filtered once per enclosing strikeout -/
theorem inline_paragraph_is_greedyS (cfg : Cfg) (d : Deco) (w : Nat) (hw : 1 ≤ w) (hfn : cfg.footnotes = false) (hm : 1 ≤ wrapEff cfg w)
    (hpad : cfg.padBlocks = false) (hov : cfg.overflow = false) (kids : List RNode) (hin : inlineOpsS (compileList cfg d kids) = true)
    (hpos : ∀ wd ∈ words (partsText (opsPartsS cfg d [] 0 (compileList cfg d kids))), 0 < lwc wd) :
    (renderTree cfg d w (.box {} .block kids)).map (fun ls => ls.map rlineChars) =
      greedy (wrapEff cfg w) (words (partsText (opsPartsS cfg d [] 0 (compileList cfg d kids)))) := by
  have hg := wrap_eq_greedy_full (wrapEff cfg w) (opsPartsS cfg d [] 0 (compileList cfg d kids)) hm hpos
  rw [← hg]
  unfold wrapParts renderTree
  rw [if_neg (by omega)]
  have hc : compile cfg d (.box {} .block kids) = .startBlock :: (compileList cfg d kids ++ [.endBlock]) := by
    simp [compile, styleOpen, styleClose]
  rw [hc, runOps_cons_eq]
  have hsb : runOp SubR.widthMinus cfg d ({ cur := { width := w } } : RS) .startBlock = .ok { cur := { width := w } } := by
    simp [runOp, stepSimple, RS.onCur, SubR.startBlock, SubR.flushWrapping, andThen]
  have hinv : PInvS cfg 0 ({ cur := { width := w } } : RS).cur ({ width := wrapEff cfg w } : WB) :=
    ⟨rfl, rfl, rfl, rfl, rfl, rfl, by simp only [SubR.getWrapping, wrapEff, hpad, hov]; cases cfg.wrapWidth <;> rfl, rfl, fun _ => Or.inl rfl⟩
  have hsim := inline_simS cfg d hfn (compileList cfg d kids) { cur := { width := w } } { width := wrapEff cfg w } 0 hin hinv
  rw [hsb]
  simp only [andThen]
  rw [runOps_append]
  cases e1 : ({ width := wrapEff cfg w } : WB).runParts (opsPartsS cfg d [] 0 (compileList cfg d kids)) with
  | error err =>
    rw [e1] at hsim
    have hsim' : runOps SubR.widthMinus cfg d { cur := { width := w } } (compileList cfg d kids) = .error err := hsim
    simp only [hsim', andThen]
    rfl
  | ok b1 =>
    rw [e1] at hsim
    obtain ⟨t1, dep1, r1, i1⟩ := hsim
    simp only [r1, andThen, runOps, runOp, stepSimple, RS.onCur, footTexts, hfn, Bool.false_eq_true, if_false, List.isEmpty_nil, if_true]
    unfold SubR.intoLines SubR.flushWrapping
    have hwb := i1.wb
    unfold SubR.getWrapping at hwb
    cases hwr : t1.cur.wrapping with
    | none =>
      simp only [hwr] at hwb
      rw [← hwb, fresh_finish]
      simp only [andThen, i1.lines, Except.map, linesText, List.map_nil]
    | some w1 =>
      simp only [hwr] at hwb
      subst hwb
      have hwm : marks w1.word = [] := by
        have := i1.mks
        simp only [WB.marks, List.append_eq_nil_iff] at this
        exact this.2
      have hb : (if w1.word.noContent = true then { w1 with word := [] } else w1) = w1 := by
        split
        · rename_i hn
          have := noContent_no_marks w1.word hn hwm
          cases w1; simp_all
        · rfl
      have hfr : (if w1.word.noContent = true then w1.word else []) = [] := by
        split
        · rename_i hn; exact noContent_no_marks w1.word hn hwm
        · rfl
      simp only [hb, hfr, andThen]
      cases h2 : w1.finish with
      | error e => rfl
      | ok ls =>
        have := (addLines_plain (ls.map RLine.text) ({ t1.cur with atBlockEnd := true, wrapping := none } : SubR) i1.pf).1
        simp only [Except.map]
        rw [this]
        simp only [i1.lines, List.nil_append, List.map_map, linesText]
        congr 1

mutual
/-- inline content, strikeout included -/
def inlineNodeS : RNode → Bool
  | .text sty _ => colourOnly sty
  | .img sty _ _ => colourOnly sty
  | .box sty k kids =>
    colourOnly sty && (match k with | .container | .em | .strong | .strike | .code | .link _ => true | _ => false) && inlineNodesS kids
  | _ => false
def inlineNodesS : List RNode → Bool
  | [] => true
  | n :: ns => inlineNodeS n && inlineNodesS ns
end

mutual
/-- the text the wrap machine receives: every text and decorator string filtered once per enclosing strikeout -/
def inlFlatS (cfg : Cfg) (d : Deco) (dep : Nat) : RNode → List Ch
  | .text _ s => iterN strikeFilter dep s
  | .img _ _ title => iterN strikeFilter dep (d.imgText title)
  | .box _ k kids =>
    match k with
    | .em => iterN strikeFilter dep d.emStart ++ inlFlatsS cfg d dep kids ++ iterN strikeFilter dep d.emEnd
    | .strong => iterN strikeFilter dep d.strongStart ++ inlFlatsS cfg d dep kids ++ iterN strikeFilter dep d.strongEnd
    | .strike =>
      iterN strikeFilter dep d.strikeStart ++ inlFlatsS cfg d (if cfg.unicodeStrike then dep + 1 else dep) kids ++
        iterN strikeFilter dep d.strikeEnd
    | .code => iterN strikeFilter dep d.codeStart ++ inlFlatsS cfg d dep kids ++ iterN strikeFilter dep d.codeEnd
    | .link _ => iterN strikeFilter dep d.linkStart ++ inlFlatsS cfg d dep kids ++ iterN strikeFilter dep d.linkEnd
    | _ => inlFlatsS cfg d dep kids
  | _ => []
def inlFlatsS (cfg : Cfg) (d : Deco) (dep : Nat) : List RNode → List Ch
  | [] => []
  | n :: ns => inlFlatS cfg d dep n ++ inlFlatsS cfg d dep ns
end

theorem inlineOpsS_append (a b : List Op) : inlineOpsS (a ++ b) = (inlineOpsS a && inlineOpsS b) := by
  induction a with
  | nil => simp [inlineOpsS]
  | cons x a ih => simp [inlineOpsS, ih, Bool.and_assoc]

theorem inlineS_styleOpen (d : Deco) (sty : Style) (h : colourOnly sty = true) : inlineOpsS (styleOpen d sty) = true := by
  simp only [colourOnly, Bool.and_eq_true, Option.isNone_iff_eq_none, Bool.not_eq_true'] at h
  unfold styleOpen
  rw [h.1, h.2]
  cases sty.fg <;> cases sty.bg <;> cases d.colours <;> simp [inlineOpsS, inlineOpS]

theorem inlineS_styleClose (d : Deco) (sty : Style) (h : colourOnly sty = true) : inlineOpsS (styleClose d sty) = true := by
  simp only [colourOnly, Bool.and_eq_true, Option.isNone_iff_eq_none, Bool.not_eq_true'] at h
  unfold styleClose
  rw [h.1, h.2]
  cases sty.fg <;> cases sty.bg <;> cases d.colours <;> simp [inlineOpsS, inlineOpS]

mutual
theorem compile_inlineS (cfg : Cfg) (d : Deco) : (n : RNode) → inlineNodeS n = true → inlineOpsS (compile cfg d n) = true
  | .text sty s, h => by
    simp only [inlineNodeS] at h
    simp [compile, inlineOpsS_append, inlineS_styleOpen d sty h, inlineS_styleClose d sty h, inlineOpsS, inlineOpS]
  | .img sty a b, h => by
    simp only [inlineNodeS] at h
    simp [compile, inlineOpsS_append, inlineS_styleOpen d sty h, inlineS_styleClose d sty h, inlineOpsS, inlineOpS]
  | .box sty k kids, h => by
    simp only [inlineNodeS, Bool.and_eq_true] at h
    have ho := inlineS_styleOpen d sty h.1.1
    have hc := inlineS_styleClose d sty h.1.1
    have hb := compileList_inlineS cfg d kids h.2
    cases k <;> simp at h <;> simp [compile, inlineOpsS_append, ho, hc, hb, inlineOpsS, inlineOpS]
  | .br _, h => by simp [inlineNodeS] at h
  | .frag _, h => by simp [inlineNodeS] at h
  | .cell _ _ _, h => by simp [inlineNodeS] at h
  | .row _ _, h => by simp [inlineNodeS] at h
  | .tbody _ _, h => by simp [inlineNodeS] at h
  | .table _ _ _, h => by simp [inlineNodeS] at h
theorem compileList_inlineS (cfg : Cfg) (d : Deco) : (ns : List RNode) → inlineNodesS ns = true → inlineOpsS (compileList cfg d ns) = true
  | [], _ => by simp [compileList, inlineOpsS]
  | n :: ns, h => by
    simp only [inlineNodesS, Bool.and_eq_true] at h
    simp [compileList, inlineOpsS_append, compile_inlineS cfg d n h.1, compileList_inlineS cfg d ns h.2]
end

def opsEndS (cfg : Cfg) (d : Deco) : Tag → Nat → List Op → Tag × Nat
  | st, dep, [] => (st, dep)
  | st, dep, op :: r => opsEndS cfg d (opPartS cfg d st dep op).2.1 (opPartS cfg d st dep op).2.2 r

theorem opsPartsS_append (cfg : Cfg) (d : Deco) (a b : List Op) : ∀ st dep,
    opsPartsS cfg d st dep (a ++ b) = opsPartsS cfg d st dep a ++ opsPartsS cfg d (opsEndS cfg d st dep a).1 (opsEndS cfg d st dep a).2 b := by
  induction a with
  | nil => intro st dep; rfl
  | cons x a ih => intro st dep; simp only [List.cons_append, opsPartsS, opsEndS, ih, List.append_assoc]

theorem opsEndS_append (cfg : Cfg) (d : Deco) (a b : List Op) : ∀ st dep,
    opsEndS cfg d st dep (a ++ b) = opsEndS cfg d (opsEndS cfg d st dep a).1 (opsEndS cfg d st dep a).2 b := by
  induction a with
  | nil => intro st dep; rfl
  | cons x a ih => intro st dep; simp only [List.cons_append, opsEndS, ih]

theorem partsS_styleOpen (cfg : Cfg) (d : Deco) (sty : Style) (h : colourOnly sty = true) (st : Tag) (dep : Nat) :
    opsPartsS cfg d st dep (styleOpen d sty) = [] ∧ opsEndS cfg d st dep (styleOpen d sty) = (st ++ colTags d sty, dep) := by
  simp only [colourOnly, Bool.and_eq_true, Option.isNone_iff_eq_none, Bool.not_eq_true'] at h
  unfold styleOpen colTags
  rw [h.1, h.2]
  cases sty.fg <;> cases sty.bg <;> cases d.colours <;> simp [opsPartsS, opsEndS, opPartS]

theorem partsS_styleClose (cfg : Cfg) (d : Deco) (sty : Style) (h : colourOnly sty = true) (st : Tag) (dep : Nat) :
    opsPartsS cfg d (st ++ colTags d sty) dep (styleClose d sty) = [] ∧
      opsEndS cfg d (st ++ colTags d sty) dep (styleClose d sty) = (st, dep) := by
  simp only [colourOnly, Bool.and_eq_true, Option.isNone_iff_eq_none, Bool.not_eq_true'] at h
  unfold styleClose colTags
  rw [h.1, h.2]
  cases sty.fg <;> cases sty.bg <;> cases d.colours <;> simp [opsPartsS, opsEndS, opPartS]

theorem partsS_styled (cfg : Cfg) (d : Deco) (sty : Style) (h : colourOnly sty = true) (st : Tag) (dep : Nat) (inner : List Op) (txt : List Ch)
    (hi : partsText (opsPartsS cfg d (st ++ colTags d sty) dep inner) = txt ∧
      opsEndS cfg d (st ++ colTags d sty) dep inner = (st ++ colTags d sty, dep)) :
    partsText (opsPartsS cfg d st dep (styleOpen d sty ++ inner ++ styleClose d sty)) = txt ∧
      opsEndS cfg d st dep (styleOpen d sty ++ inner ++ styleClose d sty) = (st, dep) := by
  obtain ⟨o1, o2⟩ := partsS_styleOpen cfg d sty h st dep
  obtain ⟨c1, c2⟩ := partsS_styleClose cfg d sty h st dep
  simp only [opsPartsS_append, opsEndS_append, partsText_append, o1, o2, hi.1, hi.2, c1, c2, partsText, List.nil_append, List.append_nil]
  exact ⟨trivial, trivial⟩

mutual
theorem partsS_compile (cfg : Cfg) (d : Deco) : (n : RNode) → inlineNodeS n = true → (st : Tag) → (dep : Nat) →
    partsText (opsPartsS cfg d st dep (compile cfg d n)) = inlFlatS cfg d dep n ∧ opsEndS cfg d st dep (compile cfg d n) = (st, dep)
  | .text sty s, h, st, dep => by
    simp only [inlineNodeS] at h
    simp only [compile, inlFlatS]
    exact partsS_styled cfg d sty h st dep _ _ (by simp [opsPartsS, opsEndS, opPartS, partsText, Part.chars])
  | .img sty a b, h, st, dep => by
    simp only [inlineNodeS] at h
    simp only [compile, inlFlatS]
    exact partsS_styled cfg d sty h st dep _ _ (by simp [opsPartsS, opsEndS, opPartS, partsText, Part.chars])
  | .box sty k kids, h, st, dep => by
    simp only [inlineNodeS, Bool.and_eq_true] at h
    have hb := fun s e => partsS_compileList cfg d kids h.2 s e
    cases k <;> simp at h <;> simp only [compile, inlFlatS] <;> apply partsS_styled cfg d sty h.1 st dep
    · exact hb _ _
    · simp only [List.singleton_append, opsPartsS, opsEndS, opPartS, opsPartsS_append, opsEndS_append, partsText_append, partsText, Part.chars,
        (hb _ _).1, (hb _ _).2, List.append_nil, List.append_assoc, Bool.false_and, Bool.false_eq_true, if_false]
      simp
    · simp only [List.singleton_append, opsPartsS, opsEndS, opPartS, opsPartsS_append, opsEndS_append, partsText_append, partsText, Part.chars,
        (hb _ _).1, (hb _ _).2, List.append_nil, List.append_assoc, Bool.false_and, Bool.false_eq_true, if_false]
      simp
    · simp only [List.singleton_append, opsPartsS, opsEndS, opPartS, opsPartsS_append, opsEndS_append, partsText_append, partsText, Part.chars,
        (hb _ _).1, (hb _ _).2, List.append_nil, List.append_assoc, Bool.false_and, Bool.false_eq_true, if_false]
      simp
    · by_cases hu : cfg.unicodeStrike = true
      · simp only [List.singleton_append, opsPartsS, opsEndS, opPartS, opsPartsS_append, opsEndS_append, partsText_append, partsText, Part.chars,
          (hb _ _).1, (hb _ _).2, List.append_nil, List.append_assoc, Bool.true_and, hu, if_true, Nat.add_sub_cancel]
        simp
      · have hu' : cfg.unicodeStrike = false := by simpa using hu
        simp only [List.singleton_append, opsPartsS, opsEndS, opPartS, opsPartsS_append, opsEndS_append, partsText_append, partsText, Part.chars,
          (hb _ _).1, (hb _ _).2, List.append_nil, List.append_assoc, Bool.true_and, hu', Bool.false_eq_true, if_false]
        simp
    · simp only [List.singleton_append, opsPartsS, opsEndS, opPartS, opsPartsS_append, opsEndS_append, partsText_append, partsText, Part.chars,
        (hb _ _).1, (hb _ _).2, List.append_nil, List.append_assoc, Bool.false_and, Bool.false_eq_true, if_false]
      simp
  | .br _, h, _, _ => by simp [inlineNodeS] at h
  | .frag _, h, _, _ => by simp [inlineNodeS] at h
  | .cell _ _ _, h, _, _ => by simp [inlineNodeS] at h
  | .row _ _, h, _, _ => by simp [inlineNodeS] at h
  | .tbody _ _, h, _, _ => by simp [inlineNodeS] at h
  | .table _ _ _, h, _, _ => by simp [inlineNodeS] at h
theorem partsS_compileList (cfg : Cfg) (d : Deco) : (ns : List RNode) → inlineNodesS ns = true → (st : Tag) → (dep : Nat) →
    partsText (opsPartsS cfg d st dep (compileList cfg d ns)) = inlFlatsS cfg d dep ns ∧ opsEndS cfg d st dep (compileList cfg d ns) = (st, dep)
  | [], _, st, dep => by simp [compileList, opsPartsS, opsEndS, partsText, inlFlatsS]
  | n :: ns, h, st, dep => by
    simp only [inlineNodesS, Bool.and_eq_true] at h
    obtain ⟨a1, a2⟩ := partsS_compile cfg d n h.1 st dep
    obtain ⟨b1, b2⟩ := partsS_compileList cfg d ns h.2 st dep
    simp only [compileList, opsPartsS_append, opsEndS_append, partsText_append, a1, a2, b1, b2, inlFlatsS]
    exact ⟨trivial, trivial⟩
end

/-- **C04 across inline markup, strikeout included, on the render tree** (any `max_wrap_width`): a paragraph whose children
    are inline content — `<s>`/`<del>` too — is the greedy filling of the words of its flat text, in which every text inside
    a strikeout has passed the strikeout filter (U+0336 after every visible character, zero width) -/
theorem struck_inline_paragraph_is_greedy (cfg : Cfg) (d : Deco) (w : Nat) (hw : 1 ≤ w) (hfn : cfg.footnotes = false)
    (hm : 1 ≤ wrapEff cfg w) (hpad : cfg.padBlocks = false) (hov : cfg.overflow = false) (kids : List RNode)
    (hin : inlineNodesS kids = true) (hpos : ∀ wd ∈ words (inlFlatsS cfg d 0 kids), 0 < lwc wd) :
    (renderTree cfg d w (.box {} .block kids)).map (fun ls => ls.map rlineChars) = greedy (wrapEff cfg w) (words (inlFlatsS cfg d 0 kids)) := by
  have ht := (partsS_compileList cfg d kids hin [] 0).1
  have := inline_paragraph_is_greedyS cfg d w hw hfn hm hpad hov kids (compileList_inlineS cfg d kids hin) (by rw [ht]; exact hpos)
  rw [ht] at this
  exact this

/-! non-vacuity: `<p>ab <s>cd e</s>f g</p>` in rich mode at width 4 (Unicode strikeout on): the word `e̶f` begins inside the
    strikeout and ends after it; U+0336 (code 822) takes no width -/
example :
    let kids : List RNode := [.text {} (strCh "ab "), .box {} .strike [.text {} (strCh "cd e")], .text {} (strCh "f g")]
    inlineNodesS kids = true ∧ (∀ wd ∈ words (inlFlatsS {} Deco.rich 0 kids), 0 < lwc wd) ∧
    (greedy 4 (words (inlFlatsS {} Deco.rich 0 kids))).toOption.map (fun ls => ls.map fun l => l.map (·.cp)) =
      some [[97, 98], [99, 822, 100, 822], [101, 822, 102, 32, 103]] ∧
    ((renderTree {} Deco.rich 4 (.box {} .block kids)).toOption.map fun ls => ls.map fun l => (rlineChars l).map (·.cp)) =
      some [[97, 98], [99, 822, 100, 822], [101, 822, 102, 32, 103]] := by decide +kernel

end H2T.C04
