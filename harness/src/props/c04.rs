//! C04: paragraph wrapping is exactly greedy word filling.

use super::common::*;
use crate::cfg::Cfg;
use crate::obs::Obs;
use crate::refimpl::{greedy_wrap, sw};
use crate::util::R;
use crate::{Case, Prop, Tier, Viol};

pub struct C04;

const ATOMS: &[&str] = &["a", "b", "x", "字", "é", "ö", "w", "m"];

fn mk_word(r: &mut R, width: usize) -> String {
    // a word of the given display width (>= 1), possibly with wide and zero-width characters
    let mut s = String::new();
    let mut w = 0;
    while w < width {
        if width - w >= 2 && r.p(25) {
            s.push('字');
            w += 2;
        } else {
            s.push_str(r.pick(ATOMS));
            if s.ends_with('字') {
                if width - w >= 2 {
                    w += 2;
                } else {
                    s.pop();
                    s.push('a');
                    w += 1;
                }
            } else {
                w += 1;
            }
        }
        if r.p(8) {
            s.push('\u{301}'); // zero width, attached to a base character
        }
    }
    s
}

/// lay the words out as HTML: arbitrary whitespace runs, text-node splits and inline elements
/// `allow_a`: inline links may be used (only with decorators that add no characters around a link)
fn render_html(r: &mut R, words: &[String], wrapper: (&str, &str), allow_a: bool) -> String {
    let mut s = String::from(wrapper.0);
    let mut open: Vec<&str> = Vec::new();
    if r.p(30) {
        s.push_str(r.pick(&[" ", "\n", "  "]));
    }
    for (i, w) in words.iter().enumerate() {
        if i > 0 {
            let ws: &str = r.pick(&[" ", "  ", "\n", "\t", " \n ", " "]);
            if r.p(10) {
                // the separating whitespace is the whole content of an inline element of its own, with no other
                // whitespace next to it (added after the seeded change C04-whitespace-only-inline-dropped was missed)
                let t: &str = r.pick(&["em", "strong", "code", "i", "s", "span"]);
                s.push_str(&format!("<{t}>{ws}</{t}>"));
            } else {
                s.push_str(ws);
            }
        }
        // split the word across inline boundaries at character granularity
        let chars: Vec<char> = w.chars().collect();
        for (j, c) in chars.iter().enumerate() {
            // never separate a combining mark from its base by markup (it would still be the same word, but keep it simple)
            if r.p(12) && *c != '\u{301}' {
                if !open.is_empty() && r.p(50) {
                    let t = open.pop().unwrap();
                    s.push_str(&format!("</{t}>"));
                } else if open.len() < 3 {
                    let t = if allow_a { r.pick(&["em", "strong", "code", "span", "a"]) } else { r.pick(&["em", "strong", "code", "span"]) };
                    if t == "a" {
                        s.push_str("<a href=\"u\">");
                    } else {
                        s.push_str(&format!("<{t}>"));
                    }
                    open.push(t);
                }
            }
            s.push(*c);
            let _ = j;
        }
        // also at word ends: the whitespace that follows then becomes a text node of its own between two elements
        if r.p(15) {
            if !open.is_empty() && r.p(60) {
                let t = open.pop().unwrap();
                s.push_str(&format!("</{t}>"));
            } else if open.len() < 3 {
                let t = if allow_a { r.pick(&["em", "strong", "code", "span", "a"]) } else { r.pick(&["em", "strong", "code", "span"]) };
                // an element that ends right after the word it wraps would need the word inside; open it for the next word
                if t == "a" {
                    s.push_str("<a href=\"u\"></a>");
                } else {
                    s.push_str(&format!("<{t}></{t}>"));
                }
            }
        }
    }
    while let Some(t) = open.pop() {
        s.push_str(&format!("</{t}>"));
    }
    if r.p(30) {
        s.push_str(r.pick(&[" ", "\n"]));
    }
    s.push_str(wrapper.1);
    s
}

fn aux(words: &[String], eff: usize) -> String {
    format!("{}|{}", eff, words.join(" "))
}

impl Prop for C04 {
    fn id(&self) -> &'static str {
        "C04"
    }
    fn rule(&self) -> &'static str {
        "single paragraphs: exhaustive small word-width sequences and random sequences up to 60 words over {ASCII, width-2, width-0} split over text nodes and em/strong/code/span/a; widths 1..40; also under max_wrap_width and inside ul/blockquote; non-trivial = at least two output lines or TooNarrow"
    }
    fn cases(&self, r: &mut R, tier: Tier) -> Vec<Case> {
        let mut v = Vec::new();
        let mut base = Cfg::base(crate::cfg::Deco::Trivial);
        base.decorate = false;
        // G-enum: all word-width sequences up to 3 (quick) / 4 (thorough) words, widths 1..5 (quick) / 1..7, line widths 1..12 / 1..24
        let (maxn, maxw, maxl) = if tier == Tier::Quick { (3usize, 4usize, 10usize) } else { (4, 5, 20) };
        let mut seqs: Vec<Vec<usize>> = vec![vec![]];
        for _ in 0..maxn {
            let mut next = Vec::new();
            for s in &seqs {
                for w in 1..=maxw {
                    let mut t = s.clone();
                    t.push(w);
                    next.push(t);
                }
            }
            for t in &next {
                let words: Vec<String> = t.iter().map(|w| mk_word(r, *w)).collect();
                for lw in 1..=maxl {
                    if tier == Tier::Quick && r.p(50) {
                        continue;
                    }
                    let html = render_html(r, &words, ("<p>", "</p>"), true);
                    let mut c = case(html, base.clone(), lw, "g-enum");
                    c.aux = aux(&words, lw);
                    v.push(c);
                }
            }
            seqs = next;
        }
        // random
        let n = scale(tier, 3000, 100000);
        for _ in 0..n {
            let big = r.p(20); let nw = 1 + r.u(if big { 60 } else { 12 });
            // now and then a word without any width: a lone combining mark or zero-width space between blanks (it is a word
            // like any other; before fix 33c7307 the blank after it was lost)
            // in one paragraph out of twelve, a word without any width: a lone combining mark or zero-width space between
            // blanks (a word like any other; before fix 33c7307 the blank after it was lost anywhere on the line)
            let zw = r.p(8);
            let words: Vec<String> = (0..nw).map(|_| { if zw && r.p(12) { return r.pick(&["\u{301}", "\u{200b}", "\u{200b}\u{301}"]).to_string(); } let long = r.p(15); let w = 1 + r.u(if long { 30 } else { 7 }); mk_word(r, w) }).collect();
            let lw = 1 + r.u(40);
            let mut cfg = base.clone();
            let mut eff = lw;
            let mut wrapper = ("<p>", "</p>");
            match r.b(10) {
                0 | 1 => {
                    let m = 1 + r.u(30);
                    cfg.max_wrap = Some(m);
                    eff = m.min(lw);
                }
                2 => {
                    // inside a prefixed block with the plain decorator: "* " (2 columns)
                    cfg = Cfg::base(crate::cfg::Deco::Plain);
                    wrapper = ("<ul><li>", "</li></ul>");
                    if lw < 3 { continue; }
                    eff = lw - 2;
                    // max_wrap_width inside a prefixed block: the effective width is min(m, w - prefix), not min(m, w)
                    // (added after the seeded change C04-max-wrap-clamped-against-top-width was missed by this stream)
                    if r.p(50) {
                        let m = 1 + r.u(30);
                        cfg.max_wrap = Some(m);
                        eff = m.min(lw - 2);
                    }
                }
                3 => {
                    cfg = Cfg::base(crate::cfg::Deco::Plain);
                    wrapper = ("<blockquote>", "</blockquote>");
                    if lw < 3 { continue; }
                    eff = lw - 2;
                    if r.p(50) {
                        let m = 1 + r.u(30);
                        cfg.max_wrap = Some(m);
                        eff = m.min(lw - 2);
                    }
                }
                4 => {
                    cfg = Cfg::base(crate::cfg::Deco::Rich);
                }
                _ => {}
            }
            // the plain decorator (used for the prefixed variants) writes a link as `[text]`: no links there
            let html = render_html(r, &words, wrapper, cfg.deco != crate::cfg::Deco::Plain);
            let mut c = case(html, cfg, lw, "random");
            c.aux = aux(&words, eff);
            v.push(c);
        }
        v
    }
    fn oracle(&self, c: &Case, o: &Obs) -> Vec<Viol> {
        let mut out = vec![];
        let (eff, words) = match c.aux.split_once('|') {
            Some((e, w)) => (e.parse::<usize>().unwrap_or(c.width), w.split(' ').filter(|x| !x.is_empty()).map(|x| x.to_string()).collect::<Vec<_>>()),
            None => return out, // corpus case without expectation: correspondence only
        };
        // the prefixed variants use the plain decorator's two-column prefixes (`* `, `> `); with max_wrap_width the
        // effective width is no longer width - prefix, so the prefix is not computed from it
        let prefix = 2;
        let has_prefix = c.html.starts_with(b"<ul") || c.html.starts_with(b"<blockquote");
        let exp = greedy_wrap(&words, eff);
        match (o, exp) {
            (Obs::Narrow, Err(())) => {}
            (Obs::Narrow, Ok(_)) => {
                // a prefixed block may also be too narrow for its minimum width
                if !has_prefix {
                    out.push(viol("TooNarrow although every character fits the line".to_string()));
                }
            }
            (Obs::Ok(_), Err(())) => out.push(viol("rendered although a wide character cannot fit".to_string())),
            (Obs::Ok(_), Ok(exp)) => {
                let got: Vec<String> = o.text_lines().unwrap();
                let got: Vec<String> = if has_prefix { got.iter().map(|l| l.chars().skip(prefix).collect()).collect() } else { got };
                if got != exp {
                    // a word without width at the start of a line: the blank after it is dropped (the line "has no width yet")
                    let quirk = crate::refimpl::greedy_wrap_gen(&words, eff, false);
                    if words.iter().any(|w| sw(w) == 0) && quirk.as_ref().map(|q| q == &got).unwrap_or(false) {
                        out.push(known(format!("a word without width at the start of a line is not separated from the next word: {:?} instead of {:?}", got, exp), "C04-zero-width-word-at-line-start"));
                    } else {
                        out.push(viol(format!("lines {:?} differ from the greedy reference {:?} (effective width {eff}, word widths {:?})", got, exp, words.iter().map(|w| sw(w)).collect::<Vec<_>>())));
                    }
                }
            }
            (o, _) => out.push(viol(format!("unexpected outcome {}", o.class()))),
        }
        out
    }
    fn shrinkable(&self) -> bool {
        false
    }
    fn project(&self, _c: &Case, o: &Obs) -> String {
        text_only(o)
    }
    fn nontrivial(&self, _c: &Case, o: &Obs) -> bool {
        matches!(o, Obs::Ok(l) if l.len() >= 2) || matches!(o, Obs::Narrow)
    }
}
