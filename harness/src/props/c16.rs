//! C16: custom decorators are honoured verbatim and measured by display width.

use super::c07::{check_with, from_dom, find_body, gen_block, html, Prefixes, B};
use super::common::*;
use crate::cfg::{gen_fam, Cfg, Deco, Fam};
use crate::obs::{line_text, Obs};
use crate::refimpl::{additive, sw};
use crate::util::R;
use crate::{Case, Prop, Tier, Viol};

pub struct C16;

fn prefixes(f: &Fam) -> Prefixes {
    Prefixes { h_unit: f.0[0].clone(), h_tail: f.0[1].clone(), quote: f.0[2].clone(), ul: f.0[3].clone(), ol_tail: f.0[4].clone() }
}

impl Prop for C16 {
    fn id(&self) -> &'static str {
        "C16"
    }
    fn rule(&self) -> &'static str {
        "decorators from a 17-string family over {ASCII, 2-byte width-1, 3-byte width-2, empty} x block-grammar documents (nested ul/ol/blockquote/h1-h6/dl, inline em/strong/code) x widths 4..80: Ok or TooNarrow (no panic), lines <= width, prefix column stripped by display width == content at width - display_width(prefix), affixes surround the element text; plus affix documents `<p>x <em>tok</em> y</p>`; non-trivial = a non-ASCII prefix or affix takes part and the document renders Ok"
    }
    fn cases(&self, r: &mut R, tier: Tier) -> Vec<Case> {
        let nd = scale(tier, 200, 3000);
        let per = if tier == Tier::Quick { 10 } else { 20 };
        let mut v = Vec::new();
        for _ in 0..nd {
            let fam = gen_fam(r, true);
            for _ in 0..per {
                let mut cfg = Cfg::base(Deco::Fam(fam.clone()));
                cfg.footnotes = r.p(20);
                if r.p(30) {
                    // affix document
                    let tag = *r.pick(&[&"em", &"strong", &"code", &"s", &"a"]);
                    let (open, close) = if tag == "a" { ("<a href=\"/1/\">".to_string(), "</a>".to_string()) } else { (format!("<{tag}>"), format!("</{tag}>")) };
                    // the element's content: a token, or nothing at all (the affixes still appear, next to each other; added
                    // after the seeded change C16-empty-inline-elements-dropped)
                    let inner = if tag != "a" && r.p(35) { *r.pick(&[&"", &"<!-- c -->", &"<span></span>"]) } else { "tok" };
                    let h = format!("<p>alpha {open}{inner}{close} omega</p>");
                    let mut c = case(h, cfg, 30 + r.u(50), "affix");
                    c.aux = if inner == "tok" { tag.to_string() } else { format!("{tag}|empty") };
                    v.push(c);
                    continue;
                }
                let b = loop {
                    let b = gen_block(r, 2);
                    if !matches!(b, B::P(_)) {
                        break b;
                    }
                };
                let w = 4 + r.u(77);
                v.push(case(html(&b), cfg, w, "blocks"));
            }
        }
        v
    }
    fn oracle(&self, c: &Case, o: &Obs) -> Vec<Viol> {
        let mut out = vec![];
        let fam = match &c.cfg.deco {
            Deco::Fam(f) => f.clone(),
            _ => return out,
        };
        match o {
            Obs::Ok(_) | Obs::Narrow => {}
            x => {
                out.push(viol(format!("custom decorator {:?} breaks rendering: {}", fam.0, x.short())));
                return out;
            }
        }
        let ls = match o.lines() {
            Some(l) => l,
            None => return out,
        };
        if !c.cfg.overflow && !c.cfg.nolinkwrap {
            for l in ls {
                let t = line_text(l);
                if additive(&t) && sw(&t) > c.width {
                    out.push(viol(format!("line {:?} has display width {} > {} with decorator {:?}", t, sw(&t), c.width, fam.0)));
                    return out;
                }
            }
        }
        if c.stream == "affix" {
            let text: String = ls.iter().map(|l| line_text(l)).collect::<Vec<_>>().join(" ");
            let (auxtag, empty) = match c.aux.split_once('|') {
                Some((t, _)) => (t.to_string(), true),
                None => (c.aux.clone(), false),
            };
            let (s, e) = match auxtag.as_str() {
                "em" => (&fam.0[7], &fam.0[8]),
                "strong" => (&fam.0[9], &fam.0[10]),
                "s" => (&fam.0[11], &fam.0[12]),
                "code" => (&fam.0[13], &fam.0[14]),
                _ => (&fam.0[5], &fam.0[6]),
            };
            let strike = |x: &str| -> String { if auxtag == "s" && !c.cfg.nostrike { x.chars().flat_map(|ch| if ch.is_whitespace() { vec![ch] } else { vec![ch, '\u{336}'] }).collect() } else { x.to_string() } };
            // both affixes are emitted outside the strikeout filter: verbatim
            let tok = if empty { "" } else { "tok" };
            let want = if auxtag == "s" { format!("{}{}{}", s, strike(tok), e) } else { format!("{s}{tok}{e}") };
            let squeeze = |x: &str| -> String { x.chars().filter(|ch| !ch.is_whitespace()).collect() };
            if !squeeze(&text).contains(&squeeze(&want)) {
                out.push(viol(format!("<{}>tok</{}> with affixes {:?}/{:?}: output {:?} does not contain {:?}", c.aux, c.aux, s, e, text, want)));
            }
            return out;
        }
        // compositional prefix law with the family's prefixes
        let dom = crate::domwalk::tree(&c.html);
        if let Some(body) = find_body(&dom) {
            let blocks: Vec<B> = body.kids().iter().filter_map(from_dom).collect();
            if blocks.len() == 1 {
                if let Some(msg) = check_with(&blocks[0], &c.cfg, c.width, 2, &prefixes(&fam)) {
                    out.push(viol(format!("{msg} [decorator {:?}]", fam.0)));
                }
            }
        }
        out
    }
    fn project(&self, _c: &Case, o: &Obs) -> String {
        text_only(o)
    }
    fn nontrivial(&self, c: &Case, o: &Obs) -> bool {
        matches!(o, Obs::Ok(_)) && matches!(&c.cfg.deco, Deco::Fam(f) if f.0.iter().any(|s| !s.is_ascii()))
    }
}
