import H2T.DomTree

open H2T

abbrev P := StateT (List String) Option

def tok : P String := do
  match (← get) with
  | [] => failure
  | t :: ts => set ts; pure t

def nat : P Nat := do
  let t ← tok
  match t.toNat? with
  | some n => pure n
  | none => failure

def pch : P Ch := do
  let t ← tok
  match t.splitOn ":" with
  | [a, b, c] =>
    match a.toNat?, b.toNat?, c.toNat? with
    | some cp, some w, some f => pure ⟨cp, w, f % 2 == 1, f / 2 % 2 == 1⟩
    | _, _, _ => failure
  | _ => failure

def rep {α : Type} (p : P α) : Nat → P (List α)
  | 0 => pure []
  | n + 1 => do let a ← p; let r ← rep p n; pure (a :: r)

def pstr : P (List Ch) := do let n ← nat; rep pch n

partial def pnode : P Node := do
  let t ← tok
  match t with
  | "T" => do let n ← nat; let cs ← rep pch n; pure (.text cs)
  | "C" => pure .comment
  | "O" => pure .other
  | "D" => do let n ← nat; let ks ← rep pnode n; pure (.doc ks)
  | "E" => do
    let name ← tok
    let html ← nat
    let na ← nat
    let attrs ← rep (do let an ← tok; let n ← nat; let v ← rep pch n; pure (an, v)) na
    let nk ← nat
    let ks ← rep pnode nk
    pure (.elem name (html == 1) attrs ks)
  | _ => failure

def showLine : RLine → String
  | .text l => " ".intercalate (l.filterMap fun e => match e with | .cell c => some (toString c.ch.cp) | .frag _ => none)
  | .rule b _ => " ".intercalate (b.map fun sg => toString sg.glyph)

def showAnn : Ann → String
  | .unit => "U" | .dflt => "D" | .em => "E" | .strong => "S" | .strike => "K" | .code => "C"
  | .link h => "L" ++ ",".intercalate (h.map fun c => toString c.cp)
  | .image h => "I" ++ ",".intercalate (h.map fun c => toString c.cp)
  | .pre false => "P" | .pre true => "Q"
  | .fg r g b => "F" ++ toString r ++ "." ++ toString g ++ "." ++ toString b
  | .bg r g b => "B" ++ toString r ++ "." ++ toString g ++ "." ++ toString b

def showLineRich : RLine → String
  | .text l => " ".intercalate (l.map fun e => match e with
      | .cell c => toString c.ch.cp ++ "/" ++ ";".intercalate (c.tag.map showAnn)
      | .frag n => "#" ++ ",".intercalate (n.map fun c => toString c.cp))
  | .rule b tag => " ".intercalate (b.map fun sg => toString sg.glyph ++ "/" ++ ";".intercalate (tag.map showAnn))

def esc (s : String) : String := (s.replace "\\" "\\\\").replace "\n" "\\n"

def handleCss (toks : List String) : String :=
  match toks.mapM String.toNat? with
  | none => "bad-op"
  | some cps =>
    match Css.doAddCss (cps.map Char.ofNat) with
    | .ok rules => "ok " ++ esc (Css.showRules "Author rules:" rules)
    | .err => "err"
    | .hang => "hang"

def optCss : P (Option (List Char)) := do
  let n ← nat
  if n = 0 then pure none else do
    let cs ← rep nat (n - 1)
    pure (some (cs.map Char.ofNat))

partial def depthOf : Node → Nat
  | .doc ks => 1 + (ks.map depthOf).foldl max 0
  | .elem _ _ _ ks => 1 + (ks.map depthOf).foldl max 0
  | _ => 1

/-! canonical token form of a render tree (the harness produces the same tokens from the implementation's `Debug` output) -/
def tokStr (s : List Ch) : List String := toString s.length :: s.map (fun c => toString c.cp)
def tokCol : Option Css.Rgb → String
  | none => "-"
  | some c => toString c.r ++ "," ++ toString c.g ++ "," ++ toString c.b
def tokStyle (st : Style) : List String :=
  [(match st.ws with | none => "-" | some .normal => "n" | some .pre => "p" | some .preWrap => "w"),
   (if st.pre then "1" else "0"), tokCol st.fg, tokCol st.bg]
def tokKind : Kind → List String
  | .container => ["container"] | .link h => "link" :: tokStr h | .em => ["em"] | .strong => ["strong"] | .strike => ["strike"]
  | .code => ["code"] | .block => ["block"] | .header l => ["header", toString l] | .div => ["div"] | .quote => ["quote"]
  | .ul => ["ul"] | .ol s => ["ol", toString s] | .dl => ["dl"] | .dt => ["dt"] | .dd => ["dd"] | .li => ["li"] | .sup => ["sup"]
/-- tokens of a tree, appended to an accumulator (linear in the size of the tree, whatever its depth) -/
partial def tokNodeA (n : RNode) (acc : Array String) : Array String :=
  let many (ns : List RNode) (acc : Array String) : Array String := ns.foldl (fun a k => tokNodeA k a) acc
  match n with
  | .text st s => ((acc.push "T").append (tokStyle st).toArray).append (tokStr s).toArray
  | .img st src t => (((acc.push "I").append (tokStyle st).toArray).append (tokStr src).toArray).append (tokStr t).toArray
  | .br st => (acc.push "B").append (tokStyle st).toArray
  | .frag n => (acc.push "F").append (tokStr n).toArray
  | .box st k kids => many kids ((((acc.push "X").append (tokStyle st).toArray).append (tokKind k).toArray).push (toString kids.length))
  | .cell st cs kids => many kids ((((acc.push "C").append (tokStyle st).toArray).push (toString cs)).push (toString kids.length))
  | .row st cells => many cells (((acc.push "R").append (tokStyle st).toArray).push (toString cells.length))
  | .tbody st rows => many rows (((acc.push "Y").append (tokStyle st).toArray).push (toString rows.length))
  | .table st rows n => many rows ((((acc.push "TB").append (tokStyle st).toArray).push (toString n)).push (toString rows.length))

def tokNode (n : RNode) : List String := (tokNodeA n #[]).toList

def handle (line : String) : String :=
  if line.startsWith "CSS" then handleCss ((line.trimAscii.toString.splitOn " ").filter (· ≠ "") |>.drop 1) else
  let wantTree := line.startsWith "TREE"
  let toks := ((line.trimAscii.toString.splitOn " ").filter (· ≠ "")).drop (if wantTree then 1 else 0)
  let p : P (Nat × Nat × Nat × Option DecoFam × Nat × Nat × Nat × Option (List Char) × Option (List Char) × List Ch × Node) := do
    let w ← nat; let flags ← nat; let deco ← nat
    let fam ← (if deco = 3 then do
        let ss ← rep pstr 17
        match ss with
        | [a1,a2,a3,a4,a5,a6,a7,a8,a9,a10,a11,a12,a13,a14,a15,a16,a17] =>
          pure (some (DecoFam.mk a1 a2 a3 a4 a5 a6 a7 a8 a9 a10 a11 a12 a13 a14 a15 a16 a17))
        | _ => failure
      else pure none)
    let ww ← nat; let mw ← nat; let useDoc ← nat
    let acss ← optCss; let ucss ← optCss
    let nt ← nat; let table ← rep pch nt
    let n ← pnode; pure (w, flags, deco, fam, ww, mw, useDoc, acss, ucss, table, n)
  match p.run toks with
  | none => "bad-op"
  | some ((w, flags, deco, fam, ww, mw, useDoc, acss, ucss, table, dom), _) =>
    let cfg : Cfg := { decorate := flags % 2 == 1, footnotes := flags / 2 % 2 == 1, overflow := flags / 4 % 2 == 1,
                       padBlocks := flags / 8 % 2 == 1, raw := flags / 16 % 2 == 1, drawBorders := !(flags / 32 % 2 == 1) && !(flags / 16 % 2 == 1),
                       unicodeStrike := !(flags / 64 % 2 == 1), wrapLinks := !(flags / 128 % 2 == 1),
                       wrapWidth := if ww = 0 then none else some (ww - 1), minWrap := mw }
    let d := match fam with
      | some f => Deco.ofFam f
      | none => if deco = 1 then Deco.rich else if deco = 2 then Deco.trivial else Deco.plain
    let ci : CharInfo := { lookup := fun cp => (table.find? (·.cp = cp)).getD ⟨cp, 1, false, false⟩ }
    if wantTree then
      match domTree cfg.decorate (useDoc == 1) acss ucss ci (depthOf dom + 1) dom with
      | .ok tree => "tree " ++ " ".intercalate (tokNode tree)
      | .error .cssErr => "csserr"
      | .error (.panic s) => "panic " ++ s
      | .error (.hang s) => "hang " ++ s
      | .error _ => "bad-outcome"
    else
    match renderDom cfg d w (useDoc == 1) acss ucss ci (depthOf dom + 1) dom with
    | .lines ls => "ok " ++ toString ls.length ++ " | " ++ " | ".intercalate (ls.map (if flags / 256 % 2 == 1 then showLineRich else showLine))
    | .narrow => "narrow"
    | .panic s => "panic " ++ s
    | .hang s => "hang " ++ s
    | .cssErr => "csserr"

partial def loop (h : IO.FS.Stream) (out : IO.FS.Stream) : IO Unit := do
  let line ← h.getLine
  if line.isEmpty then return ()
  out.putStrLn (handle line)
  loop h out

def main : IO Unit := do loop (← IO.getStdin) (← IO.getStdout)
