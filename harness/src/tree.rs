//! Tree-level correspondence: the implementation's `RenderTree` (public through `Config::dom_to_render_tree`, observable
//! through its derived `Debug`) against the model's `domTree` (lean/H2T/DomTree.lean), both brought to one token form.
//!
//! The `Debug` text is parsed with a small generic parser for Rust's derived `Debug` syntax; nothing here depends on
//! private items of the crate.  What is compared per node: its kind and payload (text, link target, header level, list
//! start, image source/title, fragment name, colspan, number of table columns), the order and number of children, and the
//! modelled part of the computed style (colour, background colour, white-space, internal_pre).

use crate::cfg::{Cfg, Deco, FamDeco};
use crate::obs;
use html2text::config;
use html2text::render::TrivialDecorator;

#[derive(Debug, Clone)]
pub enum Dv {
    Str(String),
    /// number, bare identifier (`None`, `true`, `Pre`), or anything else without brackets
    Atom(String),
    /// `Name(a, b)`; a bare `(a, b)` tuple has an empty name
    Tuple(String, Vec<Dv>),
    /// `Name { f: v, .. }`
    Struct(String, Vec<(String, Dv)>),
    List(Vec<Dv>),
}

struct P<'a> {
    s: &'a [u8],
    i: usize,
}

impl<'a> P<'a> {
    fn ws(&mut self) {
        while self.i < self.s.len() && (self.s[self.i] == b' ' || self.s[self.i] == b'\n') {
            self.i += 1;
        }
    }
    fn peek(&self) -> Option<u8> {
        self.s.get(self.i).copied()
    }
    fn eat(&mut self, c: u8) -> Result<(), String> {
        self.ws();
        if self.peek() == Some(c) {
            self.i += 1;
            Ok(())
        } else {
            Err(format!("expected '{}' at byte {}", c as char, self.i))
        }
    }
    fn string(&mut self) -> Result<String, String> {
        // at the opening quote
        self.i += 1;
        let mut out = String::new();
        let text = std::str::from_utf8(&self.s[self.i..]).map_err(|e| e.to_string())?;
        let mut it = text.char_indices();
        while let Some((k, c)) = it.next() {
            match c {
                '"' => {
                    self.i += k + 1;
                    return Ok(out);
                }
                '\\' => {
                    let (_, e) = it.next().ok_or("dangling escape")?;
                    match e {
                        'n' => out.push('\n'),
                        'r' => out.push('\r'),
                        't' => out.push('\t'),
                        '0' => out.push('\0'),
                        '\\' => out.push('\\'),
                        '"' => out.push('"'),
                        '\'' => out.push('\''),
                        'u' => {
                            // \u{hex}
                            let (_, b) = it.next().ok_or("bad \\u")?;
                            if b != '{' {
                                return Err("bad \\u".into());
                            }
                            let mut h = String::new();
                            loop {
                                let (_, d) = it.next().ok_or("bad \\u")?;
                                if d == '}' {
                                    break;
                                }
                                h.push(d);
                            }
                            let v = u32::from_str_radix(&h, 16).map_err(|e| e.to_string())?;
                            out.push(char::from_u32(v).ok_or("bad scalar")?);
                        }
                        x => return Err(format!("unknown escape \\{x}")),
                    }
                }
                c => out.push(c),
            }
        }
        Err("unterminated string".into())
    }
    fn value(&mut self) -> Result<Dv, String> {
        self.ws();
        match self.peek() {
            None => Err("eof".into()),
            Some(b'"') => Ok(Dv::Str(self.string()?)),
            Some(b'[') => {
                self.i += 1;
                let mut v = Vec::new();
                loop {
                    self.ws();
                    if self.peek() == Some(b']') {
                        self.i += 1;
                        break;
                    }
                    v.push(self.value()?);
                    self.ws();
                    if self.peek() == Some(b',') {
                        self.i += 1;
                    }
                }
                Ok(Dv::List(v))
            }
            Some(b'(') => Ok(Dv::Tuple(String::new(), self.args()?)),
            Some(_) => {
                let st = self.i;
                while self.i < self.s.len() {
                    let c = self.s[self.i];
                    if c.is_ascii_alphanumeric() || c == b'_' || c == b'-' || c == b'.' || c == b':' && self.s.get(self.i + 1) == Some(&b':') || c == b':' && self.i > st && self.s[self.i - 1] == b':' {
                        self.i += 1;
                    } else {
                        break;
                    }
                }
                if self.i == st {
                    return Err(format!("unexpected byte {:?} at {}", self.s[st] as char, st));
                }
                let name = String::from_utf8_lossy(&self.s[st..self.i]).to_string();
                self.ws();
                match self.peek() {
                    Some(b'(') => Ok(Dv::Tuple(name, self.args()?)),
                    Some(b'{') => {
                        self.i += 1;
                        let mut fs = Vec::new();
                        loop {
                            self.ws();
                            if self.peek() == Some(b'}') {
                                self.i += 1;
                                break;
                            }
                            if self.s[self.i..].starts_with(b"..") {
                                self.i += 2;
                                continue;
                            }
                            let st = self.i;
                            while self.i < self.s.len() && (self.s[self.i].is_ascii_alphanumeric() || self.s[self.i] == b'_') {
                                self.i += 1;
                            }
                            let f = String::from_utf8_lossy(&self.s[st..self.i]).to_string();
                            self.eat(b':')?;
                            let v = self.value()?;
                            fs.push((f, v));
                            self.ws();
                            if self.peek() == Some(b',') {
                                self.i += 1;
                            }
                        }
                        Ok(Dv::Struct(name, fs))
                    }
                    _ => Ok(Dv::Atom(name)),
                }
            }
        }
    }
    fn args(&mut self) -> Result<Vec<Dv>, String> {
        self.i += 1; // '('
        let mut v = Vec::new();
        loop {
            self.ws();
            if self.peek() == Some(b')') {
                self.i += 1;
                break;
            }
            v.push(self.value()?);
            self.ws();
            if self.peek() == Some(b',') {
                self.i += 1;
            }
        }
        Ok(v)
    }
}

pub fn parse_debug(s: &str) -> Result<Dv, String> {
    let mut p = P { s: s.as_bytes(), i: 0 };
    let v = p.value()?;
    p.ws();
    if p.i != p.s.len() {
        return Err(format!("trailing input at byte {}", p.i));
    }
    Ok(v)
}

impl Dv {
    fn field(&self, n: &str) -> Result<&Dv, String> {
        match self {
            Dv::Struct(_, fs) => fs.iter().find(|(k, _)| k == n).map(|(_, v)| v).ok_or_else(|| format!("no field {n}")),
            _ => Err(format!("not a struct (looking for {n}): {:?}", self.head())),
        }
    }
    fn head(&self) -> String {
        match self {
            Dv::Str(_) => "<str>".into(),
            Dv::Atom(a) => a.clone(),
            Dv::Tuple(n, _) | Dv::Struct(n, _) => n.clone(),
            Dv::List(_) => "<list>".into(),
        }
    }
    fn list(&self) -> Result<&Vec<Dv>, String> {
        match self {
            Dv::List(v) => Ok(v),
            _ => Err(format!("not a list: {}", self.head())),
        }
    }
    fn str(&self) -> Result<&str, String> {
        match self {
            Dv::Str(s) => Ok(s),
            _ => Err(format!("not a string: {}", self.head())),
        }
    }
    fn atom(&self) -> Result<&str, String> {
        match self {
            Dv::Atom(s) => Ok(s),
            _ => Err(format!("not an atom: {}", self.head())),
        }
    }
}

fn tok_str(s: &str, out: &mut Vec<String>) {
    let cs: Vec<char> = s.chars().collect();
    out.push(cs.len().to_string());
    for c in cs {
        out.push((c as u32).to_string());
    }
}

/// `WithSpec { val: Some(x), .. }` → `Some(x)`
fn spec_val(v: &Dv) -> Result<Option<&Dv>, String> {
    match v.field("val")? {
        Dv::Atom(a) if a == "None" => Ok(None),
        Dv::Tuple(n, a) if n == "Some" && a.len() == 1 => Ok(Some(&a[0])),
        x => Err(format!("unexpected val {}", x.head())),
    }
}

fn tok_colour(v: Option<&Dv>) -> Result<String, String> {
    match v {
        None => Ok("-".into()),
        Some(c) => Ok(format!("{},{},{}", c.field("r")?.atom()?, c.field("g")?.atom()?, c.field("b")?.atom()?)),
    }
}

fn tok_style(st: &Dv, out: &mut Vec<String>) -> Result<(), String> {
    let ws = match spec_val(st.field("white_space")?)? {
        None => "-",
        Some(Dv::Atom(a)) if a == "Normal" => "n",
        Some(Dv::Atom(a)) if a == "Pre" => "p",
        Some(Dv::Atom(a)) if a == "PreWrap" => "w",
        Some(x) => return Err(format!("unknown white_space {}", x.head())),
    };
    out.push(ws.into());
    out.push(if st.field("internal_pre")?.atom()? == "true" { "1".into() } else { "0".into() });
    out.push(tok_colour(spec_val(st.field("colour")?)?)?);
    out.push(tok_colour(spec_val(st.field("bg_colour")?)?)?);
    Ok(())
}

fn tok_kids(kind: &[&str], payload: Option<&str>, kids: &Dv, st: &Dv, out: &mut Vec<String>) -> Result<(), String> {
    out.push("X".into());
    tok_style(st, out)?;
    for k in kind {
        out.push((*k).into());
    }
    if let Some(p) = payload {
        tok_str(p, out);
    }
    let ks = kids.list()?;
    out.push(ks.len().to_string());
    for k in ks {
        tok_node(k, out)?;
    }
    Ok(())
}

fn tok_cell(c: &Dv, out: &mut Vec<String>) -> Result<(), String> {
    out.push("C".into());
    tok_style(c.field("style")?, out)?;
    out.push(c.field("colspan")?.atom()?.into());
    let ks = c.field("content")?.list()?;
    out.push(ks.len().to_string());
    for k in ks {
        tok_node(k, out)?;
    }
    Ok(())
}

fn tok_row(r: &Dv, out: &mut Vec<String>) -> Result<(), String> {
    out.push("R".into());
    tok_style(r.field("style")?, out)?;
    let cs = r.field("cells")?.list()?;
    out.push(cs.len().to_string());
    for c in cs {
        tok_cell(c, out)?;
    }
    Ok(())
}

fn tok_node(n: &Dv, out: &mut Vec<String>) -> Result<(), String> {
    let st = n.field("style")?;
    let info = n.field("info")?;
    let (name, args): (&str, &[Dv]) = match info {
        Dv::Tuple(nm, a) => (nm, a),
        Dv::Atom(a) => (a, &[]),
        x => return Err(format!("unexpected info {}", x.head())),
    };
    let simple = |k: &str| -> Option<&'static str> {
        Some(match k {
            "Container" => "container",
            "Em" => "em",
            "Strong" => "strong",
            "Strikeout" => "strike",
            "Code" => "code",
            "Block" => "block",
            "Div" => "div",
            "BlockQuote" => "quote",
            "Ul" => "ul",
            "Dl" => "dl",
            "Dt" => "dt",
            "Dd" => "dd",
            "ListItem" => "li",
            "Sup" => "sup",
            _ => return None,
        })
    };
    match name {
        "Text" => {
            out.push("T".into());
            tok_style(st, out)?;
            tok_str(args[0].str()?, out);
        }
        "Img" => {
            out.push("I".into());
            tok_style(st, out)?;
            tok_str(args[0].str()?, out);
            tok_str(args[1].str()?, out);
        }
        "Break" => {
            out.push("B".into());
            tok_style(st, out)?;
        }
        "FragStart" => {
            out.push("F".into());
            tok_str(args[0].str()?, out);
        }
        "Link" => tok_kids(&["link"], Some(args[0].str()?), &args[1], st, out)?,
        "Header" => tok_kids(&["header", args[0].atom()?], None, &args[1], st, out)?,
        "Ol" => tok_kids(&["ol", args[0].atom()?], None, &args[1], st, out)?,
        "Table" => {
            let t = &args[0];
            out.push("TB".into());
            tok_style(st, out)?;
            out.push(t.field("num_columns")?.atom()?.into());
            let rows = t.field("rows")?.list()?;
            out.push(rows.len().to_string());
            for r in rows {
                tok_row(r, out)?;
            }
        }
        "TableBody" => {
            out.push("Y".into());
            tok_style(st, out)?;
            let rows = args[0].list()?;
            out.push(rows.len().to_string());
            for r in rows {
                tok_row(r, out)?;
            }
        }
        "TableRow" => tok_row(&args[0], out)?,
        "TableCell" => tok_cell(&args[0], out)?,
        k => match simple(k) {
            Some(kind) => tok_kids(&[kind], None, &args[0], st, out)?,
            None => return Err(format!("unknown RenderNodeInfo variant {k}")),
        },
    }
    Ok(())
}

/// canonical tokens of `format!("{:?}", render_tree)`
pub fn canon_debug(dbg: &str) -> Result<String, String> {
    let v = parse_debug(dbg)?;
    let root = match &v {
        Dv::Tuple(n, a) if n == "RenderTree" && a.len() == 1 => &a[0],
        x => return Err(format!("not a RenderTree: {}", x.head())),
    };
    let mut out = Vec::new();
    tok_node(root, &mut out)?;
    Ok(out.join(" "))
}

fn tree_with<D: html2text::render::TextDecorator>(base: config::Config<D>, html: &[u8], cfg: &Cfg) -> String {
    let c = match obs::build_config(base, cfg) {
        Ok(c) => c,
        Err(html2text::Error::CssParseError) => return "csserr".into(),
        Err(e) => return format!("other {e:?}"),
    };
    let dom = match c.parse_html(html) {
        Ok(d) => d,
        Err(e) => return format!("other parse_html {e:?}"),
    };
    match c.dom_to_render_tree(&dom) {
        Ok(t) => match canon_debug(&format!("{:?}", t)) {
            Ok(s) => format!("tree {s}"),
            Err(e) => format!("unparsed-debug {e}"),
        },
        Err(html2text::Error::Fail) => "panic Fail: no render tree".into(),
        Err(html2text::Error::CssParseError) => "csserr".into(),
        Err(e) => format!("other {e:?}"),
    }
}

/// the implementation's render tree for a case, in the driver's token form (`tree …`, `csserr`, `panic …`, `hang …`)
pub fn impl_tree(html: &[u8], cfg: &Cfg, secs: u64) -> String {
    let h = html.to_vec();
    let c = cfg.clone();
    let r = obs::guarded(secs, move || match &c.deco {
        Deco::Plain => tree_with(config::plain_no_decorate(), &h, &c),
        Deco::Rich => tree_with(config::rich(), &h, &c),
        Deco::Trivial => tree_with(config::with_decorator(TrivialDecorator::new()), &h, &c),
        Deco::Fam(f) => tree_with(config::with_decorator(FamDeco(f.clone())), &h, &c),
    });
    match r {
        Ok(s) => s,
        Err(obs::Obs::Panic(m)) => format!("panic {m}"),
        Err(obs::Obs::Hang(m)) => format!("hang {m}"),
        Err(o) => format!("other {}", o.short()),
    }
}

/// do the two answers agree?  Panic and hang messages are compared by class only.
pub fn trees_agree(imp: &str, model: &str) -> bool {
    let class = |s: &str| s.split(' ').next().unwrap_or("").to_string();
    if imp.starts_with("tree ") || model.starts_with("tree ") {
        imp.trim_end() == model.trim_end()
    } else {
        class(imp) == class(model)
    }
}

/// first differing token, for the report
pub fn first_diff(imp: &str, model: &str) -> String {
    let a: Vec<&str> = imp.split(' ').collect();
    let b: Vec<&str> = model.split(' ').collect();
    let k = a.iter().zip(b.iter()).position(|(x, y)| x != y).unwrap_or(a.len().min(b.len()));
    let ctx = |v: &Vec<&str>| v[k.saturating_sub(8)..(k + 8).min(v.len())].join(" ");
    format!("token {k}: implementation …{}… / model …{}…", ctx(&a), ctx(&b))
}
