//! C15: layout options are orthogonal and do only what they say.

use super::common::*;
use crate::gen::{self, Knobs};
use crate::obs::{line_text, Obs};
use crate::refimpl::{additive, sw};
use crate::util::R;
use crate::{run, Case, Prop, Tier, Viol};

pub struct C15;

const BOX: &[char] = &['─', '┬', '┴', '┼', '│'];

fn knobs(tables: bool) -> Knobs {
    let mut k = Knobs::all().no_css().unique();
    k.href_digits = true;
    k.digits = false;
    k.uspace = true;
    if !tables {
        k = k.no_tables();
    }
    k
}

fn lines(o: &Obs) -> Option<Vec<String>> {
    o.text_lines()
}

impl Prop for C15 {
    fn id(&self) -> &'static str {
        "C15"
    }
    fn rule(&self) -> &'static str {
        "G-doc (half with tables) x widths 1..100 x one option o in {max_wrap_width(m), pad_block_width, unicode_strikeout(false), no_table_borders, raw_mode, link_footnotes(false), no_link_wrapping, min_wrap_width(k)} over a random base configuration: the documented relation between render(base) and render(base+o); non-trivial = base renders Ok with >= 2 lines"
    }
    fn cases(&self, r: &mut R, tier: Tier) -> Vec<Case> {
        let n = scale(tier, 2000, 30000);
        let mut v = Vec::new();
        for i in 0..n {
            let tables = r.p(50);
            let html = gen_doc(r, knobs(tables)).0;
            let bytes = if i % 10 == 9 { gen::mutate(r, html.as_bytes()) } else { html.into_bytes() };
            for _ in 0..(if tier == Tier::Quick { 4 } else { 6 }) {
                let mut cfg = mk_cfg(r, false);
                // the base leaves the option under test in its default state
                let opt = r.b(8);
                match opt {
                    0 => cfg.max_wrap = None,
                    1 => cfg.pad = false,
                    2 => cfg.nostrike = false,
                    3 => {
                        cfg.noborders = false;
                        cfg.raw = false;
                    }
                    4 => cfg.raw = false,
                    5 => cfg.footnotes = true,
                    6 => cfg.nolinkwrap = false,
                    _ => cfg.min_wrap = 3,
                }
                let w = if r.p(40) { 1 + r.u(16) } else { 1 + r.u(100) };
                let mut c = case(bytes.clone(), cfg, w, ["max_wrap_width", "pad_block_width", "unicode_strikeout(false)", "no_table_borders", "raw_mode", "link_footnotes(false)", "no_link_wrapping", "min_wrap_width"][opt as usize]);
                c.aux = format!("{opt},{}", r.n());
                v.push(c);
            }
        }
        v
    }
    fn oracle(&self, c: &Case, o: &Obs) -> Vec<Viol> {
        let mut out = vec![];
        let (opt, seed) = match c.aux.split_once(',') {
            Some((a, b)) => (a.parse::<u64>().unwrap_or(99), b.parse::<u64>().unwrap_or(0)),
            None => return out,
        };
        let mut r = R(seed);
        let mut cfg2 = c.cfg.clone();
        let w = c.width;
        match opt {
            0 => {
                // max_wrap_width(m): no-op when m >= w; otherwise text lines are limited to m columns beyond their prefix
                let m = if r.p(50) { w + r.u(40) } else { 1 + r.u(w.max(1)) };
                cfg2.max_wrap = Some(m);
                let o2 = run(&c.html, &cfg2, w);
                if m >= w {
                    if *o != o2 && c.cfg.overflow {
                        // with overflow a block may be wider than the requested width, and m is compared with the block
                        out.push(known(format!("max_wrap_width({m}) >= width {w} changes an overflowing rendering"), "C15-maxwrap-overflow"));
                    } else if *o != o2 {
                        out.push(viol(format!("max_wrap_width({m}) >= width {w} changes the output: {} vs {}", o.short(), o2.short())));
                    }
                } else if let (Some(l2), false) = (lines(&o2), c.cfg.overflow) {
                    // table-free, prefix-free documents: every line is at most m wide (footnote list excepted)
                    let dom = crate::domwalk::tree(&c.html);
                    let simple = !dom.any(&|n| matches!(n.name(), "table" | "ul" | "ol" | "blockquote" | "dd" | "h1" | "h2" | "h3" | "h4" | "h5" | "h6" | "pre"));
                    if simple && !c.cfg.footnotes {
                        for l in &l2 {
                            if additive(l) && sw(l.trim_end()) > m {
                                out.push(viol(format!("max_wrap_width({m}): line {:?} is wider than {m}", l)));
                                break;
                            }
                        }
                    }
                }
            }
            1 => {
                cfg2.pad = true;
                let o2 = run(&c.html, &cfg2, w);
                match (lines(o), lines(&o2)) {
                    (Some(a), Some(b)) => {
                        let ra: Vec<&str> = a.iter().map(|l| l.trim_end_matches(' ')).collect();
                        let rb: Vec<&str> = b.iter().map(|l| l.trim_end_matches(' ')).collect();
                        if ra != rb {
                            // known finding #14: padding makes blank <pre> lines count as content
                            if c.html.windows(4).any(|x| x == b"<pre") && rb.len() > ra.len() && rb.iter().filter(|l| !l.is_empty()).eq(ra.iter().filter(|l| !l.is_empty())) {
                                out.push(known("pad_block_width adds a blank line after a <pre> block with blank lines".to_string(), "C15-pad-pre-blank"));
                            } else {
                                out.push(viol(format!("pad_block_width changes more than trailing spaces: {:?} vs {:?}", ra, rb)));
                            }
                        }
                    }
                    (None, None) => {}
                    _ => {
                        if o.class() != o2.class() {
                            out.push(viol(format!("pad_block_width changes the outcome: {} vs {}", o.class(), o2.class())));
                        }
                    }
                }
            }
            2 => {
                cfg2.nostrike = true;
                let o2 = run(&c.html, &cfg2, w);
                match (lines(o), lines(&o2)) {
                    (Some(a), Some(b)) => {
                        let da: Vec<String> = a.iter().map(|l| l.replace('\u{336}', "")).collect();
                        // a line that holds nothing but marks — bare, or behind block prefixes / between table bars
                        let strict = |l: &String| l.contains('\u{336}') && l.chars().all(|ch| ch == '\u{336}' || ch == ' ');
                        let broad = |l: &String| l.contains('\u{336}') && l.chars().all(|ch| ch == '\u{336}' || ch == ' ' || ch == '│' || ch == '>' || ch == '*' || ch == '#' || ch == '.' || ch.is_ascii_digit());
                        let da2s: Vec<String> = a.iter().filter(|l| !strict(l)).map(|l| l.replace('\u{336}', "")).collect();
                        let da2b: Vec<String> = a.iter().filter(|l| !broad(l)).map(|l| l.replace('\u{336}', "")).collect();
                        let mut da2: Vec<String> = if da2s == b { da2s } else { da2b };
                        // behind a block prefix of k columns (the prefix characters may also be document text, so try every k)
                        for k in 1..=12usize {
                            if da2 == b {
                                break;
                            }
                            let sk = |l: &String| { let t: String = l.chars().skip(k).collect(); l.chars().count() > k && strict(&t) };
                            let cand: Vec<String> = a.iter().filter(|l| !sk(l)).map(|l| l.replace('\u{336}', "")).collect();
                            if cand == b {
                                da2 = cand;
                            }
                        }
                        // inside side-by-side table cells the mark-only line is one cell's line while the neighbours continue: compare
                        // cell by cell (segments between bars, blank segments dropped)
                        let colseq = |ls: &Vec<String>| -> Vec<Vec<String>> {
                            let mut cols: Vec<Vec<String>> = Vec::new();
                            // the table may stand behind block prefixes: everything left of the first rule is prefix
                            let ls: Vec<String> = ls.iter().map(|l| l.replace('\u{336}', "")).collect();
                            let off = ls.iter().find_map(|l| l.chars().position(|ch| ch == '─')).unwrap_or(0);
                            let ls: Vec<String> = ls.iter().map(|l| l.chars().skip(off).collect()).collect();
                            for l in &ls {
                                if !l.trim().is_empty() && l.trim().chars().all(|ch| BOX.contains(&ch)) {
                                    continue; // a rule of this table
                                }
                                for (j, seg) in l.split('│').enumerate() {
                                    let t: String = seg.replace('\u{336}', "").trim().to_string();
                                    if cols.len() <= j {
                                        cols.resize(j + 1, Vec::new());
                                    }
                                    // (a rule inside a cell belongs to a nested table: not text)
                                    if !t.is_empty() && !t.chars().all(|ch| BOX.contains(&ch)) {
                                        cols[j].push(t);
                                    }
                                }
                            }
                            cols
                        };
                        let celleq = a.iter().any(|l| l.contains('│')) && colseq(&a) == colseq(&b);
                        // nested tables of different shapes defeat the cell-by-cell reading: then the weakest form — some cell line
                        // of `a` holds nothing but a mark, and both outputs show the same visible characters (as multisets)
                        let vis = |ls: &Vec<String>| -> Vec<char> { let mut v: Vec<char> = ls.iter().flat_map(|l| l.chars()).filter(|ch| !ch.is_whitespace() && *ch != '\u{336}' && !BOX.contains(ch)).collect(); v.sort(); v };
                        let mark_cell = a.iter().any(|l| l.split('│').any(|seg| seg.contains('\u{336}') && seg.chars().all(|ch| ch == '\u{336}' || ch == ' ')));
                        let loose = a.iter().any(|l| l.contains('│')) && mark_cell && a.len() >= b.len() && vis(&a) == vis(&b);
                        // tables without borders (cells separated by blanks): the mark-only piece shows as a mark that does not
                        // follow a visible character — a strikeout mark otherwise always does (added after the thorough tier met
                        // the finding in a borderless table at width 1, which the bar-based readings above cannot parse)
                        let mark_alone = a.iter().any(|l| {
                            let cs: Vec<char> = l.chars().collect();
                            cs.iter().enumerate().any(|(i, ch)| *ch == '\u{336}' && (i == 0 || cs[i - 1] == ' '))
                        });
                        // (block prefixes repeat on every line and `a` has more lines, so the characters prefixes are made of are
                        // left out of the comparison of visible characters)
                        let vis_np = |ls: &Vec<String>| -> Vec<char> { let mut v = vis(ls); v.retain(|ch| !matches!(ch, '>' | '*' | '#' | '.' | '-') && !ch.is_ascii_digit()); v };
                        let loose_borderless = !a.iter().any(|l| l.contains('│')) && mark_alone && a.len() >= b.len() && vis_np(&a) == vis_np(&b);
                        if da != b && c.cfg.overflow && (da2 == b || celleq || loose || loose_borderless) {
                            // overflow mode: the mark after an over-wide character is emitted on a line of its own
                            out.push(known("a strike mark is hard-wrapped onto its own line in overflow mode".to_string(), "C15-strike-overflow-line"));
                        } else if da != b {
                            out.push(viol(format!("unicode strikeout alters layout: without U+0336 {:?} vs unicode_strikeout(false) {:?}", da, b)));
                        }
                    }
                    _ => {
                        if o.class() != o2.class() {
                            out.push(viol(format!("unicode_strikeout(false) changes the outcome: {} vs {}", o.class(), o2.class())));
                        }
                    }
                }
            }
            3 | 4 => {
                if opt == 3 {
                    cfg2.noborders = true;
                } else {
                    cfg2.raw = true;
                }
                let o2 = run(&c.html, &cfg2, w);
                if let Some(l2) = lines(&o2) {
                    let doc_has_box = String::from_utf8_lossy(&c.html).chars().any(|ch| BOX.contains(&ch));
                    if !doc_has_box {
                        if let Some(l) = l2.iter().find(|l| l.chars().any(|ch| BOX.contains(&ch))) {
                            out.push(viol(format!("{} still emits a box-drawing character: {:?}", c.stream, l)));
                        }
                    }
                    // options that do not apply leave the output unchanged
                    let dom = crate::domwalk::tree(&c.html);
                    if !dom.has_elem("table") && *o != o2 {
                        out.push(viol(format!("{} changes a table-free document: {} vs {}", c.stream, o.short(), o2.short())));
                    }
                }
            }
            5 => {
                cfg2.footnotes = false;
                let o2 = run(&c.html, &cfg2, w);
                let dom = crate::domwalk::tree(&c.html);
                let nlinks = crate::domwalk::links(&dom).len();
                if nlinks == 0 && *o != o2 {
                    out.push(viol(format!("link_footnotes(false) changes a document without links: {} vs {}", o.short(), o2.short())));
                }
                if let (Some(a), Some(b)) = (lines(o), lines(&o2)) {
                    // the document's own characters are the same in both
                    let tok = |v: &Vec<String>| -> String { v.join("\n").chars().filter(|ch| super::c03::is_tok(*ch)).collect() };
                    let href_has_tok = crate::domwalk::links(&dom).iter().any(|(h, _)| h.chars().any(super::c03::is_tok));
                    if !href_has_tok && tok(&a) != tok(&b) && !dom.has_elem("table") {
                        out.push(viol(format!("link_footnotes(false) changes document text: {:?} vs {:?}", tok(&a), tok(&b))));
                    }
                    if b.iter().any(|l| l.contains("]: ")) && !String::from_utf8_lossy(&c.html).contains("]: ") {
                        out.push(viol("a footnote list appears although footnotes are disabled".to_string()));
                    }
                }
            }
            6 => {
                cfg2.nolinkwrap = true;
                let o2 = run(&c.html, &cfg2, w);
                let dom = crate::domwalk::tree(&c.html);
                if (crate::domwalk::links(&dom).is_empty() || !c.cfg.footnotes) && *o != o2 {
                    out.push(viol(format!("no_link_wrapping changes a rendering without footnotes: {} vs {}", o.short(), o2.short())));
                }
            }
            _ => {
                // min_wrap_width(k) with k <= 3 can only turn TooNarrow into Ok or leave the result; it never changes an Ok table-free result? (only stated: options that do not apply leave the output unchanged)
                let k = r.u(3);
                cfg2.min_wrap = k;
                let o2 = run(&c.html, &cfg2, w);
                let dom = crate::domwalk::tree(&c.html);
                let has_prefixed = dom.any(&|n| matches!(n.name(), "table" | "ul" | "ol" | "blockquote" | "dd" | "h1" | "h2" | "h3" | "h4" | "h5" | "h6"));
                if !has_prefixed && *o != o2 {
                    out.push(viol(format!("min_wrap_width({k}) changes a document without prefixed blocks or tables: {} vs {}", o.short(), o2.short())));
                }
            }
        }
        out
    }
    fn project(&self, _c: &Case, o: &Obs) -> String {
        text_only(o)
    }
}

trait StreamOk {
    fn stream_ok(&self) -> bool;
}
impl StreamOk for Case {
    fn stream_ok(&self) -> bool {
        true
    }
}
