import H2T.Lemmas.WrapInv

/-! # C12 — preformatted text keeps its lines and spacing

Status: **partial** — proved on the wrap machine in `pre` mode: a newline always ends the current line (even an
empty one, so interior blank lines are kept) and clears pending spaces (line-trailing spaces are removed); a
non-whitespace character is never dropped — it is appended to the pending word with the main tag, or with the
continuation tag exactly from the point where the line would overflow; every emitted piece fits the width (the
C02 wrap-layer theorem applies to all three white-space modes).  The line-for-line reproduction in the fits-case
and tab expansion to 8-column stops are decided by correspondence and an independent reference in the harness.
The property's claim about continuation tags is *refuted* for the unchanged code (a known finding): the
continuation tag starts at the character where a word first exceeds the line, not at the start of the
continuation piece. -/

namespace H2T.C12

/-- In `pre` mode a newline with no pending word flushes the line unconditionally: the finished-line list grows
    by exactly one line — an empty source line becomes an empty output line — and pending spaces are dropped. -/
theorem newline_ends_line (b : WB) (mt wt : Tag) (cur : Bool) (hw : b.wordlen = 0) :
    let nl : Ch := ⟨10, 0, true, true⟩
    ∃ b', b.addChar .pre mt wt cur nl = .ok (b', false) ∧ b'.text.length = b.text.length + 1 ∧
      b'.line = [] ∧ b'.wslen = 0 ∧ b'.spacetag = none ∧ b'.preWrapped = false := by
  refine ⟨{ b.forceFlush with wslen := 0, spacetag := none, preWrapped := false }, ?_, ?_, rfl, rfl, rfl, rfl⟩
  · simp [WB.addChar, hw, WS.preserve]
  · simp [WB.forceFlush]

/-- A non-whitespace character with a width is never dropped: it is appended to the pending word, tagged with
    the main tag or the continuation tag; the line and the finished text are untouched. -/
theorem nonspace_kept (b : WB) (m : WS) (mt wt : Tag) (cur : Bool) (c : Ch) (hc : c.ws = false) (hk : c.ctrl = false) :
    ∃ b' cur' tag, b.addChar m mt wt cur c = .ok (b', cur') ∧ b'.word = b.word ++ [Elt.cell ⟨c, tag⟩] ∧
      (tag = mt ∨ tag = wt) ∧ b'.line = b.line ∧ b'.text = b.text := by
  simp only [WB.addChar, hc, hk, Bool.false_and, Bool.false_eq_true, if_false]
  by_cases hsw : (decide (m = WS.pre) && decide (b.linelen + b.wslen + (b.wordlen + c.w) > b.width)) = true
  · simp only [hsw, if_true]
    exact ⟨_, _, wt, rfl, rfl, Or.inr rfl, rfl, rfl⟩
  · simp only [hsw, Bool.false_eq_true, if_false]
    cases cur
    · exact ⟨_, _, mt, rfl, by simp, Or.inl rfl, rfl, rfl⟩
    · exact ⟨_, _, wt, rfl, by simp, Or.inr rfl, rfl, rfl⟩

/-- The continuation tag is used from the point where the line would overflow (`pre` mode only). -/
theorem continuation_tag_on_overflow (b : WB) (mt wt : Tag) (c : Ch) (hc : c.ws = false) (hk : c.ctrl = false)
    (hov : b.linelen + b.wslen + (b.wordlen + c.w) > b.width) :
    b.addChar .pre mt wt false c =
      .ok ({ b with wordlen := b.wordlen + c.w, preWrapped := true, word := b.word ++ [Elt.cell ⟨c, wt⟩] }, true) := by
  simp [WB.addChar, hc, hk, hov]

/-- every piece a preformatted block emits fits the available width (instance of the C02 wrap-layer theorem) -/
theorem pieces_fit (b : WB) (ls : List TLine) (hi : b.Inv) (ho : b.overflow = false) (h : b.finish = .ok ls) :
    ∀ l ∈ ls, lw l ≤ b.width :=
  finish_lines_fit b ls hi ho h

/-! non-vacuity: "ab\n\n cd  \nef" in pre mode at width 10 keeps the blank line and the leading space, drops trailing ones -/
example :
    let nl : Ch := ⟨10, 0, true, true⟩
    ((({ width := 10 } : WB).addText .pre [] [] ([mkCh 97, mkCh 98, nl, nl, spaceCh, mkCh 99, mkCh 100, spaceCh, spaceCh, nl, mkCh 101, mkCh 102])).toOption.bind
      fun b => b.finish.toOption.map fun ls => ls.map fun l => l.filterMap fun e => match e with | .cell c => some c.ch.cp | _ => none)
      = some [[97, 98], [], [32, 99, 100], [101, 102]] := by decide +kernel

end H2T.C12
