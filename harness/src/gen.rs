//! Generators: typed document generator (G-doc), byte mutation (G-mut), CSS sheets (G-css).

use crate::util::R;
use std::collections::BTreeSet;

#[derive(Clone, Debug)]
pub struct Knobs {
    pub depth: u32,
    pub tables: bool,
    pub nested_tables: bool,
    pub weird_colspan: bool,
    pub lists: bool,
    pub quotes: bool,
    pub headings: bool,
    pub dl: bool,
    pub pre: bool,
    pub links: bool,
    pub images: bool,
    pub ids: bool,
    pub css_attrs: bool,
    pub br: bool,
    pub sup: bool,
    pub strike: bool,
    pub wide: bool,
    pub zero: bool,
    pub unique: bool,
    pub comments: bool,
    pub unknown_elems: bool,
    /// percent chance that an `ol` gets a start attribute
    pub ol_start: u64,
    pub max_words: u64,
    /// hrefs without letters ("/3/"), so that footnotes never contain token characters
    pub href_digits: bool,
    /// sometimes emit script/style/head>title elements with token text inside (must never be rendered)
    pub hidden_elems: bool,
    /// digit-only words and `<sup>12</sup>`
    pub digits: bool,
    /// with css_attrs: only class attributes (no style/color/bgcolor attributes)
    pub classes_only: bool,
    /// link targets with wide (CJK) and combining characters, of various lengths (the footnote list wraps them)
    pub exotic_hrefs: bool,
    /// inline elements (em, strong, a, code, span ...) inside `<pre>`, with text after their closing tags
    pub pre_inline: bool,
    /// whitespace between words is sometimes a non-ASCII space (NBSP, em space, thin space, ideographic space, ogham space),
    /// alone or next to an ASCII space / at the end of a text
    pub uspace: bool,
}

impl Knobs {
    pub fn all() -> Knobs {
        Knobs {
            depth: 3,
            tables: true,
            nested_tables: true,
            weird_colspan: true,
            lists: true,
            quotes: true,
            headings: true,
            dl: true,
            pre: true,
            links: true,
            images: true,
            ids: true,
            css_attrs: true,
            br: true,
            sup: true,
            strike: true,
            wide: true,
            zero: true,
            unique: false,
            comments: true,
            unknown_elems: true,
            ol_start: 80,
            max_words: 6,
            href_digits: false,
            hidden_elems: false,
            digits: true,
            classes_only: false,
            exotic_hrefs: false,
            pre_inline: false,
            uspace: false,
        }
    }
    pub fn no_css(mut self) -> Knobs {
        self.css_attrs = false;
        self
    }
    pub fn no_tables(mut self) -> Knobs {
        self.tables = false;
        self.nested_tables = false;
        self
    }
    pub fn unique(mut self) -> Knobs {
        self.unique = true;
        self
    }
}

pub struct Gen<'a> {
    pub r: &'a mut R,
    pub k: Knobs,
    pub counter: usize,
    pub kinds: BTreeSet<&'static str>,
}

const WORDS: &[&str] = &["a", "bb", "ccc", "dddd", "eeeee", "hello", "world", "x", "longwordlongword", "wörld", "é"];
const WIDE: &[&str] = &["字", "字字", "日本語", "ａｂ"];
const ZERO: &[&str] = &["i\u{301}", "e\u{301}a"];
const DIGITS: &[&str] = &["12", "7"];

pub fn token_name(mut n: usize) -> String {
    const AL: &[u8] = b"bcdfghjklmnpqrstvwxz";
    let mut s = String::from("q");
    loop {
        s.push(AL[n % 20] as char);
        n /= 20;
        if n == 0 {
            break;
        }
    }
    s
}

impl<'a> Gen<'a> {
    pub fn new(r: &'a mut R, k: Knobs) -> Gen<'a> {
        Gen { r, k, counter: 0, kinds: BTreeSet::new() }
    }
    pub fn word(&mut self) -> String {
        let r = &mut *self.r;
        if self.k.unique {
            let mut s = token_name(self.counter);
            self.counter += 1;
            // vary the width
            for _ in 0..r.b(4) {
                s.push((b'a' + r.b(26) as u8) as char);
            }
            if self.k.wide && r.p(12) {
                s.push_str("字");
            }
            if self.k.zero && r.p(8) {
                s.push('\u{301}');
            }
            if r.p(4) {
                s.push_str("longlonglonglong");
            }
            return s;
        }
        let k = r.b(100);
        if self.k.wide && k < 12 {
            r.pick(WIDE).to_string()
        } else if self.k.zero && k < 18 {
            r.pick(ZERO).to_string()
        } else if k < 24 && self.k.digits {
            r.pick(DIGITS).to_string()
        } else {
            r.pick(WORDS).to_string()
        }
    }
    pub fn idattr(&mut self) -> String {
        let mut s = String::new();
        if self.k.ids && self.r.p(12) {
            if self.k.unique {
                s.push_str(&format!(" id=i{}", self.counter));
                self.counter += 1;
            } else {
                s.push_str(&format!(" id=i{}", self.r.b(12)));
            }
        }
        if self.k.css_attrs {
            let r = &mut *self.r;
            if r.p(22) {
                s.push_str(&format!(" class=\"{}\"", r.pick(&["a", "b", "a b", "c-d", "b  a", "a a", "a b a", "b b", "c-d a c-d", " a\tb "])));
            }
            if !self.k.classes_only && r.p(7) {
                s.push_str(&format!(
                    " style=\"{}\"",
                    r.pick(&["color:red", "color:#00ff00;background-color:#000", "display:none", "color:blue !important", "white-space:pre", "height:0;overflow:hidden", "color:red;;", "bogus", "white-space:pre-wrap"])
                ));
            }
            if !self.k.classes_only && r.p(3) {
                if r.p(35) {
                    s.push_str(r.pick(&[" color=red", " bgcolor=#123456", " bgcolor=00aabb", " color=\"#f00\""]));
                } else if r.p(30) {
                    s.push_str(&format!(" {}={}", r.pick(&["color", "bgcolor"]), r.pick(COLOUR_NAMES)));
                } else {
                    // legacy colour attributes with arbitrary values: hex digits with and without '#', short and long, with
                    // blanks, non-hex letters, functions and non-ASCII characters at every byte offset
                    const A: &[&str] = &["0", "1", "9", "a", "F", "c", "g", "z", "#", " ", "é", "字", "rgb(", ")", ",", "%", "-", ".", "\u{3000}", "\u{301}"];
                    let mut v = String::new();
                    for _ in 0..r.b(10) {
                        v.push_str(r.pick(A));
                    }
                    s.push_str(&format!(" {}=\"{}\"", r.pick(&["color", "bgcolor"]), v));
                }
            }
        }
        s
    }
    pub fn text(&mut self, out: &mut String) {
        let n = 1 + self.r.b(self.k.max_words);
        for i in 0..n {
            if i > 0 || self.r.p(30) {
                if self.k.uspace && self.r.p(15) {
                    let u: &str = self.r.pick(&["\u{a0}", "\u{2003}", "\u{2009}", "\u{3000}", "\u{1680}", "\u{205f}"]);
                    match self.r.b(3) {
                        0 => out.push_str(u),
                        1 => {
                            out.push_str(u);
                            out.push(' ');
                        }
                        _ => {
                            out.push(' ');
                            out.push_str(u);
                        }
                    }
                } else {
                    out.push_str(match self.r.b(5) {
                        0 => "  ",
                        1 => "\n",
                        _ => " ",
                    });
                }
            }
            let w = self.word();
            out.push_str(&w);
        }
        if self.k.uspace && self.r.p(10) {
            out.push_str(self.r.pick(&["\u{a0}", "\u{2003}", "\u{3000}"]));
        }
        if self.r.p(30) {
            out.push(' ');
        }
    }
    fn wrap_inline(&mut self, tag: &'static str, d: u32, out: &mut String) {
        self.kinds.insert(tag);
        let ida = self.idattr();
        out.push_str(&format!("<{tag}{ida}>"));
        self.inline(d - 1, out);
        out.push_str(&format!("</{tag}>"));
    }
    pub fn inline(&mut self, d: u32, out: &mut String) {
        let n = 1 + self.r.b(3);
        for _ in 0..n {
            let c = if d == 0 { 0 } else { self.r.b(16) };
            match c {
                0..=4 => self.text(out),
                5 => self.wrap_inline("em", d, out),
                6 => self.wrap_inline("strong", d, out),
                7 => self.wrap_inline("code", d, out),
                8 => {
                    self.kinds.insert("span");
                    let ida = self.idattr();
                    out.push_str(&format!("<span{ida}>"));
                    if self.r.p(85) {
                        self.inline(d - 1, out);
                    }
                    out.push_str("</span>");
                }
                9 if self.k.links => {
                    self.kinds.insert("a");
                    let ida = self.idattr();
                    let nm = if self.k.ids && self.r.p(25) {
                        if self.k.unique {
                            self.counter += 1;
                            format!(" name=nm{}", self.counter)
                        } else {
                            format!(" name=nm{}", self.r.b(5))
                        }
                    } else {
                        String::new()
                    };
                    if self.k.exotic_hrefs && self.r.p(60) {
                        // wide and zero-width characters at every offset parity, short and long
                        let mut h = String::from(*self.r.pick(&[&"http://", &"/", &"x", &""]));
                        for _ in 0..1 + self.r.b(14) {
                            h.push_str(self.r.pick(&["例", "え", "日本語", "a", "bc", "/", "e\u{301}", ".jp", "ページ", "x", "-", "字"]));
                        }
                        out.push_str(&format!("<a href=\"{h}\"{}>", if self.r.p(50) { format!("{ida}{nm}") } else { format!("{nm}{ida}") }));
                    } else if self.k.href_digits {
                        out.push_str(&format!("<a href=\"/{}/\"{}>", self.r.b(9), if self.r.p(50) { format!("{ida}{nm}") } else { format!("{nm}{ida}") }));
                    } else {
                        out.push_str(&format!("<a href=\"http://u{}/\"{}>", self.r.b(9), if self.r.p(50) { format!("{ida}{nm}") } else { format!("{nm}{ida}") }));
                    }
                    if self.r.p(92) {
                        self.inline(d - 1, out);
                    }
                    out.push_str("</a>");
                }
                10 => self.wrap_inline("i", d, out),
                11 if self.k.strike => {
                    let t = if self.r.p(50) { "s" } else { "del" };
                    self.wrap_inline(t, d, out)
                }
                12 if self.k.sup => {
                    self.kinds.insert("sup");
                    out.push_str("<sup>");
                    if self.k.digits && self.r.p(50) {
                        out.push_str("12");
                    } else {
                        self.inline(d - 1, out);
                    }
                    out.push_str("</sup>");
                }
                13 if self.k.br => {
                    self.kinds.insert("br");
                    out.push_str("<br>");
                }
                14 if self.k.images => {
                    self.kinds.insert("img");
                    let alt = self.word();
                    out.push_str(&format!("<img src=\"s{}.png\" alt=\"{alt}\">", self.r.b(3)));
                }
                15 if self.k.unknown_elems => self.wrap_inline("ins", d, out),
                _ => self.text(out),
            }
        }
    }
    fn item_content(&mut self, d: u32, out: &mut String) {
        if d == 0 || self.r.p(70) {
            self.inline(1, out);
        } else {
            self.blocks(d - 1, out);
        }
    }
    pub fn block(&mut self, d: u32, out: &mut String) {
        let c = if d == 0 { self.r.b(3) } else { self.r.b(14) };
        match c {
            0 | 1 => {
                self.kinds.insert("p");
                let ida = self.idattr();
                out.push_str(&format!("<p{ida}>"));
                self.inline(2, out);
                out.push_str("</p>");
            }
            2 => self.inline(2, out),
            3 => {
                self.kinds.insert("div");
                let ida = self.idattr();
                out.push_str(&format!("<div{ida}>"));
                self.blocks(d - 1, out);
                out.push_str("</div>");
            }
            4 if self.k.headings => {
                self.kinds.insert("h");
                let l = 1 + self.r.b(6);
                let ida = self.idattr();
                out.push_str(&format!("<h{l}{ida}>"));
                self.inline(1, out);
                out.push_str(&format!("</h{l}>"));
            }
            5 if self.k.lists => {
                self.kinds.insert("ul");
                let ida = self.idattr();
                out.push_str(&format!("<ul{ida}>"));
                for _ in 0..1 + self.r.b(4) {
                    // now and then a stray child that is not an item: empty or non-empty inline elements, text, a block
                    if self.r.p(6) {
                        let stray: &str = self.r.pick(&["<a></a>", "<a name=nm1></a>", "<span></span>", "<b></b>", "<a>x</a>", "<em>y</em>", "<p>z</p>", "<a href=\"/2/\"></a>", "<i> </i>"]);
                        out.push_str(stray);
                    }
                    let ida = self.idattr();
                    out.push_str(&format!("<li{ida}>"));
                    self.item_content(d, out);
                    out.push_str("</li>");
                    if self.r.p(30) {
                        out.push('\n');
                    }
                }
                if self.r.p(4) {
                    let stray: &str = self.r.pick(&["<a></a>", "<span></span>", "<code></code>", "<a>x</a>"]);
                    out.push_str(stray);
                }
                out.push_str("</ul>");
            }
            6 if self.k.lists => {
                self.kinds.insert("ol");
                let st = if self.r.p(self.k.ol_start) { self.r.pick(&[" start=3", " start=9", " start=-1", " start=98", " start=0", " start=-12", " start=999"]) } else { "" };
                let ida = self.idattr();
                out.push_str(&format!("<ol{st}{ida}>"));
                // source formatting between the items (whitespace text nodes inside the `ol`), and now and then enough
                // items for the number column to grow
                let many = self.r.p(8);
                let pretty = self.r.p(35);
                let n_items = if many { 5 + self.r.b(8) } else { 1 + self.r.b(4) };
                if pretty && self.r.p(60) {
                    out.push_str("\n  ");
                }
                for _ in 0..n_items {
                    let ida = self.idattr();
                    out.push_str(&format!("<li{ida}>"));
                    if many {
                        self.text(out);
                    } else {
                        self.item_content(d, out);
                    }
                    out.push_str("</li>");
                    if pretty && self.r.p(80) {
                        out.push_str(if self.r.p(50) { "\n  " } else { "\n" });
                    }
                }
                out.push_str("</ol>");
            }
            7 if self.k.quotes => {
                self.kinds.insert("blockquote");
                let ida = self.idattr();
                out.push_str(&format!("<blockquote{ida}>"));
                self.blocks(d - 1, out);
                out.push_str("</blockquote>");
            }
            8 if self.k.dl => {
                self.kinds.insert("dl");
                let ida = self.idattr();
                out.push_str(&format!("<dl{ida}>"));
                for _ in 0..1 + self.r.b(3) {
                    let ida = self.idattr();
                    out.push_str(&format!("<dt{ida}>"));
                    self.inline(1, out);
                    let ida = self.idattr();
                    out.push_str(&format!("</dt><dd{ida}>"));
                    self.item_content(d, out);
                    out.push_str("</dd>");
                }
                out.push_str("</dl>");
            }
            9 if self.k.pre => {
                self.kinds.insert("pre");
                let ida = self.idattr();
                out.push_str(&format!("<pre{ida}>"));
                for _ in 0..1 + self.r.b(3) {
                    if self.k.pre_inline && self.r.p(55) {
                        self.inline(2, out);
                        if self.r.p(70) {
                            out.push(' ');
                            self.text(out);
                        }
                    } else {
                        self.text(out);
                    }
                    out.push_str(match self.r.b(3) {
                        0 => "\n",
                        1 => "\t",
                        _ => "   ",
                    });
                }
                out.push_str("</pre>");
            }
            10 => {
                if self.k.tables && self.r.p(60) {
                    self.table(d - 1, out);
                } else if self.k.unknown_elems {
                    self.kinds.insert("section");
                    let ida = self.idattr();
                    out.push_str(&format!("<section{ida}>"));
                    self.blocks(d - 1, out);
                    out.push_str("</section>");
                } else {
                    self.inline(2, out);
                }
            }
            11 if self.k.comments => out.push_str("<!-- c -->\n"),
            12 if self.k.hidden_elems => {
                let w = self.word();
                out.push_str(&match self.r.b(3) {
                    0 => format!("<script>{w}</script>"),
                    1 => format!("<style>{w}</style>"),
                    _ => format!("<hr><link rel={w}>"),
                });
            }
            _ => {
                self.kinds.insert("p");
                out.push_str("<p>");
                self.inline(2, out);
                out.push_str("</p>");
            }
        }
    }
    pub fn table(&mut self, d: u32, out: &mut String) {
        self.kinds.insert("table");
        let ida = self.idattr();
        out.push_str(&format!("<table{ida}>"));
        let rows = 1 + self.r.b(4);
        let cols = (1 + self.r.b(4)) as usize;
        let sect = self.r.b(3);
        // sparse tables: some columns hold nothing in any row (spacer columns), cells spanning only such columns included —
        // those columns get width 0 and a spanning cell over them must vanish with them (added after the seeded change
        // C05-colspan-over-empty-columns-phantom-width was missed by every stream)
        let dead: Vec<bool> = if cols >= 2 && self.r.p(10) { (0..cols).map(|_| self.r.p(45)).collect() } else { vec![false; cols] };
        if sect == 1 {
            out.push_str("<thead>");
        }
        for ri in 0..rows {
            if sect == 1 && ri == 1 {
                out.push_str("</thead><tbody>");
            }
            let ida = self.idattr();
            out.push_str(&format!("<tr{ida}>"));
            let mut c = 0;
            while c < cols {
                let span: usize = if self.r.p(25) { 1 + self.r.u(cols - c) } else { 1 };
                let weird = self.k.weird_colspan && self.r.p(4);
                let tag = if self.r.p(20) { "th" } else { "td" };
                let ida = self.idattr();
                if weird {
                    out.push_str(&format!("<{tag}{ida} colspan={}>", [0u64, 7, 1000000, 3][self.r.u(4)]));
                } else if span > 1 {
                    out.push_str(&format!("<{tag}{ida} colspan={span}>"));
                } else {
                    out.push_str(&format!("<{tag}{ida}>"));
                }
                let all_dead = !weird && (c..(c + span).min(cols)).all(|j| dead[j]);
                match if all_dead { 0 } else { self.r.b(10) } {
                    0 => {
                        if all_dead && self.r.p(25) {
                            out.push(' ');
                        }
                    }
                    1..=6 => self.inline(1, out),
                    7 => {
                        if d > 0 {
                            self.blocks(d - 1, out);
                        } else {
                            self.inline(1, out);
                        }
                    }
                    8 => {
                        if d > 0 && self.k.nested_tables {
                            self.table(d - 1, out);
                        } else {
                            self.text(out);
                        }
                    }
                    _ => self.text(out),
                }
                out.push_str(&format!("</{tag}>"));
                c += span;
                if self.k.weird_colspan && self.r.p(5) {
                    break;
                }
            }
            out.push_str("</tr>");
        }
        out.push_str("</table>");
    }
    pub fn blocks(&mut self, d: u32, out: &mut String) {
        for _ in 0..1 + self.r.b(3) {
            self.block(d, out);
            if self.r.p(40) {
                out.push_str("\n  ");
            }
        }
    }
    pub fn doc(&mut self) -> String {
        let mut s = String::new();
        let d = self.k.depth;
        self.blocks(d, &mut s);
        s
    }
}

// ---------------------------------------------------------------------------------------------
// G-css

fn ws(r: &mut R) -> String {
    match r.b(8) {
        0 => "".into(),
        1 => " ".into(),
        2 => "\n  ".into(),
        3 => (*r.pick(&[&" /* c */ ", &"/* x **/", &"/***/", &"/** d */"])).into(),
        4 => "\t".into(),
        5 => "/**/".into(),
        _ => " ".into(),
    }
}
fn ows(r: &mut R) -> String {
    if r.p(50) {
        ws(r)
    } else {
        String::new()
    }
}
fn case(r: &mut R, s: &str) -> String {
    if r.p(20) {
        s.to_uppercase()
    } else {
        s.to_string()
    }
}
pub fn selector(r: &mut R) -> String {
    let mut s = String::new();
    let n = 1 + r.b(3);
    for i in 0..n {
        if i > 0 {
            s.push_str(r.pick(&[" ", " > ", ">", "  ", " * ", " "]));
        }
        if r.p(70) {
            s.push_str(r.pick(&["p", "div", "li", "strong", "em", "h1", "table", "td", "span", "ul", "tr", "a", "code", "dt", "blockquote", "body"]));
        } else if r.p(30) {
            s.push('*');
        }
        if r.p(30) {
            s.push_str(r.pick(&[".a", ".b", ".c-d", ".a.b", ".b.a", ".a.a", ".a.b.a", ".c-d.a"]));
        }
        if r.p(15) {
            s.push_str(r.pick(&["#i1", "#i2", "#i3", "#i7", "#nm1", "#nm2", "#nm4", "#nm0"]));
        }
        if r.p(15) {
            s.push_str(&format!(":nth-child({})", r.pick(&["2n+1", "odd", "even", "3", "n", "-n+3", "2n", "-2n-1", "+3n - 2", "2n +1", "0n+0", "10n+11", "99999999999", "-n-2147483647", "3n+99999999999"])));
        }
    }
    if s.is_empty() {
        s.push('p');
    }
    if r.p(8) {
        s.push_str(r.pick(&["::before", "::after", ":hover", "::x"]));
    }
    s
}
/// the seventeen colour keywords the library knows, and a few it does not (added after mutations of two table entries survived)
pub const COLOUR_NAMES: &[&str] = &[
    "aqua", "black", "blue", "fuchsia", "gray", "green", "lime", "maroon", "navy", "olive", "orange", "purple", "red", "silver", "teal", "white", "yellow",
    "grey", "cyan", "magenta", "pink", "Aqua", "MAROON",
];
pub fn decl(r: &mut R) -> String {
    let (p, v): (String, String) = match r.b(12) {
        0 | 1 => ("color".into(), r.pick(&["red", "#123", "#aBcDeF", "rgb(1,2,3)", "rgb( 10 , 20 , 30 )", "inherit", "#12", "rgb(300,0,0)", "BLUE", "#gggggg", "rgb(1 2 3)"]).to_string()),
        2 => (r.pick(&["color", "color", "background-color"]).to_string(), r.pick(COLOUR_NAMES).to_string()),
        3 => ("background-color".into(), r.pick(&["white", "#fff", "#000000", "transparent"]).to_string()),
        4 => ("background".into(), r.pick(&["red", "url(x.png), #123", "no-repeat", "#fff url(x)"]).to_string()),
        5 => ("display".into(), r.pick(&["none", "block", "inline none", "NONE"]).to_string()),
        6 => (r.pick(&["height", "max-height"]).to_string(), r.pick(&["0", "0px", "10px", "0.0em", "auto", "1", "0 0", ".0cm", "0xyz", "-0"]).to_string()),
        7 => (r.pick(&["overflow", "overflow-y"]).to_string(), r.pick(&["hidden", "visible", "scroll", "auto", "foo hidden", "clip"]).to_string()),
        8 => ("white-space".into(), r.pick(&["pre", "pre-wrap", "normal", "nowrap"]).to_string()),
        9 => ("content".into(), r.pick(&["\"*\"", "'x' \"y\"", "\"a\\\"b\"", "none", "\"unterminated"]).to_string()),
        _ => (
            r.pick(&["margin", "font-size", "-x-foo", "border", "quotes", "font-family", "list-style-type"]).to_string(),
            r.pick(&[
                "1px solid", "12pt", "a(b(c))", "50%", "1.5em", "+3", "-4", "10 px", "url(a)",
                // delimiters inside strings, comments and brackets of values the library ignores
                "\"a;b\"", "'x}y'", "\"{\" \"}\"", "0 /* ; */ 1px", "a /* } */ b", "\"a\\\";b\"", "f(a;b)", "[x;y]", "'q' /*{*/ \"r;\"",
            ])
            .to_string(),
        ),
    };
    let imp = if r.p(15) { r.pick(&[" !important", "!important", " ! important", "!IMPORTANT"]) } else { "" };
    format!("{}{}:{}{}{}", case(r, &p), ows(r), ows(r), v, imp)
}
pub fn ruleset(r: &mut R) -> String {
    let mut s = String::new();
    let ns = 1 + r.b(2);
    for i in 0..ns {
        if i > 0 {
            s.push(',');
            s.push_str(&ows(r));
        }
        s.push_str(&selector(r));
    }
    s.push_str(&ows(r));
    s.push('{');
    s.push_str(&ows(r));
    let nd = r.b(4);
    for i in 0..nd {
        s.push_str(&decl(r));
        if i + 1 < nd || r.p(75) {
            s.push(';');
            if r.p(10) {
                s.push(';');
            }
        }
        s.push_str(&ows(r));
    }
    s.push('}');
    s
}
pub fn sheet(r: &mut R) -> String {
    let mut s = ows(r);
    for _ in 0..1 + r.b(4) {
        match r.b(10) {
            0 => s.push_str(r.pick(&["@media print { p{color:red;} }", "@import 'x';", "@charset \"u\";", "@x [a(b)] {c}", "@font-face{font-family:x;}", "@media (a:b) and (c) { }", "@x # ;", "@import url(https://f.example/css2?family=R:wght@400;700&display=swap);", "@import url(data:text/css;base64,cHt9);", "@x-junk [a;b] foo;", "@y (a;b) [c;(d;e)] ;", "@z f(a;b){q{r:s;}}"])),
            1 => s.push_str(r.pick(&["%%% {x:y;}", "p{{}}", "} p{color:red;}", "p{color:red;", "<!-- p{color:red;} -->", "p{color:é;}", ".é{color:red;}",
                // selectors the grammar accepts although no style guide would: leading and repeated child combinators, whose
                // matching climbs past the root element to the document node (added after a mutation of `CombChild` on a
                // node without parent, first judged equivalent, turned out to be reachable through `a > > b`)
                "> > html{color:#010203}", "> > > body{background-color:#040506}", ">>>>>> em{color:#070809}", "> > > > > > li{color:#0a0b0c}",
                "div > > p{color:#0d0e0f}", "* > > > > *{background-color:#101112}", "> p{color:#131415}", "> > > > p{color:#161718}",
                "ul > > > > > li{color:#191a1b}", "> html{color:#1c1d1e}",
                // escapes of six hex digits directly followed by a further hex digit, which belongs to the name (`\0000691` is
                // `i1`, `\000074d` is `td`; added after a mutation of the six-digit limit survived)
                "#\\0000691{background-color:#1f2021}", "\\000074d{color:#222324}", "\\000064d{color:#252627}", ".\\000063-d{color:#28292a}",
                "#\\0000692{color:#2b2c2d}", "\\00006ci{color:#2e2f30}"])),
            2 => {
                // generated content on every kind of element, table parts included (insert_child at the start and at the end)
                let el = *r.pick(&[&"p", &"div", &"li", &"ul", &"ol", &"table", &"tr", &"td", &"th", &"tbody", &"blockquote", &"h1", &"h2", &"a", &"span", &"em", &"pre", &"dl", &"dt", &"dd", &"code", &"strong"]);
                let pe = *r.pick(&[&"::before", &"::after", &"::after", &":before", &":after"]);
                let c = *r.pick(&[&"\"[x]\"", &"'»'", &"\"a b\"", &"\"\"", &"'字'"]);
                s.push_str(&format!("{el}{pe}{{content:{c}}}"));
            }
            _ => s.push_str(&ruleset(r)),
        }
        s.push_str(&ws(r));
    }
    s
}
/// token soup over the CSS token alphabet
pub fn css_soup(r: &mut R) -> String {
    const T: &[&str] = &[
        "p", "div", ".a", "#i1", "#", "{", "}", "(", ")", "[", "]", ":", ";", ",", ">", "*", "+", "-", "--", "-->", "<!--", "@", "@media", "@x", "!", "important", "color", "red", "#fff", "\"", "'", "\\", "\\41 ", "\\", "/*", "*/", "/", " ", "\n", "\t", "0", "1px",
        ".5em", "50%", "rgb(", "url(", "nth-child", ":nth-child(", "2n+1", "n", "odd", "é", "字", "\u{0}", "::before", "display", "none", "content",
    ];
    let n = r.b(25);
    let mut s = String::new();
    for _ in 0..n {
        s.push_str(r.pick(T));
        if r.p(30) {
            s.push(' ');
        }
    }
    s
}

// ---------------------------------------------------------------------------------------------
// G-misnest: structured mis-nesting.  A formatting element is opened in front of a block element and closed somewhere
// inside it (`<b><p>a <i>b</i> c</b> d</p>`): the HTML parser's adoption-agency repair then moves the block's children
// (`reparent_children` in the crate's own tree sink) — with one, two or many children at that moment.

pub fn misnest(r: &mut R, src: &str) -> String {
    const BLOCKS: [&str; 12] = ["p", "div", "li", "blockquote", "h1", "h2", "h3", "dd", "dt", "td", "pre", "ul"];
    const FMT: [&str; 10] = ["b", "i", "em", "strong", "s", "code", "u", "a href=\"/0/\"", "del", "font"];
    let b = src.as_bytes();
    // positions of start tags of block elements
    let mut starts: Vec<(usize, &str)> = Vec::new();
    let mut i = 0;
    while i < b.len() {
        if b[i] == b'<' {
            for name in BLOCKS {
                let nb = name.as_bytes();
                if b[i + 1..].starts_with(nb) && matches!(b.get(i + 1 + nb.len()), Some(b'>') | Some(b' ')) {
                    starts.push((i, name));
                }
            }
        }
        i += 1;
    }
    if starts.is_empty() {
        return format!("<b><p>{} <i>x</i> y</b> z</p>", src);
    }
    let (at, name) = starts[r.u(starts.len())];
    // the matching end tag: the next `</name>` at depth 0 of the same name
    let open = format!("<{}", name);
    let close = format!("</{}>", name);
    let mut depth = 0i32;
    let mut j = at + 1;
    let mut end = src.len();
    while j < b.len() {
        if b[j..].starts_with(close.as_bytes()) {
            if depth == 0 {
                end = j;
                break;
            }
            depth -= 1;
        } else if b[j..].starts_with(open.as_bytes()) && matches!(b.get(j + open.len()), Some(b'>') | Some(b' ')) {
            depth += 1;
        }
        j += 1;
    }
    // candidate positions for the formatting end tag: tag boundaries strictly inside the block, later ones preferred
    let inner_start = b[at..].iter().position(|&x| x == b'>').map(|k| at + k + 1).unwrap_or(at + 1).min(end);
    let mut cands: Vec<usize> = (inner_start..end).filter(|&k| b[k] == b'<' || (k > 0 && b[k - 1] == b'>')).collect();
    if cands.is_empty() {
        cands.push(end.min(src.len()));
    }
    let k = if r.p(60) { cands[cands.len() - 1 - r.u(cands.len().min(3))] } else { cands[r.u(cands.len())] };
    let f = FMT[r.u(FMT.len())];
    let fname = f.split(' ').next().unwrap();
    let mut out = String::with_capacity(src.len() + 24);
    out.push_str(&src[..at]);
    out.push_str(&format!("<{}>", f));
    out.push_str(&src[at..k]);
    out.push_str(&format!("</{}>", fname));
    out.push_str(&src[k..]);
    out
}

// ---------------------------------------------------------------------------------------------
// G-mut

pub fn mutate(r: &mut R, src: &[u8]) -> Vec<u8> {
    let mut v = src.to_vec();
    let n = 1 + r.b(4);
    for _ in 0..n {
        if v.is_empty() {
            v.push(b'<');
            continue;
        }
        let i = r.u(v.len());
        match r.b(9) {
            0 => v[i] ^= 1 << r.b(8),
            1 => {
                v.remove(i);
            }
            2 => {
                let j = (i + 1 + r.u(8)).min(v.len());
                let seg = v[i..j].to_vec();
                for (k, b) in seg.iter().enumerate() {
                    v.insert(j + k, *b);
                }
            }
            3 => {
                let j = r.u(v.len());
                let (a, b) = (i.min(j), i.max(j));
                let seg = v[a..b.min(a + 12)].to_vec();
                let at = r.u(v.len());
                for (k, b) in seg.iter().enumerate() {
                    v.insert(at + k, *b);
                }
            }
            4 => v.truncate(i),
            5 => v.insert(i, *r.pick(&[&b'<', &b'&', &b'"', &b'\'', &b'>', &b'/', &b'=', &b' '])),
            6 => v.insert(i, *r.pick(&[&0u8, &0xffu8, &0xc3u8, &0x80u8, &0x0bu8, &0x1bu8, &0x7fu8, &0xe2u8])),
            7 => {
                let t: &[u8] = r.pick::<[u8]>(&[b"<table>", b"</td>", b"<tr>", b"<li>", b"</p>", b"<pre>", b"<a href=x>", b"</a>", b"<td colspan=3>", b"<ol start=5>", b"<blockquote>", b"&#x301;", b"&nbsp;", b"<br>", b"<style>", b"</style>"]);
                for (k, b) in t.iter().enumerate() {
                    v.insert(i + k, *b);
                }
            }
            _ => {
                let j = (i + 1 + r.u(6)).min(v.len());
                v.drain(i..j);
            }
        }
    }
    v
}
