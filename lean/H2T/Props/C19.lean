import H2T.Lemmas.Cascade

/-! # C19 — competing declarations are resolved by the CSS cascade

`Css.cascadeRef` is the reference: order declarations by layer
(agent < user < author < author! < user! < agent!), then by specificity (inline, ids, classes, types), and
let the later of two equally ranked declarations win.  The theorem says that folding
`WithSpec::maybe_update` (as transcribed in `H2T/Css/Cascade.lean`) over *any* list of declarations, in the
order `computed_style` visits them, yields the reference's answer. -/

namespace H2T.C19
open H2T.Css

/-- **C19 (full, model level).** For every non-empty list of declarations with real origins the code's fold and
    the reference cascade choose the same value. -/
theorem cascade_is_reference (d : Dcl) (ds : List Dcl) (hreal : ∀ x ∈ d :: ds, x.origin.real) :
    (foldImpl WithSpec.maybeUpdate {} (d :: ds)).val = (cascadeRef (d :: ds)).map (·.val) :=
  cascade_correct_from_empty d ds hreal

/-- the holder after the fold is exactly the reference winner (origin, specificity and importance included) -/
theorem cascade_holder (c : Dcl) (ds : List Dcl) (hc : c.origin.real) (hreal : ∀ d ∈ ds, d.origin.real) :
    foldImpl WithSpec.maybeUpdate (hold c) ds = hold (cascadeFrom c ds) :=
  cascade_correct ds c hc hreal

/-- the reference picks a member of the list -/
theorem reference_is_member (c : Dcl) (ds : List Dcl) : cascadeFrom c ds = c ∨ cascadeFrom c ds ∈ ds :=
  cascadeFrom_mem ds c

/-- layers are ordered as CSS orders them -/
theorem layer_order :
    layer false .agent < layer false .user ∧ layer false .user < layer false .author ∧
    layer false .author < layer true .author ∧ layer true .author < layer true .user ∧
    layer true .user < layer true .agent := by decide

/-! non-vacuity and the two regression witnesses of the repaired defect -/

/-- author `!important` after user normal: the author declaration wins (it lost before the fix) -/
example :
    let user : Dcl := ⟨false, .user, { typ := 1 }, 1⟩
    let author : Dcl := ⟨true, .author, { typ := 1 }, 2⟩
    (foldImpl WithSpec.maybeUpdate {} [user, author]).val = some 2 ∧ cascadeRef [user, author] = some author := by
  decide

/-- different origins are not compared by specificity: author `p` beats user `#id`, both normal -/
example :
    let user : Dcl := ⟨false, .user, { id := 1 }, 1⟩
    let author : Dcl := ⟨false, .author, { typ := 1 }, 2⟩
    (foldImpl WithSpec.maybeUpdate {} [user, author]).val = some 2 ∧ cascadeRef [user, author] = some author := by
  decide

/-- inline beats an id selector within the same layer; a later equal declaration wins -/
example :
    let a : Dcl := ⟨false, .author, { id := 1 }, 1⟩
    let b : Dcl := ⟨false, .author, { inline := true }, 2⟩
    let c : Dcl := ⟨false, .author, { inline := true }, 3⟩
    (foldImpl WithSpec.maybeUpdate {} [b, a, c]).val = some 3 := by decide

end H2T.C19
