import H2T.Lemmas.TagTextTable

/-! C03/C12 from the C09 `<pre>` theorem: with every tag erased, `renderTree_tagsN` says that a table-free rendering —
    `<pre>` blocks included, hard-wrapped or not — holds exactly the tree's visible characters, in document order. -/

namespace H2T

theorem vw_noTags_ch (P : Ch → Bool) (l : List Cell) : (vw noTags P l).map (·.ch) = (l.map (·.ch)).filter P := by
  induction l with
  | nil => rfl
  | cons c l ih =>
    simp only [vw, pf, List.map_cons, List.filter_cons] at ih ⊢
    by_cases hp : P c.ch = true
    · simp [retag, hp, ih]
    · simp [retag, hp, ih]

/-- **exact conservation, `<pre>` included**: the `P`-characters of a table-free rendering are those of the specification,
    in order -/
theorem renderTree_chars_pre (P : Ch → Bool) (cfg : Cfg) (d : Deco) (w : Nat) (tree : RNode) (ls : List RLine) (hfn : cfg.footnotes = false)
    (hd : DecoAvoids P d) (ht : noTable tree = true) (h : renderTree cfg d w tree = .ok ls) :
    (ls.flatMap rink).filter P = ((nodeTN noTags cfg d [] 0 0 tree).map (·.ch)).filter P := by
  have hok := preOk_compile P cfg d hd tree ht
  have h1 := renderTree_tagsN noTags P cfg d (noTags_preView d) w tree ls hfn hd ht h
  rw [flatMap_rink_eq ls (renderTree_text_lines cfg d w tree ls hfn (preOks_tableFree P _ hok) h), ← vw_noTags_ch, h1, pf_map_ch]

mutual
theorem nodeTN_chars (ν : Tag → Tag) (cfg : Cfg) (d : Deco) (hu : cfg.unicodeStrike = false) : (n : RNode) → (st : Tag) → (pre : Nat) →
    noTable n = true → (nodeTN ν cfg d st 0 pre n).map (·.ch) = nodeRaw d n
  | .text sty s, st, pre, _ => by simp [nodeTN, nodeRaw, tcellsN_ch]
  | .img sty a b, st, pre, _ => by simp [nodeTN, nodeRaw, tcellsN_ch]
  | .br _, _, _, _ => by simp [nodeTN, nodeRaw]
  | .frag _, _, _, _ => by simp [nodeTN, nodeRaw]
  | .row _ _, _, _, _ => by simp [nodeTN, nodeRaw]
  | .tbody _ _, _, _, _ => by simp [nodeTN, nodeRaw]
  | .table _ _ _, _, _, h => by simp [noTable] at h
  | .cell sty _ kids, st, pre, h => by
    simp only [noTable] at h
    simp [nodeTN, nodeRaw, listTN_chars ν cfg d hu kids _ _ h]
  | .box sty k kids, st, pre, h => by
    simp only [noTable] at h
    have hb := fun s p => listTN_chars ν cfg d hu kids s p h
    cases k with
    | container => simp [nodeTN, nodeRaw, hb]
    | link href => simp [nodeTN, nodeRaw, hb, tcellsN_ch]
    | em => simp [nodeTN, nodeRaw, hb, tcellsN_ch]
    | strong => simp [nodeTN, nodeRaw, hb, tcellsN_ch]
    | strike => simp [nodeTN, nodeRaw, hb, tcellsN_ch, hu]
    | code => simp [nodeTN, nodeRaw, hb, tcellsN_ch]
    | block => simp [nodeTN, nodeRaw, hb]
    | li => simp [nodeTN, nodeRaw, hb]
    | header lvl => simp [nodeTN, nodeRaw, hb]
    | div => simp [nodeTN, nodeRaw, hb]
    | quote => simp [nodeTN, nodeRaw, hb]
    | ul => simp [nodeTN, nodeRaw, itemsTN_chars ν cfg d hu kids _ h]
    | ol start => simp [nodeTN, nodeRaw, itemsTN_chars ν cfg d hu kids _ h]
    | dl => simp [nodeTN, nodeRaw, hb]
    | dt => simp [nodeTN, nodeRaw, hb, tcellsN_ch]
    | dd => simp [nodeTN, nodeRaw, hb]
    | sup =>
      simp only [nodeTN, nodeRaw]
      cases hsd : supDigits kids with
      | some ds => simp [tcellsN_ch]
      | none => simp [hb, tcellsN_ch]
theorem listTN_chars (ν : Tag → Tag) (cfg : Cfg) (d : Deco) (hu : cfg.unicodeStrike = false) : (ns : List RNode) → (st : Tag) → (pre : Nat) →
    noTableL ns = true → (listTN ν cfg d st 0 pre ns).map (·.ch) = listRaw d ns
  | [], _, _, _ => by simp [listTN, listRaw]
  | n :: ns, st, pre, h => by
    simp only [noTableL, Bool.and_eq_true] at h
    simp [listTN, listRaw, nodeTN_chars ν cfg d hu n _ _ h.1, listTN_chars ν cfg d hu ns _ _ h.2]
theorem itemsTN_chars (ν : Tag → Tag) (cfg : Cfg) (d : Deco) (hu : cfg.unicodeStrike = false) : (ns : List RNode) → (st : Tag) →
    noTableL ns = true → (itemsTN ν cfg d st ns).map (·.ch) = listRaw d ns
  | [], _, _ => by simp [itemsTN, listRaw]
  | n :: ns, st, h => by
    simp only [noTableL, Bool.and_eq_true] at h
    simp [itemsTN, listRaw, nodeTN_chars ν cfg d hu n _ _ h.1, itemsTN_chars ν cfg d hu ns _ h.2]
end

/-- …against the tree's raw text -/
theorem renderTree_chars_pre_raw (P : Ch → Bool) (cfg : Cfg) (d : Deco) (w : Nat) (tree : RNode) (ls : List RLine) (hfn : cfg.footnotes = false)
    (hu : cfg.unicodeStrike = false) (hd : DecoAvoids P d) (ht : noTable tree = true) (h : renderTree cfg d w tree = .ok ls) :
    (ls.flatMap rink).filter P = (nodeRaw d tree).filter P := by
  rw [renderTree_chars_pre P cfg d w tree ls hfn hd ht h, nodeTN_chars noTags cfg d hu tree [] 0 ht]

end H2T
