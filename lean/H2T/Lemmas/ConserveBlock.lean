import H2T.Lemmas.Conserve
import H2T.Lemmas.RenderTotal

/-! C03, block layer: for table-free programs whose sub-renderer prefixes are whitespace (the trivial decorator; inline
    content under any decorator), the non-whitespace characters of the rendered lines are exactly the non-whitespace,
    non-control characters of the texts the program adds, in program order. -/

namespace H2T

/-- the ink of a rendered line; a rule counts with its box-drawing characters (it is printed as such when prefixed) -/
def rink : RLine → List Ch
  | .text tl => ink tl
  | .rule b _ => b.chars

/-- everything a sub-renderer holds, in output order -/
def SubR.ink (s : SubR) : List Ch :=
  s.lines.flatMap rink ++ (match s.wrapping with | some w => w.ink | none => [])

theorem ink_fragsOnly (l : List Elt) (h : fragsOnly l) : ink l = [] := by
  induction l with
  | nil => rfl
  | cons e l ih =>
    have he := h e (by simp)
    cases e with
    | cell c => simp [Elt.isCell] at he
    | frag n => simp only [ink, List.filterMap_cons]; exact ih (fun x hx => h x (by simp [hx]))

/-- pending fragment markers carry no ink (invariant of every reachable sub-renderer) -/
def SubR.FragsOk (s : SubR) : Prop := fragsOnly s.pendingFrags

theorem addLine_ink (s : SubR) (l : RLine) (hf : s.FragsOk) :
    (s.addLine l).ink = s.lines.flatMap rink ++ rink l ++ (match s.wrapping with | some w => w.ink | none => []) ∧ (s.addLine l).FragsOk := by
  cases l with
  | rule b t => exact ⟨by simp [SubR.addLine, SubR.ink], hf⟩
  | text tl =>
    simp only [SubR.addLine]
    split
    · exact ⟨by simp [SubR.ink], hf⟩
    · refine ⟨by simp [SubR.ink, rink, ink_append, ink_fragsOnly _ hf], ?_⟩
      intro e he; simp at he

/-- adding lines to a renderer with nothing pending -/
theorem addLines_ink (ls : List RLine) : ∀ (s : SubR), s.FragsOk → s.wrapping = none →
    (s.addLines ls).ink = s.ink ++ ls.flatMap rink ∧ (s.addLines ls).FragsOk ∧ (s.addLines ls).wrapping = none := by
  induction ls with
  | nil => intro s hf hw; simp [SubR.addLines, hf, hw]
  | cons l ls ih =>
    intro s hf hw
    obtain ⟨a1, a2⟩ := addLine_ink s l hf
    have hw1 : (s.addLine l).wrapping = none := by rw [addLine_wrapping]; exact hw
    obtain ⟨b1, b2, b3⟩ := ih (s.addLine l) a2 hw1
    refine ⟨?_, b2, b3⟩
    show ((s.addLine l).addLines ls).ink = _
    rw [b1, a1]
    simp [SubR.ink, hw, List.append_assoc]

theorem flushWrapping_ink (s s' : SubR) (hf : s.FragsOk) (h : s.flushWrapping = .ok s') :
    s'.ink = s.ink ∧ s'.FragsOk ∧ s'.wrapping = none := by
  unfold SubR.flushWrapping at h
  cases hw : s.wrapping with
  | none => simp only [hw] at h; injection h with h; subst h; exact ⟨rfl, hf, hw⟩
  | some w =>
    simp only [hw] at h
    generalize hw' : (if w.word.noContent = true then { w with word := [] } else w) = w' at h
    have hink : w'.ink = w.ink := by
      rw [← hw']; split
      · rename_i hn; simp [WB.ink, ink_noContent _ hn, ink_nil]
      · rfl
    cases hfin : w'.finish with
    | error e => simp [hfin, andThen] at h
    | ok ls =>
      simp only [hfin, andThen] at h
      injection h with h; subst h
      have h0f : ({ s with wrapping := none } : SubR).FragsOk := hf
      obtain ⟨a1, a2, a3⟩ := addLines_ink (ls.map RLine.text) _ h0f rfl
      refine ⟨?_, ?_, a3⟩
      · show (({ s with wrapping := none } : SubR).addLines (ls.map RLine.text)).lines.flatMap rink ++ _ = _
        have : (({ s with wrapping := none } : SubR).addLines (ls.map RLine.text)).ink = s.lines.flatMap rink ++ w.ink := by
          rw [a1]
          have e := finish_ink w' ls hfin
          simp only [SubR.ink, List.append_nil]
          rw [List.flatMap_map]
          show s.lines.flatMap rink ++ ls.flatMap ink = _
          rw [e, hink]
        simp only [SubR.ink, a3] at this ⊢
        simp only [hw]
        exact this
      · intro e he
        simp only [List.mem_append] at he
        rcases he with h1 | h1
        · exact a2 e h1
        · split at h1
          · rename_i hn; exact noContent_fragsOnly _ hn e h1
          · simp at h1

theorem addEmptyLine_ink (s s' : SubR) (hf : s.FragsOk) (h : s.addEmptyLine = .ok s') : s'.ink = s.ink ∧ s'.FragsOk := by
  unfold SubR.addEmptyLine at h
  cases h1 : s.flushWrapping with
  | error e => simp [h1, andThen] at h
  | ok s1 =>
    simp only [h1, andThen] at h; injection h with h; subst h
    obtain ⟨a1, a2, a3⟩ := flushWrapping_ink s s1 hf h1
    obtain ⟨b1, b2⟩ := addLine_ink s1 (.text []) a2
    refine ⟨?_, b2⟩
    show (s1.addLine (.text [])).ink = s.ink
    rw [b1, ← a1]
    simp [SubR.ink, rink, ink_nil, a3]

theorem startBlock_ink (s s' : SubR) (hf : s.FragsOk) (h : s.startBlock = .ok s') : s'.ink = s.ink ∧ s'.FragsOk := by
  unfold SubR.startBlock at h
  cases h1 : s.flushWrapping with
  | error e => simp [h1, andThen] at h
  | ok s1 =>
    simp only [h1, andThen] at h
    obtain ⟨a1, a2, _⟩ := flushWrapping_ink s s1 hf h1
    generalize hr : (if s1.lines.any RLine.hasContent = true then s1.addEmptyLine else Except.ok s1) = r at h
    cases r with
    | error e => simp at h
    | ok s2 =>
      simp only at h; injection h with h; subst h
      have e2 : s2.ink = s1.ink ∧ s2.FragsOk := by
        split at hr
        · exact addEmptyLine_ink s1 s2 a2 hr
        · injection hr with hr; subst hr; exact ⟨rfl, a2⟩
      exact ⟨e2.1.trans a1, e2.2⟩

theorem newLineHard_ink (s s' : SubR) (hf : s.FragsOk) (h : s.newLineHard = .ok s') : s'.ink = s.ink ∧ s'.FragsOk := by
  unfold SubR.newLineHard at h
  split at h
  · exact addEmptyLine_ink s s' hf h
  · split at h
    · exact addEmptyLine_ink s s' hf h
    · obtain ⟨a, b, _⟩ := flushWrapping_ink s s' hf h; exact ⟨a, b⟩

theorem strikeFilter_ws (x : List Ch) (h : x.all chIsWs = true) : strikeFilter x = x := by
  induction x with
  | nil => rfl
  | cons c cs ih =>
    simp only [List.all_cons, Bool.and_eq_true] at h
    have hc : c.ws = true := h.1
    have := ih h.2
    simp only [strikeFilter, List.flatMap_cons] at this ⊢
    rw [this]; simp [hc]

theorem keep_filtered_ws (n : Nat) (x : List Ch) (h : x.all chIsWs = true) : keep (iterN strikeFilter n x) = [] := by
  induction n generalizing x with
  | zero =>
    simp only [iterN, keep]
    induction x with
    | nil => rfl
    | cons c cs ih =>
      simp only [List.all_cons, Bool.and_eq_true] at h
      have hc : c.ws = true := h.1
      have := ih h.2
      simp only [List.filter_cons, hc, Bool.not_true, Bool.false_and, Bool.false_eq_true, if_false]
      exact this
  | succ n ih => simp only [iterN]; rw [strikeFilter_ws x h]; exact ih x h

theorem getWrapping_ink (s : SubR) (cfg : Cfg) : (s.getWrapping cfg).ink = (match s.wrapping with | some w => w.ink | none => []) := by
  unfold SubR.getWrapping
  cases s.wrapping with
  | some w => rfl
  | none => rfl

theorem addInlineText_ink (s s' : SubR) (cfg : Cfg) (x : List Ch) (f : Ann → Ann) (hf : s.FragsOk)
    (h : s.addInlineText cfg x f = .ok s') :
    s'.ink = s.ink ++ keep (iterN strikeFilter s.filterDepth x) ∧ s'.FragsOk ∧ s'.filterDepth = s.filterDepth := by
  unfold SubR.addInlineText at h
  split at h
  · rename_i hc
    injection h with h; subst h
    simp only [Bool.and_eq_true] at hc
    rw [keep_filtered_ws _ _ hc.2]; simp [hf]
  · generalize hs0 : (if s.atBlockEnd = true then s.startBlock else Except.ok s) = r0 at h
    cases r0 with
    | error e => simp [andThen] at h
    | ok s0 =>
      have e0 : s0.ink = s.ink ∧ s0.FragsOk ∧ s0.filterDepth = s.filterDepth := by
        split at hs0
        · obtain ⟨a, b⟩ := startBlock_ink s s0 hf hs0
          have := startBlock_ff s s0 hs0
          simp only [SubR.ff, Prod.mk.injEq] at this
          exact ⟨a, b, this.2.2.2.1⟩
        · injection hs0 with hs0; subst hs0; exact ⟨rfl, hf, rfl⟩
      simp only [andThen] at h
      cases hr : (s0.getWrapping cfg).addText s0.wsMode (if s0.preDepth > 0 then s0.annStack ++ [f (Ann.pre false)] else s0.annStack)
        (if s0.preDepth > 0 then s0.annStack ++ [f (Ann.pre true)] else s0.annStack) (iterN strikeFilter s0.filterDepth x) with
      | error e => simp [hr] at h
      | ok w' =>
        simp only [hr] at h; injection h with h; subst h
        have := addText_ink _ w' _ _ _ _ hr
        refine ⟨?_, e0.2.1, e0.2.2⟩
        show s0.lines.flatMap rink ++ w'.ink = _
        rw [this, getWrapping_ink, ← e0.1, e0.2.2]
        simp [SubR.ink, List.append_assoc]

theorem recordFrag_ink (s : SubR) (cfg : Cfg) (n : List Ch) (hf : s.FragsOk) : (s.recordFrag cfg n).ink = s.ink ∧ (s.recordFrag cfg n).FragsOk := by
  refine ⟨?_, hf⟩
  show s.lines.flatMap rink ++ ((s.getWrapping cfg).addElement (.frag n)).ink = _
  have : ((s.getWrapping cfg).addElement (.frag n)).ink = (s.getWrapping cfg).ink := by
    simp [WB.ink, WB.addElement, ink_append, ink_frag]
  rw [this, getWrapping_ink]; rfl

theorem ink_wsCells (tag : Tag) (p : List Ch) (h : p.all chIsWs = true) : ink (p.map fun c => Elt.cell ⟨c, tag⟩) = [] := by
  induction p with
  | nil => rfl
  | cons c cs ih =>
    simp only [List.all_cons, Bool.and_eq_true] at h
    have hc : c.ws = true := h.1
    have := ih h.2
    simp only [ink, List.map_cons, List.filterMap_cons, hc, if_true] at this ⊢
    exact this

theorem ink_borderCells (tag : Tag) (b : Border) : ink (b.chars.map fun c => Elt.cell ⟨c, tag⟩) = b.chars := by
  induction b with
  | nil => rfl
  | cons sg b ih => simp [Border.chars, ink, mkCh] at ih ⊢; exact ih

theorem prefixLine_ink (tag : Tag) (p : List Ch) (l : RLine) (h : p.all chIsWs = true) : rink (prefixLine tag p l) = rink l := by
  cases l with
  | text tl =>
    simp only [prefixLine]
    split
    · rfl
    · simp [rink, ink_append, ink_wsCells tag p h]
  | rule b t =>
    simp only [prefixLine, rink, List.map_append, ink_append, ink_wsCells tag p h, List.nil_append]
    exact ink_borderCells tag b

theorem zipPrefix_ink (tag : Tag) (first rest : List Ch) (ls : List RLine) (h1 : first.all chIsWs = true) (h2 : rest.all chIsWs = true) :
    (zipPrefix tag first rest ls).flatMap rink = ls.flatMap rink := by
  cases ls with
  | nil => rfl
  | cons l ls =>
    simp only [zipPrefix, List.flatMap_cons, prefixLine_ink tag first l h1]
    congr 1
    induction ls with
    | nil => rfl
    | cons x xs ih => simp [prefixLine_ink tag rest x h2, ih]

theorem intoLines_ink (s : SubR) (ls : List RLine) (hf : s.FragsOk) (h : s.intoLines = .ok ls) : ls.flatMap rink = s.ink := by
  unfold SubR.intoLines at h
  cases h1 : s.flushWrapping with
  | error e => simp [h1, andThen] at h
  | ok s1 =>
    simp only [h1, andThen] at h; injection h with h; subst h
    obtain ⟨a1, _, a3⟩ := flushWrapping_ink s s1 hf h1
    rw [← a1]; simp [SubR.ink, a3]

theorem appendSub_ink (s other s' : SubR) (first rest : List Ch) (hf : s.FragsOk) (ho : other.FragsOk)
    (h1 : first.all chIsWs = true) (h2 : rest.all chIsWs = true) (h : s.appendSub other first rest = .ok s') :
    s'.ink = s.ink ++ other.ink ∧ s'.FragsOk := by
  unfold SubR.appendSub at h
  cases e1 : s.flushWrapping with
  | error e => simp [e1, andThen] at h
  | ok s1 =>
    simp only [e1, andThen] at h
    obtain ⟨a1, a2, a3⟩ := flushWrapping_ink s s1 hf e1
    cases e2 : other.intoLines with
    | error e => simp [e2] at h
    | ok ls =>
      simp only [e2] at h; injection h with h; subst h
      obtain ⟨b1, b2, _⟩ := addLines_ink (zipPrefix s1.annStack first rest ls) s1 a2 a3
      exact ⟨by rw [b1, zipPrefix_ink _ _ _ _ h1 h2, intoLines_ink other ls ho e2, a1], b2⟩

/-! ## programs -/

mutual
/-- table-free programs whose sub-renderer prefixes are whitespace -/
def silentOp : Op → Bool
  | .sub _ _ first rest _ body => first.all chIsWs && rest.all chIsWs && silentOps body
  | .table _ _ => false
  | .row _ _ _ => false
  | .cell _ _ _ => false
  | _ => true
def silentOps : List Op → Bool
  | [] => true
  | op :: ops => silentOp op && silentOps ops
end

mutual
/-- the ink an operation adds, given the strikeout depth in force, and the depth afterwards (footnotes off) -/
def opInk (cfg : Cfg) (d : Deco) (dep : Nat) : Op → List Ch × Nat
  | .text x => (keep (iterN strikeFilter dep x), dep)
  | .startLink _ => (keep (iterN strikeFilter dep d.linkStart), dep)
  | .endLink => (keep (iterN strikeFilter dep d.linkEnd), dep)
  | .startAnn _ x strike => (keep (iterN strikeFilter dep x), if strike && cfg.unicodeStrike then dep + 1 else dep)
  | .endAnn x strike =>
    (keep (iterN strikeFilter (if strike && cfg.unicodeStrike then dep - 1 else dep) x), if strike && cfg.unicodeStrike then dep - 1 else dep)
  | .image _ title => (keep (iterN strikeFilter dep (d.imgText title)), dep)
  | .sub _ _ _ _ _ body => ((opsInk cfg d 0 body).1, dep)
  | _ => ([], dep)
def opsInk (cfg : Cfg) (d : Deco) (dep : Nat) : List Op → List Ch × Nat
  | [] => ([], dep)
  | op :: r => ((opInk cfg d dep op).1 ++ (opsInk cfg d (opInk cfg d dep op).2 r).1, (opsInk cfg d (opInk cfg d dep op).2 r).2)
end

/-- what a run conserves: the ink grows by exactly the program's ink, the strikeout depth follows, markers stay ink-free -/
def InkStep (cfg : Cfg) (d : Deco) (s s' : SubR) (added : List Ch × Nat) : Prop :=
  s'.ink = s.ink ++ added.1 ∧ s'.filterDepth = added.2 ∧ s'.FragsOk

theorem onCur_ink (cfg : Cfg) (d : Deco) (t : RS) (f : SubR → Except Err SubR) (t1 : RS) (added : List Ch × Nat) (h0 : t.onCur f = .ok t1)
    (hf : ∀ s1, f t.cur = .ok s1 → InkStep cfg d t.cur s1 added) : InkStep cfg d t.cur t1.cur added := by
  unfold RS.onCur at h0
  cases hfc : f t.cur with
  | error e => simp [hfc, andThen] at h0
  | ok s1 => simp only [hfc, andThen] at h0; injection h0 with h0; subst h0; exact hf s1 hfc

theorem stepSimple_ink (cfg : Cfg) (d : Deco) (t t' : RS) (op : Op) (hfn : cfg.footnotes = false) (hfr : t.cur.FragsOk)
    (hs : silentOp op = true) (hsub : ∀ p m f r a b, op ≠ .sub p m f r a b)
    (h : stepSimple cfg d t op = .ok t') : InkStep cfg d t.cur t'.cur (opInk cfg d t.cur.filterDepth op) := by
  have keep0 : ∀ (g : SubR → SubR), (g t.cur).lines = t.cur.lines → (g t.cur).wrapping = t.cur.wrapping →
      (g t.cur).pendingFrags = t.cur.pendingFrags → (g t.cur).filterDepth = t.cur.filterDepth →
      InkStep cfg d t.cur (g t.cur) ([], t.cur.filterDepth) := by
    intro g e1 e2 e3 e4
    exact ⟨by simp [SubR.ink, e1, e2], e4, by unfold SubR.FragsOk; rw [e3]; exact hfr⟩
  cases op <;> simp only [stepSimple] at h
  case pushWs ws => exact onCur_ink cfg d t _ t' _ h fun s1 e => by injection e with e; subst e; exact keep0 (fun s => { s with wsStack := s.wsStack ++ [ws] }) rfl rfl rfl rfl
  case popWs => exact onCur_ink cfg d t _ t' _ h fun s1 e => by injection e with e; subst e; exact keep0 (fun s => { s with wsStack := s.wsStack.dropLast }) rfl rfl rfl rfl
  case pushAnn a => exact onCur_ink cfg d t _ t' _ h fun s1 e => by injection e with e; subst e; exact keep0 (fun s => { s with annStack := s.annStack ++ [a] }) rfl rfl rfl rfl
  case popAnn => exact onCur_ink cfg d t _ t' _ h fun s1 e => by injection e with e; subst e; exact keep0 (fun s => { s with annStack := s.annStack.dropLast }) rfl rfl rfl rfl
  case pushPre => exact onCur_ink cfg d t _ t' _ h fun s1 e => by injection e with e; subst e; exact keep0 (fun s => { s with preDepth := s.preDepth + 1 }) rfl rfl rfl rfl
  case popPre =>
    exact onCur_ink cfg d t _ t' _ h fun s1 e => by
      split at e
      · simp at e
      · injection e with e; subst e; exact keep0 (fun s => { s with preDepth := s.preDepth - 1 }) rfl rfl rfl rfl
  case text x =>
    exact onCur_ink cfg d t _ t' _ h fun s1 e => by
      obtain ⟨a, b, c⟩ := addInlineText_ink _ s1 cfg x _ hfr e
      exact ⟨a, c, b⟩
  case frag n =>
    exact onCur_ink cfg d t _ t' _ h fun s1 e => by
      injection e with e; subst e
      obtain ⟨a, b⟩ := recordFrag_ink t.cur cfg n hfr
      exact ⟨by rw [a]; simp [opInk], rfl, b⟩
  case startLink href =>
    have := onCur_ink cfg d { t with links := t.links ++ [href] } _ t' (opInk cfg d t.cur.filterDepth (.startLink href)) h fun s1 e => by
      have hfr' : ({ t.cur with annStack := t.cur.annStack ++ [d.annOf (Ann.link href)] } : SubR).FragsOk := hfr
      obtain ⟨a, b, c⟩ := addInlineText_ink _ s1 cfg _ _ hfr' e
      exact ⟨a, c, b⟩
    exact this
  case endLink =>
    simp only [hfn, Bool.false_eq_true, if_false] at h
    generalize h1 : (t.onCur fun s => andThen (s.addInlineText cfg d.linkEnd d.annOf) fun s' => Except.ok { s' with annStack := s'.annStack.dropLast }) = r1 at h
    cases r1 with
    | error e => simp [andThen] at h
    | ok t1 =>
      simp only [andThen] at h; injection h with h; subst h
      exact onCur_ink cfg d t _ t1 _ h1 fun s1 e => by
        cases h2 : t.cur.addInlineText cfg d.linkEnd d.annOf with
        | error e' => simp [h2, andThen] at e
        | ok s2 =>
          simp only [h2, andThen] at e; injection e with e; subst e
          obtain ⟨a, b, c⟩ := addInlineText_ink _ s2 cfg _ _ hfr h2
          exact ⟨a, c, b⟩
  case startAnn a x strike =>
    exact onCur_ink cfg d t _ t' _ h fun s1 e => by
      have hfr' : ({ t.cur with annStack := t.cur.annStack ++ [d.annOf a] } : SubR).FragsOk := hfr
      cases h2 : ({ t.cur with annStack := t.cur.annStack ++ [d.annOf a] } : SubR).addInlineText cfg x d.annOf with
      | error e' => simp [h2, andThen] at e
      | ok s2 =>
        simp only [h2, andThen] at e; injection e with e; subst e
        obtain ⟨a1, b1, c1⟩ := addInlineText_ink _ s2 cfg _ _ hfr' h2
        simp only [opInk]
        split
        · exact ⟨a1, by simp [c1], b1⟩
        · exact ⟨a1, c1, b1⟩
  case endAnn x strike =>
    exact onCur_ink cfg d t _ t' _ h fun s1 e => by
      generalize hs0 : (if (strike && cfg.unicodeStrike) = true then { t.cur with filterDepth := t.cur.filterDepth - 1 } else t.cur) = s0 at e
      have e0 : s0.ink = t.cur.ink ∧ s0.FragsOk ∧ s0.filterDepth = (if (strike && cfg.unicodeStrike) = true then t.cur.filterDepth - 1 else t.cur.filterDepth) := by
        rw [← hs0]; split
        · exact ⟨rfl, hfr, rfl⟩
        · exact ⟨rfl, hfr, rfl⟩
      cases h2 : s0.addInlineText cfg x d.annOf with
      | error e' => simp [h2, andThen] at e
      | ok s2 =>
        simp only [h2, andThen] at e; injection e with e; subst e
        obtain ⟨a1, b1, c1⟩ := addInlineText_ink _ s2 cfg _ _ e0.2.1 h2
        simp only [opInk]
        refine ⟨?_, ?_, b1⟩
        · show s2.ink = _
          rw [a1, e0.1, e0.2.2]
        · show s2.filterDepth = _
          rw [c1, e0.2.2]
  case image src title =>
    exact onCur_ink cfg d t _ t' _ h fun s1 e => by
      have hfr' : ({ t.cur with annStack := t.cur.annStack ++ [d.annOf (Ann.image src)] } : SubR).FragsOk := hfr
      cases h2 : ({ t.cur with annStack := t.cur.annStack ++ [d.annOf (Ann.image src)] } : SubR).addInlineText cfg (d.imgText title) d.annOf with
      | error e' => simp [h2, andThen] at e
      | ok s2 =>
        simp only [h2, andThen] at e; injection e with e; subst e
        obtain ⟨a1, b1, c1⟩ := addInlineText_ink _ s2 cfg _ _ hfr' h2
        exact ⟨a1, c1, b1⟩
  case startBlock =>
    exact onCur_ink cfg d t _ t' _ h fun s1 e => by
      obtain ⟨a, b⟩ := startBlock_ink _ s1 hfr e
      have := startBlock_ff _ s1 e
      simp only [SubR.ff, Prod.mk.injEq] at this
      exact ⟨by rw [a]; simp [opInk], this.2.2.2.1, b⟩
  case endBlock => exact onCur_ink cfg d t _ t' _ h fun s1 e => by injection e with e; subst e; exact keep0 (fun s => { s with atBlockEnd := true }) rfl rfl rfl rfl
  case newLine =>
    exact onCur_ink cfg d t _ t' _ h fun s1 e => by
      obtain ⟨a, b, _⟩ := flushWrapping_ink _ s1 hfr e
      have := flushWrapping_ff _ s1 e
      simp only [SubR.ff, Prod.mk.injEq] at this
      exact ⟨by rw [a]; simp [opInk], this.2.2.2.1, b⟩
  case newLineHard =>
    exact onCur_ink cfg d t _ t' _ h fun s1 e => by
      obtain ⟨a, b⟩ := newLineHard_ink _ s1 hfr e
      have := newLineHard_ff _ s1 e
      simp only [SubR.ff, Prod.mk.injEq] at this
      exact ⟨by rw [a]; simp [opInk], this.2.2.2.1, b⟩
  case sub p m f r a b => exact absurd rfl (hsub p m f r a b)
  case table _ _ => simp [silentOp] at hs
  case row _ _ _ => simp [silentOp] at hs
  case cell _ _ _ => simp [silentOp] at hs

theorem fresh_ink (w : Nat) (ann : Tag) : ({ width := w, annStack := ann } : SubR).ink = [] ∧ ({ width := w, annStack := ann } : SubR).FragsOk ∧
    ({ width := w, annStack := ann } : SubR).filterDepth = 0 :=
  ⟨rfl, fun e he => by simp at he, rfl⟩

mutual
theorem runOp_ink (wm : SubR → Cfg → Nat → Nat → Except Err Nat) (cfg : Cfg) (d : Deco) (hfn : cfg.footnotes = false) :
    (op : Op) → (t t' : RS) → silentOp op = true → t.cur.FragsOk → runOp wm cfg d t op = .ok t' →
    InkStep cfg d t.cur t'.cur (opInk cfg d t.cur.filterDepth op)
  | .sub p m first rest asBlock body, t, t', hs, hfr, he => by
    simp only [silentOp, Bool.and_eq_true] at hs
    obtain ⟨⟨h1, h2⟩, hbody⟩ := hs
    simp only [runOp] at he
    cases e1 : wm t.cur cfg p m with
    | error e => simp [e1, andThen_error_eq] at he
    | ok w =>
      simp only [e1, andThen_ok_eq] at he
      cases e2 : runOps wm cfg d { links := t.links, cur := ({ width := w, annStack := t.cur.annStack } : SubR) } body with
      | error e => simp [e2, andThen_error_eq] at he
      | ok r =>
        simp only [e2, andThen_ok_eq] at he
        obtain ⟨f1, f2, f3⟩ := fresh_ink w t.cur.annStack
        have hb := runOps_ink wm cfg d hfn body _ r hbody f2 e2
        cases e3 : (if asBlock = true then t.cur.startBlock else Except.ok t.cur) with
        | error e => simp [e3, andThen_error_eq] at he
        | ok s1 =>
          simp only [e3, andThen_ok_eq] at he
          have st1 : s1.ink = t.cur.ink ∧ s1.FragsOk ∧ s1.filterDepth = t.cur.filterDepth := by
            split at e3
            · obtain ⟨a, b⟩ := startBlock_ink _ s1 hfr e3
              have := startBlock_ff _ s1 e3
              simp only [SubR.ff, Prod.mk.injEq] at this
              exact ⟨a, b, this.2.2.2.1⟩
            · injection e3 with e3; subst e3; exact ⟨rfl, hfr, rfl⟩
          cases e4 : s1.appendSub r.cur first rest with
          | error e => simp [e4, andThen_error_eq] at he
          | ok s2 =>
            simp only [e4, andThen_ok_eq] at he; injection he with he; subst he
            obtain ⟨a, b⟩ := appendSub_ink s1 r.cur s2 first rest st1.2.1 hb.2.2 h1 h2 e4
            have hfd := appendSub_ff s1 r.cur s2 first rest e4
            simp only [SubR.ff, Prod.mk.injEq] at hfd
            have hrink : r.cur.ink = (opsInk cfg d 0 body).1 := by
              have := hb.1; rw [f1, f3] at this; simpa using this
            simp only [opInk]
            split
            · exact ⟨by show s2.ink = _; rw [a, st1.1, hrink], by show s2.filterDepth = _; rw [hfd.2.2.2.1, st1.2.2], b⟩
            · exact ⟨by rw [a, st1.1, hrink], by rw [hfd.2.2.2.1, st1.2.2], b⟩
  | .table _ _, _, _, hs, _, _ => by simp [silentOp] at hs
  | .row _ _ _, _, _, hs, _, _ => by simp [silentOp] at hs
  | .cell _ _ _, _, _, hs, _, _ => by simp [silentOp] at hs
  | .pushWs ws, t, t', hs, hfr, he => stepSimple_ink cfg d t t' _ hfn hfr hs (by simp) (by simpa [runOp] using he)
  | .popWs, t, t', hs, hfr, he => stepSimple_ink cfg d t t' _ hfn hfr hs (by simp) (by simpa [runOp] using he)
  | .pushPre, t, t', hs, hfr, he => stepSimple_ink cfg d t t' _ hfn hfr hs (by simp) (by simpa [runOp] using he)
  | .popPre, t, t', hs, hfr, he => stepSimple_ink cfg d t t' _ hfn hfr hs (by simp) (by simpa [runOp] using he)
  | .pushAnn a, t, t', hs, hfr, he => stepSimple_ink cfg d t t' _ hfn hfr hs (by simp) (by simpa [runOp] using he)
  | .popAnn, t, t', hs, hfr, he => stepSimple_ink cfg d t t' _ hfn hfr hs (by simp) (by simpa [runOp] using he)
  | .text x, t, t', hs, hfr, he => stepSimple_ink cfg d t t' _ hfn hfr hs (by simp) (by simpa [runOp] using he)
  | .frag n, t, t', hs, hfr, he => stepSimple_ink cfg d t t' _ hfn hfr hs (by simp) (by simpa [runOp] using he)
  | .startLink h, t, t', hs, hfr, he => stepSimple_ink cfg d t t' _ hfn hfr hs (by simp) (by simpa [runOp] using he)
  | .endLink, t, t', hs, hfr, he => stepSimple_ink cfg d t t' _ hfn hfr hs (by simp) (by simpa [runOp] using he)
  | .startAnn a x s, t, t', hs, hfr, he => stepSimple_ink cfg d t t' _ hfn hfr hs (by simp) (by simpa [runOp] using he)
  | .endAnn x s, t, t', hs, hfr, he => stepSimple_ink cfg d t t' _ hfn hfr hs (by simp) (by simpa [runOp] using he)
  | .image a b, t, t', hs, hfr, he => stepSimple_ink cfg d t t' _ hfn hfr hs (by simp) (by simpa [runOp] using he)
  | .startBlock, t, t', hs, hfr, he => stepSimple_ink cfg d t t' _ hfn hfr hs (by simp) (by simpa [runOp] using he)
  | .endBlock, t, t', hs, hfr, he => stepSimple_ink cfg d t t' _ hfn hfr hs (by simp) (by simpa [runOp] using he)
  | .newLine, t, t', hs, hfr, he => stepSimple_ink cfg d t t' _ hfn hfr hs (by simp) (by simpa [runOp] using he)
  | .newLineHard, t, t', hs, hfr, he => stepSimple_ink cfg d t t' _ hfn hfr hs (by simp) (by simpa [runOp] using he)
theorem runOps_ink (wm : SubR → Cfg → Nat → Nat → Except Err Nat) (cfg : Cfg) (d : Deco) (hfn : cfg.footnotes = false) :
    (ops : List Op) → (t t' : RS) → silentOps ops = true → t.cur.FragsOk → runOps wm cfg d t ops = .ok t' →
    InkStep cfg d t.cur t'.cur (opsInk cfg d t.cur.filterDepth ops)
  | [], t, t', _, hfr, he => by simp [runOps] at he; subst he; exact ⟨by simp [opsInk], rfl, hfr⟩
  | op :: ops, t, t', hs, hfr, he => by
    simp only [silentOps, Bool.and_eq_true] at hs
    simp only [runOps] at he
    cases h1 : runOp wm cfg d t op with
    | error e => simp [h1, andThen_error_eq] at he
    | ok t1 =>
      simp only [h1, andThen_ok_eq] at he
      obtain ⟨a1, a2, a3⟩ := runOp_ink wm cfg d hfn op t t1 hs.1 hfr h1
      obtain ⟨b1, b2, b3⟩ := runOps_ink wm cfg d hfn ops t1 t' hs.2 a3 he
      simp only [opsInk]
      rw [a2] at b1 b2
      exact ⟨by rw [b1, a1, List.append_assoc], b2, b3⟩
end

/-- **C03 at the level of whole renderings** (table-free, whitespace prefixes, footnotes off): the non-whitespace
    characters of the lines `renderTree` returns are exactly the ink of the program — every non-whitespace, non-control
    character of every text the program adds (document text, alt text, decorator affixes, strikeout marks), in order;
    nothing is lost, duplicated, reordered or invented by wrapping, hard wrapping, blocks, sub-renderers or flushing -/
theorem renderTree_ink (cfg : Cfg) (d : Deco) (w : Nat) (tree : RNode) (ls : List RLine) (hfn : cfg.footnotes = false)
    (hs : silentOps (compile cfg d tree) = true) (h : renderTree cfg d w tree = .ok ls) :
    ls.flatMap rink = (opsInk cfg d 0 (compile cfg d tree)).1 := by
  unfold renderTree at h
  split at h
  · simp at h
  · cases h1 : runOps SubR.widthMinus cfg d { cur := { width := w } } (compile cfg d tree) with
    | error e => simp [h1, andThen_error_eq] at h
    | ok t =>
      simp only [h1, andThen_ok_eq] at h
      obtain ⟨f1, f2, f3⟩ := fresh_ink w []
      obtain ⟨a1, _, a3⟩ := runOps_ink SubR.widthMinus cfg d hfn _ _ t hs f2 h1
      have hf0 : footTexts cfg t.links = [] := by simp [footTexts, hfn]
      rw [hf0] at h
      simp only [List.isEmpty_nil, if_true] at h
      rw [intoLines_ink t.cur ls a3 h, a1, f1, f3]
      simp

end H2T
