import H2T.Css.Style
import H2T.Wrap

/-! Selector matching (css.rs:82-208), WithSpec::maybe_update (lib.rs:205-254), computed_style (css.rs:456-598). -/

namespace H2T

namespace Css

/-- one node on the path from the current node up to the document -/
structure Frame where
  isElem : Bool
  name : String := ""
  attrs : List (String × List Ch) := []
  elemIdx : Nat := 0          -- 1-based position among the parent's element children
deriving Repr, Inhabited

def chStr (s : List Ch) : String := String.ofList (s.map fun c => Char.ofNat c.cp)

/-- `str::split_whitespace` on an attribute value -/
def splitWs (s : List Ch) : List (List Ch) :=
  let r := s.foldl (fun (acc : List (List Ch) × List Ch) c =>
    if c.ws then (if acc.2.isEmpty then acc else (acc.1 ++ [acc.2], [])) else (acc.1, acc.2 ++ [c])) ([], [])
  if r.2.isEmpty then r.1 else r.1 ++ [r.2]

def hasClass (f : Frame) (cls : String) : Bool :=
  f.attrs.any fun a => a.1 = "class" && (splitWs a.2).any fun w => chStr w = cls

/-- Rust i32 truncating remainder/division on mathematical integers -/
def tmod (x a : Int) : Int := Int.tmod x a
def tdiv (x a : Int) : Int := Int.tdiv x a

inductive MRes | yes | no | panic deriving Repr, DecidableEq

def inI32 (x : Int) : Bool := -2147483648 ≤ x && x ≤ 2147483647

/-- do_matches; `chain` = current node first, then its ancestors up to the document -/
def doMatches : List SelComp → List Frame → Nat → MRes
  | _, _, 0 => .no
  | [], _, _ => .yes
  | _ :: _, [], _ => .no
  | c :: rest, node :: up, fuel + 1 =>
    match c with
    | .cls cl => if node.isElem && hasClass node cl then doMatches rest (node :: up) fuel else .no
    | .hash h => if node.isElem && node.attrs.any (fun a => a.1 = "id" && chStr a.2 = h) then doMatches rest (node :: up) fuel else .no
    | .elem n => if node.isElem && node.name = n then doMatches rest (node :: up) fuel else .no
    | .star => if node.isElem then doMatches rest (node :: up) fuel else .no
    | .child => if up.isEmpty then .no else doMatches rest up fuel
    | .desc =>
      if up.isEmpty then .no else
      match doMatches rest up fuel with
      | .yes => .yes
      | .panic => .panic
      | .no => doMatches (c :: rest) up fuel
    | .nth a b =>
      if up.isEmpty then .no else
      let idx : Int := node.elemIdx
      if idx = 0 then .no else
      let off := idx - b          -- computed in i64 from an i32 index and an i32 offset: cannot overflow
      if a = 0 then (if off = 0 then doMatches rest (node :: up) fuel else .no)
      else if tmod off a ≠ 0 then .no
      else if tdiv off a ≥ 0 then doMatches rest (node :: up) fuel else .no

def matchFuel (comps : List SelComp) (chain : List Frame) : Nat := (comps.length + 1) * (chain.length + 1) * (chain.length + 1) + 10
def selMatches (s : Selector) (chain : List Frame) : MRes := doMatches s.comps chain (matchFuel s.comps chain)

structure Spec where
  inline : Bool := false
  id : Nat := 0
  cls : Nat := 0
  typ : Nat := 0
deriving Repr, DecidableEq, Inhabited

def Spec.lt (a b : Spec) : Bool :=
  if a.inline != b.inline then (!a.inline && b.inline)
  else if a.id != b.id then a.id < b.id
  else if a.cls != b.cls then a.cls < b.cls
  else a.typ < b.typ

def specOf (s : Selector) : Spec :=
  s.comps.foldl (fun sp c => match c with
    | .cls _ => { sp with cls := sp.cls + 1 }
    | .elem _ => { sp with typ := sp.typ + 1 }
    | .hash _ => { sp with id := sp.id + 1 }
    | .nth .. => { sp with cls := sp.cls + 1 }     -- inner selector is `*`: adds nothing
    | _ => sp) {}

inductive Origin | none | agent | user | author deriving Repr, DecidableEq
def Origin.rank : Origin → Nat | .none => 0 | .agent => 1 | .user => 2 | .author => 3

structure WithSpec (α : Type) where
  val : Option α := Option.none
  origin : Origin := .none
  spec : Spec := {}
  important : Bool := false
deriving Repr

/-- WithSpec::maybe_update, literal: importance first, then origin (reversed for important
    declarations), then specificity; a later declaration wins ties -/
def WithSpec.maybeUpdate {α : Type} (w : WithSpec α) (important : Bool) (origin : Origin) (spec : Spec) (v : α) : WithSpec α :=
  let upd : WithSpec α := { val := some v, origin := origin, spec := spec, important := important }
  if w.val.isSome then
    if w.important != important then (if w.important then w else upd)
    else if w.origin != origin then
      (if (if important then origin.rank < w.origin.rank else origin.rank > w.origin.rank) then upd else w)
    else if spec.lt w.spec then w else upd
  else upd

structure CStyle where
  colour : WithSpec Rgb := {}
  bg : WithSpec Rgb := {}
  displayNone : WithSpec Unit := {}
  ws : WithSpec WSVal := {}
  content : WithSpec String := {}
deriving Repr

structure Computed where
  main : CStyle := {}
  before : Option CStyle := Option.none
  after : Option CStyle := Option.none
  internalPre : Bool := false
deriving Repr

def CStyle.merge (t : CStyle) (important : Bool) (origin : Origin) (spec : Spec) (d : StyleDecl) : CStyle :=
  match d.style with
  | .colour c => { t with colour := t.colour.maybeUpdate important origin spec c }
  | .bgColour c => { t with bg := t.bg.maybeUpdate important origin spec c }
  | .displayNone => { t with displayNone := t.displayNone.maybeUpdate important origin spec () }
  | .whiteSpace v => { t with ws := t.ws.maybeUpdate important origin spec v }
  | .content s => { t with content := t.content.maybeUpdate important origin spec s }

def Computed.merge (c : Computed) (important : Bool) (origin : Origin) (spec : Spec) (pseudo : Option Pseudo) (d : StyleDecl) : Computed :=
  match pseudo with
  | none => { c with main := c.main.merge important origin spec d }
  | some .before => { c with before := some ((c.before.getD {}).merge important origin spec d) }
  | some .after => { c with after := some ((c.after.getD {}).merge important origin spec d) }

structure StyleData where
  agent : List Rule := []
  user : List Rule := []
  author : List Rule := []
deriving Repr

/-- parse_color_attribute: parse_value + parse_color, else the "00aabb" fallback -/
def hexPair (s : List Char) : Option Nat :=
  let s := match s with | '+' :: r => r | _ => s
  if s.isEmpty || !s.all isHex then none else some (s.foldl (fun a d => a * 16 + hexVal d) 0)

def isRustWs (c : Char) : Bool :=
  let n := c.toNat
  (9 ≤ n && n ≤ 13) || n = 32 || n = 0x85 || n = 0xa0 || n = 0x1680 || (0x2000 ≤ n && n ≤ 0x200a) || n = 0x2028 || n = 0x2029 || n = 0x202f || n = 0x205f || n = 0x3000

def trimRust (s : List Char) : List Char := ((s.dropWhile isRustWs).reverse.dropWhile isRustWs).reverse

def parseColorAttribute (text : List Char) : Option Rgb :=
  let viaTokens := match parseValue text with
    | some (_, v) => parseColor v.tokens
    | none => none
  match viaTokens with
  | some c => some c
  | none =>
    -- byte-range slicing: only defined when the first six *bytes* are ASCII; otherwise `get` returns None somewhere
    let t := trimRust text
    let six := t.take 6
    if six.length = 6 && six.all (fun c => c.toNat < 128) then
      match hexPair (six.take 2), hexPair ((six.drop 2).take 2), hexPair (six.drop 4) with
      | some r, some g, some b => some ⟨r, g, b⟩
      | _, _, _ => none
    else none

inductive CRes | ok (c : Computed) | panic deriving Repr

def applyRules (origin : Origin) (rules : List Rule) (chain : List Frame) (c : CRes) : CRes :=
  rules.foldl (fun acc r =>
    match acc with
    | .panic => .panic
    | .ok c =>
      match selMatches r.selector chain with
      | .panic => .panic
      | .no => .ok c
      | .yes => .ok (r.styles.foldl (fun c d => c.merge d.important origin (specOf r.selector) r.selector.pseudo d) c)) c

/-- computed_style for an element (parent style is always the default in this code base) -/
def computedStyle (sd : StyleData) (useDoc : Bool) (chain : List Frame) : CRes :=
  let c := applyRules .author sd.author chain (applyRules .user sd.user chain (applyRules .agent sd.agent chain (.ok {})))
  match c, chain with
  | .ok c, node :: _ =>
    if !useDoc then .ok c else
    .ok (node.attrs.foldl (fun c a =>
      if a.1 = "style" then
        match parseRules (a.2.map fun ch => Char.ofNat ch.cp) with
        | some (_, decls) => (stylesFromProperties decls).foldl (fun c d => c.merge d.important .author { inline := true } none d) c
        | none => c
      else if a.1 = "color" then
        match parseColorAttribute (a.2.map fun ch => Char.ofNat ch.cp) with
        | some col => c.merge false .author { inline := true } none ⟨.colour col, false⟩
        | none => c
      else if a.1 = "bgcolor" then
        match parseColorAttribute (a.2.map fun ch => Char.ofNat ch.cp) with
        | some col => c.merge false .author { inline := true } none ⟨.bgColour col, false⟩
        | none => c
      else c) c)
  | r, _ => r

end Css

end H2T
