import H2T.Tree

/-! C13, tree builder: comments never reach the render tree — deleting every comment node of a DOM (at any depth) gives
    the same render tree, so the same rendering at every width and under every option.  (`:nth-child` positions count
    elements only, so they are not shifted either.) -/

namespace H2T

mutual
/-- the DOM with every comment node deleted -/
def stripNode : Node → Node
  | .elem name html attrs kids => .elem name html attrs (stripList kids)
  | .doc kids => .doc (stripList kids)
  | .text s => .text s
  | .comment => .comment
  | .other => .other
def stripList : List Node → List Node
  | [] => []
  | .comment :: ns => stripList ns
  | .text s :: ns => .text s :: stripList ns
  | .other :: ns => .other :: stripList ns
  | .elem name html attrs kids :: ns => .elem name html attrs (stripList kids) :: stripList ns
  | .doc kids :: ns => .doc (stripList kids) :: stripList ns
end

mutual
theorem build_strip (bc : BuildCfg) : (n : Node) → (up : List Css.Frame) → (idx : Nat) → build bc up idx (stripNode n) = build bc up idx n
  | .text s, up, idx => rfl
  | .comment, up, idx => rfl
  | .other, up, idx => rfl
  | .doc kids, up, idx => by simp only [stripNode, build, buildList_strip bc kids]
  | .elem name html attrs kids, up, idx => by simp only [stripNode, build, buildList_strip bc kids]
theorem buildList_strip (bc : BuildCfg) : (ns : List Node) → (chain : List Css.Frame) → (seen : Nat) →
    buildList bc chain seen (stripList ns) = buildList bc chain seen ns
  | [], chain, seen => by simp only [stripList]
  | .comment :: ns, chain, seen => by
    simp only [stripList, buildList, isElemNode, build, Bool.false_eq_true, if_false]
    rw [buildList_strip bc ns chain seen]
    cases buildList bc chain seen ns <;> rfl
  | .text s :: ns, chain, seen => by
    simp only [stripList, buildList, isElemNode, build, Bool.false_eq_true, if_false, buildList_strip bc ns chain seen]
  | .other :: ns, chain, seen => by
    simp only [stripList, buildList, isElemNode, build, Bool.false_eq_true, if_false, buildList_strip bc ns chain seen]
  | .elem name html attrs kids :: ns, chain, seen => by
    have h1 := build_strip bc (.elem name html attrs kids) chain (seen + 1)
    simp only [stripNode] at h1
    simp only [stripList, buildList, isElemNode, if_true, h1, buildList_strip bc ns chain (seen + 1)]
  | .doc kids :: ns, chain, seen => by
    have h1 := build_strip bc (.doc kids) chain seen
    simp only [stripNode] at h1
    simp only [stripList, buildList, isElemNode, Bool.false_eq_true, if_false, h1, buildList_strip bc ns chain seen]
end

end H2T
