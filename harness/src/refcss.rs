//! Reference CSS semantics for the oracles of C18–C20: structured selectors, a matcher over the oracle DOM,
//! specificity and the cascade.  Written from the CSS specifications, independently of the model.

use crate::domwalk::N;
use crate::util::R;

#[derive(Clone, Debug, Default, PartialEq)]
pub struct Simple {
    pub elem: Option<String>,
    pub star: bool,
    pub classes: Vec<String>,
    pub id: Option<String>,
    pub nth: Option<(i64, i64)>,
}
#[derive(Clone, Copy, Debug, PartialEq)]
pub enum Comb {
    Desc,
    Child,
}
/// compounds left to right; `combs[i]` stands between `compounds[i]` and `compounds[i+1]`
#[derive(Clone, Debug, PartialEq)]
pub struct Sel {
    pub compounds: Vec<Simple>,
    pub combs: Vec<Comb>,
}

pub fn print_nth(a: i64, b: i64, r: &mut R) -> String {
    // syntactic variety: an+b, odd/even where equivalent, "n", "-n+3", plain b
    if a == 2 && b == 1 && r.p(30) {
        return "odd".into();
    }
    if a == 2 && b == 0 && r.p(30) {
        return "even".into();
    }
    if a == 0 && r.p(70) {
        return format!("{b}");
    }
    let astr = match a {
        1 if r.p(50) => "n".to_string(),
        -1 if r.p(50) => "-n".to_string(),
        _ => format!("{a}n"),
    };
    if b == 0 && r.p(50) {
        astr
    } else if b < 0 {
        format!("{astr}{}{}", if r.p(30) { " " } else { "" }, b)
    } else {
        format!("{astr}{}+{b}", if r.p(30) { " " } else { "" })
    }
}

impl Simple {
    pub fn print(&self, r: &mut R) -> String {
        let mut s = String::new();
        if let Some(e) = &self.elem {
            s.push_str(e);
        } else if self.star {
            s.push('*');
        }
        for c in &self.classes {
            s.push('.');
            s.push_str(c);
        }
        if let Some(i) = &self.id {
            s.push('#');
            s.push_str(i);
        }
        if let Some((a, b)) = self.nth {
            s.push_str(&format!(":nth-child({})", print_nth(a, b, r)));
        }
        if s.is_empty() {
            s.push('*');
        }
        s
    }
    pub fn spec(&self) -> (u32, u32, u32) {
        (self.id.is_some() as u32, self.classes.len() as u32 + self.nth.is_some() as u32, self.elem.is_some() as u32)
    }
}
impl Sel {
    pub fn print(&self, r: &mut R) -> String {
        let mut s = self.compounds[0].print(r);
        for (i, c) in self.combs.iter().enumerate() {
            s.push_str(match c {
                Comb::Desc => r.pick(&[" ", "  ", "\n"]),
                Comb::Child => r.pick(&[">", " > ", "> ", " >"]),
            });
            s.push_str(&self.compounds[i + 1].print(r));
        }
        s
    }
    pub fn spec(&self) -> (u32, u32, u32) {
        self.compounds.iter().fold((0, 0, 0), |a, c| {
            let s = c.spec();
            (a.0 + s.0, a.1 + s.1, a.2 + s.2)
        })
    }
}

/// an element on the path from the root, with what the matcher needs
#[derive(Clone, Debug)]
pub struct PathEl<'a> {
    pub node: &'a N,
    /// 1-based index among the element children of its parent
    pub idx: i64,
}

pub fn simple_matches(s: &Simple, e: &PathEl) -> bool {
    let n = e.node;
    let (name, html) = match n {
        N::Elem { name, html, .. } => (name.as_str(), *html),
        _ => return false,
    };
    if let Some(el) = &s.elem {
        // type selectors compare the local name (the library ignores the namespace as well)
        let _ = html;
        if el != name {
            return false;
        }
    }
    for c in &s.classes {
        let has = n.attr("class").map(|v| v.split_whitespace().any(|w| w == c)).unwrap_or(false);
        if !has {
            return false;
        }
    }
    if let Some(i) = &s.id {
        if n.attr("id") != Some(i.as_str()) {
            return false;
        }
    }
    if let Some((a, b)) = s.nth {
        // exists n >= 0 with idx = a*n + b
        let d = e.idx - b;
        let ok = if a == 0 { d == 0 } else { d % a == 0 && d / a >= 0 };
        if !ok {
            return false;
        }
    }
    true
}

/// does the selector match the last element of `path` (root first)?
pub fn sel_matches(sel: &Sel, path: &[PathEl]) -> bool {
    fn go(sel: &Sel, ci: usize, path: &[PathEl], pi: usize) -> bool {
        if !simple_matches(&sel.compounds[ci], &path[pi]) {
            return false;
        }
        if ci == 0 {
            return true;
        }
        match sel.combs[ci - 1] {
            Comb::Child => pi > 0 && go(sel, ci - 1, path, pi - 1),
            Comb::Desc => (0..pi).rev().any(|k| go(sel, ci - 1, path, k)),
        }
    }
    if path.is_empty() {
        return false;
    }
    go(sel, sel.compounds.len() - 1, path, path.len() - 1)
}

/// visit every element with its path (root first)
pub fn for_each_element<'a>(root: &'a N, f: &mut dyn FnMut(&[PathEl<'a>])) {
    fn go<'a>(n: &'a N, path: &mut Vec<PathEl<'a>>, f: &mut dyn FnMut(&[PathEl<'a>])) {
        let mut idx = 0;
        for k in n.kids() {
            if let N::Elem { .. } = k {
                idx += 1;
                path.push(PathEl { node: k, idx });
                f(path);
                go(k, path, f);
                path.pop();
            }
        }
    }
    let mut p = Vec::new();
    go(root, &mut p, f);
}

// ---------------------------------------------------------------------------------------------
// cascade

#[derive(Clone, Copy, Debug, PartialEq, Eq, PartialOrd, Ord)]
pub enum Origin {
    Agent,
    User,
    Author,
}
#[derive(Clone, Debug)]
pub struct Decl {
    pub origin: Origin,
    pub important: bool,
    pub inline: bool,
    pub spec: (u32, u32, u32),
    /// position in the order the declarations are met (sheet order within an origin)
    pub order: usize,
    pub colour: (u8, u8, u8),
}

pub fn layer(o: Origin, important: bool) -> u32 {
    match (important, o) {
        (false, Origin::Agent) => 1,
        (false, Origin::User) => 2,
        (false, Origin::Author) => 3,
        (true, Origin::Author) => 4,
        (true, Origin::User) => 5,
        (true, Origin::Agent) => 6,
    }
}

/// the CSS cascade: importance and origin, then inline, then specificity, then order (last wins)
pub fn cascade(ds: &[Decl]) -> Option<&Decl> {
    ds.iter().max_by_key(|d| (layer(d.origin, d.important), d.inline, d.spec, d.order))
}

pub fn gen_simple(r: &mut R, elems: &[&str]) -> Simple {
    let mut s = Simple::default();
    if r.p(65) {
        s.elem = Some(r.pick(elems).to_string());
    } else if r.p(30) {
        s.star = true;
    }
    if r.p(30) {
        s.classes.push(r.pick(&["a", "b", "c-d"]).to_string());
        if r.p(15) {
            s.classes.push(r.pick(&["a", "b"]).to_string());
        }
    }
    if r.p(12) {
        s.id = Some(format!("i{}", r.b(6)));
    }
    if r.p(18) {
        s.nth = Some((r.b(11) as i64 - 5, r.b(11) as i64 - 5));
    }
    if s.elem.is_none() && s.classes.is_empty() && s.id.is_none() && s.nth.is_none() {
        s.star = true;
    }
    s
}
pub fn gen_sel(r: &mut R, elems: &[&str], max_compounds: usize) -> Sel {
    let n = 1 + r.u(max_compounds);
    let compounds = (0..n).map(|_| gen_simple(r, elems)).collect();
    let combs = (1..n).map(|_| if r.p(60) { Comb::Desc } else { Comb::Child }).collect();
    Sel { compounds, combs }
}
